"""C04 — Output is deterministic and independent of session history.

Theorems: lean/Tranp/Props/C04.lean over lean/Tranp/Model/Session.lean.
Tie: correspondence streams `session` / `session-faulty`: random load / transpile / unload / resubmit sequences over a pool of
generated modules (on disk in a temp project, names that are string prefixes of each other) in ONE long-lived real App; after
every op the loaded modules, entrypoints, completed list, symbol keys per module, number of stale stack frames and the op's
outcome are compared with the model (driver family `session`).
Search (real code only): every transpile result inside a session vs the same request in a fresh process (own EMPTY cache
directory, PYTHONHASHSEED in {0,1,2,random}); Interactive re-submissions with and without a failing submission in between;
Runner target lists in all orders; node classes, definition node facts (every expandable property of class / function nodes: base
classes, decorators, template parameters, parameters, return type), symbol objects and symbol attribute trees of registered modules
before/after every op, and against the first time the same module (same file) was registered in the session (reload = restore from
the stored symbol snapshot). Pools contain a generic-function module (app.g) and a shapes module (app.h, 144 variants: generic base
with a template typed member, concrete subclass chain, a function with 10..12 parameters) whose users read the inherited member /
call the wide function. Imports may stand after other top-level statements (`late`); a module may die with an unexpected
exception while loading (`crash`); import edges: model == Entrypoint.imports (stream) == Python ast (search). Memoised lists / dicts / sets handed out by the real Memoize.get record every in-place mutation (oracle
`memo-mutated`). State inventory: translate/gen_session_state.py -> Generated/SessionState.lean (theorems inventory_*).
Modules.load: translate/gen_load_shape.py -> Generated/LoadShape.lean (theorem load_generated); Py2Cpp.transpile / Interactive.rebuild_module: translate/gen_session_ops.py -> Generated/SessionOps.lean (transpile_generated / resubmit_generated); the unload methods: translate/gen_unload_shape.py -> Generated/UnloadShape.lean (theorems unload_one_generated / unload_generated);
the library closure: translate/gen_lib_closure.py -> Generated/LibClosure.lean (lib_closure_*, compared with the real App on every run).
The shapes module also has an operator and methods whose PARAMETERS nest the class type variable (list[T], dict[str, T], T | None) —
two modules of one session instantiate the class with different actual types — and a class whose methods introduce several type variables
of their own; the session `shared-generic#0` (both request orders, around unloads) is compared with fresh processes under ALL hash seeds.
In-memory submissions may declare nothing (expression statements only) or die while their imports load, and are followed by another
text for the same path; after every op the registry, the parsed sources and the symbol table are read independently (`unload-residue`).
The fresh-process answers are asked for in a background thread while the sessions run (same requests, same answers: keyed by content).
"""
from __future__ import annotations

import hashlib
import itertools
import json
import os
import random
import shutil
import subprocess
import sys
import tempfile
import types
from typing import Any

from harness import common
from harness.common import Ctx, Finding, SearchResult, Stream

PROP = 'C04'
MAIN = '__main__'
HASH_SEEDS = ['0', '1', '2', 'random']
NAME_POOL = ['app.a', 'app.ab', 'app.abc', 'app.b', 'app.ba', 'app.c', 'app.ca']
# classes of session-vs-fresh differences (all three were real defects of the pinned tree, repaired by 153b103 / 023f8e8 / f3f812f)
KNOWN_KEYS = {
	'failed-load-retry': 'a failed Modules.load leaves the module (and its importers) registered half-loaded; the retried transpile differs from a fresh process',
	'dep-unloaded': 'Modules.unload of a module that a loaded module imports: the dependant stays registered and its next transpile differs from a fresh process',
	'lib-closure-first': 'loading a module of the library import closure (typing, collections.abc) first raises Errors.Never, after any other module it succeeds',
}


# ---------------------------------------------------------------------------------------------
# real-code plumbing


def canon(e: BaseException) -> str:
	s = common.exc_enum(e)
	return 'Other:lark' if s.startswith('Other:lark.') else s


def make_app(proj: str, cache_dir: str, tpl: str | None = None) -> Any:
	"""A real App over the temp project `proj` with the DI definitions of tests/unit/.../test_py2cpp.py.
	`tpl`: a project template directory layered before the stock one (`template_dirs` is configuration)."""
	from rogw.tranp.app.app import App
	from rogw.tranp.app.dir import tranp_dir
	from rogw.tranp.app.dummy import make_dummy_module_meta_factory
	from rogw.tranp.app.env import SourceEnvPath
	from rogw.tranp.data.meta.types import ModuleMetaFactory
	from rogw.tranp.i18n.i18n import I18n, TranslationMapping
	from rogw.tranp.implements.cpp.providers.i18n import translation_mapping_cpp
	from rogw.tranp.implements.cpp.providers.view import renderer_helper_provider_cpp
	from rogw.tranp.implements.cpp.transpiler.py2cpp import Py2Cpp
	from rogw.tranp.lang.middleware import Middleware
	from rogw.tranp.lang.module import to_fullyname
	from rogw.tranp.module.types import ModulePaths
	from rogw.tranp.transpiler.types import ITranspiler, TranspilerOptions
	from rogw.tranp.view.render import Renderer, RendererEmitter, RendererHelperProvider, RendererSetting

	def make_renderer_setting(i18n: I18n, emitter: RendererEmitter) -> RendererSetting:
		template_dirs = [*([tpl] if tpl else []), os.path.join(tranp_dir(), 'data/cpp/template')]
		env = {'immutable_param_types': ['std::string', 'std::vector', 'std::map', 'std::function']}
		return RendererSetting(template_dirs, i18n.t, emitter, env)

	make_renderer_setting.__annotations__ = {'i18n': I18n, 'emitter': RendererEmitter, 'return': RendererSetting}
	defs = common.tranp_definitions(cache_dir, {
		to_fullyname(SourceEnvPath): lambda: SourceEnvPath.instantiate([proj]),
		to_fullyname(Py2Cpp): Py2Cpp,
		to_fullyname(ITranspiler): Py2Cpp,
		to_fullyname(Renderer): Renderer,
		to_fullyname(RendererEmitter): Middleware,
		to_fullyname(RendererHelperProvider): renderer_helper_provider_cpp,
		to_fullyname(RendererSetting): make_renderer_setting,
		to_fullyname(TranslationMapping): translation_mapping_cpp,
		to_fullyname(TranspilerOptions): lambda: TranspilerOptions(verbose=False, env={}),
		to_fullyname(ModuleMetaFactory): make_dummy_module_meta_factory,
		to_fullyname(ModulePaths): lambda: ModulePaths([]),
	})
	return App(defs)


# budgets: one real-code operation, and the whole run (a slow or non-terminating case is a result, never a hang)
OP_BUDGET_S = 90.0
SKIPPED: dict[str, int] = {}


class OpTimeout(BaseException):
	"""Raised by the interval timer inside a real-code call (BaseException: tranp's `except Exception` does not swallow it)."""


class op_budget:
	def __init__(self, seconds: float = OP_BUDGET_S) -> None:
		self.seconds = seconds
		self.armed = False

	def __enter__(self) -> 'op_budget':
		import signal
		import threading
		if threading.current_thread() is threading.main_thread():
			def fire(_sig: int, _frm: Any) -> None:
				raise OpTimeout()
			self.old = signal.signal(signal.SIGALRM, fire)
			signal.setitimer(signal.ITIMER_REAL, self.seconds)
			self.armed = True
		return self

	def __exit__(self, *a: Any) -> None:
		import signal
		if self.armed:
			signal.setitimer(signal.ITIMER_REAL, 0)
			signal.signal(signal.SIGALRM, self.old)


def over_deadline(ctx: Ctx, what: str) -> bool:
	"""Total wall deadline of the run's streams and searches: what does not fit is skipped and counted (evidence notes), not waited for."""
	import time
	if time.time() - ctx.t0 > (2400 if ctx.thorough else 420):
		SKIPPED[what] = SKIPPED.get(what, 0) + 1
		return True
	return False


# memoised values are shared by everybody who asks again: a caller that mutates one changes what every later caller sees
# (seeded C04-8: `Class.inherits` memoised, consumed by `inherits.pop(0)` in another file). The AST inventory cannot see a
# mutation through a local alias, so the memo layer of the real code hands out lists / dicts / sets that RECORD every in-place
# mutation (and then perform it: the run itself is unchanged).
MEMO_LOG: list[dict[str, Any]] = []
_LIST_MUT = ['append', 'extend', 'insert', 'pop', 'remove', 'clear', 'sort', 'reverse', '__setitem__', '__delitem__', '__iadd__', '__imul__']
_DICT_MUT = ['__setitem__', '__delitem__', 'pop', 'popitem', 'clear', 'update', 'setdefault', '__ior__']
_SET_MUT = ['add', 'discard', 'remove', 'pop', 'clear', 'update', 'difference_update', 'intersection_update', 'symmetric_difference_update',
	'__ior__', '__iand__', '__isub__', '__ixor__']


def _tracked(base: type, names: list[str]) -> type:
	def make(name: str) -> Any:
		orig = getattr(base, name)

		def method(self: Any, *a: Any, **k: Any) -> Any:
			import traceback
			frames = [f for f in traceback.extract_stack(limit=8)[:-1] if os.sep + 'harness' + os.sep not in f.filename]
			site = f'{os.path.relpath(frames[-1].filename, common.REPO)}:{frames[-1].lineno} {frames[-1].name}' if frames else '?'
			MEMO_LOG.append({'key': str(getattr(self, '_memo_key', '?')), 'owner': getattr(self, '_memo_owner', '?'), 'method': name, 'site': site})
			return orig(self, *a, **k)
		return method
	return type(f'Tracked{base.__name__.capitalize()}', (base,), {n: make(n) for n in names})


TrackedList = _tracked(list, _LIST_MUT)
TrackedDict = _tracked(dict, _DICT_MUT)
TrackedSet = _tracked(set, _SET_MUT)
_MEMO_TRACKED = False


def install_memo_tracking() -> None:
	"""Wrap `Memoize.get` (cache/memo2.py: node memos, node table memos) so that a memoised list / dict / set is stored as a
	recording subclass instance. Values and identities are as before; only in-place mutation leaves a record."""
	global _MEMO_TRACKED
	if _MEMO_TRACKED:
		return
	from rogw.tranp.cache import memo2
	orig = memo2.Memoize.get

	def get(self: Any, key: Any, factory: Any) -> Any:
		def tracked_factory() -> Any:
			v = factory()
			t = TrackedList if type(v) is list else TrackedDict if type(v) is dict else TrackedSet if type(v) is set else None
			if t is None:
				return v
			w = t(v)
			w._memo_key = key
			w._memo_owner = str(getattr(factory, '__qualname__', '?')).split('.<locals>')[0]
			return w
		return orig(self, key, tracked_factory)
	memo2.Memoize.get = get  # type: ignore[method-assign]
	_MEMO_TRACKED = True


class RealSession:
	"""One long-lived real App; `__main__` is the in-memory module of the real `Interactive` runner."""

	def __init__(self, proj: str, cache_dir: str, tpl: str | None = None) -> None:
		from rogw.tranp.bin.transpile import Interactive
		from rogw.tranp.lang.locator import Locator
		from rogw.tranp.semantics.reflection.db import SymbolDB
		from rogw.tranp.syntax.ast.entrypoints import Entrypoints
		self.app = make_app(proj, cache_dir, tpl)
		self.inter = Interactive(self.app.resolve(Locator))
		self.modules = self.inter.modules
		self.tr = self.inter.transpiler
		self.db = self.app.resolve(SymbolDB)
		self.eps = self.app.resolve(Entrypoints)

	# ops ---------------------------------------------------------------------------------

	def load(self, m: str) -> tuple[str, Any]:
		return self._budgeted(lambda: self._load(m))

	def unload(self, m: str) -> tuple[str, Any]:
		return self._budgeted(lambda: self._unload(m))

	def transpile(self, m: str) -> tuple[str, Any]:
		return self._budgeted(lambda: self._transpile(m))

	def resubmit(self, source: str) -> tuple[str, Any]:
		return self._budgeted(lambda: self._resubmit(source))

	@staticmethod
	def _budgeted(f: Any) -> tuple[str, Any]:
		"""One real-code operation under the per-operation budget: exceeding it is an outcome of its own (the model never gives it)."""
		try:
			with op_budget():
				return f()
		except OpTimeout:
			return 'timeout', f'no answer within {OP_BUDGET_S:.0f} s'

	def _load(self, m: str) -> tuple[str, Any]:
		try:
			self.modules.load(m)
			return 'ok', None
		except Exception as e:  # noqa: BLE001
			return 'load-error', canon(e)

	def _unload(self, m: str) -> tuple[str, Any]:
		try:
			self.modules.unload(m)
			return 'ok', None
		except Exception as e:  # noqa: BLE001 - unload is not supposed to raise: visible as an outcome the model never gives
			return 'unload-error', canon(e)

	def _transpile(self, m: str) -> tuple[str, Any]:
		try:
			mod = self.modules.load(m)
		except Exception as e:  # noqa: BLE001
			return 'load-error', canon(e)
		try:
			return 'text', self.tr.transpile(mod.entrypoint)
		except Exception as e:  # noqa: BLE001
			return 'render-error', canon(e)

	def _resubmit(self, source: str) -> tuple[str, Any]:
		"""Interactive.run's body for one submission (bin/transpile.py:419-421)."""
		try:
			mod = self.inter.rebuild_module(source)
		except Exception as e:  # noqa: BLE001
			return 'load-error', canon(e)
		try:
			return 'text', self.tr.transpile(mod.entrypoint)
		except Exception as e:  # noqa: BLE001
			return 'render-error', canon(e)

	# observation -------------------------------------------------------------------------

	def loaded(self) -> list[str]:
		return [m.path for m in self.modules.loaded()]

	def observe(self, res: str) -> str:
		try:
			return self._observe(res)
		except Exception as e:  # noqa: BLE001 - reading the state raised: an observation the model never gives
			return f'{res}|observe-error:{canon(e)}'

	def _observe(self, res: str) -> str:
		counts: dict[str, int] = {}
		for k in self.db.keys():
			m = k.split('#')[0]
			counts[m] = counts.get(m, 0) + 1
		keys = ','.join(f'{m}={n}' for m, n in counts.items())
		eps = list(self.eps._Entrypoints__entrypoints.keys())
		completed = list(self.db._SymbolDB__completed)
		deps = len(self.tr._Py2Cpp__stack_on_depends)
		proc = len(self.tr._Py2Cpp__procedure._Procedure__stacks)
		return f"{res}|{','.join(self.loaded())}|{','.join(eps)}|{','.join(completed)}|{keys}|{deps}|{proc}"

	def residue(self, unloaded: str | None) -> list[str]:
		"""The three tables that know a module — the registry (Modules), the parsed sources (Entrypoints) and the symbol table with
		its completed list (SymbolDB) — read independently of each other: nothing may know a module the registry does not list, and
		after `unload m` none of them knows m."""
		try:
			loaded = self.loaded()
			tables = {
				'Entrypoints': list(self.eps._Entrypoints__entrypoints.keys()),
				'SymbolDB keys': list(dict.fromkeys(k.split('#')[0] for k in self.db.keys())),
				'SymbolDB completed': list(self.db._SymbolDB__completed),
			}
		except Exception as e:  # noqa: BLE001
			return [f'reading the tables raised {canon(e)}']
		out = []
		if unloaded is not None and unloaded in loaded:
			out.append(f'Modules still lists {unloaded} after unload')
		for name, mods in tables.items():
			left = [m for m in mods if m not in loaded]
			if left:
				out.append(f"{name} still knows {left}, which Modules does not list{' (just unloaded)' if unloaded in left else ''}")
		# .. and the other way round for the parsed sources: a registered module has its entrypoint in the table (Inv.eps)
		lost = [m for m in loaded if m not in tables['Entrypoints']]
		if lost:
			out.append(f'Modules lists {lost}, which Entrypoints does not know')
		return out

	def snapshot(self, only: list[str]) -> dict[str, Any]:
		"""Node classes and symbol objects of the given registered modules."""
		snap: dict[str, Any] = {}
		for mod in self.modules.loaded():
			if mod.path not in only:
				continue
			try:
				ep = mod.entrypoint
				nodes = ep._Node__nodes
				paths = list(nodes._Nodes__entries._EntryCache__entries.keys())
				classes: dict[str, str] = {}
				for p in paths:
					try:
						classes[p] = type(nodes.by(p)).__name__
					except Exception as e:  # noqa: BLE001
						classes[p] = canon(e)
				syms = {k: (id(s), type(s).__name__, s.types.fullyname, dump_symbol(s)) for k, s in self.db.items(mod.path)}
				snap[mod.path] = {'ep': id(ep), 'classes': classes, 'symbols': syms, 'facts': node_facts(nodes, paths, classes)}
			except Exception as e:  # noqa: BLE001 - the real code raised while being observed: visible as a difference
				snap[mod.path] = {'ep': 0, 'classes': {}, 'symbols': {}, 'facts': {}, 'error': canon(e)}
		return snap


DEF_NODES = {'Class', 'Enum', 'AltClass', 'TemplateClass', 'Function', 'Method', 'ClassMethod', 'Constructor', 'Closure'}


def node_facts(nodes: Any, paths: list[str], classes: dict[str, str]) -> dict[str, Any]:
	"""What the syntax tree says about every definition node, read through the node's expandable properties (for a class: symbol,
	decorators, template parameters, base classes, ...; for a function: parameters, return type, ...). Values are source text, so
	they belong to the file: nothing a session does to ANY module may change them, and a reloaded module shows them again."""
	facts: dict[str, Any] = {}
	for p in paths:
		if classes.get(p) not in DEF_NODES:
			continue
		node = nodes.by(p)
		for key in node.prop_keys():
			if key in ('statements', 'block'):
				continue
			try:
				v = getattr(node, key)
				facts[f'{p}@{key}'] = [x.tokens for x in v] if isinstance(v, list) else v.tokens
			except Exception as e:  # noqa: BLE001
				facts[f'{p}@{key}'] = canon(e)
	return facts


def dump_symbol(raw: Any, depth: int = 0) -> str:
	"""The resolved attribute tree of a symbol (for the generic module: template resolution of a caller must not write into it)."""
	try:
		attrs = raw.attrs
		name = raw.types.domain_name
		return name if not attrs or depth > 6 else f"{name}<{', '.join(dump_symbol(a, depth + 1) for a in attrs)}>"
	except Exception as e:  # noqa: BLE001
		return canon(e)


def result_str(kind: str, payload: Any) -> str:
	if kind in ('ok', 'text'):
		return kind
	if kind == 'render-error':
		return 'render-error'
	text = str(payload) if kind == 'load-error' else f'{kind}:{payload}'
	return ''.join(c if c.isprintable() and c not in '|\t' else '?' for c in text)[:200]


# ---------------------------------------------------------------------------------------------
# generated module pools


G_NAME = 'app.g'
# a generic function whose return type nests the type variable three levels deep; every using module calls it with another
# actual type and lets the inferred type reach the output (`a = cube(1.5, 2)`)
G_SOURCE = ('def cube[T](v: T, n: int) -> list[list[list[T]]]:\n\treturn [[[v] * n] * n] * n\n\n'
	'def index[T](xs: list[T]) -> dict[str, list[tuple[int, T]]]:\n\treturn {"all": [(i, x) for i, x in enumerate(xs)]}')
G_LITERALS = ['1.5', '"s"', 'True', '1']


def stub_g() -> dict[str, Any]:
	"""The generic module as the model sees it: `cube` (with its parameter `cube.v`) as named keys, the rest as a number."""
	return {'name': G_NAME, 'ok': True, 'imports': [], 'classes': [{'name': 'cube', 'methods': [{'name': 'v', 'call': None, 'bad': False, 'lam': False}]}],
		'vars': [], 'stub': 'g'}


_G_KEYS: int | None = None


def measured_keys(ctx: Ctx, proj: str, name: str, named: int) -> int:
	"""Number of symbol keys of a stub module in a session of its own. When the real code cannot load the stub (or does not answer
	within the budget) the model is told there are no further keys: the sessions that use the stub then show the failure themselves
	(stream + session-vs-fresh), the harness goes on."""
	try:
		with op_budget():
			ses = RealSession(proj, warm_cache(ctx, prelude(ctx)['cache']))
			ses.modules.load(name)
			return max(named, len(list(ses.db.items(name))))
	except (Exception, OpTimeout) as e:  # noqa: BLE001
		ctx.notes.append(f'stub module {name} could not be measured on the real code: {canon(e) if isinstance(e, Exception) else "timeout"}')
		return named


def g_extra(ctx: Ctx) -> int:
	"""Number of symbol keys of the generic module beyond the four the descriptor names (measured on the real code)."""
	global _G_KEYS
	if _G_KEYS is None:
		proj = ctx.tmpdir('c04-g-')
		write_pool(proj, [stub_g()])
		_G_KEYS = measured_keys(ctx, proj, G_NAME, 4)
	return _G_KEYS - 4


H_NAME = 'app.h'
H_TYPES = ['int', 'str', 'float', 'bool']
H_LITS = {'int': '1', 'str': "'a'", 'float': '1.5', 'bool': 'True'}
H_VARIANTS = 2 * 2 * 3 * 3 * 4


def h_shape(hv: int) -> dict[str, Any]:
	"""The shapes module comes in 144 variants: how the generic base is declared, how long the chain from the concrete subclass to it
	is, the actual type argument, and width / parameter types / return type of the wide function."""
	form, hv = hv % 2, hv // 2
	depth, hv = hv % 2, hv // 2
	arg, hv = H_TYPES[hv % 3], hv // 3
	width, hv = 10 + hv % 3, hv // 3
	rot = hv % 4
	params = [H_TYPES[(i + rot) % 4] for i in range(width)]
	# the result type is not the type of the last parameter nor of the tenth (attribute keys in textual order "0, 1, 10, 11, 2, .., 9" end
	# with the tenth): a rotated or textually sorted attribute list shows in the caller's output
	ret = [t for t in H_TYPES[rot:] + H_TYPES[:rot] if t not in (params[-1], params[9])][0]
	return {'form': form, 'depth': depth, 'arg': arg, 'params': params, 'ret': ret}


def h_source(hv: int) -> str:
	"""A generic base `Box` declaring a template typed member `v: T`, a NON generic subclass chain `Held(Box[int])` / `Held(Mid)`,
	`Mid(Box[int])` whose users read the inherited member through a Held receiver, and a function with 10..12 parameters of mixed
	types whose result type reaches the caller's output (`float b = mix(..)`): eleven or more sibling attributes on one symbol."""
	sh = h_shape(hv)
	head = ['from typing import Generic, TypeVar', '', "T = TypeVar('T')", *H_METHOD_VARS, '', 'class Box(Generic[T]):'] if sh['form'] == 0 \
		else ['from typing import TypeVar', '', *H_METHOD_VARS, '', 'class Box[T]:']
	lines = [*head, '\tv: T', '', '\tdef __init__(self, v: T) -> None:', '\t\tself.v = v', '']
	# methods and an operator whose PARAMETERS nest the class type variable one level: every using module instantiates Box with
	# another actual type, so resolving a call must not write the actual type into the shared schema of the method
	lines += ["\tdef __add__(self, other: list[T]) -> 'Box[T]':", '\t\treturn self', '', '\tdef put(self, d: dict[str, T]) -> int:', '\t\treturn 0', '',
		'\tdef opt(self, o: T | None) -> int:', '\t\treturn 0', '']
	if sh['depth']:
		lines += [f"class Mid(Box[{sh['arg']}]): ...", '', 'class Held(Mid):']
	else:
		lines += [f"class Held(Box[{sh['arg']}]):"]
	lines += ['\tdef twice(self, x: int) -> int:', '\t\treturn x', '']
	ps = ', '.join(f'a{i}: {t}' for i, t in enumerate(sh['params']))
	lines += [f"def mix({ps}) -> {sh['ret']}:", f"\treturn {H_LITS[sh['ret']]}", '']
	# a non generic class whose methods (instance, class method) introduce several type variables of their own: the order of the
	# C++ template parameters is the order of first use, in every process and under every hash seed
	lines += ['class Holder:', '\tdef put(self, key: TK, value: TV, other: TO, more: TW) -> TV:', '\t\treturn value', '',
		'\t@classmethod', '\tdef make(cls, other: TO, key: TK, value: TV) -> TO:', '\t\treturn other', '',
		'\tdef one(self, key: TK) -> TK:', '\t\treturn key']
	return '\n'.join(lines)


H_METHOD_VARS = ["TK = TypeVar('TK')", "TV = TypeVar('TV')", "TO = TypeVar('TO')", "TW = TypeVar('TW')"]
H_BOX_FORMS = ['add', 'put', 'opt']


def h_box_src(user: str, form: str) -> list[str]:
	"""A use of the generic class with an actual type that depends on the USING module (two modules of one pool differ)."""
	t = H_TYPES[sum(map(ord, user)) % len(H_TYPES)]
	lit = H_LITS[t]
	expr = f'Box[{t}]({lit}) + [{lit}]' if form == 'add' else f"Box[{t}]({lit}).put({{'k': {lit}}})" if form == 'put' else f'Box[{t}]({lit}).opt({lit})'
	return [f'b = {expr}', 'return x']


def h_member_src(hv: int) -> list[str]:
	return [f"b = Held({H_LITS[h_shape(hv)['arg']]}).v", 'return x']


def h_wide_src(hv: int) -> list[str]:
	return [f"b = mix({', '.join(H_LITS[t] for t in h_shape(hv)['params'])})", 'return x']


def stub_h(hv: int) -> dict[str, Any]:
	"""The shapes module as the model sees it: `Held.twice` and `mix.a0` as named keys (what a using method needs), the rest as a number;
	the declaration with Generic/TypeVar imports the library closure module `typing` (a bare dependency edge)."""
	meth = lambda n: {'name': n, 'call': None, 'bad': False, 'lam': False}  # noqa: E731
	return {'name': H_NAME, 'ok': True, 'imports': [('typing', '')],
		'classes': [{'name': 'Held', 'methods': [meth('twice')]}, {'name': 'mix', 'methods': [meth('a0')]}, {'name': 'Box', 'methods': [meth('opt')]}],
		'vars': [], 'stub': 'h', 'hv': hv}


_H_KEYS: dict[int, int] = {}


def stub_extra(ctx: Ctx, mod: dict[str, Any]) -> int:
	"""Keys of a stub module beyond the ones its descriptor names (measured on the real code)."""
	if mod.get('stub') == 'g':
		return g_extra(ctx)
	if mod.get('stub') == 'h':
		hv = mod['hv']
		if hv not in _H_KEYS:
			proj = ctx.tmpdir('c04-h-')
			write_pool(proj, [mod])
			_H_KEYS[hv] = measured_keys(ctx, proj, H_NAME, 12)
		return _H_KEYS[hv] - 12
	return 0


def cls_prefix(name: str) -> str:
	return 'M' if name == MAIN else name.split('.')[-1].capitalize()


def gen_module(rng: random.Random, name: str, earlier: list[dict[str, Any]], p_bad: float, all_names: list[str]) -> dict[str, Any]:
	mod: dict[str, Any] = {'name': name, 'ok': True, 'imports': [], 'classes': [], 'vars': []}
	# imports: classes of earlier modules (acyclic), sometimes a missing name, a missing file or a back edge
	callable_imports: list[tuple[str, str]] = []
	has_g = any(e.get('stub') == 'g' for e in earlier)
	hs = [e for e in earlier if e.get('stub') == 'h']
	plain = [e for e in earlier if not e.get('stub')]
	chosen = rng.sample(plain, min(len(plain), rng.choice([0, 1, 1, 2, 2])))
	if plain and rng.random() < 0.5 and plain[-1] not in chosen:
		# import chains of depth >= 3: prefer the module generated just before
		chosen = [plain[-1], *chosen[:1]]
	uses_g = has_g and rng.random() < 0.7
	if uses_g:
		mod['imports'].append((G_NAME, 'cube'))
	# users of the shapes module: readers of the inherited template typed member and / or callers of the wide function
	h_uses = rng.choice([[], ['Held'], ['mix'], ['Held', 'mix'], ['Box'], ['Box'], ['Held', 'Box'], ['mix', 'Box']]) if hs else []
	for n in h_uses:
		mod['imports'].append((H_NAME, n))
	for dep in chosen:
		names = [c['name'] for c in dep['classes']]
		if names and rng.random() < 0.9:
			c = rng.choice(dep['classes'])
			mod['imports'].append((dep['name'], c['name']))
			if any(m['name'] == 'g' for m in c['methods']):
				callable_imports.append((dep['name'], c['name']))
		else:
			mod['imports'].append((dep['name'], 'Nope'))
	if rng.random() < p_bad * 0.25:
		mod['imports'].append(('app.zz', 'Zz0'))
	if rng.random() < p_bad * 0.25:
		later = [n for n in all_names if n != name and n not in [e['name'] for e in earlier]]
		if later:
			back = rng.choice(later)
			mod['imports'].append((back, f'{cls_prefix(back)}0'))
	pre = cls_prefix(name)
	if rng.random() < p_bad * 0.15 and name != MAIN:
		# a module that imports itself: its own class (found, the class symbols are inserted first) or a missing name
		mod['imports'].append((name, f'{pre}0' if rng.random() < 0.7 else 'Nope'))
	for i in range(rng.choice([0, 1, 1, 2])):
		c: dict[str, Any] = {'name': f'{pre}{i}', 'methods': []}
		for mname in ('g', 'h'):
			if rng.random() < (0.8 if mname == 'g' else 0.4):
				meth: dict[str, Any] = {'name': mname, 'call': None, 'bad': False, 'lam': False}
				if uses_g and rng.random() < 0.6:
					# modelled like a call: the renderer needs `app.g#cube.v`, the local variable is one more key
					meth['call'] = (G_NAME, 'cube', 'v')
					meth['gen'] = G_LITERALS[sum(map(ord, name)) % len(G_LITERALS)]
				elif h_uses and rng.random() < 0.7:
					# modelled like a call as well: one local `b`, the renderer needs `app.h#Held.twice` / `app.h#mix.a0`
					use = rng.choice(h_uses)
					meth['call'] = (H_NAME, 'Held', 'twice') if use == 'Held' else (H_NAME, 'mix', 'a0') if use == 'mix' else (H_NAME, 'Box', 'opt')
					meth['src'] = h_member_src(hs[0]['hv']) if use == 'Held' else h_wide_src(hs[0]['hv']) if use == 'mix' else h_box_src(name, rng.choice(H_BOX_FORMS))
				elif callable_imports and rng.random() < 0.6:
					dep, b = rng.choice(callable_imports)
					meth['call'] = (dep, b, 'g')
				elif rng.random() < p_bad * 0.3:
					meth['bad'] = True
				elif rng.random() < 0.35:
					meth['lam'] = True
				c['methods'].append(meth)
		mod['classes'].append(c)
	for i in range(rng.choice([0, 0, 1, 2])):
		mod['vars'].append((f'v{i}', not (rng.random() < p_bad * 0.4)))
	if rng.random() < p_bad * 0.35:
		mod['ok'] = False
	if rng.random() < p_bad * 0.14:
		# the load dies with an exception that is NOT a tranp error (ValueError in the node model -> Errors.Fatal)
		mod['crash'] = True
	if mod['imports'] and rng.random() < 0.35:
		# the last `late` imports stand after other top-level statements (classes, functions, variables)
		mod['late'] = rng.randint(1, len(mod['imports']))
	return mod


def gen_pool(rng: random.Random, p_bad: float) -> list[dict[str, Any]]:
	pool: list[dict[str, Any]] = []
	if rng.random() < 0.5:
		pool.append(stub_g())
	if rng.random() < 0.5:
		pool.append(stub_h(rng.randrange(H_VARIANTS)))
	n = rng.randint(4, 6 if len(pool) < 2 else 5)
	names = ['app.a', 'app.ab', *rng.sample(NAME_POOL[2:], n - 2)]
	rng.shuffle(names)
	for name in names:
		pool.append(gen_module(rng, name, list(pool), p_bad, names))
	return pool


def gen_main(rng: random.Random, pool: list[dict[str, Any]], p_bad: float) -> dict[str, Any]:
	m = gen_module(rng, MAIN, list(pool), p_bad, [])
	r = rng.random()
	if r < 0.2:
		# a submission that declares nothing: expression statements only (no symbol of its own ever reaches the symbol table)
		m.update({'imports': [], 'classes': [], 'vars': [], 'crash': False, 'late': 0, 'exprs': [rng.randrange(100) for _ in range(rng.randint(1, 3))]})
	elif r < 0.45:
		m['exprs'] = [rng.randrange(100) for _ in range(rng.randint(1, 2))]
	return m


def nothing_declared(exprs: list[int]) -> dict[str, Any]:
	return {'name': MAIN, 'ok': True, 'imports': [], 'classes': [], 'vars': [], 'exprs': exprs}


def main_failing_in_imports(rng: random.Random, pool: list[dict[str, Any]]) -> dict[str, Any]:
	"""A submission whose load dies while its IMPORTS are being loaded (before anything of its own is expanded): a missing file, or a
	pool module that does not load (syntax error, unexpected exception, failing import of its own)."""
	m = good_module(rng, MAIN, [e for e in pool if not e.get('stub')])
	failing = [e['name'] for e in pool if not e['ok'] or e.get('crash')]
	dep = rng.choice(failing) if failing and rng.random() < 0.5 else 'app.zz'
	m['imports'] = [*m['imports'], (dep, f'{cls_prefix(dep)}0')]
	if rng.random() < 0.5:
		m['exprs'] = [rng.randrange(100)]
	return m


def render_source(mod: dict[str, Any]) -> str:
	if mod.get('stub') == 'g':
		return G_SOURCE
	if mod.get('stub') == 'h':
		return h_source(mod['hv'])
	lines: list[str] = []
	late = min(int(mod.get('late') or 0), len(mod['imports']))
	lead = mod['imports'][:len(mod['imports']) - late]
	late_lines = [f'from {dep} import {n}' for dep, n in mod['imports'][len(lead):]]
	for dep, n in lead:
		lines.append(f'from {dep} import {n}')
	if not mod['classes'] and not mod.get('crash') and not mod['vars']:
		lines += late_lines
		late_lines = []
	for c in mod['classes']:
		if not c['methods']:
			lines.append(f"class {c['name']}: ...")
			continue
		lines.append(f"class {c['name']}:")
		for m in c['methods']:
			lines.append(f"\tdef {m['name']}(self, x: int) -> int:")
			if m.get('gen'):
				lines.append(f"\t\ta = cube({m['gen']}, 2)")
				lines.append('\t\treturn x')
			elif m.get('src'):
				lines += [f'\t\t{x}' for x in m['src']]
			elif m['call']:
				lines.append(f"\t\tb = {m['call'][1]}()")
				lines.append(f"\t\treturn b.{m['call'][2]}(x)")
			elif m['bad']:
				lines.append('\t\treturn undefined_name')
			elif m.get('lam'):
				# a lambda capturing four names: the order of the C++ capture list must not depend on string hashing
				lines += ['\t\ty = x', '\t\tz = x', '\t\tw = x', '\t\tf = lambda: y + z + w + x', '\t\treturn f()']
			else:
				lines.append('\t\treturn x')
	if mod.get('crash'):
		# a free function whose first parameter is called `self`: the node model looks for the enclosing class (ValueError)
		lines += ['def attach(self, v: int) -> int:', '\treturn v']
	if mod['classes'] or mod.get('crash'):
		lines += late_lines
		late_lines = []
	for v, ok in mod['vars']:
		lines.append(f"{v}: {'int' if ok else 'Nope'} = 0")
	lines += late_lines
	# top-level expression statements: they declare nothing (no symbol), the text shows them
	lines += [f'print({n})' for n in mod.get('exprs') or []]
	if not lines:
		lines.append('pass')
	if not mod['ok']:
		lines.append('def (:')
	return '\n'.join(lines)


def desc_tokens(mod: dict[str, Any]) -> list[str]:
	imps = ','.join(f'{d}:{n}' for d, n in mod['imports']) or '-'
	clss = []
	for c in mod['classes']:
		ms = []
		for m in c['methods']:
			if m['call']:
				ms.append(f"{m['name']}>{m['call'][0]}>{m['call'][1]}>{m['call'][2]}")
			elif m['bad']:
				ms.append(f"{m['name']}!")
			elif m.get('lam'):
				ms.append(f"{m['name']}~")
			else:
				ms.append(m['name'])
		clss.append(f"{c['name']}/{','.join(ms)}" if ms else c['name'])
	vs = ','.join(f"{v}:{1 if ok else 0}" for v, ok in mod['vars']) or '-'
	return ['0' if not mod['ok'] else '2' if mod.get('crash') else '1', imps, ';'.join(clss) or '-', vs]


def resubmit_tokens(mod: dict[str, Any]) -> list[str]:
	"""The in-memory module as the model sees it (a fifth token only when it has expression statements)."""
	return [*desc_tokens(mod), *([','.join(str(int(n)) for n in mod['exprs'])] if mod.get('exprs') else [])]


def write_pool(proj: str, pool: list[dict[str, Any]]) -> None:
	for mod in pool:
		path = os.path.join(proj, mod['name'].replace('.', '/') + '.py')
		os.makedirs(os.path.dirname(path), exist_ok=True)
		with open(path, 'w', encoding='utf-8') as f:
			f.write(render_source(mod) + '\n')


_PRELUDE: dict[str, Any] | None = None


def warm_cache(ctx: Ctx, src: str) -> str:
	"""A private cache directory that starts as a copy of `src` (measuring sessions: the library closure need not be parsed again)."""
	d = ctx.tmpdir('c04-cache-')
	shutil.copytree(src, d, dirs_exist_ok=True)
	return d


def prelude(ctx: Ctx) -> dict[str, Any]:
	"""Library stubs as the model sees them: import edges and number of symbol keys, read from the real code."""
	global _PRELUDE
	if _PRELUDE is None:
		from rogw.tranp.providers.module import library_paths
		proj = ctx.tmpdir('c04-prelude-')
		lib_cache = ctx.tmpdir('c04-cache-')
		ses = RealSession(proj, lib_cache)
		libs = [p.path for p in library_paths()]
		for lib in libs:
			ses.modules.load(lib)
		mods = []
		named = {f'{libs[0]}#type': 'type', f'{libs[1]}#int': 'int'}
		for mod in ses.modules.loaded():
			imports = [i.import_path.tokens for i in mod.entrypoint.imports]
			keys = [k for k, _ in ses.db.items(mod.path)]
			mods.append({'name': mod.path, 'imports': imports, 'keys': len(keys), 'named': [named[k] for k in keys if k in named]})
		# which library stub stops rendering when which library module is unloaded (measured, not assumed)
		rep = {libs[0]: f'{libs[0]}#type', libs[1]: f'{libs[1]}#int'}
		for m in mods:
			m['always'] = []
		for lib in libs:
			probe = RealSession(proj, warm_cache(ctx, lib_cache))
			for x in libs:
				probe.modules.load(x)
			probe.modules.unload(lib)
			for m in mods:
				if m['name'] != lib and m['name'] in probe.loaded() and probe.transpile(m['name'])[0] != 'text':
					m['always'].append(rep[lib])
		_PRELUDE = {'libs': libs, 'mods': mods, 'std_method': [f'{libs[0]}#type', f'{libs[1]}#int'], 'std_var': [f'{libs[1]}#int'],
			'cache': lib_cache}
	return _PRELUDE


def world_lines(ctx: Ctx, pool: list[dict[str, Any]]) -> list[str]:
	pre = prelude(ctx)
	lines = ['world']
	for m in pre['mods']:
		imps = ','.join(f'{d}:' for d in m['imports']) or '-'
		lines.append('\t'.join(['mod', m['name'], '1', imps, ';'.join(m['named']) or '-', '-', str(m['keys'] - len(m['named'])), ','.join(m['always']) or '-']))
	lines.append('\t'.join(['std', ','.join(pre['std_method']), ','.join(pre['std_var'])]))
	for mod in pool:
		lines.append('\t'.join(['mod', mod['name'], *desc_tokens(mod), str(stub_extra(ctx, mod))]))
	lines.append('libs\t' + ','.join(pre['libs']))
	lines.append(f'main\t{MAIN}')
	lines.append('init')
	return lines


def closure(pool_by_name: dict[str, dict[str, Any]], start: dict[str, Any]) -> set[str]:
	seen: set[str] = set()
	todo = [d for d, _ in start['imports']]
	while todo:
		d = todo.pop()
		if d in seen:
			continue
		seen.add(d)
		if d in pool_by_name:
			todo.extend(x for x, _ in pool_by_name[d]['imports'])
	return seen


def has_cycle(pool: list[dict[str, Any]]) -> bool:
	"""Import cycle among the pool modules (used for the input distribution histogram). tranp does not support cyclic imports:
	a load error in fresh and session alike (a module importing its own class loads); since c3eaa55 Module.identity() walks the
	import closure with a visited set, and a mid-load module with a missing import file gives Errors.Fatal."""
	graph = {m['name']: [d for d, _ in m['imports']] for m in pool}
	state: dict[str, int] = {}

	def visit(x: str) -> bool:
		if state.get(x) == 1:
			return True
		if state.get(x) == 2 or x not in graph:
			return False
		state[x] = 1
		if any(visit(d) for d in graph[x]):
			return True
		state[x] = 2
		return False

	return any(visit(x) for x in graph)


def gen_ops(rng: random.Random, pool: list[dict[str, Any]], n: int, p_bad: float, prelude_names: list[str]) -> list[list[Any]]:
	names = [m['name'] for m in pool]
	ops: list[list[Any]] = []
	while len(ops) < n:
		r = rng.random()
		if rng.random() < 0.08:
			# c -> b -> a: the root of an import chain is unloaded, then an INDIRECT importer that uses a member it got through
			# the intermediate module is transpiled (before anything reloads the intermediate module)
			chains = [(c['name'], b['name'], a) for c in pool for b in pool for a in names
				if any(m.get('call') and m['call'][0] == b['name'] for k in c['classes'] for m in k['methods'])
				and a != c['name'] and a in [d for d, _ in b['imports']]]
			if chains:
				c, b, a = rng.choice(chains)
				ops += [['transpile', c], ['unload', a], ['transpile', c]]
				continue
		if rng.random() < 0.1:
			# a dependant is transpiled, one of its imports unloaded, the dependant transpiled again
			users = [m for m in pool if any(d in names for d, _ in m['imports'])]
			if users:
				u = rng.choice(users)
				d = rng.choice([d for d, _ in u['imports'] if d in names])
				# .. or the import itself transpiled after its user (what the user's transpile looked up in it must not show)
				ops += [['transpile', u['name']], ['unload', d] if rng.random() < 0.6 else ['transpile', d], ['transpile', u['name']]]
				continue
		if rng.random() < 0.08:
			# the same request twice in a row (after a failing first attempt the second one must fail the same way)
			crashing = [m['name'] for m in pool if m.get('crash') or not m['ok']]
			askers = [m['name'] for m in pool if any(d in crashing for d, _ in m['imports'])] or names
			t = rng.choice(askers)
			ops += [['transpile', t], ['transpile', t]]
			continue
		if rng.random() < 0.1:
			# interactive: a submission that fails while its imports are loaded / that declares nothing, then ANOTHER text for the
			# same module path (the second answer must come from the second text)
			first = main_failing_in_imports(rng, pool) if rng.random() < 0.5 else nothing_declared([rng.randrange(100)])
			ops += [['resubmit', first], ['resubmit', gen_main(rng, pool, 0.0)]]
			continue
		target = rng.choice(names)
		if rng.random() < p_bad * 0.15:
			target = rng.choice(['app.zz', *prelude_names])
		if r < 0.45:
			ops.append(['transpile', target])
		elif r < 0.62:
			ops.append(['load', target])
		elif r < 0.82:
			ops.append(['unload', target if rng.random() < 0.9 else MAIN])
		else:
			ops.append(['resubmit', gen_main(rng, pool, p_bad)])
	return ops


# ---------------------------------------------------------------------------------------------
# one session on the real code: observations + transpile results + frame check


def run_session(ctx: Ctx, pool: list[dict[str, Any]], ops: list[list[Any]], proj: str | None = None, frame_check: bool = True, warm: bool = False) -> dict[str, Any]:
	"""warm: the session's private cache directory starts as a copy of the one a process that loaded only the library modules left
	behind (syntax trees and symbol snapshots of the library closure: the usual state of a second tranp run), otherwise empty."""
	if proj is None:
		proj = ctx.tmpdir('c04-proj-')
		write_pool(proj, pool)
	cache_dir = warm_cache(ctx, prelude(ctx)['cache']) if warm else ctx.tmpdir('c04-cache-')
	by_name = {m['name']: m for m in pool}
	pre_names = {m['name'] for m in prelude(ctx)['mods']}
	lines: list[str] = []
	try:
		ses = RealSession(proj, cache_dir)
	except Exception as e:  # noqa: BLE001 - the property says a process can be set up: reported by the search
		for op in ops:
			lines.append('\t'.join(['resubmit', *resubmit_tokens(op[1])]) if op[0] == 'resubmit' else f'{op[0]}\t{op[1]}')
		return {'proj': proj, 'lines': lines, 'real': [f'app-error:{canon(e)}'] * len(ops), 'results': [], 'frame_bad': [], 'reload_bad': [], 'memo_bad': [], 'residue_bad': [], 'imports_bad': [], 'crash': canon(e)}
	real: list[str] = []
	results: list[dict[str, Any]] = []
	frame_bad: list[dict[str, Any]] = []
	dirty: set[str] = set()
	lines = []
	cur_main: dict[str, Any] | None = None
	prev_snap: dict[str, Any] = {}
	first_view: dict[str, Any] = {}
	reload_bad: list[dict[str, Any]] = []
	reload_seen: set[str] = set()
	memo_bad: list[dict[str, Any]] = []
	memo_mark = len(MEMO_LOG)
	residue_bad: list[dict[str, Any]] = []
	residue_seen: set[str] = set()
	for i, op in enumerate(ops):
		kind = op[0]
		before = ses.loaded()
		watch = [m for m in before if m not in pre_names]
		# every op (also `unload`, whose cascade removes importers): the modules that stay registered must stay untouched
		# (nothing runs between two ops: the snapshot after the previous op is the one before this op)
		snap = prev_snap if frame_check else {}
		if kind == 'resubmit':
			lines.append('\t'.join(['resubmit', *resubmit_tokens(op[1])]))
			k, payload = ses.resubmit(render_source(op[1]))
			cur_main = op[1]
		else:
			lines.append(f'{kind}\t{op[1]}')
			k, payload = getattr(ses, kind)(op[1])
		real.append(ses.observe(result_str(k, payload)))
		after = ses.loaded()
		for what in ses.residue(op[1] if kind == 'unload' else None):
			if what not in residue_seen:
				residue_seen.add(what)
				residue_bad.append({'op': i, 'what': what})
		memo_bad.extend({'op': i, **e} for e in MEMO_LOG[memo_mark:])
		memo_mark = len(MEMO_LOG)
		# bookkeeping for the classification of search findings (facts about the real run only)
		if kind in ('transpile', 'resubmit'):
			target = MAIN if kind == 'resubmit' else op[1]
			tdesc = cur_main if target == MAIN else by_name.get(target)
			clo = closure(by_name, tdesc) if tdesc else set()
			def imports_of(x: str) -> list[str]:
				d = cur_main if x == MAIN else by_name.get(x)
				return [y for y, _ in d['imports']] if d else []
			importers = [x for x in [*sorted(clo), target] if x in before and not (kind == 'resubmit' and x == MAIN)]
			dep_missing = [d for d in sorted(clo) if d not in before and any(d in imports_of(x) for x in importers)]
			results.append({'op': i, 'kind': kind, 'target': target, 'main': render_source(cur_main) if target == MAIN and cur_main else None,
				'res': [k, payload], 'dirty': sorted((clo | {target}) & dirty), 'dep_missing': dep_missing,
				'registered_before': target in before, 'prelude_target': target in pre_names})
		if k == 'load-error':
			for m in after:
				if m not in before and not ses.db.completed(m):
					dirty.add(m)
		if kind == 'unload':
			dirty.discard(op[1])
		if kind == 'resubmit':
			if k != 'load-error':
				dirty.discard(MAIN)
		if frame_check:
			prev_snap = ses.snapshot([m for m in after if m not in pre_names])
			now = prev_snap
			# a module of the pool is a file that never changes: whenever it is registered with its symbols complete (first load,
			# reload after an unload = symbols restored from the stored snapshot, or just still there), its definition nodes and
			# its symbols with their attribute trees say what they said the first time
			for m, sn in now.items():
				if m == MAIN or 'error' in sn or not ses.db.completed(m):
					continue
				view = {'facts': sn['facts'], 'symbols': {k: v[1:] for k, v in sn['symbols'].items()}}
				if m not in first_view:
					first_view[m] = view
				elif view != first_view[m] and m not in reload_seen:
					reload_seen.add(m)
					part = 'facts' if view['facts'] != first_view[m]['facts'] else 'symbols'
					reload_bad.append({'op': i, 'module': m, 'what': f"{part}: {dict_diff(first_view[m][part], view[part])}"})
			still = [m for m in watch if m in after and not (kind == 'resubmit' and m == MAIN)]
			for m in still:
				if m in snap and (m not in now or now[m] != snap[m]):
					what = 'the real code raised while being observed' if m not in now else 'entrypoint object replaced' if now[m]['ep'] != snap[m]['ep'] else \
						'node classes changed' if now[m]['classes'] != snap[m]['classes'] else \
						f"definition node facts changed: {dict_diff(snap[m]['facts'], now[m]['facts'])}" if now[m]['facts'] != snap[m]['facts'] else \
						f"symbol table entries changed: {dict_diff(snap[m]['symbols'], now[m]['symbols'])}"
					# transpiling m itself may legitimately resolve more of m's own nodes; classes of already resolved paths must not change
					frame_bad.append({'op': i, 'module': m, 'what': what})
	# the import edges of every pool module: model (`imports` of the descriptor: what load / unload follow) vs the real
	# `Entrypoint.imports` vs an independent reading of the source text
	edges = import_edges(ctx, proj, pool)
	lines += [f"imports\t{e['module']}" for e in edges]
	real += [f"imports|{e['real']}" for e in edges]
	return {'proj': proj, 'lines': lines, 'real': real, 'results': results, 'frame_bad': frame_bad, 'reload_bad': reload_bad, 'memo_bad': memo_bad,
		'residue_bad': residue_bad, 'imports_bad': [e for e in edges if e['real'] != e['ast']]}


def ast_imports(source: str) -> str:
	"""All top-level imports of a source text, read with Python's own parser (independent of tranp's node classes)."""
	import ast
	try:
		tree = ast.parse(source)
	except SyntaxError:
		return 'none'
	out: list[str] = []
	for st in tree.body:
		if isinstance(st, ast.ImportFrom):
			out.append(st.module or '')
		elif isinstance(st, ast.Import):
			out.extend(a.name for a in st.names)
	return ','.join(out)


def import_edges(ctx: Ctx, proj: str, pool: list[dict[str, Any]]) -> list[dict[str, Any]]:
	"""Entrypoints.load parses one file and registers nothing in Modules: a session of its own, only used as a parser."""
	try:
		probe = RealSession(proj, warm_cache(ctx, prelude(ctx)['cache']))
	except Exception:  # noqa: BLE001 - reported by the session itself (`app-construction`)
		probe = None
	out = []
	for mod in pool:
		try:
			with op_budget():
				rl = ','.join(i.import_path.tokens for i in probe.eps.load(mod['name']).imports)  # type: ignore[union-attr]
		except (Exception, OpTimeout):  # noqa: BLE001 - a file that does not parse has no edges (the model says `none` as well)
			rl = 'none'
		out.append({'module': mod['name'], 'real': rl, 'ast': ast_imports(render_source(mod)), 'source': render_source(mod)})
	return out


# ---------------------------------------------------------------------------------------------
# fresh-process oracle


def fresh_results(ctx: Ctx, proj: str, queries: list[dict[str, Any]], hash_seed: str, jobs: int = 4, tpl: str | None = None) -> dict[str, list[Any]]:
	if not queries:
		return {}
	# the same request over the same files under the same hash seed is asked once per run (several corpus cases share a pool)
	digest = proj_digest(proj)
	def ck(q: dict[str, Any]) -> str:
		return hashlib.sha256(json.dumps([digest, tpl, hash_seed, q.get('module'), q.get('main')]).encode()).hexdigest()
	known = {q['id']: _FRESH[ck(q)] for q in queries if ck(q) in _FRESH}
	asked = [q for q in queries if q['id'] not in known]
	if not asked:
		return known
	out = _fresh_results(proj, asked, hash_seed, jobs, tpl)
	for q in asked:
		_FRESH[ck(q)] = out[q['id']]
	return {**known, **out}


_FRESH: dict[str, list[Any]] = {}
_DIGESTS: dict[str, str] = {}


def proj_digest(proj: str) -> str:
	if proj not in _DIGESTS:
		parts = []
		for root, _dirs, files in sorted(os.walk(proj)):
			for fn in sorted(files):
				with open(os.path.join(root, fn), encoding='utf-8') as f:
					parts.append([os.path.relpath(os.path.join(root, fn), proj), f.read()])
		_DIGESTS[proj] = hashlib.sha256(json.dumps(parts).encode()).hexdigest()
	return _DIGESTS[proj]


def _fresh_results(proj: str, queries: list[dict[str, Any]], hash_seed: str, jobs: int, tpl: str | None) -> dict[str, list[Any]]:
	env = dict(os.environ)
	env['PYTHONHASHSEED'] = hash_seed
	env['PYTHONPATH'] = f"{os.path.join(common.VERIF, 'compat')}:{common.REPO}:{common.VERIF}"
	env['PYTHONDONTWRITEBYTECODE'] = '1'
	req = json.dumps({'proj': proj, 'queries': queries, 'jobs': jobs, 'tpl': tpl})
	try:
		p = subprocess.run(['/venv/bin/python', os.path.join(common.VERIF, 'harness', 'c04_fresh.py')], input=req, capture_output=True,
			text=True, cwd=common.REPO, env=env, timeout=1200)
	except subprocess.TimeoutExpired as e:
		raise common.InfraError('fresh-process oracle timed out') from e
	if p.returncode != 0:
		raise common.InfraError(f'fresh-process oracle failed: {p.stderr[-1500:]}')
	out: dict[str, list[Any]] = {}
	for line in p.stdout.splitlines():
		rec = json.loads(line)
		if rec['res'][0] == 'oracle-crash':
			raise common.InfraError(f"fresh-process oracle crashed: {rec['res'][1]}")
		out[rec['id']] = rec['res']
	return out


def query_id(r: dict[str, Any]) -> str:
	return f"main:{common.hx(r['main'])}" if r['target'] == MAIN else f"mod:{r['target']}"


def classify(r: dict[str, Any]) -> str:
	if r['dirty']:
		return 'failed-load-retry'
	if r['dep_missing']:
		return 'dep-unloaded'
	if r['prelude_target']:
		return 'lib-closure-first'
	return 'session-vs-fresh'


def compare_with_fresh(ctx: Ctx, res: SearchResult, case: dict[str, Any], run: dict[str, Any], seeds: list[str], seen: set[str]) -> None:
	if run.get('crash'):
		res.cases += 1
		res.findings.append(Finding(key='app-construction', what=f"setting up the App / Interactive runner raised {run['crash']}", replay={'case': case}))
		return
	queries: dict[str, dict[str, Any]] = {}
	for r in run['results']:
		qid = query_id(r)
		if qid not in queries:
			queries[qid] = {'id': qid, 'module': r['target']} if r['target'] != MAIN else {'id': qid, 'main': r['main']}
	fresh_by_seed = fresh_by_seeds(ctx, run['proj'], list(queries.values()), seeds)
	base = fresh_by_seed[seeds[0]]
	for hs in seeds[1:]:
		for qid, fr in fresh_by_seed[hs].items():
			res.cases += 1
			if fr != base[qid]:
				res.findings.append(Finding(key='hash-seed', what=f'fresh transpile of {qid} differs between PYTHONHASHSEED={seeds[0]} and {hs}',
					replay={'case': case, 'query': queries[qid], 'seed_a': seeds[0], 'seed_b': hs, 'a': base[qid], 'b': fr}))
	for r in run['results']:
		res.cases += 1
		qid = query_id(r)
		seen.add(f"{qid}:{r['op']}:{case.get('id')}")
		fr = base[qid]
		key = None
		if r['res'] != fr:
			key = classify(r)
			own_seed = os.environ.get('PYTHONHASHSEED', 'random')
			if key == 'session-vs-fresh' and seeds[0] != own_seed and own_seed != 'random':
				# the session ran under this process's hash seed: does a fresh process under the SAME seed agree with it?
				same = fresh_results(ctx, run['proj'], [queries[qid]], own_seed, 1)[qid]
				if same == r['res']:
					key = 'hash-seed'
		res.histogram[key or f"equal:{r['res'][0]}"] = res.histogram.get(key or f"equal:{r['res'][0]}", 0) + 1
		if key:
			res.findings.append(Finding(key=key, what=f"op {r['op']} {r['kind']}({r['target']}) in the session gives {short(r['res'])}, a fresh process (PYTHONHASHSEED={seeds[0]}) gives {short(fr)}{first_diff(r['res'], fr)}",
				replay={'case': case, 'op_index': r['op'], 'session': r['res'], 'fresh': fr, 'facts': {k: r[k] for k in ('dirty', 'dep_missing', 'registered_before')}}))
		elif len(res.samples) < 2:
			res.samples.append({'target': r['target'], 'op': r['op'], 'result': short(r['res'])})


def fresh_by_seeds(ctx: Ctx, proj: str, queries: list[dict[str, Any]], seeds: list[str]) -> dict[str, dict[str, list[Any]]]:
	if len(seeds) == 1:
		return {seeds[0]: fresh_results(ctx, proj, queries, seeds[0])}
	from concurrent.futures import ThreadPoolExecutor
	out: dict[str, dict[str, list[Any]]] = {}
	with ThreadPoolExecutor(max_workers=len(seeds)) as ex:
		futs = {hs: ex.submit(fresh_results, ctx, proj, queries, hs, 2) for hs in seeds}
		for hs, fu in futs.items():
			out[hs] = fu.result()
	return out


def case_queries(case: dict[str, Any]) -> list[dict[str, Any]]:
	"""The fresh-process requests a session over `case` will be compared with (known before the session runs: every transpile
	target, every re-submitted source)."""
	queries: dict[str, dict[str, Any]] = {}
	for op in case['ops']:
		if op[0] == 'transpile':
			r = {'target': op[1], 'main': None}
		elif op[0] == 'resubmit':
			r = {'target': MAIN, 'main': render_source(op[1])}
		else:
			continue
		qid = query_id(r)
		if qid not in queries:
			queries[qid] = {'id': qid, 'module': r['target']} if r['target'] != MAIN else {'id': qid, 'main': r['main']}
	return list(queries.values())


class FreshAhead:
	"""The fresh-process answers of the search, asked for in a background thread while the sessions of the correspondence streams
	run in this process (the answers depend on the files and the request only: they land in the run's answer table `_FRESH`, keyed
	by the content of the project). Nothing depends on how far it gets: what is not there when the search asks is asked then."""

	def __init__(self, ctx: Ctx, cases: list[dict[str, Any]], all_seed_cases: int) -> None:
		import threading
		self.ctx, self.cases, self.all = ctx, cases, all_seed_cases
		self.stop = False
		self.done = 0
		self.thread = threading.Thread(target=self._work, daemon=True)
		self.thread.start()

	def _work(self) -> None:
		for n, case in enumerate(self.cases):
			import time
			if self.stop or time.time() - self.ctx.t0 > (2400 if self.ctx.thorough else 420):
				return
			try:
				proj = self.ctx.tmpdir('c04-proj-')
				write_pool(proj, case['pool'])
				seeds = case.get('seeds') or (HASH_SEEDS if n < self.all else [HASH_SEEDS[n % len(HASH_SEEDS)]])
				fresh_by_seeds(self.ctx, proj, case_queries(case), seeds)
				self.done += 1
			except Exception:  # noqa: BLE001 - the search asks again and reports
				return

	def join(self) -> None:
		self.thread.join()


def dict_diff(a: dict[str, Any], b: dict[str, Any]) -> str:
	for k in a:
		if k not in b:
			return f'{k} is gone'
		if a[k] != b[k]:
			return f'{k}: {a[k]!r} became {b[k]!r}'
	extra = [k for k in b if k not in a]
	return f'{extra[0]} is new' if extra else 'same entries in another order' if list(a) != list(b) else 'no difference'


def first_diff(a: list[Any], b: list[Any]) -> str:
	if a[0] == 'text' and b[0] == 'text':
		for x, y in zip(str(a[1]).splitlines(), str(b[1]).splitlines()):
			if x != y:
				return f' (first differing line: {x.strip()!r} vs {y.strip()!r})'
	return ''


def short(res: list[Any]) -> str:
	try:
		return f'{res[0]}:{str(res[1])[-80:]!r}' if res[0] == 'text' else f'{res[0]}:{str(res[1])[:200]}'
	except Exception:  # noqa: BLE001 - a result of an unexpected shape is shown as it is
		return repr(res)[:200]


# ---------------------------------------------------------------------------------------------
# cases


def corpus_cases() -> list[dict[str, Any]]:
	d = os.path.join(common.CORPUS_DIR, PROP)
	out = []
	if os.path.isdir(d):
		for fn in sorted(os.listdir(d)):
			if fn.endswith('.json'):
				with open(os.path.join(d, fn), encoding='utf-8') as f:
					rec = json.load(f)
				rec['id'] = f'corpus/{fn}'
				out.append(rec)
	return out


def norm_case(rec: dict[str, Any]) -> dict[str, Any]:
	"""JSON round trip turns tuples into lists; normalise to the generator's shapes."""
	def norm_mod(m: dict[str, Any]) -> dict[str, Any]:
		if m.get('stub') == 'g':
			return stub_g()
		if m.get('stub') == 'h':
			return stub_h(int(m.get('hv', 0)))
		return {'name': m['name'], 'ok': bool(m['ok']), 'imports': [tuple(x) for x in m['imports']],
			'classes': [{'name': c['name'], 'methods': [{'name': x['name'], 'call': tuple(x['call']) if x.get('call') else None, 'bad': bool(x.get('bad')), 'lam': bool(x.get('lam')),
				**({'gen': x['gen']} if x.get('gen') else {}), **({'src': list(x['src'])} if x.get('src') else {})} for x in c['methods']]} for c in m['classes']],
			'vars': [tuple(x) for x in m['vars']], **({'crash': True} if m.get('crash') else {}), **({'late': int(m['late'])} if m.get('late') else {}), **({'exprs': [int(n) for n in m['exprs']]} if m.get('exprs') else {})}
	pool = [norm_mod(m) for m in rec['pool']]
	ops = [[o[0], norm_mod(o[1])] if o[0] == 'resubmit' else [o[0], o[1]] for o in rec['ops']]
	return {'id': rec.get('id', '?'), 'pool': pool, 'ops': ops}


def gen_cases(ctx: Ctx, stream: str, n: int, max_ops: int, p_bad: float) -> list[dict[str, Any]]:
	rng = ctx.sub_rng(stream)
	pre_names = [m['name'] for m in prelude(ctx)['mods']]
	cases = []
	for i in range(n):
		pool = gen_pool(rng, p_bad)
		ops = gen_ops(rng, pool, rng.randint(max(4, max_ops // 2), max_ops), p_bad, pre_names)
		cases.append({'id': f'{stream}#{i}', 'pool': pool, 'ops': ops})
	return cases


def shared_generic_case(ctx: Ctx) -> dict[str, Any]:
	"""Two modules of one session instantiate the generic class of the shapes module with DIFFERENT actual types (operator and methods
	whose parameters nest the class type variable), requested in both orders, around an unload, and the shapes module itself (methods
	with several type variables of their own); every answer under ALL hash seeds."""
	rng = ctx.sub_rng('shared-generic')
	h = stub_h(rng.randrange(H_VARIANTS))
	users = rng.sample(['app.a', 'app.ab', 'app.b', 'app.ba', 'app.c'], 2)
	if h_box_src(users[0], 'add') == h_box_src(users[1], 'add'):
		users[1] = next(n for n in ['app.a', 'app.ab', 'app.b', 'app.ba', 'app.c'] if h_box_src(n, 'add') != h_box_src(users[0], 'add'))
	pool = [h]
	for u in users:
		forms = rng.sample(H_BOX_FORMS, 2)
		pool.append({'name': u, 'ok': True, 'imports': [(H_NAME, 'Box')], 'vars': [], 'classes': [{'name': f'{cls_prefix(u)}0', 'methods': [
			{'name': n, 'call': (H_NAME, 'Box', 'opt'), 'bad': False, 'lam': False, 'src': h_box_src(u, f)} for n, f in zip(('g', 'h'), ['add', forms[0]] if forms[0] != 'add' else ['add', forms[1]])]}]})
	x, y = users
	ops = [['transpile', x], ['transpile', y], ['transpile', x], ['unload', y], ['transpile', y], ['transpile', H_NAME], ['unload', H_NAME], ['transpile', y], ['transpile', x]]
	return {'id': 'shared-generic#0', 'pool': pool, 'ops': ops, 'seeds': list(HASH_SEEDS)}


def case_class(case: dict[str, Any]) -> str:
	bad = sum(1 for m in case['pool'] if not m['ok'] or m.get('crash') or any(not ok for _, ok in m['vars']) or any(n == 'Nope' for _, n in m['imports']))
	late = sum(1 for m in case['pool'] if m.get('late'))
	return f"modules={len(case['pool'])},bad={bad},late={min(late, 2)},cycle={int(has_cycle(case['pool']))},ops<{(len(case['ops']) // 10 + 1) * 10}"


_RUNS: dict[str, dict[str, Any]] = {}
_CASES: dict[str, dict[str, Any]] = {}
# the generated library closure table (translate/gen_lib_closure.py: AST only), compared with what the real code registers
LIB_TABLE: dict[str, Any] = {}


def closure_table_diff(ctx: Ctx) -> str:
	"""'' when Generated/LibClosure.lean (AST reading of library_paths(), the search directories and the stub files) says what a
	real fresh App registers after loading its libraries: the same libraries in the same order, the same set of modules, and for
	each module the import edges the real `Entrypoint.imports` gives, in order."""
	if not LIB_TABLE:
		return 'the library closure table was not generated'
	pre = prelude(ctx)
	if list(LIB_TABLE['libs']) != list(pre['libs']):
		return f"library_paths(): generated {LIB_TABLE['libs']}, real {pre['libs']}"
	real = {m['name']: list(m['imports']) for m in pre['mods']}
	gen = {k: list(v) for k, v in LIB_TABLE['modules'].items()}
	if sorted(real) != sorted(gen):
		return f'modules of the closure: generated {sorted(gen)}, registered by the real code {sorted(real)}'
	for k in sorted(gen):
		if gen[k] != real[k]:
			return f'import edges of {k}: generated {gen[k]}, Entrypoint.imports {real[k]}'
	return ''


def case_warm(ctx: Ctx, case: dict[str, Any]) -> bool:
	"""Which sessions start with the library closure already in their cache directory: two of three generated cases, every other
	corpus case (alternating with the run's seed); the corpus cases about loading library modules first always start empty."""
	cid = str(case.get('id', ''))
	if cid.startswith('corpus/'):
		return not cid.startswith('corpus/lib-') and (sum(map(ord, cid)) + ctx.seed) % 2 == 0
	return cid.rsplit('#', 1)[-1].isdigit() and int(cid.rsplit('#', 1)[-1]) % 3 != 0


def session_run(ctx: Ctx, case: dict[str, Any]) -> dict[str, Any]:
	if case['id'] not in _RUNS:
		_CASES[case['id']] = case
		_RUNS[case['id']] = run_session(ctx, case['pool'], case['ops'], warm=case_warm(ctx, case))
	return _RUNS[case['id']]


def correspond_budgeted(ctx: Ctx, name: str, triples: list[Any]) -> Stream:
	"""The model side under a budget: the whole stream first; when that does not answer in time, case by case, and a case the model
	does not answer within its own budget is a disagreement of that case (not a hang, not a lost run)."""
	import functools
	orig = common.lean_driver
	try:
		common.lean_driver = functools.partial(orig, timeout=600 if ctx.thorough else 150)  # type: ignore[assignment]
		try:
			return common.correspond(name, triples, 'session', classify=case_class)
		except common.InfraError as e:
			if 'timeout' not in str(e):
				raise
		good, slow = [], []
		for t in triples:
			try:
				orig('session', t[1], timeout=45)
				good.append(t)
			except common.InfraError:
				slow.append(t)
		st = common.correspond(name, good, 'session', classify=case_class)
		for t in slow:
			st.cases += 1
			st.disagreements.append({'case': t[0], 'op_index': 0, 'op': '(whole case)', 'real': 'answered', 'model': 'no answer within 45 s', 'ops': t[1]})
		return st
	finally:
		common.lean_driver = orig  # type: ignore[assignment]


def stream_session(ctx: Ctx, name: str, cases: list[dict[str, Any]]) -> Stream:
	triples = []
	for case in cases:
		if case['id'] not in _RUNS and over_deadline(ctx, f'stream {name}'):
			continue
		run = session_run(ctx, case)
		pre = world_lines(ctx, case['pool'])
		triples.append((case, [*pre, *run['lines']], ['ok'] * len(pre) + run['real']))
	st = correspond_budgeted(ctx, name, triples)
	for d in st.disagreements:
		if isinstance(d.get('case'), dict):
			d['case'] = {'id': d['case'].get('id'), 'pool': d['case'].get('pool'), 'ops': d['case'].get('ops')}
	st.note = ('one long-lived real App per case (real Interactive for __main__), ops load/transpile/unload/resubmit; observed after every op: '
		'outcome (exact exception enum for the load stage), Modules.__modules, Entrypoints.__entrypoints, SymbolDB.__completed, '
		'symbol keys per module, len(__stack_on_depends), len(Procedure.__stacks)')
	return st


# ---------------------------------------------------------------------------------------------
# searches


def search_fresh(ctx: Ctx, cases: list[dict[str, Any]], all_seed_cases: int) -> SearchResult:
	res = SearchResult('every transpile/resubmit result of a session == the same request in a fresh process (empty cache dir), PYTHONHASHSEED in {0,1,2,random}')
	seen: set[str] = set()
	for n, case in enumerate(cases):
		if case['id'] not in _RUNS or over_deadline(ctx, 'search fresh'):
			continue
		run = session_run(ctx, case)
		seeds = case.get('seeds') or (HASH_SEEDS if n < all_seed_cases else [HASH_SEEDS[n % len(HASH_SEEDS)]])
		compare_with_fresh(ctx, res, case, run, seeds, seen)
	res.distinct = len(seen)
	res.note = f'{len(cases)} sessions; the first {all_seed_cases} under all four hash seeds, the others under one rotating seed'
	return res


def search_imports(ctx: Ctx, cases: list[dict[str, Any]]) -> SearchResult:
	res = SearchResult('Entrypoint.imports (the edges Modules.load / unload follow) == all top-level imports of the source text read with Python ast: pool modules, stub modules, the library closure')
	seen: set[str] = set()
	for case in cases:
		run = session_run(ctx, case)
		res.cases += len(case['pool'])
		for e in run['imports_bad']:
			if e['source'] not in seen:
				seen.add(e['source'])
				res.findings.append(Finding(key='imports-ast', what=f"module {e['module']}: Entrypoint.imports gives [{e['real']}], the source has the top-level imports [{e['ast']}]",
					replay={'case': case, 'module': e['module'], 'source': e['source'], 'real': e['real'], 'ast': e['ast']}))
	# the real files of the library closure
	from rogw.tranp.file.loader import ISourceLoader
	try:
		ses = RealSession(ctx.tmpdir('c04-prelude-'), warm_cache(ctx, prelude(ctx)['cache']))
		files = ses.app.resolve(ISourceLoader)
	except Exception as e:  # noqa: BLE001
		res.findings.append(Finding(key='app-construction', what=f'setting up an App to read the library closure raised {canon(e)}', replay={}))
		return res
	for m in prelude(ctx)['mods']:
		res.cases += 1
		try:
			with op_budget():
				mod = ses.modules.load(m['name'])
				rl = ','.join(i.import_path.tokens for i in mod.entrypoint.imports)
				al = ast_imports(files.load(m['name'].replace('.', '/') + '.py'))
		except OpTimeout:
			SKIPPED['imports: library module over budget'] = SKIPPED.get('imports: library module over budget', 0) + 1
			continue
		except Exception as e:  # noqa: BLE001 - every module of the closure loaded in the prelude session: it loads here too
			res.findings.append(Finding(key='library-load', what=f"loading the library closure module {m['name']} in a second App raised {canon(e)}", replay={'module': m['name']}))
			continue
		if rl != al:
			res.findings.append(Finding(key='imports-ast', what=f"library module {m['name']}: Entrypoint.imports gives [{rl}], the file has the top-level imports [{al}]", replay={'module': m['name'], 'real': rl, 'ast': al}))
	res.distinct = res.cases
	return res


def search_memo(ctx: Ctx, cases: list[dict[str, Any]]) -> SearchResult:
	res = SearchResult('no caller mutates a memoised list / dict / set in place (node memos, node table memos: recording containers in every session of this run)')
	attributed = 0
	for case in cases:
		run = session_run(ctx, case)
		res.cases += len(case['ops'])
		attributed += len(run['memo_bad'])
		seen: set[str] = set()
		for b in run['memo_bad']:
			k = f"{b['owner']}[{b['key']}].{b['method']}@{b['site']}"
			if k not in seen:
				seen.add(k)
				res.findings.append(Finding(key='memo-mutated', what=f"op {b['op']}: the memoised value {b['owner']}[{b['key']}] was mutated in place ({b['method']}) by {b['site']}", replay={'case': case, **b}))
	# the other searches (Interactive, Runner, depends) run sessions of their own in this process
	rest: dict[str, dict[str, Any]] = {}
	for e in MEMO_LOG:
		rest.setdefault(f"{e['owner']}[{e['key']}].{e['method']}@{e['site']}", e)
	if len(MEMO_LOG) > attributed and not res.findings:
		for k, e in rest.items():
			res.findings.append(Finding(key='memo-mutated', what=f"the memoised value {e['owner']}[{e['key']}] was mutated in place ({e['method']}) by {e['site']} (in a session of the Interactive / Runner / depends searches)", replay=dict(e)))
	res.cases += 1
	res.distinct = res.cases
	res.note = f'{len(MEMO_LOG)} recorded mutations; recording is installed: {_MEMO_TRACKED}'
	return res


def search_residue(ctx: Ctx, cases: list[dict[str, Any]]) -> SearchResult:
	res = SearchResult('after every op: Entrypoints, SymbolDB keys and SymbolDB completed know only modules that Modules lists, every module Modules lists has its entrypoint; after unload m none of the four knows m (each table read on its own)')
	for case in cases:
		run = session_run(ctx, case)
		res.cases += len(case['ops'])
		for b in run['residue_bad'][:1]:
			ops = case['ops'][:b['op'] + 1]
			shown = ' ; '.join(f"resubmit {render_source(o[1])!r}" if o[0] == 'resubmit' else f'{o[0]} {o[1]}' for o in ops[-3:])
			res.findings.append(Finding(key='unload-residue', what=f"after op {b['op']} (.. {shown}): {b['what']}", replay={'case': case, **b}))
	res.distinct = res.cases
	return res


def search_frame(ctx: Ctx, cases: list[dict[str, Any]]) -> SearchResult:
	res = SearchResult('no op changes node classes, definition node facts, symbol objects or symbol attribute trees of another registered module; a module registered again says what it said at its first load')
	for case in cases:
		run = session_run(ctx, case)
		res.cases += len(case['ops'])
		for b in run['frame_bad']:
			res.findings.append(Finding(key='frame', what=f"op {b['op']} changed module {b['module']}: {b['what']}", replay={'case': case, **b}))
		for b in run['reload_bad']:
			res.findings.append(Finding(key='reload-facts', what=f"after op {b['op']} module {b['module']} (same file) no longer says what it said when it was first loaded in this session: {b['what']}", replay={'case': case, **b}))
	res.distinct = res.cases
	return res




DEPENDS_SOURCES = {
	'app.dbad': "def broken() -> int:\n\ts = 'x'\n\tv = [1, 2]\n\treturn s.no_such_attribute()\n",
	'app.dlist': 'def numbers() -> list[int]:\n\treturn [1, 2, 3]\n',
	'app.dstr': "def name() -> str:\n\treturn 'tranp'\n",
	'app.dnone': 'def zero() -> int:\n\treturn 0\n',
}


def search_depends(ctx: Ctx) -> SearchResult:
	"""`Py2Cpp.__stack_on_depends` exercised: a project template dir (configuration `template_dirs`) overrides literal/string.j2 and
	literal/list.j2 with `emit_depends(...)`; sessions with a transpile that raises half-way (its frame stays on the stack, no
	try/finally) followed by ordinary transpiles; every text == the fresh-process text under the same configuration."""
	res = SearchResult('dependency stack: include lists after a failed transpile == fresh process (project template dir with emit_depends)')
	rng = ctx.sub_rng('depends')
	stock = os.path.join(common.REPO, 'data/cpp/template')
	proj = ctx.tmpdir('c04-dep-')
	tpl = os.path.join(proj, 'template')
	for name, header in {'literal/string.j2': '<string>', 'literal/list.j2': '<vector>'}.items():
		with open(os.path.join(stock, name), encoding='utf-8') as f:
			body = f.read()
		os.makedirs(os.path.dirname(os.path.join(tpl, name)), exist_ok=True)
		with open(os.path.join(tpl, name), 'w', encoding='utf-8') as f:
			f.write("{{- emit_depends('%s') -}}\n%s" % (header, body))
	for mod, src in DEPENDS_SOURCES.items():
		path = os.path.join(proj, mod.replace('.', '/') + '.py')
		os.makedirs(os.path.dirname(path), exist_ok=True)
		with open(path, 'w', encoding='utf-8') as f:
			f.write(src)
	names = list(DEPENDS_SOURCES)
	fresh = fresh_results(ctx, proj, [{'id': m, 'module': m} for m in names], HASH_SEEDS[ctx.seed % len(HASH_SEEDS)], tpl=tpl)
	if fresh['app.dlist'][0] != 'text' or '#include <vector>' not in fresh['app.dlist'][1] or fresh['app.dbad'][0] == 'text':
		res.findings.append(Finding(key='depends-setup', what=f"the emit_depends configuration does not behave as expected in a fresh process: {short(fresh['app.dlist'])} / {short(fresh['app.dbad'])}", replay={'fresh': fresh}))
		return res
	orders = [['app.dbad', 'app.dlist', 'app.dstr', 'app.dnone', 'app.dlist'], ['app.dlist', 'app.dbad', 'app.dnone', 'app.dstr'],
		['app.dstr', 'app.dlist', 'app.dnone']]
	for _ in range(ctx.scale(1, 6)):
		orders.append([rng.choice(names) for _ in range(rng.randint(3, 7))])
	for order in orders:
		try:
			ses = RealSession(proj, ctx.tmpdir('c04-cache-'), tpl)
		except Exception as e:  # noqa: BLE001
			res.findings.append(Finding(key='app-construction', what=f'setting up the App with a project template dir raised {canon(e)}', replay={'order': order}))
			break
		for i, m in enumerate(order):
			res.cases += 1
			got = list(ses.transpile(m))
			if got != fresh[m]:
				res.findings.append(Finding(key='depends-stack', what=f"transpile({m}) as op {i} of {order} gives {short(got)}, a fresh process gives {short(fresh[m])}{first_diff(got, fresh[m])}",
					replay={'order': order, 'op_index': i, 'sources': DEPENDS_SOURCES, 'session': got, 'fresh': fresh[m]}))
				break
		res.histogram['failing-first' if order[0] == 'app.dbad' else 'other'] = res.histogram.get('failing-first' if order[0] == 'app.dbad' else 'other', 0) + 1
	res.distinct = len(orders)
	return res


def search_prop_keys(ctx: Ctx) -> SearchResult:
	"""`Node.prop_keys` keeps its result in a class attribute (node.py:179-198): process-wide state that no unload clears.
	After all the sessions of this run every cached list must equal the recomputed one (the class table itself is C09's)."""
	from rogw.tranp.syntax.node.node import Node
	res = SearchResult('class-level Node.prop_keys cache after all sessions == recomputed (process-wide state not cleared by unload)')
	todo = [Node]
	classes: list[type] = []
	while todo:
		c = todo.pop()
		if c not in classes:
			classes.append(c)
			todo.extend(c.__subclasses__())
	names: dict[str, list[type]] = {}
	for c in classes:
		names.setdefault(c.__name__, []).append(c)
	for c in classes:
		key = f'__{c.__name__}_prop_keys__'
		if key not in c.__dict__:
			continue
		res.cases += 1
		cached = list(c.__dict__[key])
		try:
			delattr(c, key)
			fresh = list(c.prop_keys())
		except Exception as e:  # noqa: BLE001
			res.findings.append(Finding(key='prop-keys-cache', what=f'recomputing prop_keys of {c.__name__} raised {canon(e)}', replay={'class': c.__name__}))
			continue
		res.histogram[f'keys={len(cached)}'] = res.histogram.get(f'keys={len(cached)}', 0) + 1
		if cached != fresh:
			res.findings.append(Finding(key='prop-keys-cache', what=f'cached prop_keys of {c.__name__} = {cached}, recomputed = {fresh}', replay={'class': c.__name__, 'cached': cached, 'fresh': fresh}))
		# the cache key contains only the class NAME and is looked up with hasattr (through the MRO): a subclass with the same
		# name as one of its bases would read the base's list
		for b in c.__mro__[1:]:
			if b.__name__ == c.__name__ and b is not c:
				res.findings.append(Finding(key='prop-keys-cache', what=f'{c.__module__}.{c.__name__} shares its cache key with its base {b.__module__}.{b.__name__}', replay={'class': c.__name__}))
	res.distinct = res.cases
	res.note = f'{len(classes)} node classes, {res.cases} with a cached list; same-named classes (different modules, unrelated by inheritance): {sorted(n for n, cs in names.items() if len(cs) > 1)}'
	return res


def audit_hash_order() -> SearchResult:
	"""Information: every place in rogw/tranp that builds a hash-ordered container (set literal / comprehension, set(), frozenset()),
	takes an address / hash value (id(), hash()) or lists the file system, with how the value is used. The model has no such container; the multi-seed fresh-process oracle is the check."""
	import ast
	res = SearchResult('audit (information): hash-ordered containers in rogw/tranp, by use')
	sites: list[str] = []
	for path in common.repo_py_files('rogw/tranp'):
		try:
			with open(path, encoding='utf-8') as f:
				tree = ast.parse(f.read())
		except SyntaxError:
			continue
		res.cases += 1
		parents: dict[int, ast.AST] = {}
		for node in ast.walk(tree):
			for ch in ast.iter_child_nodes(node):
				parents[id(ch)] = node
		for node in ast.walk(tree):
			kind = None
			if isinstance(node, ast.Set):
				kind = 'set-literal'
			elif isinstance(node, ast.SetComp):
				kind = 'set-comprehension'
			elif isinstance(node, ast.Call) and isinstance(node.func, ast.Name) and node.func.id in ('set', 'frozenset'):
				kind = f'{node.func.id}()'
			elif isinstance(node, ast.Call) and isinstance(node.func, ast.Name) and node.func.id in ('hash', 'id'):
				kind = f'{node.func.id}() (address / hash value)'
			elif isinstance(node, ast.Call) and isinstance(node.func, ast.Attribute) and node.func.attr in ('glob', 'listdir', 'scandir', 'iglob', 'walk'):
				kind = f'{node.func.attr}() (file system order)'
			if not kind:
				continue
			par = parents.get(id(node))
			use = type(par).__name__
			if isinstance(par, ast.Compare) and any(isinstance(o, (ast.In, ast.NotIn)) for o in par.ops):
				use = 'membership-test'
			elif isinstance(par, (ast.For, ast.comprehension)) and getattr(par, 'iter', None) is node:
				use = 'ITERATED'
			elif isinstance(par, ast.Call) and isinstance(par.func, ast.Name):
				use = f'arg of {par.func.id}()' + (' ORDER-SENSITIVE' if par.func.id in ('list', 'tuple', 'enumerate', 'zip', 'iter', 'next') else '')
			elif isinstance(par, ast.Call) and isinstance(par.func, ast.Attribute) and par.func.attr == 'join':
				use = 'JOINED'
			elif isinstance(par, (ast.Assign, ast.AnnAssign, ast.Return)):
				use = {'Assign': 'assigned', 'AnnAssign': 'assigned', 'Return': 'returned'}[type(par).__name__]
			rel = os.path.relpath(path, common.REPO)
			sites.append(f'{rel}:{node.lineno} {kind} -> {use}')
			res.histogram[f'{kind} -> {use}'] = res.histogram.get(f'{kind} -> {use}', 0) + 1
	res.distinct = len(sites)
	res.samples = sites[:2]
	res.note = f'{len(sites)} sites in {res.cases} files: ' + '; '.join(sites)
	return res


def good_module(rng: random.Random, name: str, earlier: list[dict[str, Any]]) -> dict[str, Any]:
	m = gen_module(rng, name, earlier, 0.0, [])
	m['imports'] = [(d, n) for d, n in m['imports'] if n != 'Nope']
	return m


_INTERACTIVE: list[dict[str, Any]] | None = None


def interactive_cases(ctx: Ctx) -> list[dict[str, Any]]:
	"""A, failing B, A again (and A, A) through the real Interactive.rebuild_module; the failing B of every kind."""
	global _INTERACTIVE
	if _INTERACTIVE is not None:
		return _INTERACTIVE
	rng = ctx.sub_rng('interactive')
	cases: list[dict[str, Any]] = []
	for n in range(ctx.scale(1, 8)):
		pool: list[dict[str, Any]] = []
		for name in ['app.a', 'app.ab', 'app.b']:
			pool.append(good_module(rng, name, list(pool)))
		a = good_module(rng, MAIN, list(pool))
		a2 = good_module(rng, MAIN, list(pool))
		failing = []
		f1 = good_module(rng, MAIN, list(pool))
		f1['ok'] = False
		failing.append(f1)
		f2 = good_module(rng, MAIN, list(pool))
		f2['vars'].append(('w0', False))
		failing.append(f2)
		f3 = good_module(rng, MAIN, list(pool))
		f3['imports'].append(('app.a', 'Nope'))
		failing.append(f3)
		f4 = good_module(rng, MAIN, list(pool))
		f4['classes'] = [{'name': 'M0', 'methods': [{'name': 'g', 'call': None, 'bad': True, 'lam': False}]}]
		failing.append(f4)
		# .. failing while the imports are loaded (nothing of the submission itself has been expanded yet): a missing file, a file
		# that does not parse
		f5 = good_module(rng, MAIN, list(pool))
		f5['imports'].append(('app.zz', 'Zz0'))
		failing.append(f5)
		unparsable = good_module(rng, 'app.c', [])
		unparsable['ok'] = False
		pool.append(unparsable)
		f6 = good_module(rng, MAIN, list(pool[:3]))
		f6['imports'].append(('app.c', 'C0'))
		failing.append(f6)
		ops: list[list[Any]] = [['resubmit', a], ['resubmit', a]]
		for f in failing:
			ops += [['resubmit', f], ['resubmit', a], ['resubmit', a2]]
		# submissions that declare nothing (expression statements only), each with another text, then an ordinary one; and a failing
		# submission directly followed by one that declares nothing
		e1, e2 = rng.sample(range(100), 2)
		ops += [['resubmit', nothing_declared([e1])], ['resubmit', nothing_declared([e2, e1])], ['resubmit', a],
			['resubmit', f5], ['resubmit', nothing_declared([e2])], ['resubmit', f6], ['resubmit', {**a2, 'exprs': [e1]}], ['resubmit', a2]]
		cases.append({'id': f'interactive#{n}', 'pool': pool, 'ops': ops, 'seeds': [HASH_SEEDS[n % len(HASH_SEEDS)]]})
	_INTERACTIVE = cases
	return cases


def search_interactive(ctx: Ctx) -> SearchResult:
	"""Every text of the Interactive sessions equals the fresh one."""
	res = SearchResult('Interactive re-submissions with / without an intervening failing submission == fresh process')
	seen: set[str] = set()
	for case in interactive_cases(ctx):
		if over_deadline(ctx, 'search interactive'):
			continue
		run = session_run(ctx, case)
		compare_with_fresh(ctx, res, case, run, case['seeds'], seen)
	res.distinct = len(seen)
	return res


def search_runner(ctx: Ctx) -> SearchResult:
	"""The real Runner over the same targets in every order: each written file equals the fresh text of its module."""
	from rogw.tranp.bin.transpile import Runner
	from rogw.tranp.data.meta.types import ModuleMetaFactory
	from rogw.tranp.file.loader import ISourceLoader
	from rogw.tranp.module.modules import Modules
	from rogw.tranp.module.types import ModulePath, ModulePaths
	from rogw.tranp.transpiler.types import ITranspiler

	res = SearchResult('Runner target lists in all orders (forced run): every written file == fresh transpile of that module')
	rng = ctx.sub_rng('runner')
	seen: set[str] = set()
	for n in range(ctx.scale(1, 3)):
		if over_deadline(ctx, 'search runner'):
			continue
		pool: list[dict[str, Any]] = []
		names = ['app.a', 'app.ab', 'app.b', 'app.ba']
		for name in names:
			pool.append(good_module(rng, name, list(pool)) if not (n > 0 and name == 'app.b') else gen_module(rng, name, list(pool), 1.0, names))
		proj = ctx.tmpdir('c04-proj-')
		write_pool(proj, pool)
		targets = names[:ctx.scale(3, 4)]
		fresh = fresh_results(ctx, proj, [{'id': t, 'module': t} for t in targets], HASH_SEEDS[n % len(HASH_SEEDS)])
		case = {'id': f'runner#{n}', 'pool': pool, 'targets': targets}
		for perm in itertools.permutations(targets):
			res.cases += 1
			seen.add(f'{n}:{perm}')
			outdir = ctx.tmpdir('c04-out-')
			err = None
			try:
				app = make_app(proj, ctx.tmpdir('c04-cache-'))
				config = types.SimpleNamespace(force=True, profile=False, verbose=False, output_language='h', output_dirs=[outdir])
				paths = ModulePaths([ModulePath(t, language='py') for t in perm])
				runner = Runner(app.resolve(ISourceLoader), config, paths, app.resolve(Modules), app.resolve(ModuleMetaFactory), app.resolve(ITranspiler))
				with op_budget(OP_BUDGET_S * 2):
					runner.run()
			except OpTimeout:
				err = 'timeout: the Runner did not finish within its budget'
			except Exception as e:  # noqa: BLE001
				err = canon(e)
			stopped = False
			for t in perm:
				path = os.path.join(outdir, t.replace('.', '/') + '.h')
				fr = fresh[t]
				if stopped:
					got: list[Any] = ['not-run', None]
				elif os.path.exists(path):
					with open(path, encoding='utf-8', newline='') as f:
						got = ['text', f.read()]
				else:
					got = ['error', err]
					stopped = True
				ok = got[0] == 'not-run' or (got[0] == 'text' and fr == got) or (got[0] == 'error' and fr[0] != 'text')
				if not ok:
					res.findings.append(Finding(key='target-order', what=f'target {t} in order {perm}: runner gives {short(got)}, fresh process gives {short(fr)}',
						replay={'case': case, 'order': list(perm), 'target': t, 'runner': got, 'fresh': fr}))
			shutil.rmtree(outdir, ignore_errors=True)
		if len(res.samples) < 2:
			res.samples.append({'targets': targets, 'orders': len(list(itertools.permutations(targets)))})
	res.distinct = len(seen)
	return res


# ---------------------------------------------------------------------------------------------


STATEMENTS: dict[str, str] = {
	'inv': 'Coherent (every memo entry = the pure node function on the tree of its entrypoint; every entrypoint / cached AST = parse of the current source; symbol keys only of registered modules; symbol files only keys of their module; every entrypoint registered; every dependency of a registered module registered) holds in a fresh process and after every operation, also the ones that raise and roll back',
	'frame': 'load m (ok, or raising and rolled back) keeps every already registered module registered with its entrypoint + memo tables, symbol table entries, completed flag; stored symbol files and both stacks unchanged',
	'unload_clears / unload_cascade / unload_minimal / unload_exact': 'unload m removes m; every module that is left is untouched; nothing that is left depends on something removed (cascade complete); a dependency-closed set without m survives (cascade minimal); on the key strings no key full_joined(m, l) is left and the keys of remaining modules stay, also for prefix names app.a / app.ab',
	'stack_frames': 'a transpile leaves both stacks unchanged when it succeeds and at most its own frame on top when it raises; frames below are never touched or read',
	'inv_stable': 'Stable = Coherent + every registered module holds exactly its reference table + symbol files are reference tables; preserved by every operation (ok, raising, rolled back) that does not unload the pinned library base',
	'det_ref': 'in every reachable state transpile m = the reference result of m: render(m, tree, reference tables) for a module with reference table, the reference error (first failing import in load order / parser / ExpandModules) otherwise',
	'det': 'DETERMINISM over all histories: two processes over the same files with the same current in-memory source answer transpile m identically (texts, render errors, load errors), whatever their histories of load / transpile / unload / resubmit were and whichever operations failed',
	'inv_stableU / det_all': 'the same over ALL histories including unloads of library modules (cascade: afterwards only base modules are registered), for every module outside the library base; extra hypothesis BaseWorld: loading base modules while only base modules are registered restores their base tables',
	'failed_load_leaves_no_residue': 'for EVERY failure kind (syntax, missing file, missing imported name, failing import, RecursionError, Errors.Fatal = any unexpected exception inside the load): after a failed load of an unregistered module m from a coherent state, m is not registered and has no entrypoint, no symbol, no completed flag (the rollback is unconditional) — unless the library load that runs first had itself loaded m completely; non-vacuity example: a module with a free function taking `self` fails with Fatal, its importer fails the same way on the first and on the second request',
	'unload_resets / unload_noop': 'unload m of a registered module leaves nothing of m in the registry, the entrypoints (with the node tables and memos they own), the symbol table, the completed list and the memoised identities, after the whole cascade; unload of an unregistered module changes nothing',
	'unload_one_generated / unload_generated': 'GENERATED unload methods (translate/gen_unload_shape.py: every statement of Modules.unload, ModuleLoader.unload, Entrypoints.unload, SymbolDB.unload in source order in a small removal language; an early return, a new condition, another statement or an else branch is a TranslateError): run as programs over the model state, the statements before the cascade ARE the hand-written removal of one module (entrypoint, completed flag, symbol keys, registry entry + memoised identity: four unconditional removals), and the whole generated Modules.unload with the model unload as its recursive call IS the model unload with one more level of fuel (the cascade happens after the removal, over the dependents read in the state reached then)',
	'load_generated': 'GENERATED Modules.load (translate/gen_load_shape.py: guard, library load, re-check, registration before the imports, imports, processors, the rollback `except Exception: self.unload(p); raise` around the last two, the outer handlers, the return; the helpers __load_libraries / __load_dependencies / libralies pinned to the text the model was written from; anything else is a TranslateError): run as a program over the model state it IS the hand-written loadOne for every recursive loader and rollback, and loadAll is the recursion read from the source',
	'transpile_generated / resubmit_generated': 'GENERATED request paths (translate/gen_session_ops.py: Py2Cpp.transpile = push a dependency frame, Procedure.exec, pop, return result — no try/finally; Interactive.rebuild_module = set the source, unload the in-memory module, return its load — unconditional, in this order; any other statement is a TranslateError): run as programs over the model state they ARE the hand-written transpile / resubmit operations of the model',
	'inventory_unload': 'GENERATED inventory (translate/gen_session_state.py: every attribute / class-level / module-level container, every attribute rebound outside __init__, every memoised key, every setattr / cache decorator / global, every write to an attribute of another object, in all sources of rogw/tranp; writers pinned; verdict per site audited in translate/c04_state_audited.json): every site audited "removed by unload" or "owned by a per-module entry" names a model component in which unload m leaves nothing of m; every site audited "keyed by content" or "per-call stack" names a component unload does not touch',
	'inventory_backed': 'every component of the model state except the symbol files (file system) is backed by at least one site of the inventory',
	'inventory_audit_consistent': 'sites audited constant are written by __init__ only (class-level tables by nobody, also not from other files); sites audited removed-by-unload are written by a method named unload / clear; every memoised key is in a node table owned by an entrypoint or in the self-hosted parser',
	'lib_closure_reach / lib_closure_closed': 'GENERATED library closure (translate/gen_lib_closure.py: library_paths(), the search directories of SourceEnvPath and the top-level imports of the stub files, AST only; compared on every run with what a real App registers and with Entrypoint.imports): every module of the shipped closure is reached from library_paths() through imports of files (BaseWorld.reach), the libraries are in it and every import of one of its files is in it (World.libs_base / base_closed)',
	'baseWorld_load_shipped_partial': 'bounded instance of the hypothesis BaseWorld.load of det_all on the shipped closure, decided by the kernel on the model: after EVERY history of at most three load / transpile / unload operations on modules of the closure from a fresh process, loading the closure succeeds, registers nothing else, completes every module and gives every module the table of a plain load in a fresh process (the full statement — histories of any length — is kept as baseWorld_load_shipped_statement and NOT proved; the hypothesis itself — every reachable base-only state — stays a hypothesis)',
	'unload_fuel': 'the cascade of unload never runs out of fuel: every fuel >= number of registered modules gives the same state',
	'unload_load': 'unload m; load m gives m the tree of its source and exactly its reference table, as a load in any other stable state does',
	'targets_sound / targets': 'every result the Runner produces is the reference result of its target; runs over permuted target lists without failing target produce the same (target, text) pairs',
}
PARTIAL: dict[str, Any] = {
	'proved': 'cache coherence for all histories (inv, frame, unload_*, stack_frames); determinism for all histories of operations incl. failing ones (det, det_ref), unload/load = fresh load, target-order equivariance — on the model of the repaired Modules (rollback, cascade, re-check)',
	'cycles': 'the model follows the code on import cycles (registration before imports, Module.identity() of c3eaa55: depth-first walk of the import closure with a visited set, mid-load fallback -> Errors.Fatal for a missing import file, self-imports, rollback, cascade) and is tied by the streams on cyclic pools; det / det_all assume an acyclic import graph, so for cyclic pools session == fresh is checked by the search only',
	'remaining_hypotheses': 'World: dotted module names; ExpandModules / renderer read the symbol table only inside the import closure (proved for the descriptor language); acyclic import graph; no file imports the in-memory module; the library modules and their imports are a pinned base that the history does not unload; no RecursionError',
	'generated_model_parts': 'Py2Cpp.transpile and Interactive.rebuild_module (statement lists, proved equal to the hand-written transpile / resubmit: transpile_generated, resubmit_generated), Modules.load (statement program, proved equal to the hand-written loadOne / loadAll: load_generated), the four unload methods (statement lists, proved equal to the hand-written unloadOne / unload cascade: unload_one_generated, unload_generated), the inventory of state sites (inventory_*), the library closure with its import edges (lib_closure_*) are read from the sources on every run; an unknown shape is a TranslateError',
	'registry_residue': 'that Entrypoints / SymbolDB keys / SymbolDB completed never know a module Modules does not list, and that unload m leaves nothing of m in any of the four: proved on the model (inv: Coherent; unload_resets), tied by the streams (all four tables are in every observation), and checked on the real code alone after every op of every session (search unload-residue)',
	'regression': 'the three former counterexamples (failed-load-retry, dep-unloaded, lib-closure-first) are examples proved equal to the fresh result by decide, and corpus cases that must pass on the real code',
	'correspondence_only': 'that the real Modules/Entrypoints/SymbolDB/processors/transpile stacks behave like the model on generated pools (streams session, session-faulty); the concrete descriptor language (which keys ExpandModules inserts, when the renderer fails)',
	'search_only': 'PYTHONHASHSEED independence (incl. the order of lambda capture lists), byte equality of real texts with a fresh process, purity of Jinja/i18n rendering, node classes / definition node facts / symbol object identity and attribute trees of untouched and of reloaded modules (memoised node properties, symbol snapshot restore order), in-place mutation of memoised containers (recording lists / dicts / sets handed out by Memoize.get in every session), unloading library modules',
}
ASSUMPTIONS: list[str] = [
	'that the model state is ALL the state: no longer assumed wholesale — the inventory of state sites is generated from the sources on every run and a new or changed site (new attribute, new writer, new memoised key, new class-level container, new write into another object) breaks the tie until it is audited; what remains trusted: the hand-written verdict per site (translate/c04_state_audited.json, reasons in the generated table), state captured by closures, state inside lark / jinja2, and in-place mutation of a value through a local alias (not visible to the AST scan: recorded at run time by the memo oracle for memoised containers, by the symbol attribute dumps for symbols)',
	'module names are non-empty and contain no "#" (GoodName; true of dotted Python paths)',
	'ExpandModules reads the symbol table only at keys of the module, its direct imports and the pinned base (World.local_expand); the renderer depends only on the tables of an import-closed set containing the module and the base (RenderLocal) — both proved for the descriptor language of the driver (desc_local_expand, desc_render_local)',
	'for det: acyclic import graph (rank), no file imports the in-memory module, the library base is not unloaded by the history (unloading library modules is covered by the streams and the search only), and no operation hit RecursionError (model fuel; the cascade of unload has fuel = number of registered modules, which suffices)',
	'SymbolDB key order inside one module and the `_order_keys` order of symbol files are not modelled (no modelled consumer reads the order); store/restore is modelled as saving / re-inserting the module rows',
	'per-module DI containers (lang/di.py combine) are not part of this model (C19); all node memo tables of a module are modelled as one memo table per entrypoint; the class-level Node.prop_keys cache (process-wide, not cleared by unload) is checked on the real code (cached == recomputed after all sessions), the class table itself is Props/C09',
	'det_all additionally assumes BaseWorld.load (the library stubs load deterministically to their base tables from any base-only coherent state): not derived in the model in general; for the shipped closure (generated table) its reach part is proved (lib_closure_reach), World.libs_base / base_closed are proved (lib_closure_closed) and its load part is decided for every history of at most three operations (baseWorld_load_shipped_partial); beyond that exercised by the streams and the search (ops on library modules)',
]


def tree_fingerprint() -> str:
	"""Fingerprint of the tranp tree under test: the in-process sessions and the fresh subprocesses must see the same code."""
	import hashlib
	h = hashlib.sha1()
	for sub in ('rogw', 'data'):
		for root, dirs, files in os.walk(os.path.join(common.REPO, sub)):
			dirs.sort()
			for fn in sorted(files):
				if fn.endswith(('.py', '.lark', '.j2', '.yml')):
					st = os.stat(os.path.join(root, fn))
					h.update(f'{root}/{fn}:{st.st_size}:{st.st_mtime_ns};'.encode())
	return h.hexdigest()


def snapshot_repo(ctx: Ctx) -> bool:
	"""Run against a private copy of the tree under test, so that commits to it during the run cannot make the in-process
	sessions and the fresh subprocesses see different code. Only possible before any tranp module is imported."""
	if any(name == 'rogw' or name.startswith('rogw.') for name in sys.modules):
		return False
	src = common.REPO
	for _ in range(3):
		before = tree_fingerprint()
		dst = os.path.join(ctx.tmpdir('c04-repo-'), 'repo')
		shutil.copytree(src, dst, ignore=shutil.ignore_patterns('.git', '.cache', '__pycache__', 'tests'))
		if tree_fingerprint() == before:
			sys.path[:] = [dst if os.path.abspath(p) == os.path.abspath(src) else p for p in sys.path]
			if dst not in sys.path:
				sys.path.insert(0, dst)
			os.chdir(dst)
			common.REPO = dst
			ctx.notes.append(f'ran against a snapshot of {src} taken at the start of the run')
			return True
	return False


def run(ctx: Ctx) -> int:
	snap = snapshot_repo(ctx)
	return run_checked(ctx, None if snap else tree_fingerprint())


def run_checked(ctx: Ctx, before: str | None) -> int:
	translate_ok, translate_msg = True, ''
	with ctx.timed('translate'):
		try:
			from translate import gen_lib_closure, gen_load_shape, gen_session_ops, gen_session_state, gen_unload_shape
			ctx.generated_tables.extend(gen_session_state.generate())
			ctx.generated_tables.extend(gen_unload_shape.generate())
			ctx.generated_tables.extend(gen_load_shape.generate())
			ctx.generated_tables.extend(gen_session_ops.generate())
			closure_recs = gen_lib_closure.generate()
			LIB_TABLE.update({'libs': closure_recs[0]['libs'], 'modules': closure_recs[0]['modules']})
			ctx.generated_tables.extend(closure_recs)
		except Exception as e:  # noqa: BLE001 - TranslateError: a state site that is not in the audited inventory
			translate_ok, translate_msg = False, f'{type(e).__name__}: {e}'[:3000]
	proof = common.prove(ctx, PROP, leanchecker=ctx.thorough)
	install_memo_tracking()
	try:
		prelude(ctx)
	except common.InfraError:
		raise
	except Exception as e:  # noqa: BLE001 - the real code cannot even load its library modules in a fresh process
		res = SearchResult('library modules load in a fresh process')
		res.cases = 1
		res.findings.append(Finding(key='library-load', what=f'loading the library modules in a fresh App raised {canon(e)}', replay={'exception': repr(e)}))
		return common.finish(ctx, proof, [], [res], statements=STATEMENTS, partial=PARTIAL, assumptions=ASSUMPTIONS, translate_ok=translate_ok, translate_msg=translate_msg)
	if translate_ok:
		try:
			d = closure_table_diff(ctx)
		except Exception as e:  # noqa: BLE001
			d = f'comparing the table with the real code raised {canon(e)}'
		if d:
			translate_ok, translate_msg = False, f'Generated/LibClosure.lean does not describe the library closure of the real code: {d}'
	corpus = [norm_case(c) for c in corpus_cases()]
	with ctx.timed('generate'):
		valid = [shared_generic_case(ctx), *gen_cases(ctx, 'session', ctx.scale(4, 60), ctx.scale(12, 40), 0.15)]
		faulty = gen_cases(ctx, 'session-faulty', ctx.scale(6, 40), ctx.scale(12, 40), 1.0)
		n_faulty = ctx.scale(6, 40)
	fresh_cases = [*corpus, *valid[:ctx.scale(2, 20)], *faulty[:ctx.scale(2, 12)]]
	ahead = FreshAhead(ctx, [*fresh_cases, *interactive_cases(ctx)], ctx.scale(1, len(corpus) + 4))
	with ctx.timed('correspondence'):
		# pools with an import cycle are part of the tie again: the model follows Module.identity() (mid-load fallback) since round 3
		streams = [stream_session(ctx, 'session', [*corpus, *valid]), stream_session(ctx, 'session-faulty', faulty[:n_faulty])]
	with ctx.timed('search'):
		with ctx.timed('search:fresh-ahead-wait'):
			ahead.join()
		ctx.notes.append(f'fresh-process answers asked ahead of the search for {ahead.done} of {len(ahead.cases)} sessions')
		def timed(name: str, f: Any, *a: Any) -> SearchResult:
			with ctx.timed(f'search:{name}'):
				return f(*a)
		searches = [
			timed('fresh', search_fresh, ctx, fresh_cases, ctx.scale(1, len(corpus) + 4)),
			timed('frame', search_frame, ctx, [c for c in [*corpus, *valid, *faulty] if c['id'] in _RUNS]),
			timed('imports', search_imports, ctx, [c for c in [*corpus, *valid, *faulty] if c['id'] in _RUNS]),
			timed('interactive', search_interactive, ctx),
			timed('runner', search_runner, ctx),
			timed('depends', search_depends, ctx),
			timed('prop_keys', search_prop_keys, ctx),
			timed('audit', audit_hash_order),
		]
		# last: sees what every session of this run recorded
		# every session of this run, also the ones of the Interactive search
		searches.insert(3, timed('residue', search_residue, ctx, list(_CASES.values())))
		searches.insert(3, timed('memo', search_memo, ctx, [c for c in [*corpus, *valid, *faulty] if c['id'] in _RUNS]))
	if SKIPPED:
		ctx.notes.append(f'skipped for the wall deadline of the run (counted, not waited for): {SKIPPED}')
	if before is not None and tree_fingerprint() != before:
		raise common.InfraError(f'{common.REPO} changed while the check was running: session and fresh-process results are not comparable, run again')
	return common.finish(ctx, proof, streams, searches, statements=STATEMENTS, partial=PARTIAL, assumptions=ASSUMPTIONS, translate_ok=translate_ok, translate_msg=translate_msg,
		trusted=['the fresh-process oracle forks before any tranp object exists; module import itself is assumed to create no session state'])


def replay(ctx: Ctx, path: str) -> int:
	with open(path, encoding='utf-8') as f:
		rec = json.load(f)
	print(json.dumps({k: v for k, v in rec.items() if k != 'input'}, indent=1)[:3000])
	inp = rec.get('input') or {}
	case = inp.get('case')
	if rec.get('kind') == 'failing-input' and case and 'ops' in case:
		case = norm_case(case)
		case['id'] = 'replay'
		install_memo_tracking()
		run = session_run(ctx, case)
		res = SearchResult('replay')
		compare_with_fresh(ctx, res, case, run, [HASH_SEEDS[0]], set())
		for f in res.findings:
			print(f'REPLAY finding key={f.key}: {f.what}')
		for b in [*run['frame_bad'], *run['reload_bad'], *run['memo_bad'], *run['residue_bad'], *run['imports_bad']]:
			print(f'REPLAY frame finding: {b}')
		ctx.cleanup()
		return 1 if res.findings or run['frame_bad'] or run['reload_bad'] or run['memo_bad'] or run['residue_bad'] or run['imports_bad'] else 0
	ctx2 = Ctx(PROP, rec.get('tier', 'quick'), int(rec.get('seed', 0)))
	return run_again(ctx2)


def run_again(ctx: Ctx) -> int:
	return run(ctx)
