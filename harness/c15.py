"""C15 — The stored form of a syntax tree restores an identical tree.

Theorems: lean/Tranp/Props/C15.lean over lean/Tranp/Model/LarkEntry.lean.
Tie: correspondence streams `entry-real` (parse trees of real and generated modules), `entry-random` (lark.Tree/Token shapes
built directly: meta absent/empty/complete/incomplete, positions None/0/int) and `entry-loads` (well- and malformed stored
values fed to Serialization.loads) between the real EntryOfLark / Serialization / EntryStored and the model.
Search: the law itself on the real code — field-by-field comparison of fresh vs restored views, and nodes(T) vs
nodes(restored T) through the real on-disk cache (SyntaxParserOfLark on a temp cache dir, two fresh Apps).
"""
from __future__ import annotations

import io
import json
import os
import random
import sys
from typing import Any

from harness import common, diskproj, pygen
from harness.common import Ctx, Finding, SearchResult, Stream, exc_enum, hx

PROP = 'C15'
ABSENT = object()


# ---------------------------------------------------------------------------------------------
# encoders (real objects -> protocol text)


def pos_s(p: Any) -> str:
	assert p is None or (isinstance(p, int) and not isinstance(p, bool)), p
	return 'N' if p is None else str(p)


def lark_sexp(t: Any) -> str:
	"""Protocol encoding of a raw lark.Tree | lark.Token | None (reads `_meta` so that no Meta is created as a side effect)."""
	import lark
	out: list[str] = []

	def go(e: Any) -> None:
		if type(e) is lark.Tree:
			m = e._meta
			if m is None:
				ms = '-'
			else:
				attrs = [getattr(m, a, ABSENT) for a in ('line', 'column', 'end_line', 'end_column')]
				ms = ('E' if m.empty else 'F') + ':' + ','.join('A' if a is ABSENT else pos_s(a) for a in attrs)
			out.append('(')
			out.append(hx(str(e.data)))
			out.append(ms)
			for c in e.children:
				go(c)
			out.append(')')
		elif type(e) is lark.Token:
			out.append(f't:{hx(str(e.type))}:{hx(str(e.value))}:{pos_s(e.line)},{pos_s(e.column)},{pos_s(e.end_line)},{pos_s(e.end_column)}')
		else:
			assert e is None, type(e)
			out.append('_')

	go(t)
	return ' '.join(out)


def sm_s(entry: Any) -> str:
	try:
		sm = entry.source_map
		return ','.join(pos_s(p) for p in (sm['begin'][0], sm['begin'][1], sm['end'][0], sm['end'][1]))
	except Exception as e:  # noqa: BLE001
		return '!' + exc_enum(e)


def b01(b: bool) -> str:
	assert isinstance(b, bool)
	return '1' if b else '0'


def show_view(entry: Any) -> str:
	"""The whole Entry interface of an EntryOfLark, pre-order."""
	out: list[str] = []

	def go(e: Any) -> None:
		out.append(f'[ {hx(e.name)} {b01(e.has_child)} {b01(e.is_terminal)} {hx(e.value)} {b01(e.is_empty)} {sm_s(e)}')
		for c in e.children:
			go(c)
		out.append(']')

	go(entry)
	return ' '.join(out)


def view_tuple(e: Any) -> Any:
	"""Structural value of the view (search oracle, independent of the text protocol)."""
	return (str(e.name), e.has_child, e.is_terminal, str(e.value), e.is_empty, sm_s(e), tuple(view_tuple(c) for c in e.children))


def show_val(v: Any) -> str:
	out: list[str] = []

	def go(x: Any) -> None:
		if x is None:
			out.append('n')
		elif x is True:
			out.append('T')
		elif x is False:
			out.append('F')
		elif isinstance(x, int):
			out.append(f'i{x}')
		elif isinstance(x, str):
			out.append(f's{hx(x)}')
		elif isinstance(x, list):
			out.append('[')
			for y in x:
				go(y)
			out.append(']')
		elif isinstance(x, tuple):
			out.append('<')
			for y in x:
				go(y)
			out.append('>')
		elif isinstance(x, dict):
			out.append('{')
			for k, y in x.items():
				assert isinstance(k, str)
				out.append(hx(k))
				go(y)
			out.append('}')
		else:
			raise AssertionError(type(x))

	go(v)
	return ' '.join(out)


# ---------------------------------------------------------------------------------------------
# real operations


def real_dumpj(t: Any) -> str:
	from rogw.tranp.implements.syntax.lark.entry import Serialization
	try:
		data = Serialization.dumps(t)
		text = json.dumps(data, separators=(',', ':')).encode('utf-8')
		return 'ok ' + show_val(json.loads(text))
	except Exception as e:  # noqa: BLE001
		return exc_enum(e)


def store_load(t: Any) -> Any:
	"""EntryStored.save → bytes → EntryStored.load (parser.py:141-179), the cache path without the file system."""
	from rogw.tranp.implements.syntax.lark.entry import EntryOfLark
	from rogw.tranp.implements.syntax.lark.parser import EntryStored
	buf = io.BytesIO()
	EntryStored(EntryOfLark(t)).save(buf)
	buf.seek(0)
	return EntryStored.load(buf).entry


def real_rt(t: Any) -> str:
	try:
		return 'ok ' + show_view(store_load(t))
	except Exception as e:  # noqa: BLE001
		return exc_enum(e)


def real_loads(v: Any) -> str:
	from rogw.tranp.implements.syntax.lark.entry import EntryOfLark, Serialization
	try:
		return 'ok ' + show_view(EntryOfLark(Serialization.loads(v)))
	except Exception as e:  # noqa: BLE001
		return exc_enum(e)


def tree_size(t: Any) -> int:
	import lark
	return 1 + sum(tree_size(c) for c in t.children) if type(t) is lark.Tree else 1


def case_tree(desc: dict[str, Any], t: Any) -> tuple[dict[str, Any], list[str], list[str]]:
	from rogw.tranp.implements.syntax.lark.entry import EntryOfLark
	ops = [f'tree\t{lark_sexp(t)}', 'view', 'dumpj', 'rt']
	try:
		shown = show_view(EntryOfLark(t))
	except Exception as e:  # noqa: BLE001 - the view of a tree the harness built or lark parsed must be readable
		shown = exc_enum(e)
	real = [f'ok {tree_size(t)}', shown, real_dumpj(t), real_rt(t)]
	return desc, ops, real


# ---------------------------------------------------------------------------------------------
# generators


TREE_NAMES = ['file_input', 'block', 'function_def', 'parameters', 'a', 'ab', 'a_b', '__empty__', 'typed_var', 'elif_clauses', 'name']
TOKEN_TYPES = ['NAME', 'STRING', 'DEC_NUMBER', '__ANON_0', '__ANON_12', 'COLON', 'PLUS', 'COMMENT', 'name']
VALUES = ['# cafe\u0301', 'A\u030a \u212b', '\u304b\u3099', '\u1112\u1161\u11ab', '\ufb01 \u00bd', '# c  ', '# c\r', 'x\t', '\n', "'''a\n'''", '', 'x', 'self', "'s'", '"d\\n"', 'あい', 'a b', '->', '\t', 'a\nb', '\\', '\U0001F600', '\x7f', '0', 'None', ' ']


def gen_pos(rng: random.Random, mode: str) -> Any:
	if mode == 'int':
		return rng.choice([1, 1, 2, rng.randint(1, 300), rng.randint(1, 300), 2 ** 31, 10 ** 12])
	if mode == 'zero':
		return 0
	if mode == 'none':
		return None
	if mode == 'neg':
		return -rng.randint(1, 3)
	r = rng.random()
	return None if r < 0.25 else 0 if r < 0.5 else rng.randint(-1, 40)


def gen_lark(rng: random.Random, max_depth: int, max_width: int, malformed: bool, hist: dict[str, int]) -> Any:
	"""lark.Tree built directly: meta absent / empty (with or without stale attributes) / complete (ints, zeros, None) /
	[malformed] non-empty with missing attributes; tokens with positions None / 0 / int in every mixture; None slots."""
	import lark
	from lark.tree import Meta

	def bump(k: str) -> None:
		hist[k] = hist.get(k, 0) + 1

	def token() -> Any:
		ty = rng.choice(TOKEN_TYPES)
		if rng.random() < 0.15:
			# a value that coincides with a piece of the tree's own metadata: its terminal type (as written, lower, upper,
			# capitalised), another terminal or rule name, a key or a constant of the stored form
			v = rng.choice([ty, ty.lower(), ty.upper(), ty.capitalize(), rng.choice(TOKEN_TYPES), rng.choice(TOKEN_TYPES).lower(), rng.choice(TREE_NAMES), rng.choice(TREE_NAMES).upper(), 'name', 'value', 'children', 'source_map', 'null', 'None', 'true'])
			bump('token:value-is-metadata')
		else:
			v = rng.choice(VALUES)
		t = lark.Token(ty, v)
		r = rng.random()
		if r < 0.2:
			bump('token:no-pos')
		elif r < 0.4:
			t.line, t.column, t.end_line, t.end_column = (gen_pos(rng, 'int') for _ in range(4))
			bump('token:all-int')
		elif r < 0.55:
			# a token as the lexer stamps it: one line (end column right of the start) or several lines with the end
			# column right of, at, or left of the start column
			ln, col = rng.randint(1, 50), rng.randint(1, 30)
			if rng.random() < 0.5:
				t.line, t.column, t.end_line, t.end_column = ln, col, ln, col + rng.randint(1, 9)
				bump('token:one-line')
			else:
				t.line, t.column, t.end_line, t.end_column = ln, col, ln + rng.randint(1, 3), rng.choice([col, 1, rng.randint(1, col), col + 2])
				bump('token:multi-line')
		elif r < 0.7:
			vals = [gen_pos(rng, 'int') for _ in range(4)]
			vals[rng.randrange(4)] = rng.choice([0, None])
			t.line, t.column, t.end_line, t.end_column = vals
			bump('token:one-falsy')
		elif r < 0.8:
			t.line, t.column, t.end_line, t.end_column = 0, 0, 0, 0
			bump('token:zeros')
		else:
			t.line, t.column, t.end_line, t.end_column = (gen_pos(rng, 'mix') for _ in range(4))
			bump('token:mixed')
		return t

	def tree(depth: int) -> Any:
		width = rng.randint(0, max_width) if depth < max_depth else 0
		if depth < max_depth and depth < 2 and rng.random() < 0.07:
			# wide nodes (parameter / argument / element lists): positions ≥ 10 exist, with None slots anywhere among them
			width = rng.randint(11, 26)
			bump('node:wide')
		children: list[Any] = []
		for _ in range(width):
			r = rng.random()
			if r < 0.18:
				children.append(None)
				bump('slot:none')
			elif r < 0.6:
				children.append(token())
			else:
				children.append(tree(depth + 1))
		name = rng.choice(TREE_NAMES)
		r = rng.random()
		if r < 0.2:
			bump('meta:absent')
			return lark.Tree(name, children)
		m = Meta()
		if r < 0.3:
			bump('meta:empty')
		elif r < 0.38:
			m.line, m.column, m.end_line, m.end_column = (gen_pos(rng, 'int') for _ in range(4))
			bump('meta:empty-with-stale-attrs')
		elif r < 0.7:
			m.line, m.column, m.end_line, m.end_column = (gen_pos(rng, 'int') for _ in range(4))
			m.empty = False
			bump('meta:complete-int')
		elif r < 0.8:
			m.line, m.column, m.end_line, m.end_column = (gen_pos(rng, 'mix') for _ in range(4))
			m.empty = False
			bump('meta:complete-mixed')
		elif r < 0.88:
			m.line, m.column, m.end_line, m.end_column = gen_pos(rng, 'int'), gen_pos(rng, 'int'), None, None
			m.empty = False
			bump('meta:end-none')
		elif malformed:
			attrs = ['line', 'column', 'end_line', 'end_column']
			for a in rng.sample(attrs, rng.randint(0, 3)):
				setattr(m, a, gen_pos(rng, 'int'))
			m.empty = False
			bump('meta:non-empty-missing-attrs')
		else:
			m.line, m.column, m.end_line, m.end_column = 0, 0, 0, 0
			m.empty = False
			bump('meta:zeros')
		return lark.Tree(name, children, m)

	return tree(0)


def gen_stored(rng: random.Random, depth: int, hist: dict[str, int]) -> Any:
	"""A value to feed Serialization.loads: mostly the shape dumps produces, with missing keys, short/ill-typed
	source maps, non-dict entries and non-list children mixed in. Names/values stay str and positions None|int
	(other types are outside the model and are not generated)."""

	def bump(k: str) -> None:
		hist[k] = hist.get(k, 0) + 1

	def sm() -> Any:
		r = rng.random()
		vals = [gen_pos(rng, 'mix') for _ in range(4)]
		if r < 0.6:
			return vals if rng.random() < 0.7 else tuple(vals)
		if r < 0.7:
			bump('sm:short')
			return vals[:rng.randint(0, 3)]
		if r < 0.78:
			bump('sm:long')
			return vals + [7]
		if r < 0.84:
			bump('sm:not-subscriptable')
			return rng.choice([None, 5, True])
		if r < 0.9:
			bump('sm:dict')
			return {'0': 1}
		return vals

	def entry(d: int) -> Any:
		r = rng.random()
		if r < 0.1:
			bump('entry:none')
			return None
		if r < 0.16:
			bump('entry:non-dict')
			return rng.choice([0, 3, 'x', '', [], [1], True, ['name']])
		if r < 0.2:
			bump('entry:dict-without-kind')
			return rng.choice([{}, {'name': 'a'}, {'name': 'a', 'source_map': [1, 2, 3, 4]}])
		e: dict[str, Any] = {}
		keys = ['name', 'kind', 'source_map']
		if rng.random() < 0.2:
			rng.shuffle(keys)
		is_tree = d < depth and rng.random() < 0.55
		for k in keys:
			if k == 'name':
				if rng.random() < 0.93:
					e['name'] = rng.choice(TREE_NAMES if is_tree else TOKEN_TYPES)
				else:
					bump('missing:name')
			elif k == 'source_map':
				if rng.random() < 0.93:
					e['source_map'] = sm()
				else:
					bump('missing:source_map')
			elif is_tree:
				r2 = rng.random()
				if r2 < 0.8:
					e['children'] = [entry(d + 1) for _ in range(rng.randint(0, 3))]
					if rng.random() < 0.1:
						e['children'] = tuple(e['children'])
				elif r2 < 0.86:
					bump('children:not-iterable')
					e['children'] = rng.choice([None, 4, False])
				elif r2 < 0.93:
					bump('children:str')
					e['children'] = rng.choice(['', 'ab', 'xyz'])
				else:
					bump('children:dict')
					e['children'] = rng.choice([{}, {'a': 1, 'b': None}])
				if rng.random() < 0.08:
					bump('both:children+value')
					e['value'] = 'v'
			else:
				e['value'] = rng.choice(VALUES)
		return e

	return entry(0)


def gen_sources(ctx: Ctx, rng: random.Random, n_generated: int, n_real: int) -> list[tuple[str, str]]:
	"""(label, source) of real modules and generated programs."""
	out: list[tuple[str, str]] = []
	for f in pygen.real_files(ctx.thorough, rng, n_real):
		with open(os.path.join(common.REPO, f), encoding='utf-8', newline='') as fh:
			out.append((f, fh.read()))
	for i in range(n_generated):
		src, d = pygen.gen_module(rng)
		label = f"generated#{i}:{d['unit']}"
		if i % 8 == 5:
			# CRLF sources: comment tokens then end in a carriage return, long strings hold \r\n
			src, label = src.replace('\n', '\r\n'), label + ':crlf'
		elif i % 8 == 6:
			src, label = src.rstrip('\n'), label + ':no-final-newline'
		out.append((label, src))
	return out


def parse_all(app: Any, sources: list[tuple[str, str]]) -> list[tuple[str, Any]]:
	from rogw.tranp.syntax.ast.parser import SyntaxParser
	parser = app.resolve(SyntaxParser)
	out = []
	for label, src in sources:
		app.source = src
		try:
			out.append((label, parser(app.main).source))
		except Exception:  # noqa: BLE001 - outside the grammar: not a tree of this property
			continue
	return out


# ---------------------------------------------------------------------------------------------
# boundary lengths: stored forms whose byte length is an exact multiple of a block size (anything written or read in blocks)

BLOCKS = [1024, 4096, 8192, 512, 65536]


def stored_length(t: Any) -> int:
	"""byte length of the stored form of a lark tree, by the harness's own json.dumps over Serialization.dumps (not by
	EntryStored.save, whose writing is what the boundary cases examine)"""
	from rogw.tranp.implements.syntax.lark.entry import Serialization
	return len(json.dumps(Serialization.dumps(t), separators=(',', ':')).encode('utf-8'))


def pad_source_to_block(parse: Any, src: str, block: int, multiple: int = 0) -> str | None:
	"""`src` followed by a comment line padded until the stored form of its tree is exactly `multiple * block` bytes long (the
	next multiple of `block` when `multiple` is 0). A pad character adds one byte, now and then one more when a column
	number gains a digit — hence the loop. None when the parser refuses the text or no fixed point is reached."""
	n = 1
	for _ in range(12):
		text = src + '# ' + 'p' * n + '\n'
		try:
			size = stored_length(parse(text))
		except Exception:  # noqa: BLE001
			return None
		target = multiple * block if multiple else -(-size // block) * block
		if size == target:
			return text
		if size > target and not multiple:
			target += block
		n += target - size
		if n < 1:
			return None
	return None


def pad_tree_to_block(t: Any, block: int) -> Any:
	"""the lark tree with the value of its first token padded so that the stored form is an exact multiple of `block` bytes
	(positions are untouched, so one step suffices); None for a tree without tokens"""
	import lark

	def first_token(e: Any) -> tuple[Any, int] | None:
		if type(e) is lark.Tree:
			for k, c in enumerate(e.children):
				if type(c) is lark.Token:
					return e, k
				r = first_token(c)
				if r is not None:
					return r
		return None

	hit = first_token(t)
	if hit is None:
		return None
	parent, k = hit
	old = parent.children[k]
	pad = (-stored_length(t)) % block
	new = lark.Token(old.type, str(old.value) + 'q' * pad)
	new.line, new.column, new.end_line, new.end_column = old.line, old.column, old.end_line, old.end_column
	parent.children[k] = new
	return t if stored_length(t) % block == 0 else None


def boundary_sources(parse: Any, rng: random.Random, n: int) -> list[tuple[str, str]]:
	"""(label, source) of modules whose stored form is exactly 1 block, exactly k blocks, or a multiple of a larger block"""
	out: list[tuple[str, str]] = []
	plans: list[tuple[int, int]] = [(1024, 1), (1024, 0), (4096, 0), (8192, 0), (512, 0), (1024, 0)]
	for i in range(n):
		block, multiple = plans[i % len(plans)]
		base = '' if multiple == 1 else pygen.gen_module(rng, n_statements=rng.randint(1, 4))[0]
		text = pad_source_to_block(parse, base, block, multiple)
		if text is not None:
			out.append((f'boundary#{i}:stored-form={multiple or "k"}x{block}', text))
	return out


# ---------------------------------------------------------------------------------------------
# streams


def corpus_cases() -> list[tuple[dict[str, Any], list[str], list[str]]]:
	"""corpus/C15/*.json: {"kind": "lark", "sexp": …} replayed first (shapes the encoding special-cases)."""
	out = []
	d = os.path.join(common.CORPUS_DIR, PROP)
	if os.path.isdir(d):
		for fn in sorted(os.listdir(d)):
			if fn.endswith('.json'):
				with open(os.path.join(d, fn), encoding='utf-8') as f:
					rec = json.load(f)
				if rec.get('kind') == 'lark':
					t = build_lark(rec['tree'])
					out.append(case_tree({'kind': 'corpus', 'file': fn, 'entries': tree_size(t)}, t))
	return out


def build_lark(spec: Any) -> Any:
	"""JSON spec → lark objects: None | {"token": [type, value, [l,c,el,ec]]} | {"tree": name, "meta": null|{"empty":…, "line":…}, "children": […]}"""
	import lark
	from lark.tree import Meta
	if spec is None:
		return None
	if 'token' in spec:
		ty, v, ps = spec['token']
		t = lark.Token(ty, v)
		t.line, t.column, t.end_line, t.end_column = ps
		return t
	cs = [build_lark(c) for c in spec['children']]
	if spec.get('meta') is None:
		return lark.Tree(spec['tree'], cs)
	m = Meta()
	for k, v in spec['meta'].items():
		setattr(m, k, v)
	return lark.Tree(spec['tree'], cs, m)


def stream_real(ctx: Ctx) -> Stream:
	rng = ctx.sub_rng('entry-real')
	app = common.MemApp(ctx.tmpdir())
	sources = gen_sources(ctx, rng, ctx.scale(60, 600), ctx.scale(6, 60))
	cases = corpus_cases()
	limit = ctx.scale(6000, 12000)
	for label, root in diskproj.bounded(parse_all(app, sources), *diskproj.budgets(ctx), label=lambda x: x[0]):
		# whole trees when small enough for one protocol line, otherwise every top-level statement subtree
		parts = [root] if tree_size(root) <= limit else [c for c in root.children if c is not None and tree_size(c) <= limit]
		for k, t in enumerate(parts):
			import lark
			if type(t) is not lark.Tree:
				continue
			kind = 'generated' if label.startswith('generated') else 'real'
			cases.append(case_tree({'kind': kind, 'label': f'{label}[{k}]', 'entries': tree_size(t)}, t))
	st = common.correspond('entry-real', cases, 'entry', classify=lambda d: f"{d['kind']}:entries<{10 ** len(str(d['entries']))}")
	st.note = 'lark parse trees (propagate_positions metas, None placeholders, anonymous tokens) of real and generated modules; ops: view, dumps→json, EntryStored.save→load→view'
	return st


def stream_random(ctx: Ctx) -> Stream:
	rng = ctx.sub_rng('entry-random')
	hist: dict[str, int] = {}
	cases = []
	for i in diskproj.bounded(range(ctx.scale(400, 5000)), *diskproj.budgets(ctx)):
		malformed = i % 4 == 3
		t = gen_lark(rng, 1 + i % 4, 1 + i % 5, malformed, hist)
		cases.append(case_tree({'kind': 'malformed' if malformed else 'random', 'entries': tree_size(t)}, t))
	st = common.correspond('entry-random', cases, 'entry', classify=lambda d: d['kind'])
	st.histogram.update(hist)
	st.note = 'lark.Tree/Token built directly: meta absent/empty/stale/complete/None-ended/zeros, tokens with None/0/int positions in all mixtures, None slots; malformed quarter: non-empty metas lacking attributes (AttributeError)'
	return st


def stream_loads(ctx: Ctx) -> Stream:
	rng = ctx.sub_rng('entry-loads')
	hist: dict[str, int] = {}
	cases = []
	for i in diskproj.bounded(range(ctx.scale(500, 6000)), *diskproj.budgets(ctx)):
		v = gen_stored(rng, 1 + i % 3, hist)
		cases.append(({'kind': 'stored'}, [f'loads\t{show_val(v)}'], [real_loads(v)]))
	st = common.correspond('entry-loads', cases, 'entry', classify=lambda d: d['kind'])
	st.histogram.update(hist)
	st.note = 'values fed to Serialization.loads: dump-shaped dicts with list or tuple source maps, plus missing keys (KeyError), short source maps (IndexError), non-subscriptable/non-iterable slots (TypeError), non-dict entries and dicts without children/value (→ None), str/dict children, children+value together'
	return st


# ---------------------------------------------------------------------------------------------
# text level: json.dumps(..., separators=(',', ':')) / json.loads vs printJson / parseJson


class Skip(Exception):
	"""the real decoder produced a value outside the model (float, lone surrogate)"""


class Pairs(list):
	"""object members as the real decoder saw them, in order, duplicates kept (object_pairs_hook)"""


def show_pairs(v: Any) -> str:
	out: list[str] = []

	def go(x: Any) -> None:
		if x is None:
			out.append('n')
		elif x is True:
			out.append('T')
		elif x is False:
			out.append('F')
		elif isinstance(x, int):
			out.append(f'i{x}')
		elif isinstance(x, float):
			raise Skip('float')
		elif isinstance(x, str):
			if any(0xD800 <= ord(ch) <= 0xDFFF for ch in x):
				raise Skip('surrogate')
			out.append(f's{hx(x)}')
		elif isinstance(x, Pairs):
			out.append('{')
			for k, y in x:
				go(k)
				out[-1] = out[-1][1:]  # key: bare hex
				go(y)
			out.append('}')
		elif isinstance(x, list):
			out.append('[')
			for y in x:
				go(y)
			out.append(']')
		else:
			raise AssertionError(type(x))

	go(v)
	return ' '.join(out)


def real_parse(text: str) -> str:
	try:
		v = json.loads(text, object_pairs_hook=Pairs)
	except ValueError:
		return 'none'
	return 'ok ' + show_pairs(v)


DAMAGE_CHARS = '"\\{}[],:0123456789abcdefuntl-/'


def damaged(rng: random.Random, text: str, n: int) -> list[str]:
	"""proper prefixes, single deletions, substitutions and duplications of a printed text"""
	out = []
	if not text:
		return out
	for _ in range(n):
		r = rng.random()
		i = rng.randrange(len(text))
		if r < 0.4:
			out.append(text[:i])
		elif r < 0.65:
			out.append(text[:i] + text[i + 1:])
		elif r < 0.9:
			out.append(text[:i] + rng.choice(DAMAGE_CHARS) + text[i + 1:])
		else:
			out.append(text[:i] + text[i] + text[i:])
	return out


JSON_STRINGS = ['e\u0301', '\u212b', '', 'a', 'name', 'é', 'あい', '\U0001F600x', '"', '\\', '/', '\n\r\t\b\f', '\x00\x1f', '\x7f', '\x80\xff', '\u2028\u2029', '\ud7ff\ue000', '\uffff', '\U00010000', '\U0010FFFF', ' sp ', '\\u0041', '"quoted"', '{}[],:']


def gen_json_value(rng: random.Random, depth: int) -> Any:
	r = rng.random()
	if depth <= 0 or r < 0.45:
		k = rng.random()
		if k < 0.12:
			return None
		if k < 0.2:
			return rng.choice([True, False])
		if k < 0.5:
			return rng.choice([0, -0, 1, -1, 9, 10, -10, 100, 2 ** 31, -(2 ** 63), 10 ** 20, rng.randint(-500, 500)])
		return rng.choice(JSON_STRINGS) + (rng.choice(JSON_STRINGS) if rng.random() < 0.3 else '')
	if r < 0.7:
		xs = [gen_json_value(rng, depth - 1) for _ in range(rng.randint(0, 3))]
		return xs if rng.random() < 0.8 else tuple(xs)
	d: dict[str, Any] = {}
	for _ in range(rng.randint(0, 3)):
		d[rng.choice(JSON_STRINGS)] = gen_json_value(rng, depth - 1)
	return d


def has_outer_whitespace(text: str) -> bool:
	"""insignificant white space (outside string literals) is outside the model: such damaged texts are not compared"""
	in_str = False
	i = 0
	while i < len(text):
		ch = text[i]
		if in_str:
			if ch == '\\':
				i += 1
			elif ch == '"':
				in_str = False
		elif ch == '"':
			in_str = True
		elif ch in ' \t\n\r':
			return True
		i += 1
	return False


def text_ops(rng: random.Random, text: str, n_damage: int) -> tuple[list[str], list[str]]:
	ops, real = [], []
	for t in [text, *damaged(rng, text, n_damage)]:
		if has_outer_whitespace(t):
			continue
		try:
			r = real_parse(t)
		except Skip:
			continue
		ops.append(f'parse\t{hx(t)}')
		real.append(r)
	return ops, real


def stream_text(ctx: Ctx) -> Stream:
	from rogw.tranp.implements.syntax.lark.entry import EntryOfLark
	from rogw.tranp.implements.syntax.lark.parser import EntryStored
	rng = ctx.sub_rng('entry-text')
	hist: dict[str, int] = {}
	cases = []
	trees_: list[tuple[str, Any]] = [(f'random#{i}', gen_lark(rng, 1 + i % 3, 1 + i % 4, False, hist)) for i in range(ctx.scale(120, 1500))]
	app = common.MemApp(ctx.tmpdir())
	import lark
	for label, root in parse_all(app, gen_sources(ctx, rng, ctx.scale(12, 150), ctx.scale(2, 20))):
		subs = [c for c in root.children if type(c) is lark.Tree and tree_size(c) <= 250]
		for c in rng.sample(subs, min(len(subs), 3)):
			trees_.append((label, c))
	for label, t in diskproj.bounded(trees_, *diskproj.budgets(ctx), label=lambda x: x[0]):
		ops = [f'tree\t{lark_sexp(t)}', 'print', 'rttext']
		real = [f'ok {tree_size(t)}']
		try:
			buf = io.BytesIO()
			EntryStored(EntryOfLark(t)).save(buf)  # the bytes the cache file really holds
			real.append('ok ' + hx(buf.getvalue()))
			text = buf.getvalue().decode('utf-8')
		except Exception as e:  # noqa: BLE001
			text = ''
			real.append(exc_enum(e))
		real.append(real_rt(t))
		o2, r2 = text_ops(rng, text, ctx.scale(10, 14))
		cases.append(({'kind': 'tree:' + label.split('#')[0].split(':')[0]}, ops + o2, real + r2))
	for i in diskproj.bounded(range(ctx.scale(250, 3000)), *diskproj.budgets(ctx)):
		v = gen_json_value(rng, 1 + i % 4)
		text = json.dumps(v, separators=(',', ':'))
		ops = [f'printv\t{show_val(v)}']
		real = ['ok ' + hx(text.encode('utf-8'))]
		o2, r2 = text_ops(rng, text, ctx.scale(8, 12))
		cases.append(({'kind': 'value'}, ops + o2, real + r2))
	st = common.correspond('entry-text', cases, 'entry', classify=lambda d: d['kind'])
	st.histogram['parse-ops'] = sum(1 for c in cases for o in c[1] if o.startswith('parse'))
	st.histogram['parse-accepted'] = sum(1 for c in cases for o, r in zip(c[1], c[2]) if o.startswith('parse') and r != 'none')
	st.note = "the bytes EntryStored.save writes (json.dumps(dumps(t), separators=(',', ':')).encode()) vs printJson; json.loads vs parseJson on those texts and on damaged ones (proper prefixes, single deletions/substitutions/duplications); the same for random JSON values (all escape classes: quote, backslash, control, DEL, Latin-1, BMP, surrogate pairs; big and negative ints; tuples); decoder results with floats or lone surrogates are outside the model and skipped"
	return st


# ---------------------------------------------------------------------------------------------
# search


def first_view_diff(a: Any, b: Any, path: str = 'root') -> str | None:
	names = ['name', 'has_child', 'is_terminal', 'value', 'is_empty', 'source_map']
	for i, n in enumerate(names):
		if a[i] != b[i]:
			return f'{n} at {path}: fresh={a[i]!r} restored={b[i]!r}'
	if len(a[6]) != len(b[6]):
		return f'children count at {path}: fresh={len(a[6])} restored={len(b[6])}'
	for k, (x, y) in enumerate(zip(a[6], b[6])):
		d = first_view_diff(x, y, f'{path}/{k}:{x[0]}')
		if d:
			return d
	return None


def search_views(ctx: Ctx) -> SearchResult:
	"""loads(json(dumps(T))) ≅ T field by field, on the real code."""
	from rogw.tranp.implements.syntax.lark.entry import EntryOfLark
	rng = ctx.sub_rng('views')
	res = SearchResult('fresh vs restored EntryOfLark views, field by field (EntryStored.save→load)')
	app = common.MemApp(ctx.tmpdir())
	trees_: list[tuple[str, Any]] = parse_all(app, gen_sources(ctx, rng, ctx.scale(110, 2500), ctx.scale(6, 80)))
	hist: dict[str, int] = {}
	for i in range(ctx.scale(500, 8000)):
		trees_.append((f'random#{i}', gen_lark(rng, 1 + i % 5, 1 + i % 5, False, hist)))
	# boundary lengths: the stored form is exactly one block / a whole number of blocks long
	from rogw.tranp.syntax.ast.parser import SyntaxParser
	parser = app.resolve(SyntaxParser)

	def parse(text: str) -> Any:
		app.source = text
		return parser(app.main).source
	for label, text in boundary_sources(parse, rng, ctx.scale(8, 60)):
		trees_.append((label, parse(text)))
	for i in range(ctx.scale(24, 300)):
		try:
			t = pad_tree_to_block(gen_lark(rng, 2 + i % 3, 2 + i % 4, False, hist), BLOCKS[i % len(BLOCKS)] if i % 3 else 1024)
		except Exception:  # noqa: BLE001 - a random tree that cannot be dumped is not a boundary case
			t = None
		if t is not None:
			trees_.append((f'boundary-random#{i}', t))
	seen = set()
	for label, t in diskproj.bounded(trees_, *diskproj.budgets(ctx), label=lambda x: x[0]):
		res.cases += 1
		try:
			fresh = view_tuple(EntryOfLark(t))
		except Exception as e:  # noqa: BLE001
			res.findings.append(Finding(key=f'view-raises:{exc_enum(e)}', what=f'reading the Entry view of {label} raises {exc_enum(e)}', replay={'tree': label, 'sexp': lark_sexp(t)[:20000]}))
			continue
		seen.add(hash(fresh))
		try:
			restored = view_tuple(store_load(t))
		except Exception as e:  # noqa: BLE001
			res.findings.append(Finding(key=f'store-load-raises:{exc_enum(e)}', what=f'storing/restoring {label} raises {exc_enum(e)}', replay={'tree': label, 'sexp': lark_sexp(t)[:20000]}))
			continue
		d = first_view_diff(fresh, restored)
		if d:
			res.findings.append(Finding(key=f"view-diff:{d.split(' ')[0]}", what=f'{label}: {d}', replay={'tree': label, 'sexp': lark_sexp(t)[:20000]}))
		elif res.cases % 3 == 0:
			# history: a restored tree stored and restored again (a warm cache rewritten by a later run) is still the same tree
			try:
				again = view_tuple(store_load(store_load(t).source))
				d2 = first_view_diff(fresh, again)
			except Exception as e:  # noqa: BLE001
				d2 = f'raises {exc_enum(e)}'
			if d2:
				res.findings.append(Finding(key=f"view-diff-second-generation:{d2.split(' ')[0]}", what=f'{label}: stored twice: {d2}', replay={'tree': label, 'sexp': lark_sexp(t)[:20000]}))
		kind = label.split('#')[0] if '#' in label else 'real'
		res.histogram[kind] = res.histogram.get(kind, 0) + 1
		if len(res.samples) < 2:
			res.samples.append({'tree': label, 'entries': tree_size(t)})
	res.distinct = len(seen)
	return res


def search_truncation(ctx: Ctx) -> SearchResult:
	"""A cache file cut short must be rejected by the real EntryStored.load (never silently give a tree)."""
	from rogw.tranp.implements.syntax.lark.entry import EntryOfLark
	from rogw.tranp.implements.syntax.lark.parser import EntryStored
	rng = ctx.sub_rng('truncation')
	res = SearchResult('every proper prefix of the bytes EntryStored.save writes is rejected by EntryStored.load')
	hist: dict[str, int] = {}
	app = common.MemApp(ctx.tmpdir())
	trees_: list[tuple[str, Any]] = parse_all(app, gen_sources(ctx, rng, ctx.scale(14, 300), ctx.scale(2, 20)))
	trees_ += [(f'random#{i}', gen_lark(rng, 1 + i % 4, 1 + i % 4, False, hist)) for i in range(ctx.scale(120, 2000))]
	seen = set()
	for label, t in diskproj.bounded(trees_, *diskproj.budgets(ctx), label=lambda x: x[0]):
		buf = io.BytesIO()
		try:
			EntryStored(EntryOfLark(t)).save(buf)
		except Exception as e:  # noqa: BLE001
			res.findings.append(Finding(key=f'store-raises:{exc_enum(e)}', what=f'storing {label} raises {exc_enum(e)}', replay={'tree': label, 'sexp': lark_sexp(t)[:20000]}))
			continue
		data = buf.getvalue()
		seen.add(hash(data))
		try:
			EntryStored.load(io.BytesIO(data))
		except Exception as e:  # noqa: BLE001 - the uncut stored form must load
			key = 'stored-form-empty' if not data else f'stored-form-unreadable:{exc_enum(e)}'
			res.findings.append(Finding(key=key, what=f'{label}: EntryStored.save wrote {len(data)} bytes which EntryStored.load rejects with {exc_enum(e)}', replay={'tree': label, 'sexp': lark_sexp(t)[:20000], 'bytes': data[:200].decode('ascii', 'replace')}))
			continue
		cuts = {0, 1, len(data) - 1, len(data) // 2, *(rng.randrange(len(data)) for _ in range(ctx.scale(12, 30)))}
		for k in cuts:
			res.cases += 1
			try:
				got = EntryStored.load(io.BytesIO(data[:k]))
			except ValueError:
				continue  # json.JSONDecodeError / UnicodeDecodeError: rejected
			except Exception as e:  # noqa: BLE001
				res.findings.append(Finding(key=f'truncated-cache-raises:{exc_enum(e)}', what=f'{label}: a cache file cut at byte {k}/{len(data)} raises {exc_enum(e)} instead of being rejected as invalid JSON', replay={'tree': label, 'cut': k, 'bytes': data[:k][-200:].decode('ascii', 'replace')}))
				break
			res.findings.append(Finding(key='truncated-cache-accepted', what=f'{label}: a cache file cut at byte {k}/{len(data)} loads as {type(got.entry.source).__name__}', replay={'tree': label, 'cut': k, 'bytes': data[:k][-200:].decode('ascii', 'replace')}))
			break
	res.distinct = len(seen)
	return res


STATEMENT_FREE = ['', '\n', '\n\n\n', '   \n', '\t\n\t', ' \n  \n', '\x0c\n', '\\\n', '\\\n\n', '# only a comment\n', '# c', '\n# c\n\n', '\r\n\r\n']


def node_facts(ep: Any) -> dict[str, tuple[str, ...]]:
	"""path → (class, tokens, source_map, id, values) of every node of a module, through the real Nodes/NodeResolver."""
	nodes = diskproj.nodes_of(ep)
	out: dict[str, tuple[str, ...]] = {}
	for p in diskproj.all_paths(ep):
		try:
			n = nodes.by(p)
			fact = (type(n).__name__, n.tokens, str(n.source_map), str(n.id), '|'.join(nodes.values(p)), n.full_path)
		except Exception as e:  # noqa: BLE001
			fact = (exc_enum(e),)
		out[p] = fact
	return out


def search_nodes(ctx: Ctx) -> SearchResult:
	"""nodes(T) ≅ nodes(restored T) through the real on-disk cache: App #1 parses and stores, App #2 (fresh container,
	same cache directory) must load the stored tree; paths, node classes, token text, spans, ids and values must agree."""
	rng = ctx.sub_rng('nodes')
	res = SearchResult('nodes(fresh) vs nodes(restored from the on-disk cache): paths, classes, tokens, spans, ids, values')
	proj = diskproj.DiskProject(os.path.join(ctx.tmpdir(), 'proj'), ctx.tmpdir())
	modules: list[tuple[str, str]] = []
	for i in range(ctx.scale(20, 300)):
		src, d = pygen.gen_module(rng, n_statements=rng.randint(1, 5))
		mp = f'gen.m{i}'
		label = f"generated#{i}:{d['unit']}"
		if i % 6 == 4:
			src, label = src.replace('\n', '\r\n'), label + ':crlf'
		elif i % 6 == 5:
			src, label = src.rstrip('\n') + rng.choice(['', '\n' + d['indent']]), label + ':no-final-newline'
		proj.write(mp, src)
		modules.append((mp, label))
	for k, src in enumerate(STATEMENT_FREE):
		# modules without any statement (an empty __init__.py, blank lines, white space, comments only): their tree is a bare
		# file_input, which must be stored and restored like any other
		proj.write(f'gen.free{k}', src)
		modules.append((f'gen.free{k}', f'statement-free#{k}:{src!r}'))
	for rel in pygen.real_files(ctx.thorough, rng, ctx.scale(4, 60)):
		# snapshot into the project (first in SourceEnvPath): immune to concurrent edits of the repository
		with open(os.path.join(common.REPO, rel), 'rb') as fh:
			proj.write(rel[:-3].replace(os.sep, '.'), fh.read())
		modules.append((rel[:-3].replace(os.sep, '.'), rel))
	# boundary lengths: modules whose stored form is exactly 1024 bytes / a whole number of 1024-, 4096-, 8192-, 512-byte blocks
	mem = common.MemApp(ctx.tmpdir())
	from rogw.tranp.syntax.ast.parser import SyntaxParser
	mem_parser = mem.resolve(SyntaxParser)

	def mem_parse(text: str) -> Any:
		mem.source = text
		return mem_parser(mem.main).source
	for k, (label, text) in enumerate(boundary_sources(mem_parse, rng, ctx.scale(6, 40))):
		proj.write(f'gen.bound{k}', text)
		modules.append((f'gen.bound{k}', label))
	seen = set()
	exercised = 0
	for mp, label in diskproj.bounded(modules, *diskproj.budgets(ctx), label=lambda x: x[1]):
		try:
			ep1 = proj.entrypoint(mp)
		except Exception:  # noqa: BLE001 - outside the grammar
			continue
		res.cases += 1
		try:
			ep2 = proj.entrypoint(mp)
			ep3 = proj.entrypoint(mp) if res.cases % 4 == 0 else None  # a third run on the warm cache
			root1 = diskproj.nodes_of(ep1)._Nodes__entries.by(ep1.full_path)
			root2 = diskproj.nodes_of(ep2)._Nodes__entries.by(ep2.full_path)
		except Exception as e:  # noqa: BLE001 - the fresh parse succeeded, so the stored form must load
			with open(os.path.join(proj.root, mp.replace('.', os.sep) + '.py'), encoding='utf-8', newline='') as fh:
				text = fh.read()
			res.findings.append(Finding(key=f'restore-raises:{exc_enum(e)}', what=f'{label}: loading the cached tree raises {exc_enum(e)} ({str(e)[:80]})', replay={'module': label, 'source': text[:20000], 'cache_files': [(os.path.basename(f), os.path.getsize(f)) for f in proj.tree_cache_files() if os.path.basename(f).startswith(mp.split('.')[-1] + '-')]}))
			continue
		if diskproj.is_restored(root1) or not diskproj.is_restored(root2):
			res.histogram['cache-not-exercised'] = res.histogram.get('cache-not-exercised', 0) + 1
		else:
			exercised += 1
		f1, f2 = node_facts(ep1), node_facts(ep2)
		if ep3 is not None and node_facts(ep3) != f2:
			res.findings.append(Finding(key='nodes-diff:second-restore', what=f'{label}: two loads of the same cache file give different nodes', replay={'module': label}))
		seen.add(hash(tuple(f1.items())))
		if list(f1.keys()) != list(f2.keys()):
			res.findings.append(Finding(key='nodes-diff:paths', what=f'{label}: path lists differ ({len(f1)} vs {len(f2)})', replay={'module': label, 'source': open(os.path.join(proj.root, mp.replace('.', os.sep) + '.py'), encoding='utf-8', newline='').read()[:20000]}))
			continue
		aspects = ['class', 'tokens', 'source_map', 'id', 'values', 'full_path']
		for p in f1:
			if f1[p] != f2[p]:
				k = next((aspects[i] for i in range(min(len(f1[p]), len(f2[p]))) if f1[p][i] != f2[p][i]), 'error')
				res.findings.append(Finding(key=f'nodes-diff:{k}', what=f'{label}: node {p}: fresh={f1[p]} restored={f2[p]}', replay={'module': label, 'path': p}))
				break
		kind = 'generated' if mp.startswith('gen.') else 'real'
		res.histogram[kind] = res.histogram.get(kind, 0) + 1
		res.histogram['nodes'] = res.histogram.get('nodes', 0) + len(f1)
		if len(res.samples) < 2:
			res.samples.append({'module': label, 'nodes': len(f1), 'cache_files': len(proj.tree_cache_files())})
	res.distinct = len(seen)
	res.note = 'cold parse → stored tree → warm load(s) by fresh Apps on the same cache directory; modules: generated (CRLF, no final line feed), statement-free, real snapshots, and boundary lengths (stored form exactly 1024 bytes / a whole number of 1024-, 4096-, 8192-, 512-byte blocks, reached by padding a trailing comment)'
	if not exercised and not res.findings:
		raise common.InfraError('no module was restored from the on-disk cache: the search did not exercise the cache path')
	return res


# ---------------------------------------------------------------------------------------------


STATEMENTS = {
	'view_rt': 'for every lark entry t (any meta state, any token positions, None slots): if dumps(t) succeeds then loads(json image of dumps(t)) succeeds and its EntryOfLark view equals the view of t, field by field, recursively',
	'view_rt_direct': 'the same without the JSON step (loads(dumps(t)), tuples kept)',
	'text_rt': "json.loads(json.dumps(j, separators=(',', ':'))) = j for every JSON value: parseJson (printJson j) = some j (strings of arbitrary Unicode scalar values, every integer)",
	'view_rt_text': 'view_rt through the text: parsing the printed dump and loading it restores the same view',
	'storeLoadText_eq': 'the cache path through the text equals the cache path on values',
	'text_ascii': 'the written text is pure ASCII (encode(utf-8) is one byte per character)',
	'truncated_rejected': 'no proper prefix of a printed object or array parses (a cache file cut short is rejected; cited by C05)',
	'truncated_cache_rejected': 'the same for what EntryStored.save writes for a tree or a token',
	'shape_source_map': 'EntryOfLark.source_map as the translator reads it from the source (attributes, order, truth tests, begin/end fold) equals the model sourceMap for every entry',
	'shape_dumps': 'the records and the span tuple Serialization.__dumps writes, as read from the source, are those of the model dumps',
	'shape_loads': 'the attribute assignments of Serialization.__loads (and the constant assigned to meta.empty), as read from the source, are the model restoredMeta / restored token',
	'shape_save': "EntryStored.save is json.dumps(data, separators=(',', ':')).encode('utf-8') with every other option default; only Serialization/EntryStored read Entry.source (scan of rogw/)",
	'shape_identity': "the tree-cache identity begins with (grammar_mtime, grammar, start, algorithem, mtime): the full str(mtime) expressions and the parser setting, pinned verbatim and in this order, followed by nothing or by the content hash ('hash': self.__sources.hash(source_path)) only; the parser-pickle identity has the keys mtime, grammar, start, algorithem",
	'identity_injective': 'the str(identity) text that is hashed determines every component of the generated identity (five, or six with the content hash), for plain components (printable ASCII without quote and backslash: there repr(s) is the text between single quotes); md5 itself is not modelled',
	'cache_file_injective': 'two runs share a module\'s cache file name (<path>-<md5 of str(identity)>.json) only if all identity components agree — under exactly one hypothesis about md5, Md5CollisionFreeOnIdentities: no collision among tree-cache identity texts',
	'dumps_ok_iff': 'dumps(t) succeeds exactly when every source_map in the view of t can be read (fails only with AttributeError on a non-empty Meta lacking attributes — never produced by lark)',
	'store_total': 'for trees whose non-empty metas carry all four attributes (all lark output) store→load always succeeds and preserves the view',
	'store_total_partial': 'the guard is exact: store→load succeeds (and preserves the view) precisely on the well-formed trees',
	'store_total_counterexample': '_counterexample of the unguarded statement: a non-empty Meta lacking an attribute cannot be stored (AttributeError); witness corpus/C15/incomplete-meta.json — outside what lark builds',
	'derived': 'any function of the view gives equal results on the restored and the fresh tree',
	'dumps_error': 'when dumps fails it fails with AttributeError',
	'derived_nodes': 'instances of derived: the entry cache (all paths in order), Nodes.source_map per path, ErrorRender quotation per path',
}


def translate(ctx: Ctx) -> tuple[bool, str]:
	"""the shapes of entry.py / parser.py / error_render.py as Lean tables (translate/gen_lark_cache.py); a shape the translator
	does not recognise breaks the tie"""
	with ctx.timed('translate'):
		try:
			from translate import gen_lark_cache
			ctx.generated_tables.extend(gen_lark_cache.generate())
			return True, ''
		except Exception as e:  # noqa: BLE001
			msg = f'{type(e).__name__}: {e}'
			ctx.notes.append(f'translator failed: {msg}')
			print(f'[{ctx.prop}] translator failed (the tie is broken): {msg}', file=sys.stderr)
			return False, msg


def stream_identity(ctx: Ctx) -> Stream:
	"""The tree cache's file name: md5 of the model's `str(identity)` text (generated keys; values = str(mtime) of the grammar, the parser setting,
	str(mtime) of the source file) vs the name of the cache file the real SyntaxParserOfLark writes."""
	import hashlib
	from rogw.tranp.syntax.ast.parser import ParserSetting
	from translate import gen_lark_cache
	rng = ctx.sub_rng('entry-identity')
	st = Stream('entry-identity')
	proj = diskproj.DiskProject(os.path.join(ctx.tmpdir(), 'proj'), ctx.tmpdir())
	lines, real, descs = [], [], []
	second = int(__import__('time').time()) - 5000
	for i in diskproj.bounded(range(ctx.scale(12, 80)), *diskproj.budgets(ctx)):
		src, _ = pygen.gen_module(rng, n_statements=1)
		mp = f'idn.m{i}'
		rel = proj.write(mp, src)
		full = os.path.join(proj.root, rel)
		stamp = (second + rng.randint(0, 3)) * 1_000_000_000 + rng.choice([0, 1, 250_000_000, 500_000_000, 999_999_999, rng.randrange(10 ** 9)])
		os.utime(full, ns=(stamp, stamp))
		try:
			proj.parse(mp)
		except Exception as e:  # noqa: BLE001
			st.disagreements.append({'case': mp, 'real': exc_enum(e), 'model': '(parse of a generated module)'})
			continue
		names = [os.path.basename(f) for f in proj.tree_cache_files() if os.path.basename(f).startswith(f'm{i}-')]
		setting = proj.app([mp]).resolve(ParserSetting)
		values = {
			'grammar_mtime': str(os.path.getmtime(os.path.join(common.REPO, setting.grammar))),
			'grammar': setting.grammar,
			'start': setting.start,
			'algorithem': setting.algorithem,
			'mtime': str(os.path.getmtime(full)),
			'hash': hashlib.md5(src.encode('utf-8')).hexdigest(),  # ISourceLoader.hash: md5 of the file's bytes (read only if the identity has the key)
		}
		# the values go to the model in the order of the keys the translator found in the source
		try:
			order = [k for k, _ in gen_lark_cache.parser_side()['treeIdentity']]
		except Exception as e:  # noqa: BLE001 - the translator no longer understands parser.py: the tie is broken, reported by run()
			st.disagreements.append({'case': mp, 'op': 'identity keys', 'real': f'{type(e).__name__}: {e}', 'model': '(translator)'})
			break
		if not set(order) <= set(values) or not {'grammar_mtime', 'grammar', 'start', 'algorithem', 'mtime'} <= set(order):
			st.disagreements.append({'case': mp, 'real': order, 'model': sorted(values), 'op': 'identity keys unknown to the harness / pinned keys missing'})
			continue
		lines.append('ident\t' + ','.join(hx(values[k]) for k in order))
		real.append(names)
		descs.append({'module': mp, **values})
	model = common.lean_driver('entry', lines)
	for d, names, out in zip(descs, real, model):
		st.cases += 1
		text = common.unhx(out[3:]) if out.startswith('ok ') else ''
		want = f"{d['module'].split('.')[1]}-{hashlib.md5(text.encode('utf-8')).hexdigest()}.json"
		if names != [want]:
			st.disagreements.append({'case': d, 'op': 'ident', 'real': names, 'model': want, 'model_text': text})
		if len(st.samples) < 2:
			st.samples.append({**d, 'identity_text': text, 'cache_file': names})
	st.distinct = st.cases
	st.histogram = {'modules': st.cases}
	st.note = "name of the cache file written by the real parser for on-disk modules with stamped mtimes (whole seconds, fractions down to 1 ns) = '<module>-' + md5(model's str(identity) text) + '.json'"
	return st


def guard_stream(fn: Any, ctx: Ctx) -> Stream:
	"""a case of the real code that exceeds its budget is a disagreement of the stream (named case), not a hang"""
	def on_timeout(case: Any) -> Stream:
		st = Stream(fn.__name__.replace('stream_', 'entry-' if PROP == 'C15' else 'span-'))
		st.disagreements.append({'case': case, 'op': '(budget)', 'real': 'the real code did not finish within the per-case budget', 'model': '-'})
		return st

	def on_error(case: Any, what: str) -> Stream:
		st = Stream(fn.__name__.replace('stream_', 'entry-' if PROP == 'C15' else 'span-'))
		st.disagreements.append({'case': case, 'op': '(unreadable result)', 'real': f'an observation of the real code could not be taken or encoded: {what}', 'model': '-'})
		return st
	return diskproj.guarded(fn, ctx, on_timeout, on_error)


def guard_search(fn: Any, ctx: Ctx) -> Any:
	def on_timeout(case: Any) -> SearchResult:
		res = SearchResult(f'{fn.__name__}: budget')
		res.findings.append(Finding(key='real-code-exceeds-budget', what=f'{fn.__name__}: the real code did not finish within the per-case budget on {case}', replay={'case': case}))
		return res

	def on_error(case: Any, what: str) -> SearchResult:
		res = SearchResult(f'{fn.__name__}: unexpected exception')
		res.findings.append(Finding(key=f"oracle-raises:{what.split(':')[0]}", what=f'{fn.__name__}: evaluating the statement on {case} raised {what}', replay={'case': case, 'exception': what}))
		return res
	return diskproj.guarded(fn, ctx, on_timeout, on_error)


def run(ctx: Ctx) -> int:
	translate_ok, translate_msg = translate(ctx)
	proof = common.prove(ctx, PROP, leanchecker=ctx.thorough)
	with ctx.timed('correspondence'):
		streams = [guard_stream(f, ctx) for f in (stream_real, stream_random, stream_loads, stream_text, stream_identity)]
	with ctx.timed('search'):
		searches = [guard_search(f, ctx) for f in (search_views, search_nodes, search_truncation)]
	return common.finish(ctx, proof, streams, searches,
		translate_ok=translate_ok, translate_msg=translate_msg,
		statements=STATEMENTS,
		partial={
			'proved': 'loads(json(dumps(T))) ≅ T field by field for every tree shape; everything computed from the Entry interface (paths, spans, quotations) is equal on restored and fresh trees',
			'correspondence_only': 'node classes are functions of the Entry interface only (no code reads Entry.source except Serialization) — checked by the nodes search',
		},
		assumptions=[
			'names and token values are str, positions are None or int (what lark produces); other attribute types are outside the model',
			"CPython's json encoder/decoder behave as modelled by printJson/parseJson (stream entry-text on every run); white space, floats, lone surrogates and duplicate keys are outside the model",
			'downstream code observes a tree only through the Entry interface: the translator scans rogw/ on every run and theorem shape_save fixes the readers of Entry.source to Serialization/EntryStored',
			'md5 (Cached.identifier) is a parameter: cache_file_injective needs exactly Md5CollisionFreeOnIdentities (no md5 collision among tree-cache identity texts)',
		],
		trusted=['lark.Tree / lark.Token / lark.tree.Meta attribute semantics (Tree.meta creates an empty Meta on demand)'])


def replay(ctx: Ctx, path: str) -> int:
	with open(path, encoding='utf-8') as f:
		rec = json.load(f)
	print(json.dumps(rec, indent=1)[:4000])
	ctx2 = Ctx(PROP, rec.get('tier', 'quick'), int(rec.get('seed', 0)))
	return run(ctx2)
