"""C07 — the real pipeline `Modules.load -> ITranspiler.transpile` (in memory and on disk) with outcome classification.

Used by the failing-input search of harness/c07.py. No model is involved here: the oracle is the property statement itself
(outcome in {ok} ∪ Errors.Error, the error render does not raise, 10 s wall cap).
"""
from __future__ import annotations

import contextlib
import os
import shutil
import signal
import tempfile
import time
import traceback
from collections import Counter
from dataclasses import dataclass, field
from typing import Any

from harness import common
from harness.common import REPO



def tranp_root() -> str:
	"""Directory of the imported `rogw.tranp` package (= <common.REPO>/rogw/tranp; taken from the package itself so that a
	symlinked or mutated worktree given through VERIF_REPO yields the same relative frame names)."""
	global _TRANP_ROOT
	if _TRANP_ROOT is None:
		import rogw.tranp.errors as m  # type: ignore
		_TRANP_ROOT = os.path.dirname(os.path.abspath(m.__file__)) + os.sep
	return _TRANP_ROOT


_TRANP_ROOT: str | None = None
CAP_S = 10.0        # per input, measured in CPU time of the harness process (ITIMER_PROF): immune to machine load, still catches every loop
WALL_SAFETY_S = 60.0  # wall-clock safety net (a hang in I/O or sleep); reported like a cap hit, confirmed on a fresh App like every key


class WallCap(BaseException):
	"""Raised by the SIGPROF/SIGALRM handler: the input exceeded the time cap."""


def _on_alarm(signum: int, frame: Any) -> None:
	raise WallCap()


@contextlib.contextmanager
def budget(cpu_s: float = CAP_S, wall_s: float = WALL_SAFETY_S) -> Any:
	"""Per-case budget for a real-code call outside Pipeline.run: WallCap (a BaseException) is raised when the call uses more than
	`cpu_s` of CPU time or `wall_s` of wall time, so a non-terminating case becomes an observation, never a hang of the harness."""
	old_alarm = signal.signal(signal.SIGALRM, _on_alarm)
	old_prof = signal.signal(signal.SIGPROF, _on_alarm)
	signal.setitimer(signal.ITIMER_PROF, cpu_s)
	signal.setitimer(signal.ITIMER_REAL, wall_s)
	try:
		yield
	finally:
		signal.setitimer(signal.ITIMER_PROF, 0)
		signal.setitimer(signal.ITIMER_REAL, 0)
		signal.signal(signal.SIGALRM, old_alarm)
		signal.signal(signal.SIGPROF, old_prof)


class Deadline:
	"""Total wall deadline of a stream / search: once over, the remaining cases are skipped and counted (reported in the evidence notes)."""

	def __init__(self, seconds: float) -> None:
		self.end = time.time() + seconds
		self.skipped = 0

	def over(self) -> bool:
		if time.time() > self.end:
			self.skipped += 1
			return True
		return False


def py2cpp_definitions() -> dict[str, Any]:
	"""DI definitions of tests/unit/rogw/tranp/implements/cpp/transpiler/test_py2cpp.py (without the fixture translations)."""
	from rogw.tranp.app.dir import tranp_dir
	from rogw.tranp.app.dummy import make_dummy_module_meta_factory
	from rogw.tranp.data.meta.types import ModuleMetaFactory
	from rogw.tranp.i18n.i18n import I18n, TranslationMapping
	from rogw.tranp.implements.cpp.providers.i18n import translation_mapping_cpp
	from rogw.tranp.implements.cpp.providers.view import renderer_helper_provider_cpp
	from rogw.tranp.implements.cpp.transpiler.py2cpp import Py2Cpp
	from rogw.tranp.lang.middleware import Middleware
	from rogw.tranp.lang.module import to_fullyname
	from rogw.tranp.transpiler.types import ITranspiler, TranspilerOptions
	from rogw.tranp.view.render import Renderer, RendererEmitter, RendererHelperProvider, RendererSetting

	def make_renderer_setting(i18n, emitter):  # type: ignore[no-untyped-def]
		template_dirs = [os.path.join(tranp_dir(), 'data/cpp/template')]
		env = {'immutable_param_types': ['std::string', 'std::vector', 'std::map', 'std::function']}
		return RendererSetting(template_dirs, i18n.t, emitter, env)

	# tranp's DI reads real classes from __annotations__ (this file uses postponed annotations, so set them explicitly)
	make_renderer_setting.__annotations__ = {'i18n': I18n, 'emitter': RendererEmitter, 'return': RendererSetting}

	return {
		to_fullyname(Py2Cpp): Py2Cpp,
		to_fullyname(ITranspiler): Py2Cpp,
		to_fullyname(Renderer): Renderer,
		to_fullyname(RendererEmitter): Middleware,
		to_fullyname(RendererHelperProvider): renderer_helper_provider_cpp,
		to_fullyname(RendererSetting): make_renderer_setting,
		to_fullyname(TranslationMapping): translation_mapping_cpp,
		to_fullyname(TranspilerOptions): lambda: TranspilerOptions(verbose=False, env={}),
		to_fullyname(ModuleMetaFactory): make_dummy_module_meta_factory,
	}


def class_name(e: BaseException | type) -> str:
	cls = e if isinstance(e, type) else type(e)
	mod = cls.__module__
	return cls.__qualname__ if mod == 'builtins' else f'{mod}.{cls.__qualname__}'


def is_app_error(e: BaseException) -> bool:
	from rogw.tranp.errors import Errors
	return isinstance(e, Errors.Error)


def tranp_frames(e: BaseException) -> list[str]:
	"""`relative/file.py:qualname` of every traceback frame inside rogw/tranp, outermost first (no line numbers: keys stay stable)."""
	out = []
	root = tranp_root()
	tb = e.__traceback__
	while tb is not None:
		code = tb.tb_frame.f_code
		fn = code.co_filename
		if fn.startswith(root):
			out.append(f'{fn[len(root):]}:{code.co_qualname}')
		tb = tb.tb_next
	return out


def escape_key(e: BaseException, mode: str) -> str:
	"""Finding key = (escaping class, innermost tranp frame `file:function`).

	* RecursionError: the innermost frame is wherever the interpreter limit happened to be hit, so the key names the cycle instead:
	  the alphabetically first frame of the repeating group and the number of further frames in it.
	* The two parser branches differ only inside SyntaxParserOfLark.__load_entry, so the branch is part of the key there
	  (and only there): `...parser.py:SyntaxParserOfLark.__load_entry[in-memory]`.
	"""
	frames = tranp_frames(e)
	cls = class_name(e)
	if not frames:
		return f'{cls}@no-tranp-frame'
	if isinstance(e, RecursionError) and len(frames) >= 200:
		# the recursion runs through tranp code: the cycle = the distinct frames well inside the 1000-deep stack (the last frames are
		# the final, non-cyclic descent). With few tranp frames the recursion is inside a library (json, lark) and the innermost
		# tranp frame — the call into that library — is the stable name, as for every other class.
		cyc = sorted(set(frames[-150:-30]))
		return f'{cls}@recursion:{cyc[0]}(+{len(cyc) - 1})'
	inner = frames[-1]
	if inner.startswith('implements/syntax/lark/parser.py:'):
		return f'{cls}@{inner}[{mode}]'
	return f'{cls}@{inner}'


@dataclass
class Outcome:
	kind: str  # ok | error | escape | timeout
	cls: str = ''
	key: str = ''
	message: str = ''
	render: str = 'n/a'  # ok | n/a | fail
	render_key: str = ''
	render_message: str = ''
	frames: list[str] = field(default_factory=list)
	quoted: bool = False
	fatal_site: str = ''  # for Errors.Fatal(…, 'Unhandled error', inner): `<inner class>@<innermost tranp frame of inner>`

	@property
	def violates(self) -> bool:
		return self.kind in ('escape', 'timeout') or self.render == 'fail'

	def keys(self) -> list[str]:
		out = []
		if self.kind in ('escape', 'timeout'):
			out.append(self.key)
		if self.render == 'fail':
			out.append(self.render_key)
		return out


class Pipeline:
	"""One long-lived real tranp App per mode; every input is loaded as a fresh module and transpiled."""

	REBUILD_EVERY = {'in-memory': 2000, 'on-disk': 400, 'on-disk-nontarget': 400}

	def __init__(self, mode: str, base_tmp: str, wall_cap: float = CAP_S, post: Any = None, share: tuple[str, str] | None = None) -> None:
		# 'on-disk-nontarget': the module file exists but is NOT registered as a transpile target (ModulePaths): the entrypoint handler fails with an
		# application error whose subject is the ROOT node — what a Runner meets for a module outside the configured globs
		assert mode in ('in-memory', 'on-disk', 'on-disk-nontarget')
		self.mode = mode
		self.base_tmp = base_tmp
		self.wall_cap = wall_cap
		self.share = share  # (project dir, cache dir) of another Pipeline
		self.post = post  # optional extra oracle: post(mode, data, outcome) may turn an outcome into a violation (with a key)
		self.n = 0
		self.runs = 0
		self.rebuilds = 0
		self._build()

	# -- construction --------------------------------------------------------------------------

	def _build(self) -> None:
		from rogw.tranp.transpiler.types import ITranspiler
		self.root = tempfile.mkdtemp(prefix=f'c07-{self.mode}-', dir=self.base_tmp)
		cache_dir = os.path.join(self.root, 'cache')
		os.makedirs(cache_dir)
		if self.share is not None:  # a second App over an existing project and cache directory (run-to-run histories)
			cache_dir = self.share[1]
		if self.mode == 'in-memory':
			from rogw.tranp.app.dir import tranp_dir
			from rogw.tranp.app.env import SourceEnvPath
			from rogw.tranp.lang.module import to_fullyname
			# imported sibling modules of a multi-file input live on disk below `proj`
			self.proj = os.path.join(self.root, 'proj')
			os.makedirs(os.path.join(self.proj, 'fz'))
			self.app: Any = common.MemApp(cache_dir, {**py2cpp_definitions(),
				to_fullyname(SourceEnvPath): lambda: SourceEnvPath([self.proj, tranp_dir(), os.path.join(tranp_dir(), 'rogw/tranp/compatible/libralies')])})
			self.resolve = self.app.resolve
		else:
			self._build_disk(cache_dir)
		self.transpiler = self.resolve(ITranspiler)

	def _build_disk(self, cache_dir: str) -> None:
		"""A project directory with package `fz`; every input becomes `fz/m<N>.py` (a new file per input: FileLoader memoises
		mtimes, so rewriting one file inside a session would hit the AST cache of the previous content)."""
		from rogw.tranp.app.app import App
		from rogw.tranp.app.dir import tranp_dir
		from rogw.tranp.app.env import DataEnvPath, SourceEnvPath
		from rogw.tranp.lang.module import to_fullyname
		from rogw.tranp.module.types import ModulePaths
		from rogw.tranp.providers.module import module_meta_factory
		from rogw.tranp.data.meta.types import ModuleMetaFactory
		self.proj = self.share[0] if self.share is not None else os.path.join(self.root, 'proj')
		os.makedirs(os.path.join(self.proj, 'fz'), exist_ok=True)
		self.module_paths: Any = ModulePaths()
		defs = common.tranp_definitions(cache_dir, {
			**py2cpp_definitions(),
			# the real (hashing) meta factory, as bin/transpile.py's Runner uses it
			to_fullyname(ModuleMetaFactory): module_meta_factory,
			to_fullyname(ModulePaths): lambda: self.module_paths,
			to_fullyname(DataEnvPath): lambda: DataEnvPath([tranp_dir()]),
			to_fullyname(SourceEnvPath): lambda: SourceEnvPath([self.proj, tranp_dir(), os.path.join(tranp_dir(), 'rogw/tranp/compatible/libralies')]),
		})
		self.app = App(defs)
		self.resolve = self.app.resolve

	def rebuild(self) -> None:
		self.rebuilds += 1
		shutil.rmtree(self.root, ignore_errors=True)
		self._build()

	def load_existing(self, module_name: str) -> Outcome:
		"""load + transpile a module file that already exists below the project directory (second run of a history)"""
		from rogw.tranp.module.modules import Modules
		from rogw.tranp.module.types import ModulePath
		old_cwd = os.getcwd()
		os.chdir(self.proj)
		try:
			self.module_paths.append(ModulePath(module_name, language='py'))
			module = self.resolve(Modules).load(module_name)
			self.transpiler.transpile(module.entrypoint)
			return Outcome('ok')
		except BaseException as e:  # noqa: BLE001
			if is_app_error(e):
				return Outcome('error', class_name(e), '', _safe_str(e))
			return Outcome('escape', class_name(e), escape_key(e, self.mode), _safe_str(e), frames=tranp_frames(e)[-6:])
		finally:
			os.chdir(old_cwd)

	def close(self) -> None:
		shutil.rmtree(self.root, ignore_errors=True)

	# -- one input -----------------------------------------------------------------------------

	def _load_and_transpile(self, data: str | bytes, load_only: bool = False) -> Any:
		from rogw.tranp.module.modules import Modules
		# `__SELF__` in an input stands for the module's own path (self-imports / one-module import cycles).
		# Multi-file input: `<main text>` then, per sibling, a line `#%%FILE <name>` (or `#%%MISSING <name>`: no file is written) and its
		# text; `__M__<name>` in any text stands for the sibling's module path. Siblings are always files below the project directory.
		self.n += 1
		name = f'm{self.n}'
		if isinstance(data, str) and '\n#%%' in data:
			parts = data.split('\n#%%')
			data = parts[0] + '\n'
			sub = lambda t: t.replace('__M__', f'fz.{name}_')  # noqa: E731
			data = sub(data)
			for part in parts[1:]:
				head, _, body = part.partition('\n')
				kind, _, sib = head.partition(' ')
				if kind == 'FILE':
					with open(os.path.join(self.proj, 'fz', f'{name}_{sib.strip()}.py'), 'wb') as f:
						f.write(sub(body).encode('utf-8', errors='replace'))
		if self.mode == 'in-memory':
			src = data.decode('utf-8', errors='replace') if isinstance(data, bytes) else data
			module = self.app.module(src.replace('__SELF__', self.app.main))
		else:
			from rogw.tranp.module.types import ModulePath
			raw = data if isinstance(data, bytes) else data.encode('utf-8', errors='replace')
			raw = raw.replace(b'__SELF__', f'fz.{name}'.encode())
			with open(os.path.join(self.proj, 'fz', f'{name}.py'), 'wb') as f:
				f.write(raw)
			if self.mode == 'on-disk':
				self.module_paths.append(ModulePath(f'fz.{name}', language='py'))
			module = self.resolve(Modules).load(f'fz.{name}')
		if load_only:
			return module
		self.transpiler.transpile(module.entrypoint)
		return module

	def load_module(self, data: str | bytes) -> tuple[Any, BaseException | None]:
		"""Modules.load only (no transpile) under the CPU cap, cwd = project for the on-disk modes → (module | None, exception | None)"""
		old_cwd = os.getcwd()
		if self.mode != 'in-memory':
			os.chdir(self.proj)
		try:
			with budget(cpu_s=self.wall_cap):
				return self._load_and_transpile(data, load_only=True), None
		except (KeyboardInterrupt, SystemExit, MemoryError):
			raise
		except BaseException as e:  # noqa: BLE001
			return None, e
		finally:
			os.chdir(old_cwd)

	def _arm(self) -> None:
		signal.setitimer(signal.ITIMER_PROF, self.wall_cap)
		signal.setitimer(signal.ITIMER_REAL, WALL_SAFETY_S)

	def _disarm(self) -> None:
		signal.setitimer(signal.ITIMER_PROF, 0)
		signal.setitimer(signal.ITIMER_REAL, 0)

	def run(self, data: str | bytes) -> Outcome:
		"""Load + transpile one input under the wall cap; render the error the way bin/transpile.py does (cwd = project)."""
		from rogw.tranp.view.error_render import ErrorRender
		self.runs += 1
		if self.runs % self.REBUILD_EVERY[self.mode] == 0:
			# every on-disk input stays loaded as a module of the App (Modules, SymbolDB): bound the memory by starting over at
			# fixed counts (deterministic; outcomes do not depend on it — each key is re-confirmed on a fresh App anyway)
			self.rebuild()
		old_handler = signal.signal(signal.SIGALRM, _on_alarm)
		old_cwd = os.getcwd()
		if self.mode != 'in-memory':
			os.chdir(self.proj)
		caught: BaseException | None = None
		old_prof = signal.signal(signal.SIGPROF, _on_alarm)
		try:
			self._arm()
			try:
				self._load_and_transpile(data)
			finally:
				self._disarm()
			out = Outcome('ok')
		except WallCap as e:
			frames = tranp_frames(e)
			out = Outcome('timeout', 'WallCap', f'timeout@{Counter(frames).most_common(1)[0][0] if frames else "no-tranp-frame"}', f'no result within {self.wall_cap} s of CPU time', frames=frames[-6:])
		except (KeyboardInterrupt, SystemExit, MemoryError):
			os.chdir(old_cwd)
			signal.signal(signal.SIGALRM, old_handler)
			signal.signal(signal.SIGPROF, old_prof)
			raise
		except BaseException as e:  # noqa: BLE001 - the escaping class is the observation
			caught = e
			msg = _safe_str(e)
			if is_app_error(e):
				out = Outcome('error', class_name(e), '', msg)
				inner = next((a for a in e.args if isinstance(a, BaseException)), None)
				if type(e).__name__ == 'Fatal' and inner is not None:
					out.fatal_site = escape_key(inner, self.mode) if inner.__traceback__ is not None else f'{class_name(inner)}@no-traceback'
			else:
				out = Outcome('escape', class_name(e), escape_key(e, self.mode), msg, frames=tranp_frames(e)[-6:])
		if caught is not None:
			# bin/transpile.py: `print(ErrorRender(e))` (Interactive: for Errors.Error; __main__: for every Exception)
			try:
				self._arm()
				try:
					text = str(ErrorRender(caught))  # type: ignore[arg-type]
				finally:
					self._disarm()
				out.render = 'ok'
				out.quoted = 'via Node:' in text
			except WallCap:
				out.render = 'fail'
				out.render_key = f'render:timeout[{out.cls}]'
				out.render_message = 'render exceeded the wall cap'
			except BaseException as e2:  # noqa: BLE001
				out.render = 'fail'
				# same naming rule as for escapes (a RecursionError is named by its cycle, not by where the limit happened to be hit)
				out.render_key = f'render:{escape_key(e2, self.mode)}'
				out.render_message = _safe_str(e2)
		os.chdir(old_cwd)
		signal.signal(signal.SIGALRM, old_handler)
		signal.signal(signal.SIGPROF, old_prof)
		if out.kind == 'timeout':
			self.rebuild()
		if self.post is not None:
			self.post(self.mode, data, out)
		return out


def _safe_str(e: BaseException) -> str:
	try:
		return str(e).replace('\n', ' ')[:160]
	except BaseException as e2:  # noqa: BLE001
		return f'<str() raised {type(e2).__name__}>'


def fresh_outcome(mode: str, base_tmp: str, data: str | bytes, prefix: list[str | bytes] | None = None, post: Any = None) -> Outcome:
	"""The outcome of `data` in a brand-new App (optionally after the inputs in `prefix`): history-free confirmation."""
	p = Pipeline(mode, base_tmp, post=post)
	try:
		for d in prefix or []:
			p.run(d)
		return p.run(data)
	finally:
		p.close()


def format_tb(e: BaseException) -> str:
	return ''.join(traceback.format_exception(type(e), e, e.__traceback__))[-3000:]
