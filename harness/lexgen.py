"""Source generator, layout rewrites and the CPython oracle for property C13 (tranp's own tokenizer).

A generated program is a list of logical lines (block depth + token list). How it is laid out — indentation unit, the white
space between tokens (including physical line breaks and comments inside brackets), blank / comment-only filler lines,
trailing spaces and comments, final newline — is a separate `Layout`. Rendering the same program under two layouts gives
the metamorphic pairs `s`, `w(s)` of the property; rendering under one layout gives the inputs compared with CPython.

The lexical subset on which `Tokenizer().parse` is compared with CPython's `tokenize` (DESIGN.md §5 C13), exactly:
  * ASCII, `\n` line ends, no form feed / carriage return, no backslash line continuation;
  * names `[A-Za-z_][A-Za-z0-9_]*` (keywords included);
  * numbers: decimal ints without leading zeros, floats `D.D` / `D.` (no leading dot, exponent, underscore, suffix, radix);
  * strings: prefix '' / r / f, quotes ' / " / triple-double, any printable content, `\\x` escapes, newlines inside triple quotes,
    replacement fields inside f-strings (re-joined on the CPython side), even backslash runs and escaped quotes right before the
    closing quote (the former F8 classes, repaired in efe3cdf); not: ''' strings, upper-case or combined
    prefixes, nested same-kind quotes inside f-string fields;
  * operators: every single-character symbol Python has (@ . , : ; ( ) { } [ ] = - + * / % & | ^ ~ < >) and the combined
    symbols TokenDefinition lists that Python also has (-= += *= /= %= &= |= ^= == != <= >= << >> -> ** := ...);
    outside: // //= <<= >>= **= @= <> (Python only), && || ~= $ ? ` and a lone ! (tranp only) — never produced adjacently;
  * indentation: one consistent unit per file (a tab or 1..8 spaces), every block exactly one unit deeper, dedents to
    enclosing levels; brackets balanced; at least one statement; comments / blank lines anywhere between statements.
"""
from __future__ import annotations

import io
import random
import re
import tokenize
from dataclasses import dataclass, field
from typing import Any

NAME, NUM, STR, OP = 'name', 'num', 'str', 'op'

KEYWORDS = ['if', 'else', 'elif', 'for', 'while', 'in', 'is', 'not', 'and', 'or', 'def', 'class', 'return', 'pass', 'lambda', 'None', 'True', 'False', 'with', 'as', 'import', 'from', 'del', 'assert', 'yield', 'raise', 'try', 'except', 'finally', 'break', 'continue', 'global', 'await', 'async']
IDENTS = ['a', 'b', 'c', 'x', 'y', 'z', 'i', 'n', 'r', 'f', 'rf', 'fr', 'self', 'foo', 'bar', 'arr', 'value', '_', '_x', '__init__', 'A', 'B', 'Cls', 'x1', 'y_2', 'snake_case', 'CamelCase', 'e5', 'j', 'T', 'int', 'str', 'list', 'dict']

SINGLE_OPS = ['@', '.', ',', ':', ';', '(', ')', '{', '}', '[', ']', '=', '-', '+', '*', '/', '%', '&', '|', '^', '~', '<', '>']
SHARED_COMBINED = ['-=', '+=', '*=', '/=', '%=', '&=', '|=', '^=', '==', '!=', '<=', '>=', '<<', '>>', '->', '**', ':=', '...']
PY_ONLY = ['//', '//=', '<<=', '>>=', '**=', '@=', '<>']
TRANP_ONLY = ['&&', '||', '~=']
TRANP_ONLY_SINGLE = ['$', '?', '`', '!']
BINARY = ['+', '-', '*', '/', '%', '&', '|', '^', '<<', '>>', '**', '==', '!=', '<=', '>=', '<', '>', '@']
AUGMENTED = ['-=', '+=', '*=', '/=', '%=', '&=', '|=', '^=']
OPENERS = {'(': ')', '[': ']', '{': '}'}
CLOSERS = {')', ']', '}'}


@dataclass
class Tok:
	kind: str
	text: str


@dataclass
class Line:
	depth: int
	toks: list[Tok]


@dataclass
class Layout:
	unit: str
	gaps: list[list[str]]
	fill: list[list[str]]
	trail: list[str]
	tail: list[str]
	final_newline: bool


@dataclass
class GenOpts:
	"""What the generator may produce beyond the CPython-comparable subset (used by the correspondence streams)."""
	tranp_only_ops: bool = False
	escape_hazards: float = 0.0  # probability that a string ends in an even backslash run / an escaped quote before a triple close
	max_depth: int = 6
	stats: dict[str, int] = field(default_factory=dict)


# ---------------------------------------------------------------------------------------------
# tokens


def gen_name(rng: random.Random) -> Tok:
	if rng.random() < 0.12:
		n = rng.choice('abcxyzABC_') + ''.join(rng.choice('abcdefXYZ0123456789_') for _ in range(rng.randint(0, 8)))
		return Tok(NAME, n)
	return Tok(NAME, rng.choice(IDENTS))


def gen_num(rng: random.Random) -> Tok:
	r = rng.random()
	if r < 0.15:
		return Tok(NUM, '0')
	i = str(rng.randint(1, 10 ** rng.randint(1, 12)))
	if r < 0.6:
		return Tok(NUM, i)
	if r < 0.85:
		return Tok(NUM, f'{i}.{rng.randint(0, 999)}' if rng.random() < 0.8 else f'0.{rng.randint(0, 99):02d}')
	return Tok(NUM, f'{i}.')


PLAIN = 'abc xyz ABC 0123 _-+*/=<>()[]{}#:;,.!?@$%^&|~`'
ESCAPED = ['n', 't', '\\', "'", '"', 'x41', '0', 'a', 'N', ' ']


def gen_str(rng: random.Random, opts: GenOpts) -> Tok:
	prefix = rng.choice(['', '', '', 'r', 'f'])
	quote = rng.choice(["'", '"', '"', '"""'])
	other = '"' if quote == "'" else "'"
	n = rng.choice([0, 1, 2, 3, 5, 8, 13])
	parts: list[str] = []
	plain = PLAIN if prefix != 'f' else PLAIN.replace('{', '').replace('}', '')
	for _ in range(n):
		r = rng.random()
		if r < 0.55:
			parts.append(rng.choice(plain))
		elif r < 0.65:
			parts.append(other)
		elif r < 0.85:
			e = rng.choice(ESCAPED)
			if prefix == 'f' and e in ('N', 'x41', '0'):
				e = 'n'
			parts.append('\\' + e)
		elif r < 0.93 and quote == '"""':
			parts.append(rng.choice(['\n', '\n\t', '"', '""', '\n    ']))
		elif prefix == 'f':
			parts.append(rng.choice(['{a}', '{x + 1}', '{{', '}}', '{d[k]}', '{f(a, b)}', '{a!r}', '{a:>{w}}', '{a.b}']))
		else:
			parts.append(rng.choice(plain))
	body = ''.join(parts)
	body = fix_body(body, quote)
	hazard = ''
	if rng.random() < opts.escape_hazards:
		if quote == '"""' and rng.random() < 0.5:
			hazard = '\\"'
			opts.stats['hazard:escaped-quote-before-triple-close'] = opts.stats.get('hazard:escaped-quote-before-triple-close', 0) + 1
		else:
			hazard = '\\\\' * rng.randint(1, 2)
			opts.stats['hazard:even-backslashes-before-close'] = opts.stats.get('hazard:even-backslashes-before-close', 0) + 1
	return Tok(STR, f'{prefix}{quote}{body}{hazard}{quote}')


def backslash_run(s: str, end: int) -> int:
	n = 0
	while end - 1 - n >= 0 and s[end - 1 - n] == '\\':
		n += 1
	return n


def fix_body(body: str, quote: str) -> str:
	"""Make `body` a valid, exactly-agreed string interior: no unescaped closing quote, no trailing backslash run (added
	separately as a hazard), no raw newline in single-line strings, triple-quoted bodies neither contain the closing
	sequence nor end in a quote character."""
	out: list[str] = []
	i = 0
	q = quote[0]
	while i < len(body):
		c = body[i]
		if c == '\\' and i + 1 < len(body):
			out.append(body[i:i + 2])
			i += 2
			continue
		if c == '\\':
			i += 1
			continue
		if len(quote) == 1 and (c == q or c == '\n'):
			i += 1
			continue
		out.append(c)
		i += 1
	s = ''.join(out)
	if len(quote) == 3:
		while '"""' in s:
			s = s.replace('"""', '""')
	# an unescaped quote right before a triple close would close early (CPython); a trailing backslash run would escape the
	# closing quote (odd) or is the hazard class (even): both are stripped here, hazards are appended by the caller
	changed = True
	while changed:
		changed = False
		while len(quote) == 3 and s.endswith('"'):
			s = s[:-1]
			changed = True
		while s.endswith('\\'):
			s = s[:-1]
			changed = True
	return s


def op(t: str) -> Tok:
	return Tok(OP, t)


def kw(t: str) -> Tok:
	return Tok(NAME, t)


# ---------------------------------------------------------------------------------------------
# expressions and statements (token level; plausible Python, the oracle only needs lexical validity)


def gen_atom(rng: random.Random, opts: GenOpts, depth: int) -> list[Tok]:
	r = rng.random()
	if r < 0.3 or depth > 3:
		r2 = rng.random()
		if r2 < 0.5:
			return [gen_name(rng)]
		if r2 < 0.75:
			return [gen_num(rng)]
		if r2 < 0.95:
			return [gen_str(rng, opts)]
		return [op('...')]
	if r < 0.4:
		return [gen_name(rng), op('.'), gen_name(rng)]
	if r < 0.52:
		args = gen_args(rng, opts, depth + 1)
		return [gen_name(rng), op('('), *args, op(')')]
	if r < 0.6:
		idx = gen_expr(rng, opts, depth + 1)
		if rng.random() < 0.4:
			idx = [*idx, op(':'), *(gen_expr(rng, opts, depth + 1) if rng.random() < 0.6 else [])]
		return [gen_name(rng), op('['), *idx, op(']')]
	if r < 0.68:
		return [op('('), *gen_seq(rng, opts, depth + 1), op(')')]
	if r < 0.76:
		return [op('['), *gen_seq(rng, opts, depth + 1), op(']')]
	if r < 0.84:
		items: list[Tok] = []
		for k in range(rng.randint(0, 3)):
			if k:
				items.append(op(','))
			items.extend([*gen_expr(rng, opts, depth + 2), op(':'), *gen_expr(rng, opts, depth + 2)])
		return [op('{'), *items, op('}')]
	if r < 0.92:
		u = rng.choice(['-', '-', '+', '~', 'not'])
		return [op(u) if u != 'not' else kw('not'), *gen_atom(rng, opts, depth + 1)]
	if r < 0.96:
		return [op('('), gen_name(rng), op(':='), *gen_expr(rng, opts, depth + 1), op(')')]
	return [kw('lambda'), gen_name(rng), op(':'), *gen_expr(rng, opts, depth + 1)]


def gen_seq(rng: random.Random, opts: GenOpts, depth: int) -> list[Tok]:
	out: list[Tok] = []
	for k in range(rng.randint(0, 4)):
		if k:
			out.append(op(','))
		if rng.random() < 0.1:
			out.append(op('*'))
		out.extend(gen_expr(rng, opts, depth))
	if out and rng.random() < 0.2:
		out.append(op(','))
	return out


def gen_args(rng: random.Random, opts: GenOpts, depth: int) -> list[Tok]:
	out: list[Tok] = []
	for k in range(rng.randint(0, 3)):
		if k:
			out.append(op(','))
		r = rng.random()
		if r < 0.1:
			out.append(op('*'))
		elif r < 0.2:
			out.append(op('**'))
		elif r < 0.35:
			out.extend([gen_name(rng), op('=')])
		out.extend(gen_expr(rng, opts, depth))
	return out


def gen_expr(rng: random.Random, opts: GenOpts, depth: int = 0) -> list[Tok]:
	out = gen_atom(rng, opts, depth)
	while rng.random() < (0.45 if depth < 3 else 0.15):
		r = rng.random()
		if r < 0.75:
			o = rng.choice(BINARY)
			if opts.tranp_only_ops and rng.random() < 0.15:
				o = rng.choice(TRANP_ONLY + TRANP_ONLY_SINGLE + PY_ONLY)
			out.append(op(o))
		elif r < 0.9:
			out.append(kw(rng.choice(['and', 'or', 'in', 'is', 'if'])))
			if out[-1].text == 'if':
				out.extend([*gen_atom(rng, opts, depth + 1), kw('else')])
		else:
			out.extend([kw('not'), kw('in')])
		out.extend(gen_atom(rng, opts, depth + 1))
	return out


def gen_simple(rng: random.Random, opts: GenOpts) -> list[Tok]:
	r = rng.random()
	if r < 0.3:
		return [gen_name(rng), op('='), *gen_expr(rng, opts)]
	if r < 0.42:
		return [gen_name(rng), op(rng.choice(AUGMENTED)), *gen_expr(rng, opts)]
	if r < 0.5:
		return [gen_name(rng), op(':'), gen_name(rng), *([op('='), *gen_expr(rng, opts)] if rng.random() < 0.6 else [])]
	if r < 0.6:
		return [kw('return'), *gen_expr(rng, opts)]
	if r < 0.66:
		return [kw(rng.choice(['pass', 'break', 'continue']))]
	if r < 0.72:
		return [kw('import'), gen_name(rng), op('.'), gen_name(rng)]
	if r < 0.78:
		return [kw('assert'), *gen_expr(rng, opts), op(','), gen_str(rng, opts)]
	if r < 0.82:
		return [gen_name(rng), op(','), gen_name(rng), op('='), *gen_expr(rng, opts), op(','), *gen_expr(rng, opts)]
	if r < 0.86:
		return [gen_str(rng, opts)]
	return gen_expr(rng, opts)


def gen_header(rng: random.Random, opts: GenOpts) -> list[Tok]:
	r = rng.random()
	if r < 0.3:
		return [kw('if'), *gen_expr(rng, opts), op(':')]
	if r < 0.45:
		params: list[Tok] = []
		for k in range(rng.randint(0, 3)):
			if k:
				params.append(op(','))
			params.append(gen_name(rng))
			if rng.random() < 0.5:
				params.extend([op(':'), gen_name(rng)])
			if rng.random() < 0.3:
				params.extend([op('='), *gen_atom(rng, opts, 3)])
		ret = [op('->'), gen_name(rng)] if rng.random() < 0.6 else []
		return [kw('def'), gen_name(rng), op('('), *params, op(')'), *ret, op(':')]
	if r < 0.55:
		return [kw('for'), gen_name(rng), kw('in'), *gen_expr(rng, opts), op(':')]
	if r < 0.65:
		return [kw('while'), *gen_expr(rng, opts), op(':')]
	if r < 0.75:
		return [kw('class'), gen_name(rng), *([op('('), gen_name(rng), op(')')] if rng.random() < 0.5 else []), op(':')]
	if r < 0.85:
		return [kw('with'), *gen_expr(rng, opts), kw('as'), gen_name(rng), op(':')]
	if r < 0.92:
		return [kw('try'), op(':')]
	return [kw('else'), op(':')]


def gen_block(rng: random.Random, opts: GenOpts, depth: int, budget: list[int], out: list[Line]) -> None:
	n = rng.randint(1, 4)
	for _ in range(n):
		if budget[0] <= 0 and _ > 0:
			return
		budget[0] -= 1
		r = rng.random()
		if r < 0.35 and depth < opts.max_depth and budget[0] > 0:
			if rng.random() < 0.2:
				out.append(Line(depth, [op('@'), gen_name(rng), *([op('('), *gen_args(rng, opts, 2), op(')')] if rng.random() < 0.4 else [])]))
			header = gen_header(rng, opts)
			if rng.random() < 0.12:
				# one-line compound statement:  if a: x = 1; y = 2
				body = gen_simple(rng, opts)
				if rng.random() < 0.4:
					body = [*body, op(';'), *gen_simple(rng, opts)]
				out.append(Line(depth, [*header, *body]))
			else:
				out.append(Line(depth, header))
				gen_block(rng, opts, depth + 1, budget, out)
		else:
			toks = gen_simple(rng, opts)
			if rng.random() < 0.08:
				toks = [*toks, op(';'), *gen_simple(rng, opts)]
			out.append(Line(depth, toks))


def gen_program(rng: random.Random, opts: GenOpts, size: int) -> list[Line]:
	out: list[Line] = []
	budget = [size]
	while budget[0] > 0:
		gen_block(rng, opts, 0, budget, out)
	return out


# ---------------------------------------------------------------------------------------------
# layout


def oplex(s: str, table: list[str], three_then_two: bool) -> list[str]:
	"""Split a string of operator characters the way a tokenizer with the given multi-character table does."""
	out = []
	i = 0
	while i < len(s):
		for w in (3, 2):
			if s[i:i + w] in table and len(s[i:i + w]) == w:
				out.append(s[i:i + w])
				i += w
				break
		else:
			out.append(s[i])
			i += 1
	return out


PY_TABLE = SHARED_COMBINED + PY_ONLY
TRANP_TABLE = SHARED_COMBINED + TRANP_ONLY
_PY_TABLE_FULL = PY_TABLE


def may_touch(a: Tok, b: Tok) -> bool:
	"""True when `a` and `b` may be written without white space between them and still be these two tokens for both
	CPython and tranp."""
	if a.kind == OP and b.kind == OP:
		s = a.text + b.text
		want = [a.text, b.text]
		return oplex(s, PY_TABLE, True) == want and oplex(s, TRANP_TABLE, True) == want and oplex(s, PY_TABLE + TRANP_TABLE, True) == want
	if a.kind == OP:
		if a.text.endswith('.') and b.kind == NUM:
			return False
		return True
	if b.kind == OP:
		if a.kind == NUM and b.text.startswith('.'):
			return False
		if a.kind == NAME and b.text.startswith('.') and a.text[0].isdigit():
			return False
		return True
	return False


def gen_gap(rng: random.Random, a: Tok, b: Tok, in_bracket: bool, style: float) -> str:
	"""White space between two tokens. `style` biases toward dense (0) or airy (1) layouts."""
	r = rng.random()
	if may_touch(a, b) and r > style:
		return ''
	if in_bracket and rng.random() < 0.12:
		pre = rng.choice(['', ' ', '  '])
		com = rng.choice(['', '', '# c', '#', '# x = (1'])
		return f"{pre}{com}\n{rng.choice(['', ' ', '    ', '\t', '\t\t', '         '])}" + ('\n   ' if rng.random() < 0.1 else '')
	return rng.choice([' ', ' ', ' ', ' ', '  ', '\t', ' \t', '   '])


def gen_filler(rng: random.Random) -> str:
	return rng.choice(['', '', '   ', '\t', '# c', '#', '    # comment (x', '\t\t# c', '  #!', '        # deep', "# it's"])


def gen_trail(rng: random.Random) -> str:
	return rng.choice(['', '', '', ' ', '   ', '\t', ' # c', '# c', '  #', ' # "q', '\t# c  '])


def bracket_depths(toks: list[Tok]) -> list[int]:
	"""depth after each token"""
	d = 0
	out = []
	for t in toks:
		if t.kind == OP and t.text in OPENERS:
			d += 1
		elif t.kind == OP and t.text in CLOSERS:
			d -= 1
		out.append(d)
	return out


def gen_layout(rng: random.Random, prog: list[Line], frozen: Layout | None = None) -> Layout:
	"""A random layout; gaps that follow a minus sign are copied from `frozen` (the property's exception)."""
	unit = rng.choice(['\t', '\t', ' ', '  ', '   ', '    ', '    ', '     ', '      ', '       ', '        '])
	style = rng.choice([0.0, 0.2, 0.5, 0.8, 1.0])
	gaps: list[list[str]] = []
	for li, line in enumerate(prog):
		depths = bracket_depths(line.toks)
		g = []
		for j in range(len(line.toks) - 1):
			a, b = line.toks[j], line.toks[j + 1]
			if frozen is not None and a.kind == OP and a.text == '-':
				g.append(frozen.gaps[li][j])
			else:
				g.append(gen_gap(rng, a, b, depths[j] > 0, style))
		gaps.append(g)
	fill = [[gen_filler(rng) for _ in range(rng.choice([0, 0, 0, 1, 1, 2, 3]))] for _ in prog]
	trail = [gen_trail(rng) for _ in prog]
	tail = [gen_filler(rng) for _ in range(rng.choice([0, 0, 1, 2]))]
	return Layout(unit, gaps, fill, trail, tail, rng.random() < 0.7)


def render(prog: list[Line], lay: Layout) -> str:
	lines: list[str] = []
	for i, line in enumerate(prog):
		lines.extend(lay.fill[i])
		s = lay.unit * line.depth
		for j, t in enumerate(line.toks):
			s += t.text
			if j < len(line.toks) - 1:
				s += lay.gaps[i][j]
		lines.append(s + lay.trail[i])
	lines.extend(lay.tail)
	return '\n'.join(lines) + ('\n' if lay.final_newline else '')


def cut_at_end(rng: random.Random, prog: list[Line], lay: Layout, bare: bool, avoid_minus: bool = False) -> tuple[list[Line], Layout]:
	"""The same program with its LAST logical line cut after a random token (outside brackets where possible, biased toward
	operators), so that any token kind — in particular every single and combined operator — can be the final token of the
	source; `bare` additionally removes everything after it (trailing blanks / comment, filler lines, final newline): the
	token then ends exactly at the end of the input. Lexically still inside the subset (the oracle is a tokenizer, not a parser).
	`avoid_minus`: never end in a minus sign (what follows a minus is the property's stated exception for layout rewrites)."""
	last = prog[-1]
	depths = bracket_depths(last.toks)
	cand = [j for j in range(len(last.toks)) if depths[j] == 0] or list(range(len(last.toks)))
	if avoid_minus:
		cand = [j for j in cand if not (last.toks[j].kind == OP and last.toks[j].text == '-')] or [len(last.toks) - 1]
		if last.toks[cand[-1]].kind == OP and last.toks[cand[-1]].text == '-':
			return prog, lay
	ops = [j for j in cand if last.toks[j].kind == OP and last.toks[j].text not in CLOSERS]
	j = rng.choice(ops) if ops and rng.random() < 0.7 else rng.choice(cand)
	prog2 = [*prog[:-1], Line(last.depth, last.toks[:j + 1])]
	lay2 = Layout(lay.unit, [*lay.gaps[:-1], lay.gaps[-1][:j]], lay.fill, [*lay.trail[:-1], '' if bare else lay.trail[-1]],
		[] if bare else lay.tail, False if bare else lay.final_newline)
	return prog2, lay2


def over_indent(rng: random.Random, prog: list[Line], lay: Layout) -> str:
	"""The same program with one block indented by an extra multiple of the unit (valid Python, outside the
	"one consistent unit" subset): used by the correspondence stream and the boundary observation."""
	idx = [i for i, line in enumerate(prog) if line.depth >= 1]
	if not idx:
		return render(prog, lay)
	start = rng.choice(idx)
	d = prog[start].depth
	end = start
	while end + 1 < len(prog) and prog[end + 1].depth >= d:
		end += 1
	extra = rng.randint(1, 2)
	prog2 = [Line(line.depth + (extra if start <= i <= end else 0), line.toks) for i, line in enumerate(prog)]
	return render(prog2, lay)


# ---------------------------------------------------------------------------------------------
# CPython oracle


def py_tokens(src: str) -> list[tuple[str, str]] | None:
	"""CPython's token sequence under the canonical map; `None` when CPython rejects the source (outside the domain)."""
	try:
		toks = list(tokenize.generate_tokens(io.StringIO(src).readline))
	except (tokenize.TokenError, SyntaxError, IndentationError, ValueError):
		return None
	starts = [0]
	for ln in src.split('\n'):
		starts.append(starts[-1] + len(ln) + 1)
	out: list[tuple[str, str]] = []
	fdepth = 0
	fstart = 0
	T = tokenize
	fs_start = getattr(T, 'FSTRING_START', -1)
	fs_mid = getattr(T, 'FSTRING_MIDDLE', -2)
	fs_end = getattr(T, 'FSTRING_END', -3)
	for t in toks:
		if t.type == fs_start:
			if fdepth == 0:
				fstart = starts[t.start[0] - 1] + t.start[1]
			fdepth += 1
			continue
		if t.type == fs_end:
			fdepth -= 1
			if fdepth == 0:
				out.append(('TOK', src[fstart:starts[t.end[0] - 1] + t.end[1]]))
			continue
		if fdepth > 0:
			continue
		if t.type in (T.ENDMARKER, T.NL, T.COMMENT, getattr(T, 'ENCODING', -4)):
			continue
		if t.type == T.NEWLINE:
			out.append(('NEWLINE', ''))
		elif t.type == T.INDENT:
			out.append(('INDENT', ''))
		elif t.type == T.DEDENT:
			out.append(('DEDENT', ''))
		elif t.type == T.ERRORTOKEN:
			return None
		else:
			out.append(('TOK', t.string))
	return out


EVEN_BS_BEFORE_CLOSE = re.compile(r'(?<!\\)(\\\\)+(\'|"|""")$')
ESC_QUOTE_BEFORE_TRIPLE = re.compile(r'(?<!\\)(\\\\)*\\""""$')


def classify_mismatch(py: list[tuple[str, str]], tr: list[tuple[str, str]]) -> str:
	"""Stable key of the first difference between CPython's and tranp's canonical token sequences."""
	k = 0
	while k < len(py) and k < len(tr) and py[k] == tr[k]:
		k += 1
	p = py[k] if k < len(py) else ('END', '')
	t = tr[k] if k < len(tr) else ('END', '')
	if p[0] == 'TOK' and re.match(r'^[rf]?(\'|")', p[1]):
		if ESC_QUOTE_BEFORE_TRIPLE.search(p[1]):
			return 'py-mismatch:string-escaped-quote-before-triple-close'
		if EVEN_BS_BEFORE_CLOSE.search(p[1]):
			return 'py-mismatch:string-even-backslash-run-before-close'
		return 'py-mismatch:string-other'
	kind = lambda x: x[0] if x[0] != 'TOK' else ('op' if not (x[1][:1].isalnum() or x[1][:1] in '_\'"') else 'word')
	return f'py-mismatch:{kind(p)}-vs-{kind(t)}'


def case_features(prog: list[Line], src: str) -> dict[str, Any]:
	toks = [t for line in prog for t in line.toks]
	return {
		'lines': len(prog),
		'tokens': len(toks),
		'max_depth': max((line.depth for line in prog), default=0),
		'strings': sum(1 for t in toks if t.kind == STR),
		'chars': len(src),
	}
