"""Shared machinery of the tranp verification checks (DESIGN.md §2–§3).

Every check runs the same five stages:
  translate -> lake build of the property's theorems -> axiom audit -> correspondence -> search
and ends with the verdict logic of DESIGN.md §2.5.
"""
from __future__ import annotations

import fcntl
import hashlib
import json
import os
import random
import re
import shutil
import subprocess
import sys
import tempfile
import time
from collections import Counter
from collections.abc import Callable, Iterable, Sequence
from dataclasses import dataclass, field
from typing import Any

VERIF = os.path.abspath(os.path.join(os.path.dirname(__file__), '..'))
REPO = os.environ.get('VERIF_REPO', '/repo')
LEAN_DIR = os.environ.get('VERIF_LEAN_DIR') or os.path.join(VERIF, 'lean')
GENERATED_DIR = os.path.join(LEAN_DIR, 'Tranp', 'Generated')
EVIDENCE_DIR = os.environ.get('VERIF_EVIDENCE_DIR') or os.path.join(VERIF, 'evidence')  # seedtest.sh points this at a scratch directory
REPLAY_DIR = os.path.join(VERIF, 'replays')
CORPUS_DIR = os.path.join(VERIF, 'corpus')
KNOWN_FINDINGS = os.path.join(VERIF, 'known_findings.jsonl')
LOCK_FILE = os.path.join(LEAN_DIR, '.verif.lock')

ALLOWED_AXIOMS = {'propext', 'Classical.choice', 'Quot.sound'}
FORBIDDEN_RE = re.compile(r'\bsorry\b|\badmit\b|^\s*axiom\s|native_decide|bv_decide|implemented_by|\bunsafe\s|maxHeartbeats\s+0\b', re.M)

TRUSTED_BASE_COMMON = [
	'Lean 4.33.0 kernel (axioms allowed: propext, Classical.choice, Quot.sound; audited by #print axioms on every run)',
	'hand-written Lean model tied to /repo by the translator (tables) and the correspondence streams (logic) named in this evidence',
	'harness 3.12 compatibility shim (typing.TypeIs, property.__name__); CPython as oracle',
]


class InfraError(Exception):
	"""The machinery itself failed (lean missing, timeout, ...): exit 2, no VIOLATION line."""


# ---------------------------------------------------------------------------------------------
# context


@dataclass
class Stream:
	"""Result of one correspondence stream (real tranp vs Lean model on the same op lines)."""
	name: str
	cases: int = 0
	distinct: int = 0
	disagreements: list[dict[str, Any]] = field(default_factory=list)
	histogram: dict[str, int] = field(default_factory=dict)
	samples: list[Any] = field(default_factory=list)
	note: str = ''

	@property
	def ok(self) -> bool:
		return not self.disagreements


@dataclass
class Finding:
	"""A concrete input on which the REAL code violates the property statement."""
	key: str
	what: str
	replay: dict[str, Any]


@dataclass
class SearchResult:
	oracle: str
	cases: int = 0
	distinct: int = 0
	findings: list[Finding] = field(default_factory=list)
	histogram: dict[str, int] = field(default_factory=dict)
	samples: list[Any] = field(default_factory=list)
	note: str = ''


class Ctx:
	def __init__(self, prop: str, tier: str, seed: int, replay: str | None = None) -> None:
		self.prop = prop
		self.tier = tier
		self.seed = seed
		self.replay = replay
		self.rng = random.Random(f'{prop}:{seed}')
		self.t0 = time.time()
		self.timings: dict[str, float] = {}
		self.generated_tables: list[dict[str, Any]] = []
		self.notes: list[str] = []
		self._tmpdirs: list[str] = []

	@property
	def thorough(self) -> bool:
		return self.tier == 'thorough'

	def scale(self, quick: int, thorough: int) -> int:
		return thorough if self.thorough else quick

	def sub_rng(self, name: str) -> random.Random:
		return random.Random(f'{self.prop}:{self.seed}:{name}')

	def tmpdir(self, prefix: str = 'tranp-verif-') -> str:
		d = tempfile.mkdtemp(prefix=prefix)
		self._tmpdirs.append(d)
		return d

	def cleanup(self) -> None:
		for d in self._tmpdirs:
			shutil.rmtree(d, ignore_errors=True)
		self._tmpdirs = []

	def timed(self, name: str):
		ctx = self

		class _T:
			def __enter__(self_inner):
				self_inner.t = time.time()

			def __exit__(self_inner, *a):
				ctx.timings[name] = round(ctx.timings.get(name, 0.0) + time.time() - self_inner.t, 3)

		return _T()


# ---------------------------------------------------------------------------------------------
# line protocol helpers


def hx(s: str | bytes) -> str:
	"""Hex-escape a string so that every byte can cross the line protocol ('-' = empty)."""
	b = s.encode('utf-8') if isinstance(s, str) else s
	return b.hex() if b else '-'


def unhx(s: str) -> str:
	return '' if s == '-' else bytes.fromhex(s).decode('utf-8', errors='replace')


def exc_enum(e: BaseException) -> str:
	"""Map a real exception to the small enum shared with the Lean models."""
	try:
		from rogw.tranp.errors import Errors  # type: ignore
		if isinstance(e, Errors.Error):
			return f'Errors.{type(e).__name__}'
	except Exception:
		pass
	for cls in (AssertionError, KeyError, IndexError, ValueError, TypeError, AttributeError, RecursionError, NotImplementedError):
		if isinstance(e, cls):
			return cls.__name__
	return f'Other:{type(e).__module__}.{type(e).__name__}'


# ---------------------------------------------------------------------------------------------
# Lean side


class _Lock:
	def __enter__(self):
		self.f = open(LOCK_FILE, 'w')
		fcntl.flock(self.f, fcntl.LOCK_EX)
		return self

	def __exit__(self, *a):
		fcntl.flock(self.f, fcntl.LOCK_UN)
		self.f.close()


def lean_available() -> bool:
	return shutil.which('lake') is not None and shutil.which('lean') is not None


def run_cmd(cmd: Sequence[str], cwd: str, timeout: float, input_text: str | None = None, env: dict[str, str] | None = None) -> tuple[int, str, str]:
	try:
		p = subprocess.run(list(cmd), cwd=cwd, input=input_text, capture_output=True, text=True, timeout=timeout, env=env)
		return p.returncode, p.stdout, p.stderr
	except subprocess.TimeoutExpired as e:
		raise InfraError(f'timeout after {timeout}s: {" ".join(cmd)}') from e
	except FileNotFoundError as e:
		raise InfraError(f'command missing: {cmd[0]}') from e


def write_if_changed(path: str, content: str) -> bool:
	os.makedirs(os.path.dirname(path), exist_ok=True)
	try:
		with open(path, encoding='utf-8') as f:
			if f.read() == content:
				return False
	except FileNotFoundError:
		pass
	tmp = f'{path}.tmp.{os.getpid()}'
	with open(tmp, 'w', encoding='utf-8') as f:
		f.write(content)
	os.replace(tmp, path)
	return True


def lake_build(targets: Sequence[str], timeout: float = 1500) -> tuple[bool, str]:
	"""`lake build <targets>` under the project lock. Returns (ok, log)."""
	if not lean_available():
		raise InfraError('lean/lake not on PATH')
	with _Lock():
		return _lake_build_locked(targets, timeout)


def _lake_build_locked(targets: Sequence[str], timeout: float = 1500) -> tuple[bool, str]:
	rc, out, err = run_cmd(['lake', 'build', *targets], LEAN_DIR, timeout)
	return rc == 0, out + err


def strip_lean_comments(src: str) -> str:
	src = re.sub(r'/-.*?-/', '', src, flags=re.S)
	return re.sub(r'--.*', '', src)


def theorem_names(lean_file: str) -> list[str]:
	"""Names of the `theorem`s declared in a Props file (with their namespaces)."""
	with open(lean_file, encoding='utf-8') as f:
		src = strip_lean_comments(f.read())
	names: list[str] = []
	ns: list[str] = []
	for line in src.splitlines():
		m = re.match(r'\s*namespace\s+(\S+)', line)
		if m:
			ns.append(m.group(1))
			continue
		m = re.match(r'\s*end\s+(\S+)\s*$', line)
		if m and ns and ns[-1] == m.group(1):
			ns.pop()
			continue
		m = re.match(r'\s*(?:@\[[^\]]*\]\s*)?(?:private\s+|protected\s+)?theorem\s+([^\s:({\[]+)', line)
		if m:
			name = m.group(1)
			names.append('.'.join([*ns, name]) if not name.startswith('_root_.') else name[7:])
	return names


def forbidden_scan(paths: Iterable[str]) -> list[str]:
	hits: list[str] = []
	for p in paths:
		with open(p, encoding='utf-8') as f:
			src = strip_lean_comments(f.read())
		for m in FORBIDDEN_RE.finditer(src):
			hits.append(f'{os.path.relpath(p, LEAN_DIR)}: {m.group(0).strip()}')
	return hits


def lean_files_under(*rel: str) -> list[str]:
	out: list[str] = []
	for r in rel:
		p = os.path.join(LEAN_DIR, r)
		if os.path.isfile(p):
			out.append(p)
		for root, _, files in os.walk(p):
			out.extend(os.path.join(root, f) for f in files if f.endswith('.lean'))
	return sorted(set(out))


@dataclass
class ProofReport:
	module: str
	built: bool
	build_log: str
	theorems: list[dict[str, Any]]
	forbidden: list[str]
	leanchecker: str | None = None

	@property
	def obligations(self) -> int:
		return len(self.theorems)

	@property
	def discharged(self) -> int:
		return sum(1 for t in self.theorems if t['ok'])

	@property
	def ok(self) -> bool:
		return self.built and not self.forbidden and self.obligations > 0 and self.discharged == self.obligations and self.leanchecker in (None, 'ok')

	def failing(self) -> list[str]:
		out = []
		if not self.built:
			out.append(f'lake build {self.module} failed')
		out.extend(f'forbidden token: {h}' for h in self.forbidden)
		out.extend(f"theorem {t['name']}: {t['why']}" for t in self.theorems if not t['ok'])
		if self.leanchecker not in (None, 'ok'):
			out.append(f'leanchecker: {self.leanchecker}')
		return out


def prove(ctx: Ctx, prop: str, extra_modules: Sequence[str] = (), leanchecker: bool = False) -> ProofReport:
	"""Build Tranp.Props.<prop>, then `#print axioms` every theorem it declares and scan for forbidden tokens."""
	module = f'Tranp.Props.{prop}'
	props_file = os.path.join(LEAN_DIR, 'Tranp', 'Props', f'{prop}.lean')
	names = theorem_names(props_file)
	theorems: list[dict[str, Any]] = []
	if not lean_available():
		raise InfraError('lean/lake not on PATH')
	audit_src = f'import {module}\n' + ''.join(f'#print axioms {n}\n' for n in names)
	audit_dir = os.path.join(LEAN_DIR, '.audit')
	os.makedirs(audit_dir, exist_ok=True)
	audit_file = os.path.join(audit_dir, f'{prop}.{os.getpid()}.lean')
	text = ''
	# build and audit under ONE lock: another check (or a builder) relinking the project between the two steps would make the
	# audit read half-written object files and print nothing; an audit that prints nothing for a module that built is repeated once.
	for attempt in range(2):
		with _Lock():
			with ctx.timed('lake_build'):
				built, log = _lake_build_locked([module, 'driver', *extra_modules])
			if not built:
				break
			with open(audit_file, 'w', encoding='utf-8') as f:
				f.write(audit_src)
			with ctx.timed('axiom_audit'):
				rc, out, err = run_cmd(['lake', 'env', 'lean', audit_file], LEAN_DIR, 600)
			text = out + err
		if not names or 'axioms' in text:
			break
	try:
		os.unlink(audit_file)
	except OSError:
		pass
	if built:
		# "'Name' depends on axioms: [a, b]"  |  "'Name' does not depend on any axioms"
		found: dict[str, list[str] | None] = {}
		for m in re.finditer(r"'([^']+)' depends on axioms: \[([^\]]*)\]", text, flags=re.S):
			found[m.group(1)] = [a.strip() for a in m.group(2).replace('\n', ' ').split(',') if a.strip()]
		for m in re.finditer(r"'([^']+)' does not depend on any axioms", text):
			found[m.group(1)] = []
		for n in names:
			axioms = found.get(n)
			if axioms is None:
				theorems.append({'name': n, 'axioms': None, 'ok': False, 'why': 'no #print axioms output (theorem missing or audit failed)'})
			else:
				bad = [a for a in axioms if a not in ALLOWED_AXIOMS]
				theorems.append({'name': n, 'axioms': axioms, 'ok': not bad, 'why': f'uses axioms {bad}' if bad else ''})
	else:
		theorems = [{'name': n, 'axioms': None, 'ok': False, 'why': 'module did not build'} for n in names]
	forb = forbidden_scan(lean_files_under('Tranp'))
	report = ProofReport(module, built, log[-6000:], theorems, forb)
	if leanchecker and built:
		with ctx.timed('leanchecker'):
			with _Lock():
				rc, out, err = run_cmd(['lake', 'env', 'leanchecker', module], LEAN_DIR, 1800)
		report.leanchecker = 'ok' if rc == 0 else (out + err)[-2000:]
	return report


def lean_driver(family: str, lines: Sequence[str], timeout: float = 900) -> list[str]:
	"""Pipe op lines through the Lean model driver; one output line per input line."""
	if not lines:
		return []
	exe = os.path.join(LEAN_DIR, '.lake', 'build', 'bin', 'driver')
	text = '\n'.join(lines) + '\n'
	if os.path.exists(exe) and os.environ.get('VERIF_NO_EXE') != '1':
		rc, out, err = run_cmd([exe, family], LEAN_DIR, timeout, input_text=text)
	else:
		rc, out, err = run_cmd(['lake', 'env', 'lean', '--run', 'Tranp/Driver.lean', family], LEAN_DIR, timeout, input_text=text)
	if rc != 0:
		raise InfraError(f'lean driver failed for family {family}: {(out + err)[-1500:]}')
	res = out.split('\n')
	if res and res[-1] == '':
		res.pop()
	if len(res) != len(lines):
		raise InfraError(f'lean driver returned {len(res)} lines for {len(lines)} ops (family {family}); tail: {res[-3:]}')
	return res


def build_driver() -> tuple[bool, str]:
	return lake_build(['Tranp.Driver', 'driver'])


# ---------------------------------------------------------------------------------------------
# correspondence


def correspond(name: str, cases: Sequence[tuple[Any, list[str], list[str]]], family: str,
		classify: Callable[[Any], str] | None = None, max_report: int = 5) -> Stream:
	"""cases: (case description, op lines, real outputs). Runs the model on all op lines and diffs per case."""
	st = Stream(name)
	all_lines: list[str] = []
	for _, ops, real in cases:
		assert len(ops) == len(real), (name, len(ops), len(real))
		all_lines.extend(ops)
	model = lean_driver(family, all_lines) if all_lines else []
	pos = 0
	seen: set[str] = set()
	hist: Counter[str] = Counter()
	for desc, ops, real in cases:
		mod = model[pos:pos + len(ops)]
		pos += len(ops)
		st.cases += 1
		h = hashlib.sha1('\n'.join(ops).encode()).hexdigest()
		if h not in seen:
			seen.add(h)
		if classify:
			hist[classify(desc)] += 1
		for i, (o, r, m) in enumerate(zip(ops, real, mod)):
			if r != m:
				if len(st.disagreements) < max_report:
					st.disagreements.append({'case': desc, 'op_index': i, 'op': o, 'real': r, 'model': m, 'ops': ops})
				else:
					st.disagreements.append({'op': o[:200], 'real': r[:200], 'model': m[:200]})
				break
		if len(st.samples) < 3:
			st.samples.append({'ops': ops[:6], 'real': real[:6]})
	st.distinct = len(seen)
	st.histogram = dict(hist)
	return st


def shrink_list(items: list[Any], still_fails: Callable[[list[Any]], bool], max_steps: int = 400) -> list[Any]:
	"""ddmin-style shrinking of a failing list."""
	steps = 0
	n = 2
	cur = list(items)
	while len(cur) >= 2 and steps < max_steps:
		chunk = max(1, len(cur) // n)
		reduced = False
		for i in range(0, len(cur), chunk):
			cand = cur[:i] + cur[i + chunk:]
			steps += 1
			if cand and still_fails(cand):
				cur = cand
				n = max(n - 1, 2)
				reduced = True
				break
			if steps >= max_steps:
				break
		if not reduced:
			if chunk == 1:
				break
			n = min(n * 2, len(cur))
	return cur


# ---------------------------------------------------------------------------------------------
# known findings


def load_known(prop: str) -> list[dict[str, Any]]:
	out = []
	if os.path.exists(KNOWN_FINDINGS):
		with open(KNOWN_FINDINGS, encoding='utf-8') as f:
			for line in f:
				line = line.strip()
				if not line or line.startswith('#') or line.startswith('fixed:'):
					continue  # comments; `fixed:` records suppress nothing
				rec = json.loads(line)
				if rec.get('property') == prop:
					out.append(rec)
	return out


# ---------------------------------------------------------------------------------------------
# verdict + evidence


def write_replay(ctx: Ctx, tag: str, payload: dict[str, Any]) -> str:
	os.makedirs(REPLAY_DIR, exist_ok=True)
	path = os.path.join(REPLAY_DIR, f'{ctx.prop}-{ctx.tier}-{ctx.seed}-{tag}.json')
	with open(path, 'w', encoding='utf-8') as f:
		json.dump({'property': ctx.prop, 'tier': ctx.tier, 'seed': ctx.seed, **payload}, f, indent=1, ensure_ascii=False, default=str)
	return os.path.relpath(path, VERIF)


def finish(ctx: Ctx, proof: ProofReport | None, streams: Sequence[Stream], searches: Sequence[SearchResult], *,
		partial: dict[str, Any] | None = None, assumptions: Sequence[str] = (), trusted: Sequence[str] = (),
		translate_ok: bool = True, translate_msg: str = '', statements: dict[str, str] | None = None) -> int:
	"""Apply DESIGN.md §2.5, print VIOLATION / KNOWN-FINDING lines, write the evidence file, return the exit code."""
	if os.path.isdir(REPLAY_DIR):
		for fn in os.listdir(REPLAY_DIR):
			if fn.startswith(f'{ctx.prop}-{ctx.tier}-{ctx.seed}-'):
				os.unlink(os.path.join(REPLAY_DIR, fn))
	known = [k for k in load_known(ctx.prop) if k.get('status') == 'known']
	known_keys = {k['key']: k for k in known}
	new_findings: list[Finding] = []
	known_hit: dict[str, Finding] = {}
	for s in searches:
		for f in s.findings:
			if f.key in known_keys:
				known_hit.setdefault(f.key, f)
			else:
				new_findings.append(f)
	for key in sorted(known_hit):
		print(f"KNOWN-FINDING: property={ctx.prop} {known_keys[key].get('what', known_hit[key].what)} [key={key}]")

	generated = translate_ok and (proof is None or proof.ok)
	corresponds = all(s.ok for s in streams)
	rc = 0
	violations = 0
	if new_findings:
		rc = 1
		seen_keys: set[str] = set()
		for n, f in enumerate(new_findings):
			if f.key in seen_keys:
				continue
			seen_keys.add(f.key)
			violations += 1
			path = write_replay(ctx, f'finding{n}', {'kind': 'failing-input', 'key': f.key, 'what': f.what, 'input': f.replay})
			print(f'VIOLATION property={ctx.prop} replay={path}')
			if violations >= 5:
				break
	elif not generated or not corresponds:
		rc = 1
		violations = 1
		broken: list[str] = []
		if not translate_ok:
			broken.append(f'translator: {translate_msg}')
		if proof is not None and not proof.ok:
			broken.extend(proof.failing())
		for s in streams:
			if not s.ok:
				broken.append(f'correspondence stream {s.name}: {len(s.disagreements)} disagreement(s)')
		path = write_replay(ctx, 'broken', {
			'kind': 'proof-or-correspondence-broken',
			'no_longer_checks': broken,
			'build_log_tail': proof.build_log[-3000:] if proof is not None and not proof.built else '',
			'disagreements': {s.name: s.disagreements[:5] for s in streams if not s.ok},
			'search': [{'oracle': s.oracle, 'cases': s.cases} for s in searches],
		})
		print(f'VIOLATION property={ctx.prop} replay={path} no-failing-input-found')

	wall = round(time.time() - ctx.t0, 2)
	obligations = proof.obligations if proof else 0
	discharged = proof.discharged if proof else 0
	evaluations = sum(s.cases for s in streams) + sum(s.cases for s in searches)
	distinct = sum(s.distinct for s in streams) + sum(s.distinct for s in searches)
	samples: list[Any] = []
	if proof:
		samples.extend({'theorem': t['name'], 'axioms': t['axioms']} for t in proof.theorems[:4])
	for s in streams:
		samples.extend({'stream': s.name, **x} if isinstance(x, dict) else {'stream': s.name, 'case': x} for x in s.samples[:2])
	for s in searches:
		samples.extend({'search': s.oracle, 'case': x} for x in s.samples[:2])
	coverage: dict[str, Any] = {
		'obligations': obligations,
		'discharged': discharged,
		'checker_cmd': f'cd lean && lake build Tranp.Props.{ctx.prop} && lake env lean .audit/{ctx.prop}.lean  (#print axioms per theorem)',
		'trusted_base': [*TRUSTED_BASE_COMMON, *trusted],
		'evaluations': max(evaluations, 1),
		'distinct_nontrivial': distinct,
		'rule': 'cases = correspondence op-sequences + search inputs; distinct = different op-line text (sha1); trivial cases (empty input) are not generated',
		'samples': samples or ['(none)'],
		'theorems': proof.theorems if proof else [],
		'statements': statements or {},
		'partial': partial or {},
		'generated_tables': ctx.generated_tables,
		'correspondence': [{'stream': s.name, 'cases': s.cases, 'distinct': s.distinct, 'disagreements': len(s.disagreements), 'histogram': s.histogram, 'note': s.note} for s in streams],
		'search': [{'oracle': s.oracle, 'cases': s.cases, 'distinct': s.distinct, 'findings': len(s.findings), 'histogram': s.histogram, 'note': s.note, 'known_findings_hit': sorted(k for k in known_hit if any(f.key == k for f in s.findings))} for s in searches],
		'timings_s': ctx.timings,
		'leanchecker': proof.leanchecker if proof else None,
		'notes': ctx.notes,
	}
	ev = {
		'property_id': ctx.prop,
		'tier': ctx.tier,
		'seed': ctx.seed,
		'level': 'proof',
		'coverage': coverage,
		'assumptions': list(assumptions),
		'wall_s': wall,
		'violations': violations,
	}
	os.makedirs(EVIDENCE_DIR, exist_ok=True)
	with open(os.path.join(EVIDENCE_DIR, f'{ctx.prop}.json'), 'w', encoding='utf-8') as f:
		json.dump(ev, f, indent=1, ensure_ascii=False, default=str)
	status = 'OK' if rc == 0 else 'VIOLATION'
	print(f'[{ctx.prop}] {status} tier={ctx.tier} seed={ctx.seed} theorems={discharged}/{obligations} '
		f'streams={[(s.name, s.cases, len(s.disagreements)) for s in streams]} '
		f'search={[(s.oracle, s.cases, len(s.findings)) for s in searches]} wall={wall}s')
	ctx.cleanup()
	return rc


# ---------------------------------------------------------------------------------------------
# tranp helpers (real code, in-process)


def tranp_definitions(cache_dir: str, extra: dict[str, Any] | None = None) -> dict[str, Any]:
	"""DI definitions for an in-memory transpile App bound to a private cache directory (DESIGN.md §1)."""
	from rogw.tranp.cache.cache import CacheSetting
	from rogw.tranp.lang.module import to_fullyname
	defs: dict[str, Any] = {
		to_fullyname(CacheSetting): lambda: CacheSetting(basedir=cache_dir),
	}
	defs.update(extra or {})
	return defs


class MemApp:
	"""A real tranp App whose `__main__` module source is supplied in memory (like tests' Fixture.custom_*)."""

	def __init__(self, cache_dir: str, extra: dict[str, Any] | None = None) -> None:
		from rogw.tranp.app.app import App
		from rogw.tranp.lang.annotation import duck_typed
		from rogw.tranp.lang.locator import Invoker
		from rogw.tranp.lang.module import to_fullyname
		from rogw.tranp.module.types import ModulePath, ModulePaths
		from rogw.tranp.providers.module import module_path_dummy
		from rogw.tranp.providers.syntax.ast import source_provider
		from rogw.tranp.syntax.ast.parser import SourceProvider
		self.main = module_path_dummy().path
		self.source = ''
		outer = self

		@duck_typed(SourceProvider)
		def provider(module_path: str) -> str:
			if module_path == outer.main:
				return outer.source
			return outer.app.resolve(Invoker)(source_provider)(module_path)

		defs = tranp_definitions(cache_dir, {
			to_fullyname(ModulePaths): lambda: [ModulePath(self.main, language='py')],
			to_fullyname(SourceProvider): lambda: provider,
			**(extra or {}),
		})
		self.app = App(defs)

	def resolve(self, symbol: Any) -> Any:
		return self.app.resolve(symbol)

	def entrypoint(self, source: str) -> Any:
		from rogw.tranp.syntax.ast.entrypoints import Entrypoints
		self.source = source if source.endswith('\n') else f'{source}\n'
		eps = self.resolve(Entrypoints)
		eps.unload(self.main)
		return eps.load(self.main)

	def module(self, source: str) -> Any:
		from rogw.tranp.module.modules import Modules
		self.source = source if source.endswith('\n') else f'{source}\n'
		mods = self.resolve(Modules)
		mods.unload(self.main)
		return mods.load(self.main)


def repo_py_files(*subdirs: str) -> list[str]:
	out = []
	for sd in subdirs:
		for root, _, files in os.walk(os.path.join(REPO, sd)):
			out.extend(os.path.join(root, f) for f in files if f.endswith('.py'))
	return sorted(out)
