"""C18 — Fragment splitting helpers respect bracket and quote nesting.

Theorems: lean/Tranp/Props/C18.lean over lean/Tranp/Model/Block.lean (pair table: lean/Tranp/Generated/BlockPairs.lean,
written by translate/gen_block_pairs.py from the imported `BlockParser._all_pair`).
Tie: correspondence streams `block-clean`, `block-dirty`, `block-malformed` (driver family `block`): every helper of
rogw/tranp/view/helper/block.py, DecoratorHelper._parse and CppViewHelper.Param.parse on the real code vs the model.
Search: the laws of the property on the real helpers alone, with an independent top-level scanner as oracle.
State: /repo after the four C18 repairs (3111a97 param default '=', d6d867d decorator top-level '=', eb33d21 brackets inside
strings, f350973 parse_bracket nested groups); their witnesses are replayed (corpus + fixed search cases) and must pass.
"""
from __future__ import annotations

import json
import os
import random
from functools import lru_cache
from typing import Any

from harness import common
from harness.common import Ctx, Finding, SearchResult, Stream, exc_enum, hx

PROP = 'C18'

def _pairs_from_source() -> tuple[list[str], list[str]]:
	"""bracket pairs and quote characters as the real `BlockParser._all_pair` has them today (the generators and the independent
	scanner follow the source table; the Lean side gets the same table through translate/gen_block_pairs.py)"""
	from rogw.tranp.view.helper.block import BlockParser
	pairs = list(BlockParser._all_pair)
	return [p for p in pairs if len(p) == 2 and p[0] != p[1]], [p[0] for p in pairs if len(p) == 2 and p[0] == p[1]]


BRACKETS, QUOTES = _pairs_from_source()
DELIMS = [',', ':', '=', ' ']
OPEN = {b[0]: b[1] for b in BRACKETS}
CLOSE = {b[1]: b[0] for b in BRACKETS}
SPECIAL = set(''.join(BRACKETS)) | set(QUOTES)
IDENT = 'abcxyz_019'

Item = tuple  # ('a', text) | ('s', quote, body) | ('g', brackets, [items])


# ---------------------------------------------------------------------------------------------
# fragment grammar (the python twin of `Frag` in lean/Tranp/Model/Block.lean)


def gen_items(rng: random.Random, depth: int, mode: str, width: int, delim_w: float = 0.3, exclude: str = '', parent: str | None = None) -> list[Item]:
	"""mode: 'clean' (string bodies free of brackets/quotes) | 'dirty' (brackets and the other quote inside strings).
	`depth` is the nesting still allowed below this level; with depth > 0 a group is forced most of the time so that the
	deep levels are really reached; a nested group repeats its parent's bracket kind often (same-kind nesting `f(g(1), 2)`)."""
	items: list[Item] = []
	n = rng.randint(0, width)
	forced = rng.randrange(n + 1) if depth > 0 and rng.random() < 0.9 else -1
	if forced >= 0:
		n = max(n, 1)
	str_w = 0.22 if mode == 'dirty' else 0.12
	for i in range(n):
		r = rng.random()
		if i == forced or (depth > 0 and r > 0.86):
			b = parent if parent is not None and rng.random() < 0.4 else rng.choice(BRACKETS)
			items.append(('g', b, gen_items(rng, depth - 1, mode, max(1, width - 1), delim_w, exclude, b)))
		elif r < 0.30:
			items.append(('a', ''.join(rng.choice(IDENT) for _ in range(rng.randint(1, 4)))))
		elif r < 0.30 + delim_w:
			d = rng.choice(DELIMS)
			items.append(('a', d + (' ' if d != ' ' and rng.random() < 0.5 else '')))
		elif r < 0.30 + delim_w + str_w:
			items.append(gen_string(rng, mode, exclude))
		elif r < 0.97:
			items.append(('a', rng.choice(IDENT)))
		else:
			items.append(('a', rng.choice(['.', '-', '*', '&', '+', '::', '\n', '\t', 'é'])))
	return items


def gen_string(rng: random.Random, mode: str, exclude: str = '') -> Item:
	q = rng.choice(QUOTES)
	alpha = 'ab1 ,:=.'
	if mode == 'dirty' and rng.random() < 0.8:
		alpha = 'a ,=' + '()[]{}<>' + ('"' if q == "'" else "'") * 2
		alpha = ''.join(c for c in alpha if c not in exclude)
	return ('s', q, ''.join(rng.choice(alpha) for _ in range(rng.randint(0, 5))))


def render(items: list[Item]) -> str:
	out = []
	for it in items:
		if it[0] == 'a':
			out.append(it[1])
		elif it[0] == 's':
			out.append(f'{it[1]}{it[2]}{it[1]}')
		else:
			out.append(it[1][0] + render(it[2]) + it[1][1])
	return ''.join(out)


def depth_of(items: list[Item]) -> int:
	return max([1 + depth_of(it[2]) for it in items if it[0] == 'g'], default=0)


def is_dirty(items: list[Item]) -> bool:
	for it in items:
		if it[0] == 's' and any(c in SPECIAL for c in it[2]):
			return True
		if it[0] == 'g' and is_dirty(it[2]):
			return True
	return False


def strings_have(items: list[Item], chars: str) -> bool:
	for it in items:
		if it[0] == 's' and any(c in chars for c in it[2]):
			return True
		if it[0] == 'g' and strings_have(it[2], chars):
			return True
	return False


def gen_fragment(rng: random.Random, mode: str, i: int, exclude: str = '') -> list[Item]:
	depth = i % 6  # 0..5
	items = gen_items(rng, depth, mode, 2 + i % 5, 0.3, exclude)
	# boundary positions: delimiter in the very last / very first position, doubled delimiter
	r = rng.random()
	if r < 0.12:
		items.append(('a', rng.choice(DELIMS)))
	elif r < 0.20:
		items.insert(0, ('a', rng.choice(DELIMS)))
	elif r < 0.26 and items:
		d = rng.choice(DELIMS)
		items.insert(rng.randrange(len(items) + 1), ('a', d + d))
	if mode == 'dirty' and not is_dirty(items):
		q = rng.choice(QUOTES)
		body = ''.join(c for c in rng.choice(['(', ')', '[', '{x', '<', '>', "'" if q == '"' else '"', '(,', ')]', '((']) if c not in exclude)
		where = items
		while rng.random() < 0.5:
			groups = [it for it in where if it[0] == 'g']
			if not groups:
				break
			where = rng.choice(groups)[2]
		where.insert(rng.randrange(len(where) + 1), ('s', q, body))
	return items


def gen_malformed(rng: random.Random, i: int) -> str:
	r = rng.random()
	if r < 0.4:
		alpha = 'ab1 ,:=.' + '()[]{}<>"\'' * 2 + '\n\t'
		return ''.join(rng.choice(alpha) for _ in range(rng.randint(0, 24)))
	t = list(render(gen_fragment(rng, rng.choice(['clean', 'dirty']), i)))
	for _ in range(rng.randint(1, 3)):
		if t and rng.random() < 0.6:
			del t[rng.randrange(len(t))]
		else:
			t.insert(rng.randint(0, len(t)), rng.choice('()[]{}<>"\','))
	return ''.join(t)


# ---------------------------------------------------------------------------------------------
# independent scanner (oracle side): strings are opaque, brackets nest


def scan(text: str) -> tuple[bool, list[bool]]:
	"""→ (balanced, top[i]) where top[i] says: character i is outside every bracket group and every quoted string."""
	top = [False] * len(text)
	stack: list[str] = []
	quote: str | None = None
	ok = True
	for i, c in enumerate(text):
		if quote is not None:
			if c == quote:
				quote = None
		elif c in QUOTES:
			quote = c
		elif c in OPEN:
			stack.append(OPEN[c])
		elif c in CLOSE:
			if stack and stack[-1] == c:
				stack.pop()
			else:
				ok = False
		else:
			top[i] = not stack
	return ok and not stack and quote is None, top


def balanced(text: str) -> bool:
	return scan(text)[0]


def expected_split(text: str, d: str) -> list[str]:
	"""The specification of break_separator for a one-character delimiter on a balanced fragment."""
	_, top = scan(text)
	out = []
	begin = 0
	for i, c in enumerate(text):
		if c == d and top[i] and i + 1 < len(text):
			out.append(text[begin:i].strip(' '))
			begin = i + 1
	if text:
		out.append(text[begin:].strip(' '))
	return out


MULTI_DELIMS = [', ', ': ', '&|', 'and ', '=:', ' ,', ' =']  # first character does not occur again, no bracket/quote character


def expected_split_multi(text: str, d: str) -> list[str]:
	"""The specification of break_separator for a delimiter that can not overlap itself: cut where the delimiter stands at top
	level with at least one character behind it; the delimiter's characters belong to no piece."""
	_, top = scan(text)
	out = []
	begin = 0
	i = 0
	while i < len(text):
		if text.startswith(d, i) and top[i] and i + len(d) < len(text):
			out.append(text[begin:i].strip(' '))
			begin = i + len(d)
			i += len(d)
		else:
			i += 1
	if begin < len(text):
		out.append(text[begin:].strip(' '))
	return out


def aligns(text: str, d: str, pieces: list[str]) -> bool:
	"""Is there a set of top-level delimiter positions whose segments, stripped of blanks, are exactly `pieces`?
	(= every cut is a top-level delimiter and the pieces rejoin to the text up to surrounding blanks)"""
	_, top = scan(text)
	tops = [i for i, c in enumerate(text) if c == d and top[i]]
	if not pieces:
		return text == ''

	@lru_cache(None)
	def go(i: int, p: int) -> bool:
		if i == len(pieces) - 1:
			return text[p:].strip(' ') == pieces[i]
		for e in tops:
			if e >= p and text[p:e].strip(' ') == pieces[i] and go(i + 1, e + 1):
				return True
		return False

	return go(0, 0)


# ---------------------------------------------------------------------------------------------
# real code, canonical observation (the same text the Lean driver prints)


def _bp() -> Any:
	from rogw.tranp.view.helper.block import BlockParser
	return BlockParser


def entry_str(e: Any) -> str:
	kind = {'element': 'E', 'block': 'B', 'end': 'X'}[e.kind.value]
	return f"({e.begin},{e.end},{e.depth},{kind}[{''.join(entry_str(x) for x in e.entries)}])"


def budgeted(n: int, seconds: float, notes: list[str]) -> Any:
	"""`range(n)` with a total wall deadline: a loop that runs out of time stops and says so (never a hang, never a silent cut)"""
	import time
	t0 = time.time()
	for i in range(n):
		if time.time() - t0 > seconds:
			notes.append(f'stopped after {i} of {n} cases (wall deadline {seconds:.0f}s)')
			return
		yield i


class _Timeout(BaseException):
	pass


def _on_alarm(*_: Any) -> None:
	raise _Timeout()


TIMEOUTS = {'count': 0}


def guarded(fn: Any, *args: Any, seconds: float = 5.0) -> Any:
	"""Run a real helper with a wall-clock guard: a loop that no longer terminates becomes the observable 'Timeout'.
	The helpers take microseconds on these inputs, so 5 s (CPU-independent slack for a loaded machine) can only be reached by a
	call that does not return. After 20 such calls the tree is known to hang (each one is already a disagreement or a finding);
	the budget drops to 0.5 s so that the whole check still ends in bounded time."""
	import signal
	if TIMEOUTS['count'] >= 20:
		seconds = min(seconds, 0.5)
	old = signal.signal(signal.SIGALRM, _on_alarm)
	signal.setitimer(signal.ITIMER_REAL, seconds)
	try:
		return fn(*args)
	except _Timeout:
		TIMEOUTS['count'] += 1
		raise TimeoutError('real helper did not return') from None
	finally:
		signal.setitimer(signal.ITIMER_REAL, 0)
		signal.signal(signal.SIGALRM, old)


def real_op(op: list[str]) -> str:
	try:
		return guarded(_real_op, op)
	except TimeoutError:
		return 'Timeout'


def _real_op(op: list[str]) -> str:
	from rogw.tranp.implements.cpp.view.cpp_view_helper import CppViewHelper
	from rogw.tranp.view.helper.decorator import DecoratorHelper
	B = _bp()
	try:
		k = op[0]
		if k == 'skip':
			return str(B._skip_other_block(op[2], op[1], int(op[3])))
		if k == 'sep':
			return 'ok ' + ','.join(hx(p) for p in B.break_separator(op[1], op[2]))
		if k == 'last':
			a, b = B.break_last_block(op[1], op[2])
			return f'ok {hx(a)} {hx(b)}'
		if k == 'analyze':
			kind, b, i = B._analyze_entry(op[1], op[2], op[3], int(op[4]))
			if kind.value == 'end':
				return f'end {b}'
			return f'{kind.value} {b} {i}'
		if k == 'parse':
			return 'ok ' + entry_str(B.parse(op[1], op[2], op[3]))
		if k == 'bracket':
			return 'ok ' + ','.join(hx(p) for p in B.parse_bracket(op[1], op[2]))
		if k == 'pair':
			return 'ok ' + ','.join(f'{hx(a)}:{hx(b)}' for a, b in B.parse_pair(op[1], op[2], op[3]))
		if k == 'deco':
			path, args, join_args = DecoratorHelper(op[1])._parse(op[1])
			return f"ok {hx(path)} {';'.join(f'{hx(a)}={hx(b)}' for a, b in args.items())} {hx(join_args)}"
		if k == 'param':
			p = CppViewHelper.Param.parse(op[1])
			return f'ok {hx(p.var_type)} {hx(p.symbol)} {hx(p.default_value)}'
		if k == 'iql':
			from rogw.tranp.lang.string import is_quoted_literal
			return f"ok {'true' if is_quoted_literal(op[1], op[2]) else 'false'}"
		if k == 'vorigin':
			return f"ok {hx(CppViewHelper.Param(op[1], 'n', '').var_type_origin)}"
		if k == 'format':
			return f'ok {hx(B.parse_to_formatter(op[1], op[2], op[3]).format())}'
		if k in CALLER_OPS:
			return real_caller(op)
		raise AssertionError(op)
	except Exception as e:  # noqa: BLE001
		return exc_enum(e)


# the production function each caller op drives and the helper it is expected to go through (stable key: function name, not line)
CALLER_SITES = {
	'pluck': ('pluck_func_call_arguments', 'break_last_block'),
	'indexer': ('break_indexer', 'break_last_block'),
	'cvarnew': ('pluck_cvar_new', 'break_last_block'),
	'initcall': ('is_initializer_call', 'break_last_block'),
	'throw': ('on_throw', 'break_separator'),
	'dictcomp': ('on_dict_comp', 'break_separator'),
}


@lru_cache(None)
def retired_callers() -> frozenset[str]:
	"""caller ops whose production function no longer calls the BlockParser helper (read from the sources by the call-site translator on
	every run): the model of such a caller describes code that is gone - the op leaves the correspondence stream; the search keeps its
	law as long as the function can still be driven by text"""
	from translate import gen_block_callsites
	present = gen_block_callsites.python_site_functions()
	return frozenset(op for op, site in CALLER_SITES.items() if site not in present)


CALLER_OPS = {'pluck', 'indexer', 'cvarnew', 'callsplit', 'initcall', 'throw', 'dictcomp', 'dany', 'danyargs', 'qany', 'qanyargs', 'qcontains'}


class _Obj:
	"""attribute bag for the stand-in node / Py2Cpp instance"""

	def __init__(self, **kw: Any) -> None:
		self.__dict__.update(kw)


def _fake_self() -> tuple[Any, dict[str, Any]]:
	"""A stand-in for the Py2Cpp instance: the real handler methods are called unbound with it, `render` records the template
	variables (the observation point is the argument of the real `self.render(...)` call)."""
	captured: dict[str, Any] = {}

	def render(node: Any, template: str, vars: dict[str, Any] | None = None) -> str:
		captured.update(vars or {})
		return ''

	fake = _Obj(render=render, make_string_formatters=lambda func_call: [], to_accessible_name=lambda t: 'T',
		reflections=_Obj(type_of=lambda n: _Obj(attrs=['K', 'V'])))
	return fake, captured


def call_split(call: str, args_num: int) -> tuple[str, str, str]:
	"""`break_separator(pluck_func_call_arguments(call), ',')` with tuple unpacking: what Py2Cpp.proc_for_range did until /repo
	ed1a7d7. NOT a production call site any more (the handler transpiles the argument nodes); composed here from the two real
	helpers only to keep the model definition `splitCallArguments` tied to them."""
	from rogw.tranp.implements.cpp.transpiler.py2cpp import PatternParser
	join_args = PatternParser.pluck_func_call_arguments(call)
	if args_num == 1:
		return '0', join_args, '1'
	if args_num == 2:
		begin, size = _bp().break_separator(join_args, ',')
		return begin, size, '1'
	begin, size, step = _bp().break_separator(join_args, ',')
	return begin, size, step


def call_is_initializer(value: str, var_type: str) -> bool:
	from rogw.tranp.implements.cpp.transpiler.py2cpp import Py2Cpp
	return Py2Cpp.is_initializer_call(_fake_self()[0], value, var_type)


def call_on_throw(throws: str) -> tuple[str, list[str]]:
	import rogw.tranp.syntax.node.definition as defs
	from rogw.tranp.implements.cpp.transpiler.py2cpp import Py2Cpp
	fake, cap = _fake_self()
	node = _Obj(classification='throw', throws=object.__new__(defs.FuncCall))
	Py2Cpp.on_throw(fake, node, throws, '')
	return cap['calls'], list(cap['arguments'])


def call_on_dict_comp(projection: str) -> tuple[str, str]:
	from rogw.tranp.implements.cpp.transpiler.py2cpp import Py2Cpp
	fake, cap = _fake_self()
	node = _Obj(classification='dict_comp', projection=None)
	Py2Cpp.on_dict_comp(fake, node, projection, ['for'], '')
	return cap['projection_key'], cap['projection_value']


def real_caller(op: list[str]) -> str:
	from rogw.tranp.implements.cpp.transpiler.py2cpp import PatternParser
	from rogw.tranp.view.helper.decorator import DecoratorHelper, DecoratorQuery
	k = op[0]
	if k == 'pluck':
		return f'ok {hx(PatternParser.pluck_func_call_arguments(op[1]))}'
	if k == 'indexer':
		a, b = PatternParser.break_indexer(op[1])
		return f'ok {hx(a)} {hx(b)}'
	if k == 'cvarnew':
		a, b = PatternParser.pluck_cvar_new(op[1])
		return f'ok {hx(a)} {hx(b)}'
	if k == 'callsplit':
		a, b, c = call_split(op[1], int(op[2]))
		return f'ok {hx(a)} {hx(b)} {hx(c)}'
	if k == 'initcall':
		return f"ok {'true' if call_is_initializer(op[1], op[2]) else 'false'}"
	if k == 'throw':
		calls, args = call_on_throw(op[1])
		return f"ok {hx(calls)} {','.join(hx(a) for a in args)}"
	if k == 'dictcomp':
		a, b = call_on_dict_comp(op[1])
		return f'ok {hx(a)} {hx(b)}'
	tf = {True: 'true', False: 'false'}
	if k == 'dany':
		return f'ok {tf[DecoratorHelper(op[1]).any(*op[2])]}'
	if k == 'danyargs':
		return f'ok {tf[DecoratorHelper(op[1]).any_args(op[2])]}'
	if k == 'qany':
		return 'ok ' + ','.join(hx(h.decorator) for h in DecoratorQuery.parse(op[1]).any(*op[2]))
	if k == 'qanyargs':
		return 'ok ' + ','.join(hx(h.decorator) for h in DecoratorQuery.parse(op[1]).any_args(op[2]))
	if k == 'qcontains':
		return f'ok {tf[DecoratorQuery.parse(op[1]).contains(*op[2])]}'
	raise AssertionError(op)


def hxl(xs: list[str]) -> str:
	return ','.join(hx(x) for x in xs) if xs else '.'


def op_line(op: list[str]) -> str:
	k = op[0]
	if k == 'skip':
		return '\t'.join([k, hx(op[1]), hx(op[2]), op[3]])
	if k == 'analyze':
		return '\t'.join([k, hx(op[1]), hx(op[2]), hx(op[3]), op[4]])
	if k == 'callsplit':
		return '\t'.join([k, hx(op[1]), op[2]])
	if k in ('dany', 'qcontains'):
		return '\t'.join([k, hx(op[1]) if k == 'dany' else hxl(op[1]), hxl(op[2])])
	if k == 'qany':
		return '\t'.join([k, hxl(op[1]), hxl(op[2])])
	if k == 'qanyargs':
		return '\t'.join([k, hxl(op[1]), hx(op[2])])
	return '\t'.join([k, *[hx(a) for a in op[1:]]])


def all_tokens() -> str:
	return ''.join(_bp()._all_pair)


def other_tokens(brackets: str) -> str:
	return ''.join(p for p in _bp()._all_pair if p != brackets)


def ops_for(rng: random.Random, text: str, malformed: bool) -> list[list[str]]:
	ops: list[list[str]] = []
	odd_delims = ['->', '::', ', ', 'aa', '', '==', ' =', ': ', ' and ', '&|']
	odd_brackets = ['', '(', '""', '(]', 'ab', "''", '<', '][']  # never longer than two characters: a third character is an end token that _parse cannot consume (no progress)
	for d in DELIMS:
		ops.append(['sep', text, d])
	ops.append(['sep', text, rng.choice(odd_delims)])
	for b in BRACKETS:
		ops.append(['last', text, b])
	if malformed or rng.random() < 0.3:
		ops.append(['last', text, rng.choice(odd_brackets)])
	for _ in range(3):
		toks = all_tokens() if rng.random() < 0.5 else other_tokens(rng.choice(BRACKETS))
		ops.append(['skip', toks, text, str(rng.randint(0, len(text) + 1))])
	for _ in range(3):
		b = rng.choice(BRACKETS) if rng.random() < 0.9 else rng.choice(odd_brackets)
		d = rng.choice([',', ':', ':,', '', ' ', '='])
		ops.append(['analyze', text, b, d, str(rng.randint(0, len(text)))])
	for b in rng.sample(BRACKETS, 2):
		ops.append(['parse', text, b, rng.choice([',', ':', ':,', ''])])
		ops.append(['bracket', text, b])
		ops.append(['pair', text, b, rng.choice([',', ':', ':,'])])
	if malformed:
		ops.append(['parse', text, rng.choice(odd_brackets), ','])
		ops.append(['bracket', text, rng.choice(odd_brackets)])
	ops.append(['deco', text])
	ops.append(['param', text])
	return ops


def make_case(rng: random.Random, kind: str, text: str, extra: list[list[str]], meta: dict[str, Any]) -> tuple[dict[str, Any], list[str], list[str]]:
	ops = ops_for(rng, text, kind == 'malformed') + extra
	lines = [op_line(op) for op in ops]
	real = [real_op(op) for op in ops]
	return {'kind': kind, 'text': text, **meta}, lines, real


def deco_text(rng: random.Random, mode: str, i: int) -> tuple[str, str, list[tuple[str | None, str]]]:
	"""→ (decorator text, path, [(label | None, value text)])"""
	path = '.'.join(''.join(rng.choice('abcXYZ_') for _ in range(rng.randint(1, 4))) for _ in range(rng.randint(1, 3)))
	args: list[tuple[str | None, str]] = []
	labels: set[str] = set()
	for _ in range(rng.randint(0, 4)):
		items = [it for it in gen_items(rng, i % 4, mode, 1 + i % 3, 0.25) if not (it[0] == 'a' and (',' in it[1] or '=' in it[1]))]
		value = render(items).strip(' ')
		label = None
		if rng.random() < 0.35:
			label = ''.join(rng.choice('klmn') for _ in range(rng.randint(1, 3)))
			if label in labels:
				label = None
			else:
				labels.add(label)
		if value == '':
			value = 'v'  # an argument is never empty (`k=` would end in the delimiter: the boundary rule makes it positional)
		if label is not None and rng.random() < 0.45:
			# a labelled value may itself contain top-level `=` (`cond=x==y`, `key=lambda a=1: a`, `a=b=c`): the label ends at the FIRST one
			right = render([it for it in gen_items(rng, i % 3, mode, 1 + i % 2, 0.2) if not (it[0] == 'a' and (',' in it[1] or '=' in it[1]))]).strip(' ') or 'w'
			op = rng.choice(['==', '!=', ' == ', '=', ':=', ' = ', '= ='])
			value = f'lambda a=1: {value}' if rng.random() < 0.2 else f'{value}{op}{right}'
		args.append((label, value))
	sep = ', ' if rng.random() < 0.8 else ','
	# blanks around the label's `=` are insignificant (`prefix = true`, `k =1`): mostly the compact form, often not
	assign = rng.choice(['=', '=', '=', '=', ' = ', ' = ', ' =', '= ', '  =  ', '\t=', '=\t', '\t= '])
	joined = sep.join(v if l is None else f'{l}{assign}{v}' for l, v in args)
	return f'{path}({joined})', path, args


def param_text(rng: random.Random, i: int) -> tuple[str, str, str, str | None]:
	"""→ (parameter text, var_type, symbol, default | None) built from clean fragments"""
	def token() -> str:
		while True:
			items = [it for it in gen_items(rng, i % 3, 'clean', 1 + i % 3, 0.15) if not (it[0] == 'a' and (' ' in it[1] or '=' in it[1] or '\n' in it[1] or '\t' in it[1]))]
			t = render(items)
			if t:
				return t
	types = [token() for _ in range(rng.randint(1, 3))]
	if rng.random() < 0.3:
		types.insert(0, 'const')
	name = ''.join(rng.choice(IDENT[:7]) for _ in range(rng.randint(1, 5)))
	default: str | None = None
	if rng.random() < 0.6:
		# every default fragment (param_unrestricted): also strings that hold brackets and the other quote
		default = render(gen_items(rng, i % 3, 'dirty' if i % 4 == 3 else 'clean', 1 + i % 4, 0.3)).strip(' ')
		if default == '':
			default = '0'
	var_type = ' '.join(types)
	text = f'{var_type} {name}' + ('' if default is None else f' = {default}')
	return text, var_type, name, default


def stream_fragments(ctx: Ctx, name: str, mode: str, n: int) -> Stream:
	rng = ctx.sub_rng(name)
	cases = []
	notes: list[str] = []
	for i in budgeted(n, ctx.scale(30, 900), notes):
		if mode == 'malformed':
			text = gen_malformed(rng, i)
			meta = {'depth': -1, 'len': len(text)}
			extra: list[list[str]] = []
		else:
			items = gen_fragment(rng, mode, i)
			text = render(items)
			meta = {'depth': depth_of(items), 'len': len(text), 'dirty': is_dirty(items)}
			dtext, _, _ = deco_text(rng, mode, i)
			extra = [['deco', dtext]]
			if mode == 'clean':
				extra.append(['param', param_text(rng, i)[0]])
			# prefix + group for break_last_block
			b = rng.choice(BRACKETS)
			extra.append(['last', text + b[0] + render(gen_fragment(rng, mode, i + 1)) + b[1], b])
		cases.append(make_case(rng, mode, text, extra, meta))

	def classify(d: dict[str, Any]) -> str:
		if d['kind'] == 'malformed':
			return f"malformed len<{(d['len'] // 10 + 1) * 10}"
		return f"{d['kind']} depth={d['depth']}"

	st = common.correspond(name, cases, 'block', classify=classify)
	errs = sum(1 for _, _, real in cases for r in real if not r.startswith(('ok', 'block', 'element', 'end')) and not r.isdigit())
	st.note = (f'{mode} fragments; per fragment: sep × 5 delimiters (one multi-character/empty), last × 4-5 bracket pairs, skip × 3, analyze × 3, '
		f'parse/bracket/pair × 2, deco, param (+ decorator/parameter/prefix+group texts); {errs} ops ended in an exception on both sides')
	st.note += ''.join(f'; {x}' for x in notes)
	return st


def args_fragments(rng: random.Random, mode: str, i: int, n: int, exclude: str = '') -> list[str]:
	"""n argument texts: fragments without a top-level comma, never empty"""
	out = []
	for j in range(n):
		items = [it for it in gen_items(rng, (i + j) % 4, mode, 1 + (i + j) % 4, 0.2, exclude) if not (it[0] == 'a' and ',' in it[1])]
		t = render(items).strip(' ')
		out.append(t if t else rng.choice(['0', 'n', 'x']))
	return out


def caller_ops(rng: random.Random, mode: str, i: int) -> list[list[str]]:
	callee = rng.choice(['range', 'f', 'a.b', 'std::vector<int>', 'x->y', 'E', ''])
	n = rng.randint(0, 4)
	args = args_fragments(rng, mode, i, n)
	sep = rng.choice([', ', ',', ' , '])
	call = f'{callee}({sep.join(args)})'
	ops: list[list[str]] = [['pluck', call], ['cvarnew', call], ['throw', call]]
	for k in (1, 2, 3):
		ops.append(['callsplit', call, str(k)])
	ops.append(['initcall', call, callee])
	ops.append(['initcall', call + rng.choice(['.dup()', '', ')', ' ']), rng.choice([callee, callee[:1], 'A'])])
	key = rng.choice(['k', 'a[0]', 'f(x, y)'] + args[:1])
	ops.append(['indexer', f'{callee}[{sep.join(args)}]'])
	ops.append(['indexer', f'{call}[{key}]'])
	ops.append(['dictcomp', '{' + sep.join(args) + '}'])
	ops.append(['dictcomp', '{' + sep.join(args[:2]) + '}'])
	decos = [deco_text(rng, mode, i + j)[0] for j in range(rng.randint(1, 4))]
	if rng.random() < 0.3:
		decos.append(rng.choice(['a.b', 'Embed.prop', 'x']))
	paths = [d.split('(')[0] for d in decos]
	probe = [rng.choice(paths)] + ([rng.choice(['a.b', 'zz', ''])] if rng.random() < 0.5 else [])
	subject = rng.choice(['', ',', 'a', '(', '=', ' ', 'zz'] + [a[:2] for a in args[:1]])
	ops.append(['dany', decos[0], probe])
	ops.append(['danyargs', decos[0], subject])
	ops.append(['qany', decos, probe])
	ops.append(['qanyargs', decos, subject])
	ops.append(['qcontains', decos, probe])
	return ops


def stream_callers(ctx: Ctx, n: int) -> Stream:
	rng = ctx.sub_rng('block-callers')
	cases = []
	notes: list[str] = []
	for i in budgeted(n, ctx.scale(30, 900), notes):
		mode = ('clean', 'dirty', 'malformed')[i % 3]
		if mode == 'malformed':
			text = gen_malformed(rng, i)
			ops = [['pluck', text], ['indexer', text], ['cvarnew', text], ['throw', text], ['dictcomp', text], ['callsplit', text, str(rng.randint(1, 3))], ['initcall', text, text.split('(')[0]],
				['dany', text, [text.split('(')[0]]], ['danyargs', text, rng.choice(['', ',', '('])], ['qcontains', [text, 'a(b)'], ['a']]]
		else:
			ops = caller_ops(rng, mode, i)
		ops = [op for op in ops if op[0] not in retired_callers()]
		lines = [op_line(op) for op in ops]
		real = [real_op(op) for op in ops]
		cases.append(({'kind': mode, 'ops': len(ops)}, lines, real))
	if retired_callers():
		notes.append('retired (the production function no longer calls the helper, per the generated call-site scan): ' + ', '.join(f'{op} = {CALLER_SITES[op][0]}' for op in sorted(retired_callers())))
	st = common.correspond('block-callers', cases, 'block', classify=lambda d: d['kind'])
	st.note = ('the production call sites: PatternParser.pluck_func_call_arguments / break_indexer / pluck_cvar_new directly; Py2Cpp.on_throw, on_dict_comp, '
		'is_initializer_call as the real (unbound) methods with a recording `render`; DecoratorHelper.any / any_args and DecoratorQuery.any / any_args / contains; '
		'`callsplit` = break_separator(pluck_func_call_arguments(·)) composed in the harness (the former proc_for_range splitting, retired as a production site by /repo ed1a7d7)')
	st.note += ''.join(f'; {x}' for x in notes)
	return st


def stream_dictlike(ctx: Ctx, n: int) -> Stream:
	rng = ctx.sub_rng('block-dictlike')
	cases = []
	notes: list[str] = []
	for i in budgeted(n, ctx.scale(30, 900), notes):
		b = rng.choice(BRACKETS)
		delims = rng.choice([':', ',', ':,'])
		mode = 'clean' if i % 3 else 'dirty'
		body, pieces = gen_dictlike(rng, b, delims, 1 + i % 3, mode, i % 4 == 3)
		text = ''.join(rng.choice(IDENT[:7]) for _ in range(rng.randint(0, 3))) + body
		if i % 5 == 4:  # a loose variant: blanks around delimiters, text behind nested groups
			text = text.replace(delims[0], f' {delims[0]} ').replace(b[1], b[1] + rng.choice(['', 'x', ' ']))
		ops: list[list[str]] = [['pair', text, b, delims], ['parse', text, b, delims], ['parse', text, b, ''], ['bracket', text, b]]
		for _ in range(4):
			ops.append(['analyze', text, b, rng.choice([delims, '']), str(rng.randint(0, max(0, len(text) - 1)))])
		other = rng.choice([x for x in BRACKETS if x != b])
		ops += [['pair', text, other, delims], ['bracket', text, other]]
		lines = [op_line(op) for op in ops]
		real = [real_op(op) for op in ops]
		cases.append(({'kind': mode, 'pairs': len(pair_spec(pieces)), 'loose': i % 5 == 4}, lines, real))
	st = common.correspond('block-dictlike', cases, 'block', classify=lambda d: f"{d['kind']} pairs={min(d['pairs'], 5)}{' loose' if d['loose'] else ''}")
	st.note = ('dict-like fragments `{k: v, …}` / `name(a, b)` with foreign groups directly behind each other (`f(1)[2, 3]`, `t[A](x, y)`), nested dicts, '
		'strings; parse_pair / parse (with and without delimiter) / parse_bracket / _analyze_entry at random positions, also with another bracket kind')
	st.note += ''.join(f'; {x}' for x in notes)
	return st


# ---------------------------------------------------------------------------------------------
# the text helpers beside the scanners: is_quoted_literal, Param.var_type_origin, parse_to_formatter().format()  (ASCII only)


def gen_quoted(rng: random.Random) -> tuple[str, str]:
	"""→ (string, quote): mostly quote + body + quote with quotes and backslashes in the body, sometimes damaged"""
	q = rng.choice(['"', '"', "'", "'", '"""', 'ab', '']) if rng.random() < 0.25 else rng.choice(['"', "'"])
	alpha = 'ab ' + '\\' * 2 + (q[:1] or '"') * 3 + '"\''
	body = ''.join(rng.choice(alpha) for _ in range(rng.randint(0, 7)))
	r = rng.random()
	if r < 0.7:
		text = q + body + q
	elif r < 0.8:
		text = q + body
	elif r < 0.88:
		text = body + q
	elif r < 0.94:
		text = q
	else:
		text = body
	return text, q


def quoted_spec(text: str, q: str) -> bool:
	"""is_quoted_literal for a non-empty quote: starts and ends with it, and every occurrence of the quote that lies strictly inside
	(behind the first character, in front of the last) stands behind a backslash"""
	if not (text.startswith(q) and text.endswith(q)):
		return False
	return all(text[p - 1] == '\\' for p in range(1, len(text) - len(q)) if text.startswith(q, p))


def gen_var_type(rng: random.Random) -> tuple[str, str, str]:
	"""→ (var_type text, base name, shape): [const ␠+] base [<…>] [*|&]"""
	base = rng.choice(['int', 'T', 'std::string', 'Box::Item', 'const', 'constant', 'a_b', 'std::map', 'x1', ''.join(rng.choice(IDENT + ':') for _ in range(rng.randint(1, 6)))])
	cst = rng.choice(['', '', 'const ', 'const  ', 'const \t'])
	targs = ''
	if rng.random() < 0.5:
		targs = '<' + render(gen_items(rng, rng.randint(0, 2), 'clean', 3, 0.3)).replace('é', 'e') + '>'
		if rng.random() < 0.15:
			targs += rng.choice(['::type', ' const', '::value_type'])
	ptr = rng.choice(['', '', '*', '&'])
	return cst + base + targs + ptr, base, f"{'const ' if cst else ''}base{'<>' if targs else ''}{ptr}"


def gen_var_type_raw(rng: random.Random) -> str:
	return ''.join(rng.choice(['const', ' ', ' ', '*', '&', '<', '>', ':', 'a', 'b_', '1', '\t', ',', 'int', 'std::']) for _ in range(rng.randint(0, 6)))


def gen_dict_tree(rng: random.Random, b: str, depth: int, mode: str, name: str = '') -> tuple:
	"""a dict-like structure: ('b', name, [children]) with children ('e', blank-free text) or nested ('b', name, …)"""
	children: list[tuple] = []
	for _ in range(rng.randint(0, 4)):
		if depth > 0 and rng.random() < 0.3:
			children.append(gen_dict_tree(rng, b, depth - 1, mode, gen_tight(rng, b, mode) if rng.random() < 0.5 else ''))
		else:
			children.append(('e', gen_tight(rng, b, mode)))
	return ('b', name, children)


def dict_written(rng: random.Random, node: tuple, b: str, d: str, gaps: list[str]) -> str:
	"""the text as written: one of `gaps` behind each delimiter"""
	if node[0] == 'e':
		return node[1]
	parts = [dict_written(rng, c, b, d, gaps) for c in node[2]]
	text = node[1] + b[0]
	for j, w in enumerate(parts):
		text += w + (d + rng.choice(gaps) if j + 1 < len(parts) else '')
	return text + b[1]


def dict_format(node: tuple, b: str, d: str, join_format: str = '{delimiter} ', block_format: str = '{name}{open}{elems}{close}', alt: Any = None) -> str:
	"""what BlockFormatter.format has to produce, computed on the generated structure (`alt(name, number of elements)` → str | None)"""
	if node[0] == 'e':
		return node[1]
	if alt is not None:
		r = alt(node[1], len(node[2]))
		if r:
			return r
	elems = join_format.format(delimiter=d).join(dict_format(c, b, d, join_format, block_format, alt) for c in node[2])
	return block_format.format(name=node[1], open=b[0], close=b[1], elems=elems)


def gen_canonical_dict(rng: random.Random, b: str, d: str, depth: int, mode: str, gaps: list[str]) -> tuple[str, str]:
	"""→ (text as written, canonical text): `b[0] piece d␠ piece … b[1]` with blank-free pieces and nested `name{…}` blocks; the
	written form puts one of `gaps` behind each delimiter, the canonical form exactly one blank"""
	tree = gen_dict_tree(rng, b, depth, mode)
	return dict_written(rng, tree, b, d, gaps), dict_format(tree, b, d)


def ascii_only(text: str) -> str:
	return ''.join(c if ord(c) < 128 else 'e' for c in text)


def stream_view(ctx: Ctx, n: int) -> Stream:
	rng = ctx.sub_rng('block-view')
	cases = []
	notes: list[str] = []
	for i in budgeted(n, ctx.scale(30, 900), notes):
		ops: list[list[str]] = []
		for _ in range(3):
			text, q = gen_quoted(rng)
			ops.append(['iql', text, q])
		ops.append(['iql', ascii_only(gen_malformed(rng, i)), rng.choice(['"', "'"])])
		for _ in range(2):
			ops.append(['vorigin', gen_var_type(rng)[0]])
		ops.append(['vorigin', gen_var_type_raw(rng)])
		b = rng.choice(BRACKETS)
		d = rng.choice([':', ',', ':,', ''])
		mode = 'clean' if i % 3 else 'dirty'
		written, _ = gen_canonical_dict(rng, b, d or ',', 1 + i % 3, mode, [' ', ' ', '', '  ', '\n\t'])
		name = ''.join(rng.choice(IDENT[:7]) for _ in range(rng.randint(0, 3)))
		ops.append(['format', ascii_only(name + written), b, d])
		frag = ascii_only(render(gen_fragment(rng, mode, i)) if i % 2 else gen_malformed(rng, i))
		ops.append(['format', frag, rng.choice(BRACKETS), rng.choice([',', ':', ':,', ''])])
		if i % 7 == 0:
			ops.append(['format', frag, rng.choice(['', '(', '""', '(]', 'ab', '<']), ','])
		lines = [op_line(op) for op in ops]
		real = [real_op(op) for op in ops]
		cases.append(({'kind': mode}, lines, real))
	st = common.correspond('block-view', cases, 'block', classify=lambda d: d['kind'])
	st.note = ('is_quoted_literal (quoted texts with quotes/backslashes inside, damaged ones, multi-character and empty quotes), Param.var_type_origin '
		'([const] base [<…>] [*|&] and raw texts; the regular expression is the generated term), parse_to_formatter(…).format() on dict-like texts, '
		'fragments and malformed texts; ASCII only')
	st.note += ''.join(f'; {x}' for x in notes)
	return st


def search_view(ctx: Ctx) -> SearchResult:
	from rogw.tranp.implements.cpp.view.cpp_view_helper import CppViewHelper
	from rogw.tranp.lang.string import is_quoted_literal
	B = _bp()
	rng = ctx.sub_rng('law-view')
	res = SearchResult('is_quoted_literal = starts and ends with the quote and every inner quote is escaped; Param.var_type_origin([const] base [<…>] [*|&]) = base; '
		'parse_to_formatter(text).format() = the text with exactly one blank behind every delimiter, and with other join/block formats or an alt_formatter the value computed on the generated structure (dict-like texts with blank-free pieces); Param.parse(text).var_type_origin = base')
	hist: dict[str, int] = {}
	seen: set[str] = set()
	notes: list[str] = []

	def count(k: str) -> None:
		hist[k] = hist.get(k, 0) + 1

	fixed_q = [('"a"', '"', True), ('"a"b"', '"', False), ('"a\\"b"', '"', True), ("'it''s'", "'", False), ('"', '"', True), ('', '"', False), ('"a', '"', False), ("'a\\\\'", "'", True)]
	for text, q, want in fixed_q:
		res.cases += 1
		try:
			got: Any = guarded(is_quoted_literal, text, q)
		except Exception as e:  # noqa: BLE001
			got = exc_enum(e)
		if got is not want:
			res.findings.append(Finding(key='quoted:differs', what=f'is_quoted_literal({text!r}, {q!r}) = {got!r}, expected {want!r}', replay={'string': text, 'quote': q, 'witness': True}))
	for text, want_o in [('const int&', 'int'), ('int*', 'int'), ('std::map<std::string, int>', 'std::map'), ('const  Box::Item&', 'Box::Item'), ('Box<int>&', 'Box'), ('int', 'int')]:
		res.cases += 1
		try:
			got = guarded(lambda t=text: CppViewHelper.Param(t, 'n', '').var_type_origin)
		except Exception as e:  # noqa: BLE001
			got = exc_enum(e)
		if got != want_o:
			res.findings.append(Finding(key='var_type_origin:differs', what=f'Param({text!r}, …).var_type_origin = {got!r}, expected {want_o!r}', replay={'var_type': text, 'witness': True}))
	for i in budgeted(ctx.scale(8000, 80000), ctx.scale(30, 400), notes):
		text, q = gen_quoted(rng)
		if q:
			res.cases += 1
			seen.add(f'q{q}{text}')
			want = quoted_spec(text, q)
			try:
				got = guarded(is_quoted_literal, text, q)
			except Exception as e:  # noqa: BLE001
				got = exc_enum(e)
			count(f'quoted {want}')
			if got is not want:
				res.findings.append(Finding(key='quoted:differs', what=f'is_quoted_literal({text!r}, {q!r}) = {got!r}, expected {want!r}', replay={'string': text, 'quote': q}))
		vt, base, shape = gen_var_type(rng)
		res.cases += 1
		seen.add(f'v{vt}')
		count(f'var_type {shape}')
		try:
			got = guarded(lambda t=vt: CppViewHelper.Param(t, 'n', '').var_type_origin)
		except Exception as e:  # noqa: BLE001
			got = exc_enum(e)
		if got != base:
			res.findings.append(Finding(key='var_type_origin:differs', what=f'Param({vt!r}, …).var_type_origin = {got!r}, the base type is {base!r}', replay={'var_type': vt}))
		# the whole way: parameter text → Param.parse → var_type → var_type_origin
		pname = ''.join(rng.choice(IDENT[:7]) for _ in range(rng.randint(1, 4)))
		ptext = f'{vt} {pname}' + (f" = {render(gen_items(rng, i % 2, 'clean', 2, 0.3)).strip(' ') or '0'}" if i % 2 else '')
		res.cases += 1
		try:
			got = guarded(lambda t=ptext: (lambda p: (p.symbol, p.var_type_origin))(CppViewHelper.Param.parse(t)))
		except Exception as e:  # noqa: BLE001
			got = exc_enum(e)
		if got != (pname, base):
			res.findings.append(Finding(key='param:origin-differs', what=f'Param.parse({ptext!r}) → (symbol, var_type_origin) = {got!r}, expected {(pname, base)!r}', replay={'parameter': ptext}))
		b = rng.choice(BRACKETS)
		d = rng.choice([':', ','])
		mode = 'clean' if i % 3 else 'dirty'
		written, canon = gen_canonical_dict(rng, b, d, 1 + i % 3, mode, [' '] if i % 2 else [' ', '', '  ', ' \t'])
		name = ''.join(rng.choice(IDENT[:7]) for _ in range(rng.randint(0, 3)))
		res.cases += 1
		seen.add(f'f{b}{d}{name}{written}')
		count('format canonical' if i % 2 else 'format loose')
		try:
			got = guarded(lambda: B.parse_to_formatter(name + written, b, d).format())
		except Exception as e:  # noqa: BLE001
			got = exc_enum(e)
		if got != name + canon:
			res.findings.append(Finding(key='format:differs', what=f'parse_to_formatter({name + written!r}, {b!r}, {d!r}).format() = {got!r}, expected {name + canon!r}', replay={'text': name + written, 'brackets': b, 'separator': d}))
		elif len(res.samples) < 2 and len(canon) > 12:
			res.samples.append({'text': name + written, 'format': got})
		# the other parameters of format(): join_format / block_format / alt_formatter, expected value computed on the structure
		tree = gen_dict_tree(rng, b, 1 + i % 3, mode, name)
		text2 = dict_written(rng, tree, b, d, [' '])
		jf = rng.choice(['{delimiter} ', '{delimiter}', ' {delimiter} '])
		bf = rng.choice(['{name}{open}{elems}{close}', '{name}{open} {elems} {close}', '{open}{elems}{close}@{name}'])
		variant = i % 4
		if variant == 0:
			alt_real, alt_spec = None, None
		elif variant == 1:
			alt_real, alt_spec = (lambda f: None), None
		elif variant == 2:
			alt_real, alt_spec = (lambda f: f'<{f.name}|{len(f.elems)}>' if f.name[-1:] in 'abc019' else None), (lambda nm, n: f'<{nm}|{n}>' if nm[-1:] in 'abc019' else None)
		else:
			alt_real, alt_spec = (lambda f: '' if f.name else 'ROOT'), (lambda nm, n: '' if nm else 'ROOT')
		want_f = dict_format(tree, b, d, jf, bf, alt_spec)
		res.cases += 1
		count(f'format variant {variant}')
		try:
			got = guarded(lambda: B.parse_to_formatter(text2, b, d).format(jf, bf, alt_real))
		except Exception as e:  # noqa: BLE001
			got = exc_enum(e)
		if got != want_f:
			res.findings.append(Finding(key='format:variant-differs', what=f'parse_to_formatter({text2!r}, {b!r}, {d!r}).format({jf!r}, {bf!r}, alt variant {variant}) = {got!r}, expected {want_f!r}',
				replay={'text': text2, 'brackets': b, 'separator': d, 'join_format': jf, 'block_format': bf, 'alt_variant': variant}))
	res.note = '; '.join(notes)
	res.distinct = len(seen)
	res.histogram = hist
	return res


def search_callers(ctx: Ctx) -> SearchResult:
	rng = ctx.sub_rng('law-callers')
	res = SearchResult('production callers on generated call texts: throw E(a, …) / {k, v} / f(args) / T(args) is an initializer call / recv[key] give back exactly the generated parts (real Py2Cpp methods and PatternParser helpers)')
	hist: dict[str, int] = {}
	seen: set[str] = set()

	KEY_OP = {'caller:initializer_call': 'initcall', 'caller:throw': 'throw', 'caller:pluck': 'cvarnew', 'caller:dict_comp': 'dictcomp', 'caller:indexer': 'indexer'}
	undrivable: dict[str, int] = {}

	def bad(key: str, what: str, replay: dict[str, Any], got: Any = None) -> None:
		# a function that no longer goes through the BlockParser helper (generated call-site scan) AND can not be driven with a text
		# and a stand-in node any more (it reads the syntax tree: AttributeError/TypeError on the stand-in) is outside this property
		if KEY_OP.get(key) in retired_callers() and got in ('AttributeError', 'TypeError'):
			undrivable[key] = undrivable.get(key, 0) + 1
			return
		res.findings.append(Finding(key=key, what=what, replay=replay))

	notes: list[str] = []
	for i in budgeted(ctx.scale(6000, 60000), ctx.scale(30, 600), notes):
		mode = 'clean' if i % 3 else 'dirty'
		callee = rng.choice(['range', 'f', 'a.b', 'ns::g', 'x->y', 'E'])
		n = 1 + i % 3
		# strings may hold every bracket except parentheses (break_last_block does not look at quotes)
		args = args_fragments(rng, mode, i, n, exclude='()')
		sep = rng.choice([', ', ',', ' , '])
		call = f'{callee}({sep.join(args)})'
		seen.add(call)
		res.cases += 3
		hist[f'{mode} args={n}'] = hist.get(f'{mode} args={n}', 0) + 1
		try:
			got: Any = guarded(call_is_initializer, call, callee)
		except Exception as e:  # noqa: BLE001
			got = exc_enum(e)
		if got is not True:
			bad('caller:initializer_call', f'is_initializer_call({call!r}, {callee!r}) = {got!r}, expected True', {'value': call, 'var_type': callee}, got)
		try:
			got = guarded(call_is_initializer, call + '.dup()', callee)
		except Exception as e:  # noqa: BLE001
			got = exc_enum(e)
		if got is not False:
			bad('caller:initializer_call', f'is_initializer_call({call + ".dup()"!r}, {callee!r}) = {got!r}, expected False', {'value': call + '.dup()', 'var_type': callee}, got)
		try:
			got = guarded(call_on_throw, call)
		except Exception as e:  # noqa: BLE001
			got = exc_enum(e)
		if got != (callee, args):
			bad('caller:throw', f'on_throw({call!r}) renders calls/arguments {got!r}, expected {(callee, args)!r}', {'throws': call}, got)
		from rogw.tranp.implements.cpp.transpiler.py2cpp import PatternParser
		try:
			got = guarded(PatternParser.pluck_cvar_new, call)
		except Exception as e:  # noqa: BLE001
			got = exc_enum(e)
		if got != (callee, sep.join(args)):
			bad('caller:pluck', f'pluck_cvar_new({call!r}) = {got!r}', {'text': call}, got)
		if n == 2:
			res.cases += 1
			proj = '{' + sep.join(args) + '}'
			try:
				got = guarded(call_on_dict_comp, proj)
			except Exception as e:  # noqa: BLE001
				got = exc_enum(e)
			if got != (args[0], args[1]):
				bad('caller:dict_comp', f'on_dict_comp({proj!r}) renders key/value {got!r}, expected {(args[0], args[1])!r}', {'projection': proj}, got)
		# recv[key]: strings may hold every bracket except square ones
		key = sep.join(args_fragments(rng, mode, i, 1 + i % 2, exclude='[]'))
		recv = render(gen_fragment(rng, mode, i % 4, exclude='[]')).strip(' ')
		res.cases += 1
		try:
			got = guarded(PatternParser.break_indexer, f'{recv}[{key}]')
		except Exception as e:  # noqa: BLE001
			got = exc_enum(e)
		if got != (recv, key):
			bad('caller:indexer', f'break_indexer({recv + "[" + key + "]"!r}) = {got!r}, expected {(recv, key)!r}', {'text': f'{recv}[{key}]'}, got)
		if i < 2:
			res.samples.append({'call': call, 'args': args})
	if undrivable:
		notes.append('not evaluated (the production function no longer calls the BlockParser helper and reads the syntax tree instead of the text): ' + ', '.join(f'{k} × {v}' for k, v in sorted(undrivable.items())))
	res.note = '; '.join(notes)
	res.distinct = len(seen)
	res.histogram = hist
	return res


def corpus_cases(ctx: Ctx) -> Stream:
	rng = ctx.sub_rng('corpus')
	cases = []
	d = os.path.join(common.CORPUS_DIR, PROP)
	if os.path.isdir(d):
		for fn in sorted(os.listdir(d)):
			if not fn.endswith('.json'):
				continue
			with open(os.path.join(d, fn), encoding='utf-8') as f:
				rec = json.load(f)
			for text in rec.get('texts', []):
				cases.append(make_case(rng, 'malformed', text, [['deco', text], ['param', text]], {'depth': -1, 'len': len(text), 'file': fn}))
	st = common.correspond('block-corpus', cases, 'block', classify=lambda d: d.get('file', '?'))
	st.note = 'committed defect witnesses and minimised past disagreements (corpus/C18/*.json), all helpers on each text'
	return st


# ---------------------------------------------------------------------------------------------
# search: the laws on the real helpers


def search_sep(ctx: Ctx) -> SearchResult:
	B = _bp()
	rng = ctx.sub_rng('law-sep')
	res = SearchResult('break_separator laws on the real helper: exact top-level split, cuts only at top-level delimiters / rejoin up to blanks / balanced pieces, on fragments with clean and with arbitrary simple strings (independent scanner)')
	hist: dict[str, int] = {}
	seen: set[str] = set()
	notes: list[str] = []
	for i in budgeted(ctx.scale(20000, 150000), ctx.scale(30, 600), notes):
		mode = 'clean' if i % 3 else 'dirty'
		items = gen_fragment(rng, mode, i)
		text = render(items)
		dirty = is_dirty(items)
		for d in DELIMS:
			res.cases += 1
			seen.add(f'{d}{text}')
			try:
				pieces = guarded(B.break_separator, text, d)
			except Exception as e:  # noqa: BLE001
				res.findings.append(Finding(key='sep:exception', what=f'break_separator raises {exc_enum(e)} on a balanced fragment', replay={'text': text, 'delimiter': d}))
				continue
			bad: tuple[str, str] | None = None
			if pieces != expected_split(text, d):
				bad = ('sep:split-differs' if dirty else 'sep:clean-split-differs', f'break_separator({text!r}, {d!r}) = {pieces!r}, top-level split is {expected_split(text, d)!r}')
			elif not aligns(text, d, pieces):
				bad = ('sep:cut-not-at-top-level-delimiter', f'break_separator({text!r}, {d!r}) = {pieces!r} is not a split at top-level delimiters that rejoins to the text')
			elif not all(balanced(p) for p in pieces):
				bad = ('sep:unbalanced-piece', f'break_separator({text!r}, {d!r}) = {pieces!r} has an unbalanced piece')
			if bad:
				res.findings.append(Finding(key=bad[0], what=bad[1], replay={'text': text, 'delimiter': d, 'pieces': pieces}))
			k = ('dirty' if dirty else 'clean') + f' pieces={min(len(pieces), 5)}{"+" if len(pieces) > 5 else ""}'
			hist[k] = hist.get(k, 0) + 1
		for d in rng.sample(MULTI_DELIMS, 2):
			# make the delimiter occur: replace some top-level commas by it
			t2 = text
			if ',' in text and rng.random() < 0.7:
				_, top0 = scan(text)
				t2 = ''.join((d if c == ',' and top0[j] and rng.random() < 0.7 else c) for j, c in enumerate(text))
			res.cases += 1
			seen.add(f'{d}{t2}')
			try:
				pieces = guarded(B.break_separator, t2, d)
			except Exception as e:  # noqa: BLE001
				res.findings.append(Finding(key='sep:exception', what=f'break_separator raises {exc_enum(e)} on a balanced fragment', replay={'text': t2, 'delimiter': d}))
				continue
			want_m = expected_split_multi(t2, d)
			hist['multi-character delimiter'] = hist.get('multi-character delimiter', 0) + 1
			if pieces != want_m:
				res.findings.append(Finding(key='sep:multichar-split-differs', what=f'break_separator({t2!r}, {d!r}) = {pieces!r}, top-level split is {want_m!r}', replay={'text': t2, 'delimiter': d, 'pieces': pieces}))
		if i < 2:
			res.samples.append({'text': text, 'pieces,': real_op(['sep', text, ','])})
	res.note = '; '.join(notes)
	res.distinct = len(seen)
	res.histogram = hist
	return res


def search_last(ctx: Ctx) -> SearchResult:
	B = _bp()
	rng = ctx.sub_rng('law-last')
	res = SearchResult('break_last_block(prefix + group) = (prefix, inside) on the real helper; no group of the kind → IndexError')
	hist: dict[str, int] = {}
	seen: set[str] = set()
	notes: list[str] = []
	for i in budgeted(ctx.scale(25000, 200000), ctx.scale(30, 600), notes):
		b = BRACKETS[i % 4]
		mode = 'clean' if (i // 4) % 2 else 'dirty'
		# strings may contain brackets of the other kinds and any quotes, not the kind that is extracted
		pre = gen_fragment(rng, mode, i, exclude=b)
		inner = gen_fragment(rng, mode, i + 2, exclude=b)
		assert not strings_have(pre, b) and not strings_have(inner, b)
		prefix, inside = render(pre), render(inner)
		text = prefix + b[0] + inside + b[1]
		res.cases += 1
		seen.add(b + text)
		try:
			got: Any = guarded(B.break_last_block, text, b)
		except Exception as e:  # noqa: BLE001
			got = exc_enum(e)
		if got != (prefix, inside):
			res.findings.append(Finding(key='last:prefix-group', what=f'break_last_block({text!r}, {b!r}) = {got!r}, expected {(prefix, inside)!r}', replay={'text': text, 'brackets': b}))
		k = f'{mode} {b}'
		hist[k] = hist.get(k, 0) + 1
		# error branch: a fragment without any bracket of the kind
		plain = ''.join(c for c in prefix if c not in b)
		res.cases += 1
		try:
			got2: Any = guarded(B.break_last_block, plain, b)
		except Exception as e:  # noqa: BLE001
			got2 = exc_enum(e)
		if got2 != 'IndexError':
			res.findings.append(Finding(key='last:no-group', what=f'break_last_block({plain!r}, {b!r}) = {got2!r} without any group of that kind', replay={'text': plain, 'brackets': b}))
		if i < 2:
			res.samples.append({'text': text, 'brackets': b, 'result': got})
	res.note = '; '.join(notes)
	res.distinct = len(seen)
	res.histogram = hist
	return res


def depth0_groups(items: list[Item], b: str, pre: str) -> list[tuple[str, str]]:
	"""(text in front, inside) of the groups of kind `b` that do not lie inside another group of kind `b`, in text order
	(groups of the other kinds are transparent) - computed on the generated structure"""
	out: list[tuple[str, str]] = []
	for it in items:
		if it[0] == 'g':
			if it[1] == b:
				out.append((pre, render(it[2])))
			else:
				out.extend(depth0_groups(it[2], b, pre + it[1][0]))
		pre += render([it])
	return out


def search_last_general(ctx: Ctx) -> SearchResult:
	B = _bp()
	rng = ctx.sub_rng('law-last-general')
	res = SearchResult('break_last_block on whole fragments: (everything in front of, inside of) the last group of the kind that is not nested in a group of the kind - also followed by text, inside other groups, with the same group text occurring earlier (structure-side oracle); the parts reassemble')
	hist: dict[str, int] = {}
	seen: set[str] = set()
	for text, b, want in [('m[i][i]', '[]', ('m[i]', 'i')), ('f(x)(x);', '()', ('f(x)', 'x')), ('a[0]{b[0]}', '[]', ('a[0]{b', '0'))]:
		res.cases += 1
		try:
			got: Any = guarded(B.break_last_block, text, b)
		except Exception as e:  # noqa: BLE001
			got = exc_enum(e)
		if got != want:
			res.findings.append(Finding(key='last:general-position', what=f'break_last_block({text!r}, {b!r}) = {got!r}, expected {want!r}', replay={'text': text, 'brackets': b, 'witness': True}))
	notes: list[str] = []
	for i in budgeted(ctx.scale(15000, 150000), ctx.scale(30, 600), notes):
		b = BRACKETS[i % 4]
		mode = 'clean' if (i // 4) % 2 else 'dirty'
		items = gen_fragment(rng, mode, i, exclude=b)
		if i % 3 == 0 and items:
			# the same group text twice (the first occurrence must not be taken for the last group)
			g = ('g', b, gen_items(rng, 1, mode, 2, 0.2, b, b))
			items.insert(rng.randrange(len(items) + 1), g)
			items.append(g)
			if rng.random() < 0.5:
				items.append(('a', rng.choice([';', '.x', ' '])))
		text = render(items)
		groups = depth0_groups(items, b, '')
		want2: Any = groups[-1] if groups else 'IndexError'
		res.cases += 1
		seen.add(b + text)
		try:
			got = guarded(B.break_last_block, text, b)
		except Exception as e:  # noqa: BLE001
			got = exc_enum(e)
		k = f'{mode} {b} groups={min(len(groups), 4)}'
		hist[k] = hist.get(k, 0) + 1
		if got != want2:
			res.findings.append(Finding(key='last:general-position', what=f'break_last_block({text!r}, {b!r}) = {got!r}, expected {want2!r}', replay={'text': text, 'brackets': b}))
		elif isinstance(got, tuple) and not text.startswith(got[0] + b[0] + got[1] + b[1]):
			res.findings.append(Finding(key='last:reassemble', what=f'break_last_block({text!r}, {b!r}) = {got!r} does not reassemble to a prefix of the text', replay={'text': text, 'brackets': b}))
		elif len(res.samples) < 2 and len(groups) > 1:
			res.samples.append({'text': text, 'brackets': b, 'result': got})
	res.note = '; '.join(notes)
	res.distinct = len(seen)
	res.histogram = hist
	return res


def check_decorator(text: str, path: str, args: list[tuple[str | None, str]]) -> tuple[str, str] | None:
	from rogw.tranp.view.helper.decorator import DecoratorHelper
	h = DecoratorHelper(text)
	try:
		got_path, got_args, got_join = guarded(h._parse, text)
	except Exception as e:  # noqa: BLE001
		return 'decorator:exception', f'DecoratorHelper({text!r}) raises {exc_enum(e)}'
	join_args = text[len(path) + 1:-1]
	if got_path != path or got_join != join_args:
		return 'decorator:path-or-join_args', f'DecoratorHelper({text!r}): path {got_path!r}, join_args {got_join!r}'
	expected = {(str(i) if l is None else l): v for i, (l, v) in enumerate(args)}
	# label and value up to surrounding blanks (`label = value` keeps the blanks next to the `=` in the stored texts)
	try:
		norm = [(k.strip(), v.strip()) for k, v in got_args.items()]
	except Exception as e:  # noqa: BLE001
		return 'decorator:exception', f'DecoratorHelper({text!r}).args = {got_args!r}: {exc_enum(e)}'
	if norm == [(k.strip(), v.strip()) for k, v in expected.items()]:
		return check_decorator_accessors(text, path, args)
	if len(got_args) < len(args) and any(any(c in SPECIAL for c in body) for body in string_bodies(join_args)):
		key = 'decorator:bracket-or-quote-in-string-merges-arguments'
	elif any(l is not None and any(c == '=' and t for c, t in zip(v, scan(v)[1])) for l, v in args):
		key = 'decorator:labelled-value-with-top-level-equals'
	elif any(l is None and '=' in v for l, v in args):
		key = 'decorator:equals-inside-positional-argument-taken-as-label'
	else:
		key = 'decorator:arguments-differ'
	return key, f'DecoratorHelper({text!r}).args = {got_args!r}, the arguments are {expected!r}'


def check_decorator_accessors(text: str, path: str, args: list[tuple[str | None, str]]) -> tuple[str, str] | None:
	"""the public face of the same decomposition on a fresh helper object (lazy `_props`, read in a varying order): path / join_args /
	args / arg / arg_at(i) / arg_by(label) give the generated parts, repeated reads agree"""
	from rogw.tranp.view.helper.decorator import DecoratorHelper
	h = DecoratorHelper(text)
	join_args = text[len(path) + 1:-1]
	order = len(text) % 3
	try:
		def read() -> Any:
			if order == 0:
				return (h.path, h.join_args, dict(h.args))
			if order == 1:
				a = dict(h.args)
				return (h.path, h.join_args, a)
			j = h.join_args
			return (h.path, j, dict(h.args))
		first = guarded(read)
		second = guarded(read)
		values = [guarded(h.arg_at, i).strip() for i in range(len(args))]
		by = {l: guarded(h.arg_by, k).strip() for l in [l for l, _ in args if l is not None] for k in h.args if k.strip() == l}
		head = guarded(lambda: h.arg).strip() if args else None
	except Exception as e:  # noqa: BLE001
		return 'decorator:accessor-exception', f'DecoratorHelper({text!r}) path/args/arg_at/arg_by raises {exc_enum(e)}'
	if first != second or first[0] != path or first[1] != join_args:
		return 'decorator:accessors-differ', f'DecoratorHelper({text!r}): (path, join_args, args) read twice = {first!r} / {second!r}, expected path {path!r}, join_args {join_args!r}'
	want_by = {l: v for l, v in args if l is not None}
	want_by = {l: v.strip() for l, v in want_by.items()}
	if values != [v.strip() for _, v in args] or by != want_by or (args and head != args[0][1].strip()):
		return 'decorator:accessors-differ', f'DecoratorHelper({text!r}): arg_at = {values!r}, arg_by = {by!r}, arg = {head!r}; the arguments are {args!r}'
	return None


def string_bodies(text: str) -> list[str]:
	out = []
	quote = None
	cur = ''
	for c in text:
		if quote is not None:
			if c == quote:
				out.append(cur)
				quote = None
			else:
				cur += c
		elif c in QUOTES:
			quote = c
			cur = ''
	return out


def search_decorator(ctx: Ctx) -> SearchResult:
	rng = ctx.sub_rng('law-deco')
	res = SearchResult('DecoratorHelper on path(args): path, join_args and the arguments keyed by label or position equal the generated ones')
	hist: dict[str, int] = {}
	seen: set[str] = set()
	witnesses = [
		('a.b("(", x)', 'a.b', [(None, '"("'), (None, 'x')]),
		('a.b(g(k=1))', 'a.b', [(None, 'g(k=1)')]),
		('f(a=b=c)', 'f', [('a', 'b=c')]),
		('a.b(cond=x==y)', 'a.b', [('cond', 'x==y')]),
		('f(key=lambda a=1: a, z)', 'f', [('key', 'lambda a=1: a'), (None, 'z')]),
		('f(ok=g(k=1)!=h("="))', 'f', [('ok', 'g(k=1)!=h("=")')]),
		('Embed.alias("a", prefix = true)', 'Embed.alias', [(None, '"a"'), ('prefix', 'true')]),
		('f(k =1, m= [2, 3])', 'f', [('k', '1'), ('m', '[2, 3]')]),
	]
	for text, path, args in witnesses:
		res.cases += 1
		bad = check_decorator(text, path, args)
		if bad:
			res.findings.append(Finding(key=bad[0], what=bad[1], replay={'decorator': text, 'witness': True}))
	notes: list[str] = []
	for i in budgeted(ctx.scale(25000, 200000), ctx.scale(30, 600), notes):
		mode = 'clean' if i % 3 else 'dirty'
		text, path, args = deco_text(rng, mode, i)
		res.cases += 1
		seen.add(text)
		bad = check_decorator(text, path, args)
		k = f'{mode} args={len(args)}'
		hist[k] = hist.get(k, 0) + 1
		if bad:
			res.findings.append(Finding(key=bad[0], what=bad[1], replay={'decorator': text}))
		elif len(res.samples) < 2 and len(args) > 1:
			res.samples.append({'decorator': text, 'path': path, 'args': args})
	res.note = '; '.join(notes)
	res.distinct = len(seen)
	res.histogram = hist
	return res


def search_query(ctx: Ctx) -> SearchResult:
	from rogw.tranp.view.helper.decorator import DecoratorHelper, DecoratorQuery
	rng = ctx.sub_rng('law-query')
	res = SearchResult('DecoratorHelper.any / any_args / match / match_args and DecoratorQuery.any / any_args / contains / match / match_args against the generated paths and argument texts (CPython re as oracle for the two regex methods)')
	hist: dict[str, int] = {}
	seen: set[str] = set()
	notes: list[str] = []
	for i in budgeted(ctx.scale(4000, 40000), ctx.scale(30, 600), notes):
		mode = 'clean' if i % 3 else 'dirty'
		gen = [deco_text(rng, mode, i + j) for j in range(rng.randint(1, 5))]
		if rng.random() < 0.3:
			gen.append((rng.choice(['a.b', 'Embed.prop', 'x']),) * 2 + ([],))
		rng.shuffle(gen)
		decos = [g[0] for g in gen]
		paths = [g[1] for g in gen]
		joins = [d[len(pth) + 1:-1] if d != pth else '' for d, pth in zip(decos, paths)]
		probes = rng.sample(paths, rng.randint(1, min(2, len(paths)))) if rng.random() < 0.8 else ['zz']
		subject = rng.choice([',', '=', '(', 'a', 'k=', ' ', 'zz', '"'])
		seen.add('|'.join(decos))
		res.cases += 1
		k = f'{len(decos)} decorators'
		hist[k] = hist.get(k, 0) + 1
		try:
			q = DecoratorQuery.parse(decos)
			got: Any = ([h.decorator for h in guarded(q.any, *probes)], guarded(q.contains, *probes), [h.decorator for h in guarded(q.any_args, subject)],
				[guarded(DecoratorHelper(d).any, *probes) for d in decos], len(q), [h.decorator for h in q])
		except Exception as e:  # noqa: BLE001
			got = exc_enum(e)
		want = ([d for d, pth in zip(decos, paths) if pth in probes], any(pth in probes for pth in paths), [d for d, j in zip(decos, joins) if subject in j],
			[pth in probes for pth in paths], len(decos), decos)
		# match / match_args / DecoratorQuery.match / match_args: regular expressions, CPython's `re` on the generated parts is the oracle
		import re as _re
		pattern = rng.choice([r'^[a-c]', r'\.', r'\(.*=.*\)', r'[XYZ_]+$', r'k\w*=', r'^$', r',\s', r'"[^"]*"', _re.escape(paths[0][:2])])
		try:
			q = DecoratorQuery.parse(decos)
			got_re: Any = ([guarded(DecoratorHelper(d).match, pattern) for d in decos], [guarded(DecoratorHelper(d).match_args, pattern) for d in decos],
				[h.decorator for h in guarded(q.match, pattern)], [h.decorator for h in guarded(q.match_args, pattern)])
		except Exception as e:  # noqa: BLE001
			got_re = exc_enum(e)
		want_re = ([_re.search(pattern, d) is not None for d in decos], [_re.search(pattern, j) is not None for j in joins],
			[d for d in decos if _re.search(pattern, d)], [d for d, j in zip(decos, joins) if _re.search(pattern, j)])
		if got_re != want_re:
			res.findings.append(Finding(key='query:match', what=f'DecoratorQuery({decos!r}) match/match_args({pattern!r}) = {got_re!r}, expected {want_re!r}', replay={'decorators': decos, 'pattern': pattern}))
		if got != want:
			res.findings.append(Finding(key='query:any-contains', what=f'DecoratorQuery({decos!r}): any/contains/any_args({probes!r}, {subject!r}) = {got!r}, expected {want!r}', replay={'decorators': decos, 'paths': probes, 'subject': subject}))
		elif len(res.samples) < 2:
			res.samples.append({'decorators': decos, 'paths': probes, 'any': want[0]})
	res.note = '; '.join(notes)
	res.distinct = len(seen)
	res.histogram = hist
	return res


def check_param(text: str, var_type: str, symbol: str, default: str | None) -> tuple[str, str] | None:
	from rogw.tranp.implements.cpp.view.cpp_view_helper import CppViewHelper
	try:
		p = guarded(CppViewHelper.Param.parse, text)
	except Exception as e:  # noqa: BLE001
		return 'param:exception', f'Param.parse({text!r}) raises {exc_enum(e)}'
	got = (p.var_type, p.symbol, p.default_value)
	want = (var_type, symbol, default or '')
	if got == want:
		return None
	if default is not None and any(c == '=' and t for c, t in zip(default, scan(default)[1])):
		key = 'param:default-with-top-level-equals'
	else:
		key = 'param:parts-differ'
	return key, f'Param.parse({text!r}) = {got!r}, the parts are {want!r}'


def search_param(ctx: Ctx) -> SearchResult:
	rng = ctx.sub_rng('law-param')
	res = SearchResult('Param.parse on "type name [= default]": var_type, symbol, default_value equal the generated parts (clean type tokens; defaults also with brackets and quotes inside strings)')
	hist: dict[str, int] = {}
	seen: set[str] = set()
	res.cases += 1
	bad = check_param('bool b = x == y', 'bool', 'b', 'x == y')
	if bad:
		res.findings.append(Finding(key=bad[0], what=bad[1], replay={'parameter': 'bool b = x == y', 'witness': True}))
	notes: list[str] = []
	for i in budgeted(ctx.scale(25000, 200000), ctx.scale(30, 600), notes):
		text, var_type, symbol, default = param_text(rng, i)
		res.cases += 1
		seen.add(text)
		bad = check_param(text, var_type, symbol, default)
		k = 'no default' if default is None else 'default'
		hist[k] = hist.get(k, 0) + 1
		if bad:
			res.findings.append(Finding(key=bad[0], what=bad[1], replay={'parameter': text}))
		elif len(res.samples) < 2 and default:
			res.samples.append({'parameter': text, 'parts': [var_type, symbol, default]})
	res.note = '; '.join(notes)
	res.distinct = len(seen)
	res.histogram = hist
	return res


def kgroups(items: list[Item], b: str) -> list[Item]:
	"""the top-level groups of kind `b` (not those inside groups of another kind)"""
	return [it for it in items if it[0] == 'g' and it[1] == b]


def bracket_spec(inner: list[Item], b: str) -> list[str]:
	"""What parse_bracket has to return for `name + b[0] + inner + b[1] + tail` (independent of the implementation: computed on the
	generated structure): the group, then each top-level group of the kind followed by its own top-level groups of the kind."""
	out = [b[0] + render(inner) + b[1]]
	for g1 in kgroups(inner, b):
		out.append(render([g1]))
		out.extend(render([g2]) for g2 in kgroups(g1[2], b))
	return out


def check_bracket(text: str, b: str, want: list[str]) -> tuple[str, str] | None:
	B = _bp()
	try:
		got: Any = guarded(B.parse_bracket, text, b)
	except Exception as e:  # noqa: BLE001
		got = exc_enum(e)
	if got == want:
		return None
	if isinstance(got, list) and got[:1] != want[:1]:
		key = 'parse_bracket:first-block-is-not-the-group'
	elif isinstance(got, list) and not all(p[:1] == b[0] and p[-1:] == b[1] and balanced(p) for p in got):
		key = 'parse_bracket:unbalanced-block'
	else:
		key = 'parse_bracket:blocks-differ'
	return key, f'parse_bracket({text!r}, {b!r}) = {got!r}; the groups (two levels, pre-order) are {want!r}'


def search_bracket(ctx: Ctx) -> SearchResult:
	rng = ctx.sub_rng('law-bracket')
	res = SearchResult('parse_bracket on name + group + tail = the group, its top-level groups of the kind and theirs, in pre-order (structure-side oracle; clean and dirty strings)')
	hist: dict[str, int] = {}
	seen: set[str] = set()
	for text, b, want in [('f(g(x))+1', '()', ['(g(x))', '(x)']), ('a(b(c(d)))', '()', ['(b(c(d)))', '(c(d))', '(d)']),
			('f(g[(1)](x), y)', '()', ['(g[(1)](x), y)', '(x)']), ('f(g(x)(y))', '()', ['(g(x)(y))', '(x)', '(y)']), ('a(b(c(d(e))))', '()', ['(b(c(d(e))))', '(c(d(e)))', '(d(e))'])]:
		res.cases += 1
		bad = check_bracket(text, b, want)
		if bad:
			res.findings.append(Finding(key=bad[0], what=bad[1], replay={'text': text, 'brackets': b, 'witness': True}))
	notes: list[str] = []
	for i in budgeted(ctx.scale(12000, 120000), ctx.scale(30, 600), notes):
		b = rng.choice(BRACKETS)
		mode = 'clean' if i % 3 else 'dirty'
		inner = gen_fragment(rng, mode, i)
		name = ''.join(rng.choice(IDENT[:7]) for _ in range(rng.randint(0, 3)))
		tail = rng.choice(['', '', ';', ' + 1', '.x', ' '])
		text = name + b[0] + render(inner) + b[1] + tail
		want = bracket_spec(inner, b)
		res.cases += 1
		seen.add(b + text)
		bad = check_bracket(text, b, want)
		k = f'{mode} blocks={min(len(want), 6)}'
		hist[k] = hist.get(k, 0) + 1
		if bad:
			res.findings.append(Finding(key=bad[0], what=bad[1], replay={'text': text, 'brackets': b}))
		elif len(res.samples) < 2 and len(want) > 2:
			res.samples.append({'text': text, 'blocks': want})
	res.note = '; '.join(notes)
	res.distinct = len(seen)
	res.histogram = hist
	return res


def gen_tight(rng: random.Random, b: str, mode: str, wide: bool = False) -> str:
	"""a piece without a top-level blank, delimiter or bracket of kind `b`: identifier characters, strings and groups of the
	OTHER kinds (with anything balanced inside) — often two foreign groups directly behind each other (`f(1)[2, 3]`, `t[A](x, y)`)"""
	others = [x for x in BRACKETS if x != b]
	out = ''
	for _ in range(rng.randint(1, 3)):
		r = rng.random()
		if r < 0.45:
			out += ''.join(rng.choice(IDENT) for _ in range(rng.randint(1, 3)))
		elif r < 0.6:
			out += render([gen_string(rng, mode, '' if wide else b)])
		else:
			for _ in range(1 if rng.random() < 0.5 else 2):
				o = rng.choice(others)
				inside = render(gen_items(rng, rng.randint(0, 2), mode, 3, 0.4, '' if wide else b, o))
				# wide (theorem pair_spec): brackets of the parsed kind may stand inside strings and (balanced) inside foreign groups
				out += o[0] + (inside if wide else inside.replace(b[0], '').replace(b[1], '')) + o[1]
	return out


def gen_dictlike(rng: random.Random, b: str, delims: str, depth: int, mode: str, wide: bool = False) -> tuple[str, list[tuple[str, Any]]]:
	"""→ (text of `b[0] … b[1]`, pieces); a piece is (text, None) or (text, sub-pieces) for `name + nested dict`; an even number of pieces"""
	pieces: list[tuple[str, Any]] = []
	parts = []
	for j in range(2 * rng.randint(0, 3)):
		if depth > 0 and rng.random() < 0.3:
			name = gen_tight(rng, b, mode, wide) if rng.random() < 0.5 else ''
			sub_text, sub = gen_dictlike(rng, b, delims, depth - 1, mode, wide)
			pieces.append((name + sub_text, sub))
		else:
			pieces.append((gen_tight(rng, b, mode, wide), None))
		parts.append(((' ' * rng.randint(0, 3) if wide else ' ') if j and rng.random() < 0.7 else '') + pieces[-1][0])
	text = b[0]
	for j, part in enumerate(parts):
		text += part + (rng.choice(delims) if j + 1 < len(parts) else '')
	return text + b[1], pieces


def pair_spec(pieces: list[tuple[str, Any]]) -> list[tuple[str, str]]:
	"""parse_pair: consecutive pairs of the root's pieces, then of the pieces of its nested dicts (`unders` is two levels deep)"""
	level1 = [t for t, _ in pieces]
	level2 = [t for _, sub in pieces if sub is not None for t, _ in sub]
	return [(level1[i], level1[i + 1]) for i in range(0, len(level1) - 1, 2)] + [(level2[i], level2[i + 1]) for i in range(0, len(level2) - 1, 2)]


def search_pair(ctx: Ctx) -> SearchResult:
	B = _bp()
	rng = ctx.sub_rng('law-pair')
	res = SearchResult('parse_pair on dict-like fragments `{k: v, …}` / `name(a, b)` with blank-free pieces (identifiers, strings, foreign groups also directly adjacent, nested dicts; in the wide half also brackets of the parsed kind inside strings and foreign groups, several blanks behind a delimiter, tokens as names): the (key, value) texts per depth (structure-side oracle)')
	hist: dict[str, int] = {}
	seen: set[str] = set()
	fixed = [('{a: f(1)[2, 3]}', '{}', ':', [('a', 'f(1)[2, 3]')]), ('tag(a, t[A](x, y))', '()', ',', [('a', 't[A](x, y)'), ('x', 'y')]),
		('{a: {b: c}}', '{}', ':', [('a', '{b: c}'), ('b', 'c')]), ('{{a, b}, {c, d(e, f)}}', '{}', ',', [('{a, b}', '{c, d(e, f)}'), ('a', 'b'), ('c', 'd(e, f)')])]
	for text, b, d, want in fixed:
		res.cases += 1
		try:
			got: Any = guarded(B.parse_pair, text, b, d)
		except Exception as e:  # noqa: BLE001
			got = exc_enum(e)
		if got != want:
			res.findings.append(Finding(key='parse_pair:pairs-differ', what=f'parse_pair({text!r}, {b!r}, {d!r}) = {got!r}, expected {want!r}', replay={'text': text, 'brackets': b, 'delimiter': d, 'witness': True}))
	notes: list[str] = []
	for i in budgeted(ctx.scale(8000, 80000), ctx.scale(30, 600), notes):
		b = rng.choice(BRACKETS)
		delims = rng.choice([':', ',', ':,'])
		mode = 'clean' if i % 3 else 'dirty'
		wide = i % 2 == 1
		body, pieces = gen_dictlike(rng, b, delims, 1 + i % 2, mode, wide)
		name = gen_tight(rng, b, mode, True) if wide and rng.random() < 0.5 else ''.join(rng.choice(IDENT[:7]) for _ in range(rng.randint(0, 3)))
		text = name + body
		want = pair_spec(pieces)
		res.cases += 1
		seen.add(b + delims + text)
		try:
			got = guarded(B.parse_pair, text, b, delims)
		except Exception as e:  # noqa: BLE001
			got = exc_enum(e)
		k = f"{mode}{' wide' if wide else ''} pairs={min(len(want), 5)}"
		hist[k] = hist.get(k, 0) + 1
		if got != want:
			res.findings.append(Finding(key='parse_pair:pairs-differ', what=f'parse_pair({text!r}, {b!r}, {delims!r}) = {got!r}, expected {want!r}', replay={'text': text, 'brackets': b, 'delimiter': delims}))
		elif len(res.samples) < 2 and len(want) > 1:
			res.samples.append({'text': text, 'pairs': want})
	res.note = '; '.join(notes)
	res.distinct = len(seen)
	res.histogram = hist
	return res


def matching(text: str) -> dict[int, int]:
	"""opening position → position of the matching closing bracket / quote (strings opaque), by the independent scanner"""
	out: dict[int, int] = {}
	stack: list[int] = []
	quote: int | None = None
	for i, c in enumerate(text):
		if quote is not None:
			if c == text[quote]:
				out[quote] = i
				quote = None
		elif c in QUOTES:
			quote = i
		elif c in OPEN:
			stack.append(i)
		elif c in CLOSE and stack:
			out[stack.pop()] = i
	return out


def search_skip(ctx: Ctx) -> SearchResult:
	B = _bp()
	rng = ctx.sub_rng('law-skip')
	res = SearchResult('_skip_other_block started on any opening bracket/quote of a clean fragment returns the position behind its partner (independent matcher)')
	hist: dict[str, int] = {}
	seen: set[str] = set()
	toks = all_tokens()
	notes: list[str] = []
	for i in budgeted(ctx.scale(15000, 120000), ctx.scale(30, 600), notes):
		text = render(gen_fragment(rng, 'clean', i))
		m = matching(text)
		seen.add(text)
		for o, c in m.items():
			res.cases += 1
			try:
				got: Any = guarded(B._skip_other_block, text, toks, o)
			except Exception as e:  # noqa: BLE001
				got = exc_enum(e)
			k = 'quote' if text[o] in QUOTES else text[o] + text[c]
			hist[k] = hist.get(k, 0) + 1
			if got != c + 1:
				res.findings.append(Finding(key='skip:partner', what=f'_skip_other_block({text!r}, all, {o}) = {got!r}, the partner of {text[o]!r} is at {c}', replay={'text': text, 'begin': o}))
		if i < 2:
			res.samples.append({'text': text, 'pairs': sorted(m.items())[:6]})
	res.note = '; '.join(notes)
	res.distinct = len(seen)
	res.histogram = hist
	return res


# ---------------------------------------------------------------------------------------------


STATEMENTS: dict[str, str] = {
	'skip_string_in_group': 'a string nested inside a group (any content: brackets of every kind, the group\'s own closer, the other quote) never ends the skip early or late - instance of skip_group, the shape of seed C18-9',
	'skip_group / skip_string': '_skip_other_block started on the opening bracket (quote) of a group (simple string) returns the position right behind the matching closer, for every nesting depth, every string content and every surrounding text',
	'sep_spec (= sep_spec_dirty)': 'break_separator(render f, d) = the top-level pieces of f (cut at every top-level d except one in the very last position, nowhere else; each piece stripped of blanks; empty first piece kept; empty text gives []), for every fragment f with simple strings (brackets/other quote inside allowed) and every delimiter character d',
	'sep_only_top': 'f = f1 d f2 d ... fn at top level with balanced fi and the result is [strip(render fi)]: every cut is a top-level delimiter',
	'sep_rejoin': 'there are segments with d.join(segments) = text and result = [s.strip(" ") for s in segments]',
	'sep_balanced': 'every returned piece is the text of a (balanced) fragment',
	'sep_total': 'the loop of break_separator finishes for every text and delimiter (fuel len+1 is never exhausted)',
	'last_block': 'break_last_block(render pre + open + render inner + close, kind) = (render pre, render inner) for all fragments pre, inner whose strings do not contain the brackets of that kind (other brackets and quotes allowed)',
	'last_block_error': 'no opening or no closing bracket of the kind in the text: IndexError (ranges[-1])',
	'last_block_reassemble': 'on EVERY text: break_last_block(text) = (p, i) implies text = p + open + i + close + rest - the parts are cut at the scanned position (m[i][i] gives (m[i], i))',
	'last_block_spec': 'for every fragment whose strings hold no bracket of the kind: (everything in front of, inside of) the LAST group of the kind not nested in another group of the kind, wherever it stands; none: IndexError',
	'last_block_any_string_counterexample': 'with a bracket of the kind inside a string the law is false (f(")")): break_last_block does not look at quotes - the reason for "brackets of other kinds" in the quantifier',
	'callsites_literals / callsites_last_block / callsites_separator': 'GENERATED table of all production call sites (py via ast, j2 templates; the number is in generated_tables): every brackets literal is one of the four pairs, every delimiter one plain character (decide over the table); hence last_block/reassembly hold at every break_last_block/parse_bracket site and the exact split at every break_separator site',
	'caller_indexer_cvar_new': 'PatternParser.break_indexer(recv[key]) = (recv, key), pluck_cvar_new(Class(args)) = (Class, args)',
	'bracket_spec_prefix': 'bracket_spec with ANY fragment in front of the group that has no top-level group of the kind (blanks, delimiters, strings, other-kind groups like g[(1)]): the delimiter-free second _analyze_entry finds the block\'s own bracket',
	'decorator': 'DecoratorHelper._parse(path + "(" + render args + ")") = (path, dict built from exactly the top-level comma pieces of args, render args) for every path without "(" and every args fragment',
	'decorator_piece_positional / decorator_piece_labelled': 'a piece without top-level "=" is stored verbatim under str(position) whatever "=" are nested in it; a piece label=value is stored as exactly the texts around its FIRST top-level "=" - the value may contain further top-level "=" (cond=x==y, a=b=c, key=lambda a=1: a)',
	'decorator_positional': 'f(v) for a single positional argument v (no top-level "," or "="): {"0": v.strip()} - the former counterexample f(g(k=1)) is an instance',
	'param_plain / param_unrestricted': 'Param.parse("t1 ... tn name [= default]") = (t1 ... tn joined by one blank, name, default.strip()) for non-empty tokens without top-level blank or "=" and EVERY default fragment (also with top-level "=": bool b = x == y)',
	'bracket_spec / bracket_balanced / bracket_first': 'parse_bracket(name + group + tail) = [the group] + for every top-level group of the kind inside it: that group + its own top-level groups of the kind (pre-order, two levels = Entry.unders), for every inner fragment; hence every block is a whole balanced group and the first is the group itself',
	'bracket_all_levels_counterexample': 'the blocks are NOT all groups at every depth: a(b(c(d(e)))) lists three levels (unders is two levels deep)',
	'parse_total / parse_pair_total / parse_bracket_total': 'the loops of _analyze_entry, _parse, _parse_block finish on EVERY text and delimiter set (two-character brackets): no fuel exhaustion; every iteration ends its loop or moves the index forward',
	'sep_join': 'break_separator(d.join(parts)) = [p.strip() for p in parts] for parts that are fragments without top-level d (last one not empty): the law every production caller relies on',
	'caller_pluck / caller_throw / caller_dict_comp / caller_initializer_call': 'PatternParser.pluck_func_call_arguments, Py2Cpp.on_throw (calls, arguments), on_dict_comp (key, value) return exactly the generated argument texts and is_initializer_call(T(args), T) is true, for arbitrary bracket-balanced arguments (strings may hold any bracket but parentheses for the break_last_block based ones)',
	'retired_range_split / retired_range_lt_hazard': 'NOT a production site since /repo ed1a7d7 (proc_for_range transpiles the argument nodes): break_separator(pluck_func_call_arguments(callee(a, b)), ",") gives the argument texts for bracket-balanced arguments; a lone "<" in an argument (range(a << 1, n)) is not balanced, swallows the comma and the unpacking raises ValueError - the hazard the fix removed',
	'decorator_total': 'DecoratorHelper._parse returns (path, args, join_args) on EVERY text (balanced or not): break_separator never raises for a non-empty delimiter, the two str.index calls that cut a labelled argument always find their target (the first piece is a stripped slice ending in front of a "="), no fuel runs out - so every accessor and query is defined for every decorator text',
	'query_any': 'DecoratorQuery.any(*paths) = the decorators whose text before the first "(" is in paths, in order; contains(*paths) = whether there is one - for every list of decorator texts (unconditional since decorator_total)',
	'sep_multichar_spec / sep_multichar_rejoin / callsites_delim_guard': 'for a multi-character delimiter that can not overlap itself (first character does not recur, no bracket/quote character: ", ", ": ", " ="; not " = " or "::"): the exact pieces for every fragment and the rejoin law d.join(segments) = text, pieces = stripped segments; every delimiter literal of the generated call-site table satisfies the guard (decide)',
	'query_any_args': 'DecoratorQuery.any_args(subject) (production: deco_ignore.any_args(inherit) in class/_inherits.j2) = the decorators whose text between the first "(" and the last character contains subject, in order; for path(args) that text is args',
	'quoted_literal / quoted_literal_spec / quoted_simple_string': 'is_quoted_literal(q + body + q, q) for a one-character quote = every quote character of the body stands behind a backslash (one in the first position never does); on EVERY text the result is quotedSpec (empty: no; the quote alone: yes; otherwise starts and ends with the quote and the inside is escaped); the loop never exhausts its fuel; the simple strings of the fragment grammar are quoted literals',
	'var_type_origin_spec': 'Param.var_type_origin on EVERY (ASCII) text = the direct reading varTypeOriginSpec: on the regex branch the longest run of [A-Za-z0-9_:] behind const + white space when a name follows there, else at the very start (the optional group is given back: "const *" gives "const"), TypeError (None[2]) when no name character stands there - proved over the generated regular expression run by the backtracking matcher (greedy and backtracking lemmas rep_set_greedy / rep_set_fail)',
	'var_type_pattern / var_type_origin_plain / var_type_origin_const': 'Param.var_type_origin of [const ␠+] base [<…>] [*|&] = base for every non-empty base over [A-Za-z0-9_:] and every template-argument text: on the regex branch the GENERATED term of Param.VarType (var_type_pattern ties the proof to it) run by the backtracking matcher - the optional group takes const and all white space / is skipped, group 2 is the longest name run - and on the split("<")[0] branch',
	'parse_dict_spec / pair_spec / pair_spec_even': 'dict-like texts name{item, item, …} (every item a blank-free token - identifier characters, strings, groups of the other bracket kinds with anything inside, also directly adjacent - or a possibly named nested block; one delimiter character of D and any number of blanks between items; unbounded nesting; every bracket kind, every set D of plain non-blank delimiter characters): parse() builds exactly the entry tree of the items, and parse_pair returns the consecutive (key, value) texts of the items followed by those of the nested blocks (two levels = Entry.unders, sorted by depth, pairs of equal depth only); with an even number of items: pairs of the dict, then pairs of the nested dicts',
	'format_spec': 'parse_to_formatter(name{items}, brackets, D).format() with the default formats = the canonical text of the structure (tokens as they are, the items of every block joined by the delimiter string and exactly one blank) however many blanks the text had behind its delimiters - the rejoin law up to blanks; needs tokens that do not begin with white space and block names without the opening bracket',
	'param_origin': 'the whole way for a C++ parameter: Param.parse("[const ]base[<…>][*|&] name = default") gives (type, name, default) and var_type_origin of that type is base - composition of param_unrestricted and var_type_origin_*',
	'sep_multichar_rejoin_counterexample': 'for a multi-character delimiter the rejoin law is false when occurrences overlap: break_separator("a:::b", "::") = ["a", "", "b"]',
}


def translate(ctx: Ctx) -> tuple[bool, str]:
	try:
		from translate import gen_block_callsites, gen_block_pairs, gen_c08_regex
		ctx.generated_tables.extend(gen_block_pairs.generate())
		ctx.generated_tables.extend(gen_block_callsites.generate())
		# Param.VarType (var_type_origin): the compiled pattern as a term of Tranp.Regex.Re; theorem var_type_pattern pins its shape
		ctx.generated_tables.extend(gen_c08_regex.generate())
		return True, ''
	except Exception as e:  # noqa: BLE001
		return False, f'translate (gen_block_pairs / gen_block_callsites / gen_c08_regex): {type(e).__name__}: {e}'


def cap_findings(searches: list[SearchResult]) -> None:
	"""keep one witness per finding key (a fixed defect witness if there is one, else the shortest input) so that the verdict names input classes, not thousands of inputs"""
	for s in searches:
		best: dict[str, Finding] = {}
		fixed: set[str] = set()
		for f in s.findings:
			cur = best.get(f.key)
			if f.replay.get('witness'):
				if f.key not in fixed:
					best[f.key] = f
					fixed.add(f.key)
			elif f.key not in fixed and (cur is None or len(json.dumps(f.replay)) < len(json.dumps(cur.replay))):
				best[f.key] = f
		s.findings = [best[k] for k in sorted(best)]


def _tb_tail(e: BaseException) -> str:
	import traceback
	frames = traceback.extract_tb(e.__traceback__)[-3:]
	return ' <- '.join(f'{os.path.basename(f.filename)}:{f.lineno} {f.name}' for f in reversed(frames))


def safe_stream(name: str, fn: Any) -> Stream:
	"""an exception that escapes a stream (something the mutated real code returned could not be formatted) is a disagreement,
	not a harness crash; tool failures (InfraError) stay what they are"""
	try:
		return fn()
	except common.InfraError:
		raise
	except Exception as e:  # noqa: BLE001
		st = Stream(name, cases=1)
		st.disagreements.append({'case': 'stream raised', 'op': '-', 'real': f'{exc_enum(e)}: {_tb_tail(e)}', 'model': '-'})
		return st


def safe_search(name: str, fn: Any) -> SearchResult:
	try:
		return fn()
	except common.InfraError:
		raise
	except Exception as e:  # noqa: BLE001
		import traceback
		res = SearchResult(f'{name} (the oracle raised)', cases=1)
		res.findings.append(Finding(key=f'search-raised:{name}:{exc_enum(e)}', what=f'{exc_enum(e)} escaped while running the oracle: {_tb_tail(e)}',
			replay={'traceback': traceback.format_exc()[-3000:]}))
		return res


def run(ctx: Ctx) -> int:
	with ctx.timed('translate'):
		translate_ok, translate_msg = translate(ctx)
	proof = common.prove(ctx, PROP, leanchecker=ctx.thorough)
	with ctx.timed('correspondence'):
		streams = [
			safe_stream('block-corpus', lambda: corpus_cases(ctx)),
			safe_stream('block-clean', lambda: stream_fragments(ctx, 'block-clean', 'clean', ctx.scale(6000, 40000))),
			safe_stream('block-dirty', lambda: stream_fragments(ctx, 'block-dirty', 'dirty', ctx.scale(4000, 30000))),
			safe_stream('block-malformed', lambda: stream_fragments(ctx, 'block-malformed', 'malformed', ctx.scale(4000, 30000))),
			safe_stream('block-callers', lambda: stream_callers(ctx, ctx.scale(3000, 30000))),
			safe_stream('block-dictlike', lambda: stream_dictlike(ctx, ctx.scale(3000, 30000))),
			safe_stream('block-view', lambda: stream_view(ctx, ctx.scale(3000, 30000))),
		]
	with ctx.timed('search'):
		searches = [safe_search(fn.__name__, lambda fn=fn: fn(ctx)) for fn in (search_skip, search_sep, search_last, search_last_general, search_decorator,
			search_param, search_bracket, search_pair, search_callers, search_query, search_view)]
	cap_findings(searches)
	return common.finish(ctx, proof, streams, searches,
		translate_ok=translate_ok, translate_msg=translate_msg,
		statements={**STATEMENTS, **({'(retired call sites)': 'no longer production call sites of a BlockParser helper per the generated scan - the caller_* theorems about them remain statements about the helper composition only: ' + ', '.join(f'{op} = {CALLER_SITES[op][0]}' for op in sorted(retired_callers()))} if retired_callers() else {})},
		partial={
			'proved (all fragments, unbounded nesting, induction on Frag)': 'splitting = exact top-level split (hence cuts only at top-level delimiters, rejoin up to blanks, balanced pieces) for fragments with arbitrary simple strings; last bracket group of prefix+group (strings may contain the other bracket kinds and quotes); error branch; skip; decorator path/join_args/pieces and the key/value of positional and labelled pieces; parameter type/name/default for every default fragment; parse_bracket = the groups two levels deep in pre-order; the production callers (throw / dict-comprehension / pluck / indexer / is_initializer_call; the former range splitting only as a statement about the helpers); DecoratorQuery.any / contains / any_args; termination of _parse/_parse_block/_analyze_entry on every text; the parse_pair law, the entry tree of parse and the format() round trip on dict-like texts with delimiters (pair_spec, parse_dict_spec, format_spec: unbounded nesting, every bracket kind and delimiter set); is_quoted_literal for a one-character quote on every text (exact characterisation); Param.var_type_origin on every ASCII text over the generated regular expression (var_type_origin_spec; [const] base [<…>] [*|&] gives base)',
			'formerly false, proved after the repairs 3111a97 d6d867d eb33d21 f350973': 'param_unrestricted, decorator_positional, sep_spec_dirty, bracket_first/bracket_spec; the old witnesses are replayed from corpus/C18 and by the searches and must pass',
			'correspondence + search only': 'parse / parse_pair outside the dict-like shape (blanks inside or in front of a delimiter, text behind a nested block: stream block-dictlike loose variants); DecoratorHelper.match / match_args (regular expressions with caller-supplied patterns: no shipped pattern and no call site exists - the generated call-site scan finds none - so they are checked by search against CPython re only); multi-character delimiters that contain a bracket character or overlap themselves ("->", "::": correspondence only; the overlap counterexample is a theorem), empty delimiter, brackets arguments of other lengths, unbalanced text (correspondence); parse_to_formatter(…).format() with other join/block formats or an alt_formatter (structure-side oracle by search; the default formats are proved: format_spec) and outside the dict-like shape (stream block-view); is_quoted_literal with multi-character or empty quotes (correspondence)',
		},
		assumptions=[
			'fragments are rendered with the ASCII bracket/quote characters of BlockParser._all_pair (generated table; the proofs are redone when it changes)',
			'a quoted string is "simple": it does not contain its own quote character (no escapes)',
			'is_quoted_literal / var_type_origin / format: characters are ASCII (\\w, \\s and str.lstrip() are modelled for ASCII; the stream block-view generates ASCII only)',
			'the `brackets` argument has exactly two characters in the theorems (other lengths: correspondence only; a third character makes _parse loop on the real code and is never generated)',
		],
		trusted=['Python str methods find/strip/split/join/count as modelled in Tranp/Str.lean (exercised through every op of the streams)'])


def replay(ctx: Ctx, path: str) -> int:
	"""Show the recorded input on the real helpers (and what the independent oracle expects), then re-run the check with
	the recorded seed and tier."""
	with open(path, encoding='utf-8') as f:
		rec = json.load(f)
	print(json.dumps(rec, indent=1, ensure_ascii=False)[:4000])
	inp = rec.get('input') or {}
	if rec.get('kind') == 'failing-input':
		if 'delimiter' in inp:
			print('replay: real break_separator →', real_op(['sep', inp['text'], inp['delimiter']]), '| top-level split:', expected_split(inp['text'], inp['delimiter']))
		elif 'decorator' in inp:
			print('replay: real DecoratorHelper._parse →', real_op(['deco', inp['decorator']]))
		elif 'parameter' in inp:
			print('replay: real Param.parse →', real_op(['param', inp['parameter']]))
		elif 'begin' in inp:
			print('replay: real _skip_other_block →', real_op(['skip', all_tokens(), inp['text'], str(inp['begin'])]), '| partner:', matching(inp['text']).get(inp['begin']))
		elif 'brackets' in inp:
			print('replay: real break_last_block →', real_op(['last', inp['text'], inp['brackets']]), '| real parse_bracket →', real_op(['bracket', inp['text'], inp['brackets']]))
	ctx2 = Ctx(PROP, rec.get('tier', 'quick'), int(rec.get('seed', 0)))
	return run(ctx2)
