"""C07 — importable stubs for the real `bin/transpile.py` batch run (referenced from a temp config's `di:` section by import path)."""
from __future__ import annotations

import os
from typing import Any

PLAN: dict[str, Any] = {}  # module path -> exception to raise from transpile (absent: return text)


class StubTranspiler:
	"""ITranspiler whose transpile raises what PLAN says for the module of the entrypoint (duck-typed: meta + transpile)."""

	@property
	def meta(self) -> dict[str, str]:
		return {'version': '0', 'module': 'harness.c07_stubs.StubTranspiler'}

	def transpile(self, node: Any) -> str:
		exc = PLAN.get(node.module_path)
		if exc is not None:
			raise exc
		return f'// stub output of {node.module_path}\n'


def cache_setting() -> Any:
	from rogw.tranp.cache.cache import CacheSetting
	return CacheSetting(basedir=os.environ['C07_CACHE_DIR'])
