"""Generator of small whole programs for the search of property C03 that vary the TYPES in play (harness/gen_prog.py,
reused as well, varies arithmetic and control flow): user classes with typed attributes and inheritance, an Enum, a generic
class, optionals, containers of objects / optionals / containers, attribute and method chains, comprehensions and loops
over them. Every program is well-typed Python in tranp's input language and runs without raising.
"""
from __future__ import annotations

import random
from typing import Any

from harness import c03_expr as X

SCALARS = ['int', 'float', 'bool', 'str']


def lit(rng: random.Random, t: str) -> str:
	if t == 'int':
		return str(rng.choice([0, 1, 2, 3, 7, 12]))
	if t == 'float':
		return rng.choice(['0.5', '1.5', '2.0', '3.25'])
	if t == 'bool':
		return rng.choice(['True', 'False'])
	if t == 'str':
		return rng.choice(['"a"', '"bc"', '""', '"x y"'])
	raise AssertionError(t)


class ProgGen:
	def __init__(self, rng: random.Random, allow_hetero: bool = False, modelled: bool = False) -> None:
		self.rng = rng
		self.modelled = modelled    # only constructs of the Lean class model: no Enum, no Generic, no nested classes
		self.allow_hetero = allow_hetero   # at most one list literal mixing classes per inference session (see c03_expr.Gen.session)
		self.n = 0
		self.lines: list[str] = []
		self.hist: dict[str, int] = {}
		self.shadow_calls: list[str] = []
		self.known_rate: float | None = None   # rate of the listed known-finding forms of operator_block (None: its low default)

	def fresh(self, p: str) -> str:
		self.n += 1
		return f'{p}{self.n}'

	def count(self, k: str) -> None:
		self.hist[k] = self.hist.get(k, 0) + 1

	def scalar_expr(self, t: str, env: list[tuple[str, X.Ty]], depth: int = 2) -> str:
		g = X.Gen(self.rng, env, 'search', session=None)
		return g.expr((t,), depth).text

	def shadow_block(self) -> list[str]:
		"""Name shadowing through nested classes (CPython: a class body is not an enclosing scope for the class bodies and
		functions nested in it, so a bare name there is the module-level one): a module-level variable, an outer class with a
		class variable of the same name but another type, bare uses in nested class bodies (one or two levels), in methods of
		both, and the qualified `Outer.name`."""
		rng = self.rng
		tys = rng.sample(['int', 'str', 'float', 'bool', 'list[int]'], 3)
		val = {'int': '5', 'str': '"x"', 'float': '1.5', 'bool': 'True', 'list[int]': '[1, 2]'}
		name = rng.choice(['threshold', 'limit', 'k', 'val', 'a']) + (str(rng.randint(0, 9)) if rng.random() < 0.5 else '')
		other = name + rng.choice(['_', '2', 'x'])          # a longer name with the same prefix, only at module level
		outer, inner, inner2 = self.fresh('Outer'), self.fresh('Inner'), self.fresh('Deep')
		g, o, i = tys
		own = rng.random() < 0.4     # the nested class re-declares the name itself, before using it: then its body sees its own
		out = ['', f'{name}: {g} = {val[g]}', f'{other}: {o} = {val[o]}', '', '', f'class {outer}:',
			f'\t{name}: ClassVar[{o}] = {val[o]}', f'\town{self.fresh("")}: ClassVar[{o}] = {name}', '',
			f'\tclass {inner}:']
		if own:
			out += [f'\t\t{name}: ClassVar[{i}] = {val[i]}']
			self.count('shadow:own')
		out += [f'\t\tc{self.fresh("")}: ClassVar[{i if own else g}] = {name}', f'\t\td{self.fresh("")}: ClassVar[{o}] = {other}']
		if rng.random() < 0.5:
			out += ['', f'\t\tclass {inner2}:', f'\t\t\te{self.fresh("")}: ClassVar[{g}] = {name}']
			self.count('shadow:two-levels')
		m1, m2 = self.fresh('m'), self.fresh('m')
		out += ['', f'\t\tdef {m1}(self) -> {g}:', f'\t\t\t{self.fresh("v")} = {name}', f'\t\t\treturn {name}', '',
			f'\tdef {m2}(self) -> {o}:', f'\t\t{self.fresh("v")} = {name}', f'\t\t{self.fresh("v")} = {outer}.{name}', f'\t\treturn {outer}.{name}', '']
		self.count('shadow')
		self.shadow_calls = [f'{outer}().{m2}()', f'{outer}.{inner}().{m1}()']
		return out

	def generic_block(self, base: str) -> tuple[list[str], list[str]]:
		"""Generic functions and a generic (linked) class whose type variable occurs NESTED in an optional parameter
		(`list[T] | None`, `dict[str, T] | None`, `'N[T] | None'`) next to a parameter that pins it (`d: T`), in either order, called
		with None and with a value for the optional one: T has to come from the pinning parameter wherever it stands.
		Returns (definitions, body lines of the entry function). T at a non-first argument position of the parameter's type and a
		parameter that IS `T | None` (the former findings template-nonfirst-type-argument / optional-template-none-argument, repaired in
		68f934e) are ordinary forms here, their results are used."""
		rng = self.rng
		out: list[str] = []
		body: list[str] = []

		def decl(expr: str) -> str:
			v = self.fresh('v')
			body.append(f'\t{v} = {expr}')
			return v

		elems = {'int': ('a', '3', '[a, 2]', '{"k": a}'), 'str': ('s', '"q"', '[s]', '{"k": s}'), 'float': ('b', '1.5', '[b, 0.5]', '{"k": b}'),
			base: (f'{base}(a)', f'{base}(1)', f'[{base}(2)]', f'{{"k": {base}(3)}}'), 'list[int]': ('[a]', '[1, 2]', '[[a]]', '{"k": [a]}')}

		def params(opt: str, opt_first: bool) -> tuple[str, int]:
			return (f'{opt}, d: T', 0) if opt_first else (f'd: T, {opt}', 1)

		def args(o: str, d: str, opt_first: bool) -> str:
			return f'{o}, {d}' if opt_first else f'{d}, {o}'

		# the linked class
		if rng.random() < 0.7:
			cls = self.fresh('N')
			first = rng.random() < 0.6
			ps, _ = params(f"nxt: '{cls}[T] | None'", first)
			out += ['', '', f'class {cls}(Generic[T]):', f"\tnxt: '{cls}[T] | None'", '\tv: T', '', f'\tdef __init__(self, {ps}) -> None:',
				'\t\tself.nxt = nxt', '\t\tself.v = d', '', '\tdef get(self) -> T:', '\t\treturn self.v', '', '\tdef both(self) -> list[T]:', '\t\treturn [self.v, self.v]']
			for ty in rng.sample(list(elems), 2):
				e1, e2 = elems[ty][0], elems[ty][1]
				n1 = decl(f'{cls}({args("None", e1, first)})')
				n2 = decl(f'{cls}({args(n1, e2, first)})')
				x1 = decl(f'{n1}.v')
				decl(f'{n2}.get()')
				decl(f'{rng.choice([n1, n2])}.both()')
				decl(f'[{x1}, {n2}.v]')
				decl(f'{cls}({args("None", e2, first)}).v')
				if ty == base:
					decl(f'{n2}.v.{self.base_attr}')
					decl(f'{cls}({args("None", e1, first)}).get().{self.base_attr}')
				self.count(f"generic-link:{ty}:{'opt-first' if first else 'pin-first'}")
		# generic functions: (annotation of the optional parameter, value for it given an element, returned expression, T at a non-first
		# argument position of the parameter's type)
		hashable = {'int', 'str', 'float'}
		forms = [('list[T] | None', '[{e}]', 'xs[0] if xs else d', False), ('list[list[T]] | None', '[[{e}]]', 'xs[0][0] if xs else d', False),
			('dict[T, int] | None', '{{{e}: 1}}', 'd', False), ('tuple[T, int] | None', '({e}, 1)', 'xs[0] if xs else d', False),
			('dict[str, T] | None', '{{"k": {e}}}', 'xs["k"] if xs is not None and "k" in xs else d', True),
			('tuple[int, T] | None', '(1, {e})', 'xs[1] if xs else d', True),
			('dict[str, T]', '{{"k": {e}}}', 'xs["k"] if "k" in xs else d', True), ('tuple[int, T]', '(1, {e})', 'xs[1]', True),
			('list[dict[str, T]]', '[{{"k": {e}}}]', 'xs[0]["k"]', True), ('None | list[T]', '[{e}]', 'xs[0] if xs else d', False),
			('None | dict[int, T]', '{{1: {e}}}', 'xs[1] if xs is not None and 1 in xs else d', True)]
		for ann, mk, ret, nonfirst in rng.sample(forms, rng.randint(1, 2)):
			fn = self.fresh('pick')
			first = rng.random() < 0.6
			ps, _ = params(f'xs: {ann}', first)
			rt, wrap = ('T', '{}') if rng.random() < 0.7 else ('list[T]', '[{}]')
			out += ['', '', f'def {fn}({ps}) -> {rt}:', f"\treturn {wrap.format(ret)}"]
			for ty in rng.sample([t for t in elems if t in hashable or not ann.startswith('dict[T')], 2):
				e1, e2 = elems[ty][0], elems[ty][1]
				if 'None' in ann:
					r1 = decl(f'{fn}({args("None", e1, first)})')
					if ty == base:
						decl(f'{r1}.{self.base_attr}' if rt == 'T' else f'{r1}[0].{self.base_attr}')
					elif rt == 'T' and ty in ('int', 'float'):
						decl(f'{r1} + 1')
				r2 = decl(f'{fn}({args(mk.format(e=e2), e1, first)})')
				if rt == 'T' and ty in ('int', 'float'):
					decl(f'{r2} * 2')
				elif rt == 'T' and ty == 'str':
					decl(f'{r2}.upper()')
				self.count(f"generic-func:{ann}:{'opt-first' if first else 'pin-first'}")
		# a parameter that is `T | None` itself
		if rng.random() < 0.5:
			fn = self.fresh('wrap')
			first = rng.random() < 0.5
			ps, _ = params('o: T | None', first)
			out += ['', '', f'def {fn}({ps}) -> list[T]:', '\treturn [d] if o is None else [o, d]']
			ty = rng.choice(['int', 'str', 'float'])
			e1, e2 = elems[ty][0], elems[ty][1]
			decl(f'{fn}({args(e2, e1, first)})')
			w1 = decl(f'{fn}({args("None", e1, first)})')
			decl(f'{w1}[0]')
			decl(f'[z for z in {w1}]')
			self.count('generic-func:T | None')
		return out, body

	def callback_block(self) -> tuple[list[str], list[str]]:
		"""Lambdas whose parameters are typed from the context and USED in the lambda body (the recorder sees their run-time types):
		passed to a function / closure / method / constructor whose parameter is a callback — optional or not, None on either side of the
		Union, with or without a default —, returned from a function declared to return a Callable, and called on the spot.
		and assigned under a Callable annotation (the former finding annotated-lambda-parameter, repaired in 0020bae).
		Returns (definitions, body lines of the entry function)."""
		rng = self.rng
		out: list[str] = []
		body: list[str] = []
		types = ['int', 'str', 'float', 'bool']
		lit = {'int': '3', 'str': '"q"', 'float': '1.5', 'bool': 'True'}
		default = {'int': '0', 'str': '""', 'float': '0.0', 'bool': 'False'}
		use = {'int': [('{p} + 1', 'int'), ('{p} * 2.5', 'float'), ('str({p})', 'str'), ('{p} > 1', 'bool')],
			'str': [('{p}.upper()', 'str'), ('len({p})', 'int'), ('{p} + "x"', 'str')],
			'float': [('{p} * 2', 'float'), ('{p} > 0.5', 'bool'), ('{p} + 1', 'float')],
			'bool': [('not {p}', 'bool'), ('1 if {p} else 0', 'int')]}
		test = {'int': '{p} > 0', 'str': '{p} == "q"', 'float': '{p} > 0.5', 'bool': '{p}'}

		def decl(expr: str) -> str:
			v = self.fresh('v')
			body.append(f'\t{v} = {expr}')
			return v

		def signature() -> tuple[list[str], str, str]:
			pts = [rng.choice(types) for _ in range(rng.randint(1, 3))]
			u, ret = rng.choice(use[pts[0]])
			return pts, u, ret

		def lam(pts: list[str], u: str) -> str:
			names = [self.fresh('u') for _ in pts]
			e = u.format(p=names[0])
			for nm, t in zip(names[1:], pts[1:]):
				e = f'({e}) if {test[t].format(p=nm)} else ({e})'
			return f"lambda {', '.join(names)}: {e}"

		def callable_of(pts: list[str], ret: str) -> str:
			return f"Callable[[{', '.join(pts)}], {ret}]"

		def optional(c: str) -> tuple[str, bool]:
			"""(annotation, has a default)"""
			ann = f'{c} | None' if rng.random() < 0.6 else f'None | {c}'
			return ann, rng.random() < 0.5

		def callee(ind: str, name: str, self_prm: bool, pts: list[str], ret: str, opt: bool) -> tuple[list[str], bool]:
			"""a function that calls its callback parameter; returns (lines, the callback comes first)"""
			c = callable_of(pts, ret)
			args = ', '.join(lit[t] for t in pts)
			if opt:
				ann, dflt = optional(c)
				first = not dflt and rng.random() < 0.4
				cb = f'cb: {ann}' + (' = None' if dflt else '')
			else:
				cb, first = f'cb: {c}', rng.random() < 0.4
			prms = [cb, 'n: int'] if first else ['n: int', cb]
			head = f"{ind}def {name}({', '.join((['self'] if self_prm else []) + prms)}) -> {ret}:"
			if opt:
				return [head, f'{ind}\tif cb:', f'{ind}\t\treturn cb({args})', '', f'{ind}\treturn {default[ret]}'], first
			return [head, f'{ind}\treturn cb({args})'], first

		def call(fn: str, first: bool, lm: str) -> str:
			return f'{fn}({lm}, 1)' if first else f'{fn}(2, {lm})'

		kinds = rng.sample(['func-opt', 'func-opt', 'func', 'method-opt', 'ctor-opt', 'closure-opt', 'return', 'immediate', 'anno'], rng.randint(2, 4))
		for kind in kinds:
			pts, u, ret = signature()
			if kind in ('func-opt', 'func'):
				fn = self.fresh('run')
				lines, first = callee('', fn, False, pts, ret, kind == 'func-opt')
				out += ['', ''] + lines
				r = decl(call(fn, first, lam(pts, u)))
				decl(f'[{r}, {r}]')
				if kind == 'func-opt' and not first:
					decl(f'{fn}(3, None)')
			elif kind == 'method-opt':
				cls, m = self.fresh('Cb'), self.fresh('apply')
				lines, first = callee('\t', m, True, pts, ret, True)
				out += ['', '', f'class {cls}:', '\tk: int', '', '\tdef __init__(self, k: int) -> None:', '\t\tself.k = k', ''] + lines
				o = decl(f'{cls}(1)')
				decl(call(f'{o}.{m}', first, lam(pts, u)))
			elif kind == 'ctor-opt':
				cls = self.fresh('Cb')
				c = callable_of(pts, ret)
				ann, dflt = optional(c)
				args = ', '.join(lit[t] for t in pts)
				out += ['', '', f'class {cls}:', f'\tr: {ret}', '', f"\tdef __init__(self, n: int, cb: {ann}{' = None' if dflt else ''}) -> None:",
					f'\t\tself.r = {default[ret]}', '\t\tif cb:', f'\t\t\tself.r = cb({args})']
				o = decl(f'{cls}(1, {lam(pts, u)})')
				decl(f'{o}.r')
			elif kind == 'closure-opt':
				fn = self.fresh('inner')
				lines, first = callee('\t', fn, False, pts, ret, True)
				body += lines + ['']
				decl(call(fn, first, lam(pts, u)))
			elif kind == 'return':
				fn = self.fresh('make')
				out += ['', '', f'def {fn}() -> {callable_of(pts, ret)}:', f'\treturn {lam(pts, u)}']
				decl(f"{fn}()({', '.join(lit[t] for t in pts)})")
			elif kind == 'immediate':
				decl(f"({lam(pts, u)})({', '.join(lit[t] for t in pts)})")
			elif kind == 'anno':
				f = self.fresh('f')
				body.append(f'\t{f}: {callable_of(pts, ret)} = {lam(pts, u)}')
				r = decl(f"{f}({', '.join(lit[t] for t in pts)})")
				decl(f'[{r}]')
			self.count(f'lambda:{kind}:{len(pts)}')
		return out, body

	def nullable_block(self, base: str, meth: str) -> tuple[list[str], list[str]]:
		"""Optionals written with None on either side (`T | None`, `None | T`) and inferred from ternaries with None in either branch,
		USED as the T they hold: subscript, slice, attribute, method call, iteration, comprehension (tranp unwraps an optional
		whichever side None stands on; the function is called with values that make every optional non-None, and once with the others).
		Returns (definitions, body lines of the entry function)."""
		rng = self.rng
		fn = self.fresh('nul')

		def opt(t: str) -> str:
			return f'None | {t}' if rng.random() < 0.55 else f'{t} | None'

		lines: list[str] = []

		def decl(expr: str) -> str:
			v = self.fresh('v')
			lines.append(f'\t{v} = {expr}')
			return v

		def tern(e: str) -> str:
			return f'None if flag else {e}' if rng.random() < 0.55 else f'{e} if not flag else None'

		head = f"def {fn}(flag: bool, a: int, xs: {opt('list[int]')}, d: {opt('dict[str, float]')}, o: {opt(base)}, t: {opt('tuple[int, str]')}, s: {opt('str')}) -> None:"
		for _ in range(rng.randint(4, 8)):
			k = rng.choice(['xs', 'd', 'o', 't', 's', 'tern-list', 'tern-obj', 'tern-dict', 'tern-str', 'tern-tuple'])
			if k == 'xs':
				decl(rng.choice(['xs[0]', 'xs[0:1]', 'xs.copy()', '[z + 1 for z in xs]', 'xs.index(1)']))
				if rng.random() < 0.5:
					x = self.fresh('x')
					lines.extend([f'\tfor {x} in xs:', f'\t\t{self.fresh("v")} = {x}'])
			elif k == 'd':
				decl(rng.choice(['d["k"]', 'd.get("k")', '[kk for kk in d]', '{kk: vv for kk, vv in d.items()}', 'list(d.keys())']))
				if rng.random() < 0.5:
					kk, vv = self.fresh('k'), self.fresh('w')
					lines.extend([f'\tfor {kk}, {vv} in d.items():', f'\t\t{self.fresh("v")} = {kk}', f'\t\t{self.fresh("v")} = {vv}'])
			elif k == 'o':
				decl(rng.choice([f'o.{self.base_attr}', f'o.{meth}(1)', f'[o, o][0].{self.base_attr}']))
			elif k == 't':
				decl(rng.choice(['t[0]', 't[1]', 't[1:]', 't[:1]', 't[-1:]', 't[:-1]']))
			elif k == 's':
				decl(rng.choice(['s.upper()', 's[0]', 's.split("x")', 's.find("y")']))
			elif k == 'tern-list':
				w = decl(tern(rng.choice(['[a, 2]', '[a]', '[1.5]'])))
				decl(rng.choice([f'{w}[0]', f'{w}.copy()', f'[z for z in {w}]']))
			elif k == 'tern-obj':
				w = decl(tern(f'{base}(a)'))
				decl(rng.choice([f'{w}.{self.base_attr}', f'{w}.{meth}(2)']))
				if rng.random() < 0.5:
					lines.extend([f'\tif {w} is not None:', f'\t\t{self.fresh("v")} = {w}.{meth}(3)'])
			elif k == 'tern-dict':
				w = decl(tern('{"k": a}'))
				decl(rng.choice([f'{w}["k"]', f'[kk for kk in {w}.keys()]']))
			elif k == 'tern-str':
				w = decl(tern('"ab"'))
				decl(rng.choice([f'{w}.upper()', f'{w}[0]']))
			elif k == 'tern-tuple':
				w = decl(tern('(a, "z")'))
				decl(rng.choice([f'{w}[0]', f'{w}[1]']))
			self.count(f'nullable:{k}')
		out = ['', '', head] + lines
		full = f'[1, 2], {{"k": 0.5}}, {base}(1), (1, "a"), "xy"'
		body = [f'\t{fn}(False, a, {full})', f'\t{fn}(False, 2, [3], {{"k": 1.5, "j": 2.0}}, {base}(a), (a, s), s + "q")',
			f'\t{fn}(True, a, None, None, None, None, None)' if rng.random() < 0.3 else f'\t{fn}(False, 0, {full})']
		return out, body

	def multi_inherit_block(self) -> tuple[list[str], list[str]]:
		"""Multiple inheritance over TREE-shaped hierarchies (no diamonds: every class has one path to each ancestor, so CPython's MRO is
		the depth-first left-to-right walk): two or three chains of one to three classes, a class deriving from the leaves of all chains
		in a random order; attributes and methods of the same name are declared with DIFFERENT types at random levels of the chains (in
		particular: only inherited on the left, declared directly on the right). Each `__init__` runs its bases first (right to left)
		and then sets what its class declares, so an attribute holds the value of the class first in the MRO that declares it.
		Returns (definitions, body lines of the entry function)."""
		rng = self.rng
		out: list[str] = []
		body: list[str] = []
		val = {'int': '7', 'str': '"b"', 'float': '0.5', 'bool': 'True', 'list[int]': '[1, 2]'}
		names = [self.fresh('m') for _ in range(rng.randint(2, 3))]
		meths = [self.fresh('f') for _ in range(rng.randint(1, 2))]
		leaves: list[str] = []
		declared: set[str] = set()
		mids: list[str] = []
		for ci in range(rng.randint(2, 3)):
			depth = rng.randint(1, 3)
			tys = {n: rng.choice(list(val)) for n in [*names, *meths]}
			level = {n: rng.randrange(depth) for n in [*names, *meths] if rng.random() < 0.7}
			if ci == 0 and depth > 1:
				level = {n: 0 for n in level}              # the left chain declares at its root: the leaf only inherits
			parent = None
			for lv in range(depth):
				cls = self.fresh('K')
				own_a = [n for n in names if level.get(n) == lv]
				own_m = [n for n in meths if level.get(n) == lv]
				out += ['', '', f"class {cls}{f'({parent})' if parent else ''}:"] + [f'\t{n}: {tys[n]}' for n in own_a]
				out += ['', '\tdef __init__(self) -> None:'] + ([f'\t\t{parent}.__init__(self)'] if parent else []) + [f'\t\tself.{n} = {val[tys[n]]}' for n in own_a]
				if not parent and not own_a:
					out += ['\t\tpass']
				for n in own_m:
					out += ['', f'\tdef {n}(self) -> {tys[n]}:', f'\t\treturn {val[tys[n]]}']
				own = self.fresh('only')
				out += ['', f'\tdef {own}(self) -> int:', f'\t\treturn {rng.randint(1, 9)}']
				declared |= set(own_a) | set(own_m)
				parent = cls
				if lv < depth - 1:
					mids.append(cls)
			leaves.append(parent)  # type: ignore[arg-type]
		rng.shuffle(leaves)
		top = self.fresh('M')
		out += ['', '', f"class {top}({', '.join(leaves)}):", '\tdef __init__(self) -> None:'] + [f'\t\t{b}.__init__(self)' for b in reversed(leaves)]

		def decl(expr: str) -> str:
			v = self.fresh('v')
			body.append(f'\t{v} = {expr}')
			return v

		for cls in [top, *rng.sample(leaves, 1)]:
			o = decl(f'{cls}()')
			for n in names:
				if n in declared and (cls == top or rng.random() < 0.5):
					decl(f'{o}.{n}')
			for n in meths:
				if n in declared and (cls == top or rng.random() < 0.5):
					r = decl(f'{o}.{n}()')
					decl(f'[{o}.{n}(), {r}]')
		self.count(f'multi-inherit:{len(leaves)}')
		return out, body

	def generic_chain_block(self, base: str) -> tuple[list[str], list[str]]:
		"""A generic class with attributes typed by its type variable, a NON-generic class that fixes the type argument, and one or two
		further levels below it: the attributes are read on instances of every level and through `self` inside their methods (the type
		variable has to be replaced by the argument fixed two or three levels up). A METHOD returning the type variable, called on a
		class two or more levels below the generic one, is typed as the receiver class (known finding generic-method-on-indirect-subclass),
		and on a direct child that fixes a generic argument (`F(H[list[int]])`) as the innermost argument (known finding
		generic-method-nested-type-argument; both: proposed/C03-generic-method-through-inheritance.md): low rate, result unused.
		Returns (definitions, body lines of the entry function)."""
		rng = self.rng
		out: list[str] = []
		body: list[str] = []
		arg, mk = rng.choice([('int', '3'), ('str', '"h"'), ('float', '1.5'), (base, f'{base}(2)'), ('list[int]', '[4]')])
		attrs = rng.sample([('value', 'T', 'value'), ('items', 'list[T]', '[value]'), ('table', 'dict[str, T]', '{"k": value}'), ('pair', 'tuple[T, int]', '(value, 1)')], rng.randint(2, 3))
		g = self.fresh('H')
		out += ['', '', f'class {g}(Generic[T]):'] + [f'\t{a}: {t}' for a, t, _ in attrs] + ['', '\tdef __init__(self, value: T) -> None:'] + [f'\t\tself.{a} = {e}' for a, _, e in attrs]
		out += ['', '\tdef get(self) -> T:', f'\t\treturn self.{attrs[0][0]}' if attrs[0][1] == 'T' else '\t\treturn self.peek()', '', '\tdef peek(self) -> T:', '\t\treturn self.' + ('value' if any(a == 'value' for a, _, _ in attrs) else 'items[0]' if any(a == 'items' for a, _, _ in attrs) else 'table["k"]' if any(a == 'table' for a, _, _ in attrs) else 'pair[0]')]
		chain = [g]
		fixed = self.fresh('F')
		out += ['', '', f'class {fixed}({g}[{arg}]):', '\tdef __init__(self) -> None:', f'\t\tsuper().__init__({mk})']
		chain.append(fixed)
		for _ in range(rng.randint(1, 2)):
			cls = self.fresh('L')
			m = self.fresh('read')
			a0 = rng.choice(attrs)[0]
			out += ['', '', f'class {cls}({chain[-1]}):', '\tstep: int', '', '\tdef __init__(self) -> None:', '\t\tsuper().__init__()', '\t\tself.step = 2', '',
				f'\tdef {m}(self) -> int:', f'\t\t{self.fresh("v")} = self.{a0}', f'\t\t{self.fresh("v")} = self.step', '\t\treturn self.step']
			chain.append(cls)
			body.append(f'\t{cls}().{m}()')

		def decl(expr: str) -> str:
			v = self.fresh('v')
			body.append(f'\t{v} = {expr}')
			return v

		use = {'value': ['{r}'], 'items': ['{r}[0]', '[z for z in {r}]'], 'table': ['{r}["k"]'], 'pair': ['{r}[0]', '{r}[1]']}
		for cls in chain[1:]:
			o = decl(f'{cls}()')
			for a, _, _ in attrs:
				r = decl(f'{o}.{a}')
				decl(rng.choice(use[a]).format(r=r))
			if cls == fixed and '[' not in arg:
				decl(f'{o}.get()')
				decl(f'[{o}.peek()]')
			elif cls == fixed:
				if rng.random() < 0.3:
					decl(f'{o}.get()')     # known finding generic-method-nested-type-argument: the result is not used again
					self.count('generic-method-nested-type-argument')
			elif rng.random() < 0.15:
				decl(f'{o}.get()')     # known finding: the result is not used again
				self.count('generic-method-on-indirect-subclass')
		h = decl(f'{g}({mk})')
		decl(f'{h}.{attrs[0][0]}')
		decl(f'{h}.get()')
		self.count(f'generic-chain:{arg if arg != base else "class"}:{len(chain) - 1}')
		return out, body

	def alias_block(self) -> tuple[list[str], list[str]]:
		"""Type aliases (`P: TypeAlias = tuple[int, str]`, of lists, dicts, of other aliases) wherever a structural type can stand: as the
		ELEMENT / value type of iterated collections, as a parameter type, nested in another alias. The aliased tuples are destructured
		into two targets by for statements, list / dict comprehensions and plain assignments (the control), indexed and iterated; every
		target is used again (ResolveUnknown.resolve_right_to_left unwraps the alias before it takes the target's position,
		processors/resolve_unknown.py:100-112; on_for_in / on_indexer actualize it).
		Returns (definitions, body lines of the entry function)."""
		rng = self.rng
		out: list[str] = []
		lines: list[str] = []
		n = self.fresh('')
		t1, t2 = rng.sample(['int', 'str', 'float', 'bool'], 2)
		lit = {'int': ['1', '7'], 'str': ['"x"', '"yz"'], 'float': ['0.5', '2.5'], 'bool': ['True', 'False']}
		P, L, D, PP, LP = f'P{n}', f'L{n}', f'D{n}', f'PP{n}', f'LP{n}'
		out += ['', '', f'{P}: TypeAlias = tuple[{t1}, {t2}]', f'{L}: TypeAlias = list[{t1}]', f'{D}: TypeAlias = dict[str, {t2}]',
			f'{PP}: TypeAlias = tuple[{P}, {t1}]', f'{LP}: TypeAlias = list[{P}]']
		fn = self.fresh('al')

		def decl(expr: str) -> str:
			v = self.fresh('v')
			lines.append(f'\t{v} = {expr}')
			return v

		def loop(targets: str, src: str, uses: list[str]) -> None:
			lines.append(f'\tfor {targets} in {src}:')
			for u in uses:
				lines.append(f'\t\t{self.fresh("v")} = {u}')
		forms = rng.sample(['for-ps', 'comp-ps', 'dictcomp-ps', 'assign-ps', 'for-lp', 'for-pps', 'for-ls', 'for-ds', 'for-dp', 'assign-one', 'comp-dp', 'index', 'for-plain'], rng.randint(5, 8))
		if not any(f in forms for f in ('for-ps', 'comp-ps', 'dictcomp-ps', 'for-lp')):
			forms.append(rng.choice(['for-ps', 'comp-ps', 'for-lp']))
		for f in forms:
			a, b = self.fresh('x'), self.fresh('y')
			if f == 'for-ps':
				loop(f'{a}, {b}', 'ps', [a, b, f'[{b}, {b}]'])
			elif f == 'comp-ps':
				decl(rng.choice([f'[{b} for {a}, {b} in ps]', f'[{a} for {a}, {b} in ps]', f'[({b}, {a}) for {a}, {b} in ps]']))
			elif f == 'dictcomp-ps':
				decl(f'{{{b}: {a} for {a}, {b} in ps}}' if t2 != 'float' else f'{{{a}: {b} for {a}, {b} in ps}}')
			elif f == 'assign-ps':
				lines.append(f'\t{a}, {b} = ps[0]')
				decl(a)
				decl(b)
			elif f == 'for-lp':
				loop(f'{a}, {b}', 'lp', [b, a])
			elif f == 'for-pps':
				loop(f'{a}, {b}', 'pps', [f'{a}[1]', f'{a}[0]', b])
			elif f == 'for-ls':
				loop(a, 'ls', [f'{a}[0]', f'[z for z in {a}]'])
			elif f == 'for-ds':
				loop(a, 'ds', [f'{a}["k"]'])
			elif f == 'for-dp':
				loop(f'{a}, {b}', 'dp.items()', [a, f'{b}[0]', f'{b}[1]'])
			elif f == 'assign-one':
				lines.append(f'\t{a}, {b} = one')
				decl(b)
				decl(a)
			elif f == 'comp-dp':
				decl(f'[{b}[1] for {a}, {b} in dp.items()]')
			elif f == 'index':
				decl('ps[0][1]')
				decl('lp[0][0]')
				decl('pps[0][0][1]')
			elif f == 'for-plain':
				loop(f'{a}, {b}', 'qs', [a, b])       # the same tuples without an alias
			self.count(f'alias:{f}')
		head = (f'def {fn}(ps: list[{P}], qs: list[tuple[{t1}, {t2}]], ls: list[{L}], ds: list[{D}], dp: dict[str, {P}], pps: list[{PP}], lp: {LP}, one: {P}) -> None:')
		out += ['', '', head] + lines
		x1, x2 = rng.choice(lit[t1]), rng.choice(lit[t2])
		y1, y2 = rng.choice(lit[t1]), rng.choice(lit[t2])
		body = [f'\t{fn}([({x1}, {x2}), ({y1}, {y2})], [({y1}, {y2})], [[{x1}, {y1}]], [{{"k": {x2}}}], {{"a": ({x1}, {y2})}}, [(({x1}, {x2}), {y1})], [({y1}, {x2})], ({x1}, {y2}))']
		return out, body

	def classmethod_block(self) -> tuple[list[str], list[str]]:
		"""A generic class with factory CLASSMETHODS whose return type mentions the class type variable (`-> 'Box[T]'`, `-> list[T]`,
		`-> 'list[Box[T]]'`), called on the bare class (T comes from the argument: FunctionTrait.returns wraps the receiver as type<Class>,
		traits.py:395-412) with arguments of different types, on a subscripted class (`Box[str].of("a")`) and through an instance; a
		classmethod without type variables as control. The results are used (`.get()`, attribute reads, indexing).
		Returns (definitions, body lines of the entry function)."""
		rng = self.rng
		out: list[str] = []
		body: list[str] = []
		cls = self.fresh('Box')
		out += ['', '', f'class {cls}(Generic[T]):', '\tv: T', '', '\tdef __init__(self, v: T) -> None:', '\t\tself.v = v', '',
			'\t@classmethod', f"\tdef of(cls, v: T) -> '{cls}[T]':", '\t\treturn cls(v)', '',
			'\t@classmethod', f"\tdef many(cls, v: T, k: int) -> 'list[{cls}[T]]':", '\t\treturn [cls(v), cls(v)]', '',
			'\t@classmethod', '\tdef twice(cls, v: T) -> list[T]:', '\t\treturn [v, v]', '',
			'\t@classmethod', '\tdef label(cls) -> str:', "\t\treturn 'box'", '',
			'\tdef get(self) -> T:', '\t\treturn self.v', '', f"\tdef again(self) -> '{cls}[T]':", f'\t\treturn {cls}(self.v)']

		def decl(expr: str) -> str:
			v = self.fresh('v')
			body.append(f'\t{v} = {expr}')
			return v
		args = [('int', '3'), ('str', '"q"'), ('float', '1.5'), ('list[float]', '[1.5]'), ('int', 'a'), ('str', 's'), ('bool', 'p')]
		for ty, e in rng.sample(args, rng.randint(2, 3)):
			form = rng.choice(['of', 'of', 'many', 'twice', 'sub'])
			if form == 'of':
				o = decl(f'{cls}.of({e})')
				decl(f'{o}.get()')
				decl(rng.choice([f'{o}.v', f'{o}.again().get()', f'[{o}.get()]']))
			elif form == 'many':
				m = decl(f'{cls}.many({e}, 2)')
				decl(f'{m}[0].get()')
			elif form == 'twice':
				w = decl(f'{cls}.twice({e})')
				decl(f'{w}[0]')
			elif form == 'sub' and '[' not in ty:
				o = decl(f'{cls}[{ty}].of({e})')
				decl(f'{o}.get()')
			self.count(f'classmethod:{form}')
		decl(f'{cls}.label()')
		decl(f'{cls}(1).get()')
		return out, body

	def generic_deep_block(self) -> tuple[list[str], list[str]]:
		"""A generic class over two type variables whose attributes mention them NESTED two or three levels deep (`dict[K, list[V]]`,
		`list[list[V]]`, `list[tuple[K, V]]`, `dict[str, dict[K, V]]`, next to the flat `dict[K, V]` / `V`), instantiated two or three
		times with DIFFERENT type arguments in one function; the attributes are read — and indexed into — through every instance, in a
		random interleaved order, some reads repeated: each read has to be typed by the arguments of ITS receiver, whatever was inferred
		before (`templates.Class.prop`, helper/template.py:70-90, substitutes into a copy of the declared type).
		Returns (definitions, body lines of the entry function)."""
		rng = self.rng
		out: list[str] = []
		body: list[str] = []
		cls = self.fresh('X')
		forms = [('table', 'dict[TK, list[TV]]', '{key: [value]}', ['{r}[{k}]', '{r}[{k}][0]']),
			('rows', 'list[list[TV]]', '[[value], [value]]', ['{r}[0]', '{r}[1][0]', '[z for z in {r}]']),
			('pairs', 'list[tuple[TK, TV]]', '[(key, value)]', ['{r}[0]', '{r}[0][1]', '{r}[0][0]']),
			('nested', 'dict[str, dict[TK, TV]]', '{"n": {key: value}}', ['{r}["n"]', '{r}["n"][{k}]']),
			('deep', 'dict[TK, dict[str, list[TV]]]', '{key: {"d": [value]}}', ['{r}[{k}]', '{r}[{k}]["d"]', '{r}[{k}]["d"][0]']),
			('boxed', 'tuple[TK, list[TV]]', '(key, [value])', ['{r}[1]', '{r}[1][0]', '{r}[0]']),
			('flat', 'dict[TK, TV]', '{key: value}', ['{r}[{k}]']),
			('one', 'TV', 'value', ['{r}']),
			('many', 'list[TV]', '[value]', ['{r}[0]'])]
		attrs = rng.sample(forms[:6], rng.randint(2, 3)) + rng.sample(forms[6:], rng.randint(0, 2))
		rng.shuffle(attrs)
		out += ['', '', "TK = TypeVar('TK')", "TV = TypeVar('TV')", '', '', f'class {cls}(Generic[TK, TV]):'] + [f'\t{a}: {t}' for a, t, _, _ in attrs]
		out += ['', '\tdef __init__(self, key: TK, value: TV) -> None:'] + [f'\t\tself.{a} = {e}' for a, _, e, _ in attrs]
		keys = [('str', '"a"'), ('int', '1'), ('str', 's'), ('int', 'a')]
		vals = [('int', '7'), ('str', '"w"'), ('float', '1.5'), ('bool', 'True'), ('list[int]', '[1, 2]'), ('float', 'b')]
		combos: list[tuple[tuple[str, str], tuple[str, str]]] = []
		for _ in range(rng.randint(2, 3)):
			for _ in range(20):
				k, v = rng.choice(keys), rng.choice(vals)
				if all(v[0] != v0[0] for _, v0 in combos) and (not combos or rng.random() < 0.7 or all(k[0] != k0[0] for k0, _ in combos)):
					combos.append((k, v))
					break

		def decl(expr: str) -> str:
			v = self.fresh('v')
			body.append(f'\t{v} = {expr}')
			return v

		insts = [(decl(f'{cls}({k[1]}, {v[1]})'), k[1]) for k, v in combos]
		reads = [(o, kx, a, uses) for o, kx in insts for a, _, _, uses in attrs]
		rng.shuffle(reads)
		reads += rng.sample(reads, min(2, len(reads)))          # the same read again, later
		for o, kx, a, uses in reads:
			r = decl(f'{o}.{a}')
			u = rng.random()
			if u < 0.5:
				decl(rng.choice(uses).format(r=r, k=kx))
			elif u < 0.7:
				decl(rng.choice(uses).format(r=f'{o}.{a}', k=kx))
		self.count(f'generic-deep:{len(combos)}-instances:{len(attrs)}-attrs')
		return out, body

	@staticmethod
	def _ancestry(parent_of: dict[str, Any], c: str) -> list[str]:
		out = []
		while parent_of.get(c) is not None:
			c = parent_of[c]
			out.append(c)
		return out

	def operator_block(self) -> tuple[list[str], list[str]]:
		"""User classes that overload binary operators (OperationTrait.try_operation, traits.py:178-225, incl. the `inherits` loop that
		accepts an operand of a DERIVED class for a parameter of the base class): a root class declaring two to four operators over its
		own class (`other: 'R'`, quoted or not), optionally one taking a scalar (with the reflected method of the same type, so
		`2 * r` runs too); children that override some operators with their OWN class as result, children that override nothing, a
		grandchild. Every (left, right) combination of instances is a candidate: CPython dispatches on the LEFT operand's class (no
		reflected method of the operand's class is declared for class operands), so the result type is the return type of the nearest
		declaration above the left operand. Results are used again (attribute, chain, list literal).
		Operand classes up to five levels below the parameter class (the former finding operator-operand-indirect-subclass, repaired in
		435b7a5: the operand's whole ancestry is compared) and parameter classes in the middle of a chain are ordinary forms.
		Returns (definitions, body lines of the entry function)."""
		rng = self.rng
		out: list[str] = []
		body: list[str] = []
		tokens = {'__add__': '+', '__sub__': '-', '__mul__': '*', '__truediv__': '/', '__mod__': '%', '__or__': '|', '__and__': '&', '__xor__': '^', '__lshift__': '<<', '__rshift__': '>>'}
		root = self.fresh('R')
		ops = rng.sample(list(tokens), rng.randint(2, 4))
		quoted = rng.random() < 0.5
		scalar = None
		out += ['', '', f'class {root}:', '\tv: int', '', '\tdef __init__(self, v: int) -> None:', '\t\tself.v = v']
		for d in ops:
			out += ['', f"\tdef {d}(self, other: '{root}') -> '{root}':", f'\t\treturn {root}(self.v + other.v)']
		free = [x for x in ('__mul__', '__add__', '__mod__', '__lshift__') if x not in ops]
		if free and rng.random() < 0.5:
			d = rng.choice(free)
			st, lit_ = rng.choice([('int', '2'), ('float', '1.5'), ('str', '"w"')])
			scalar = (d, st, lit_)
			out += ['', f"\tdef {d}(self, k: {st}) -> '{root}':", f'\t\treturn {root}(self.v + 1)',
				'', f"\tdef __r{d[2:]}(self, k: {st}) -> '{root}':", f'\t\treturn {root}(self.v + 2)']
		depth = {root: 0}
		ret: dict[tuple[str, str], str] = {(root, d): root for d in ops}     # (class, dunder) -> class returned by the nearest declaration
		parent_of = {root: None}
		classes = [root]
		# mostly one chain three to five levels deep below the root (an operand far below the parameter class: try_operation compares the
		# operand's whole ancestry, nearest first — 435b7a5), plus siblings anywhere
		chain_len = rng.randint(3, 5) if rng.random() < 0.6 else 0
		n_cls = max(chain_len, 0) + rng.randint(1, 2)
		for ci in range(n_cls):
			par = classes[-1] if ci < chain_len else rng.choice([c for c in classes if depth[c] < 5])
			cls = self.fresh('S')
			over = [d for d in ops if rng.random() < 0.5] if rng.random() < 0.7 else []
			if ci == 0 and not over:
				over = [rng.choice(ops)]      # at least one class overrides an operator with its own class as the result
			out += ['', '', f'class {cls}({par}):']
			for d in over:
				ann = f"'{root}'" if quoted else root
				out += [f"\tdef {d}(self, other: {ann}) -> '{cls}':", f'\t\treturn {cls}(self.v * 2 + other.v)', '']
			m = self.fresh('only')
			out += [f'\tdef {m}(self) -> int:', '\t\treturn self.v']
			for d in ops:
				ret[(cls, d)] = cls if d in over else ret[(par, d)]
			depth[cls] = depth[par] + 1
			parent_of[cls] = par  # type: ignore[assignment]
			classes.append(cls)
		# a parameter class in the MIDDLE of a chain: a class one or two levels below the root declares a further operator over ITS class;
		# the classes below it are operands (and receivers), one of them may override it
		mid_ops: dict[str, tuple[str, list[str]]] = {}
		mids = [c for c in classes if 1 <= depth[c] <= 2 and any(parent_of[x] == c for x in classes)]
		spare = [x for x in tokens if x not in ops and (scalar is None or x != scalar[0])]
		if mids and spare and rng.random() < 0.7:
			mcls, dm = rng.choice(mids), rng.choice(spare)
			below = [c for c in classes if c == mcls or mcls in self._ancestry(parent_of, c)]
			out_idx = out.index(f'class {mcls}({parent_of[mcls]}):')
			out[out_idx + 1:out_idx + 1] = [f"\tdef {dm}(self, other: '{mcls}') -> '{mcls}':", f'\t\treturn {mcls}(self.v - other.v)', '']
			for c in below:
				ret[(c, dm)] = mcls
			deep = [c for c in below if depth[c] >= depth[mcls] + 2]
			if deep and rng.random() < 0.5:
				ocls = rng.choice(deep)
				o_idx = out.index(f'class {ocls}({parent_of[ocls]}):')
				out[o_idx + 1:o_idx + 1] = [f"\tdef {dm}(self, other: '{mcls}') -> '{ocls}':", f'\t\treturn {ocls}(self.v)', '']
				for c in below:
					if c == ocls or ocls in self._ancestry(parent_of, c):
						ret[(c, dm)] = ocls
			mid_ops[dm] = (mcls, below)

		def decl(expr: str) -> str:
			v = self.fresh('v')
			body.append(f'\t{v} = {expr}')
			return v

		inst = {c: decl(f'{c}({rng.randint(1, 9)})') for c in classes}
		pairs = [(l, r, d) for l in classes for r in classes for d in ops] + [(l, r, dm) for dm, (_, below) in mid_ops.items() for l in below for r in below]
		rng.shuffle(pairs)
		# first the combinations in which the two operands' classes answer the operator DIFFERENTLY (the left one decides) — those with the
		# operand three or more levels below the parameter class first —, then any
		def far(lrd: tuple[str, str, str]) -> int:
			return depth[lrd[1]] - (depth[mid_ops[lrd[2]][0]] if lrd[2] in mid_ops else 0)
		pairs.sort(key=lambda lrd: (ret[(lrd[0], lrd[2])] == ret[(lrd[1], lrd[2])], -min(far(lrd), 3)))
		n_diff = sum(1 for l, r, d in pairs if ret[(l, d)] != ret[(r, d)])
		pairs = pairs[:min(n_diff, 5)] + rng.sample(pairs[min(n_diff, 5):], min(len(pairs) - min(n_diff, 5), rng.randint(2, 4)))
		made: list[tuple[str, str]] = []    # (variable, class)
		for l, r, d in pairs:
			e = f'{inst[l]} {tokens[d]} {inst[r]}'
			if far((l, r, d)) >= 3:
				self.count('operator:operand-3-or-more-levels-below')
			x = decl(e)
			made.append((x, ret[(l, d)]))
			u = rng.random()
			if u < 0.3:
				decl(f'({e}).v')
			elif u < 0.5:
				decl(f'[{e}, {x}]')
			elif u < 0.75:
				# a chain: the second step dispatches on the result class of the first
				d2 = rng.choice(ops)
				r2 = rng.choice(classes)
				if tokens[d2] in '+-' and tokens[d] in '+-' or tokens[d2] in '*/%' and tokens[d] in '*/%' or d2 == d:
					y = decl(f'{e} {tokens[d2]} {inst[r2]}')
				else:
					y = decl(f'({e}) {tokens[d2]} {inst[r2]}')
				made.append((y, ret[(ret[(l, d)], d2)]))
			self.count(f'operator:{"override" if ret[(l, d)] != root else "base"}:{"derived-operand" if depth[r] > depth[l] else "same" if r == l else "other-operand"}')
		if scalar:
			d, st, lit_ = scalar
			c = rng.choice(classes)
			decl(f'{inst[c]} {tokens[d]} {lit_}')
			if d == '__lshift__' and st == 'int':
				# a shift is typed by the LEFT operand's method without looking at the operand (traits.py:205-207): `2 << r` is typed int
				# although CPython answers r.__rlshift__(2) (known finding shift-reflected-user-operand): low rate, result unused
				if rng.random() < (0.25 if self.known_rate is None else self.known_rate):
					decl(f'{lit_} {tokens[d]} {inst[c]}')
					self.count('shift-reflected-user-operand')
			elif st != 'str' or d != '__mod__':     # "w" % obj is str formatting
				decl(f'{lit_} {tokens[d]} {inst[c]}')
			decl(f'({inst[c]} {tokens[d]} {lit_}).v')
			self.count(f'operator:scalar:{st}')
		for x, _ in made[:3]:
			decl(f'{x}.v')
		if rng.random() < 0.6:
			# two UNRELATED classes that declare the same operator over each other: the left operand's declaration decides
			u, w = self.fresh('U'), self.fresh('W')
			d = rng.choice(list(tokens))
			for me, you in ((u, w), (w, u)):
				out += ['', '', f'class {me}:', '	v: int', '', '	def __init__(self, v: int) -> None:', '		self.v = v', '',
					f"	def {d}(self, other: '{you}') -> '{me}':", f'		return {me}(self.v + other.v)']
			iu, iw = decl(f'{u}(1)'), decl(f'{w}(2)')
			x = decl(f'{iu} {tokens[d]} {iw}')
			decl(f'[{iw} {tokens[d]} {iu}, {iw} {tokens[d]} {iu}]')
			decl(f'{x}.v')
			self.count('operator:unrelated-classes')
		return out, body

	def generate(self) -> tuple[str, dict[str, int]]:
		rng = self.rng
		out: list[str] = []
		use_enum = rng.random() < 0.6 and not self.modelled
		use_generic = rng.random() < 0.5 and not self.modelled
		imports = []
		if use_enum:
			imports.append('from enum import Enum')
		if use_generic:
			imports.append('from typing import Generic, TypeVar')
		use_alias = rng.random() < 0.7 and not self.modelled
		if use_alias:
			imports.append('from typing import TypeAlias')
		use_callbacks = rng.random() < 0.6
		if use_callbacks:
			imports.append('from collections.abc import Callable')
		use_iter = rng.random() < (0.9 if self.modelled else 0.6)
		if use_iter:
			imports.append('from collections.abc import Iterator')
		use_shadow = rng.random() < 0.7 and not self.modelled
		if use_shadow:
			imports.append('from typing import ClassVar')
		out += imports
		if use_shadow:
			out += self.shadow_block()
		if use_generic:
			out += ['', "T = TypeVar('T')"]
		enum_name = None
		if use_enum:
			enum_name = self.fresh('E')
			members = [self.fresh('M') for _ in range(rng.randint(2, 3))]
			out += ['', '', f'class {enum_name}(Enum):'] + [f'\t{m} = {i}' for i, m in enumerate(members)]
			self.count('enum')
		# a base class
		base = self.fresh('C')
		attrs: list[tuple[str, str, str]] = []  # (name, annotation, init expression over the ctor parameter `n: int`)
		hetero_init = '[n]'
		if self.allow_hetero and rng.random() < 0.5:
			hetero_init, self.allow_hetero = '[n, None]', False
		kinds = rng.sample(['int', 'str', 'float', 'bool', 'list[int]', 'dict[str, int]', 'int | None', 'list[int | None]', 'list[str]', 'tuple[int, str]'], rng.randint(2, 5))
		for k in kinds:
			a = self.fresh('a')
			init = {
				'int': 'n + 1', 'str': 'str(n)', 'float': 'n / 2', 'bool': 'n > 1', 'list[int]': '[n, n + 1]', 'dict[str, int]': '{"k": n}',
				'int | None': 'None if n > 5 else n', 'list[int | None]': hetero_init, 'list[str]': '[str(n), "z"]', 'tuple[int, str]': '(n, "t")',
			}[k]
			attrs.append((a, k, init))
			self.count(f'attr:{k}')
		self.base_attr = attrs[0][0]
		out += ['', '', f'class {base}:'] + [f'\t{a}: {k}' for a, k, _ in attrs]
		out += ['', '\tdef __init__(self, n: int) -> None:'] + [f'\t\tself.{a} = {init}' for a, _, init in attrs]
		getters: list[tuple[str, str]] = []
		for a, k, _ in attrs:
			if rng.random() < 0.7:
				m = self.fresh('get')
				out += ['', f'\tdef {m}(self) -> {k}:', f'\t\treturn self.{a}']
				getters.append((m, k))
		meth = self.fresh('calc')
		out += ['', f'\tdef {meth}(self, k: int) -> int:', f'\t\treturn k + {rng.randint(1, 9)}']
		sub = None
		if rng.random() < 0.5:
			sub = self.fresh('D')
			out += ['', '', f'class {sub}({base}):', '\tdef __init__(self, n: int) -> None:', '\t\tsuper().__init__(n + 1)', '',
				f'\tdef {meth}(self, k: int) -> int:', f'\t\treturn k * {rng.randint(2, 5)}']
			self.count('inherit')
		gen_cls = None
		generic_body: list[str] = []
		if use_generic:
			gen_cls = self.fresh('G')
			out += ['', '', f'class {gen_cls}(Generic[T]):', '\tdata: list[T]', '', '\tdef __init__(self) -> None:', '\t\tself.data = []', '',
				'\tdef push(self, v: T) -> None:', '\t\tself.data.append(v)', '', '\tdef top(self) -> T:', '\t\treturn self.data[0]', '',
				'\tdef all(self) -> list[T]:', '\t\treturn self.data']
			self.count('generic')
			gdefs, generic_body = self.generic_block(base)
			out += gdefs
			if rng.random() < 0.7:
				cdefs2, cbody2 = self.generic_chain_block(base)
				out += cdefs2
				generic_body += cbody2
			if rng.random() < 0.85:
				ddefs, dbody = self.generic_deep_block()
				out += ddefs
				generic_body += dbody
			if rng.random() < 0.8:
				kdefs, kbody = self.classmethod_block()
				out += kdefs
				generic_body += kbody
		callback_body: list[str] = []
		if use_callbacks:
			cdefs, callback_body = self.callback_block()
			out += cdefs
		ndefs, nullable_body = self.nullable_block(base, meth) if rng.random() < 0.75 else ([], [])
		out += ndefs
		if rng.random() < 0.6:
			mdefs, mbody = self.multi_inherit_block()
			out += mdefs
			nullable_body += mbody
		if use_alias:
			adefs, abody = self.alias_block()
			out += adefs
			nullable_body += abody
		if rng.random() < 0.75 and not self.modelled:
			odefs, obody = self.operator_block()
			out += odefs
			nullable_body += obody
		it_cls = itb_cls = None
		it_ty = rng.choice(['int', 'str', 'float'])
		if use_iter:
			# user iterators: the classic protocol (`__iter__` returns the object itself, `__next__` the elements), declared in either
			# order, and an iterable that is not its own iterator (`__iter__ -> Iterator[T]`)
			it_cls, itb_cls = self.fresh('It'), self.fresh('Seq')
			m_iter = [f"\tdef __iter__(self) -> '{it_cls}':", '\t\treturn self', '']
			m_next = [f'\tdef __next__(self) -> {it_ty}:', '\t\tif self.i >= len(self.items):', '\t\t\traise StopIteration()', '',
				'\t\tself.i = self.i + 1', '\t\treturn self.items[self.i - 1]', '']
			first, second = (m_iter, m_next) if rng.random() < 0.5 else (m_next, m_iter)
			out += ['', '', f'class {it_cls}:', '\ti: int', f'\titems: list[{it_ty}]', '', f'\tdef __init__(self, items: list[{it_ty}]) -> None:',
				'\t\tself.i = 0', '\t\tself.items = items', ''] + first + second
			out += ['', f'class {itb_cls}:', f'\titems: list[{it_ty}]', '', f'\tdef __init__(self, items: list[{it_ty}]) -> None:', '\t\tself.items = items', '',
				f'\tdef __iter__(self) -> Iterator[{it_ty}]:', '\t\treturn iter(self.items)']
			self.count(f'iterator:{it_ty}')
		# a helper function returning an object / optional
		mk = self.fresh('mk')
		out += ['', '', f'def {mk}(n: int) -> {base}:', f'\treturn {base}(n)']
		opt = self.fresh('opt')
		out += ['', '', f'def {opt}(n: int) -> {base} | None:', f'\treturn {base}(n) if n > 0 else None']
		# main
		body: list[str] = []
		env: list[tuple[str, X.Ty]] = [('a', X.INT), ('p', X.BOOL), ('s', X.STR), ('b', X.FLOAT)]

		def decl(expr: str) -> str:
			v = self.fresh('v')
			body.append(f'\t{v} = {expr}')
			return v

		o1 = decl(f'{base}(a)')
		o2 = decl(f'{mk}({self.scalar_expr("int", env)})')
		objs = [o1, o2]
		lobjs = [o1, o2]
		if sub:
			objs.append(decl(f'{sub}(2)'))
			# a list literal over a class AND its subclass is typed list<Union<C, D>>, on whose elements no attribute resolves
			# (known finding union-of-subclasses-attribute, proposed/C03-union-of-subclasses-attribute.md): low rate
			if rng.random() < 0.12:
				lobjs.append(objs[-1])
				self.count('list-of-base-and-subclass')
		lst = decl('[' + ', '.join(lobjs) + ']')
		self.count('list-of-objects')
		for a, k, _ in attrs:
			r = rng.random()
			if r < 0.6:
				decl(f'{rng.choice(objs)}.{a}')
			if r > 0.3:
				decl(f'{lst}[{rng.randint(0, len(lobjs) - 1)}].{a}')
			if k.startswith('list[') and rng.random() < 0.7:
				x = decl(f'{o1}.{a}[0]')
				decl(f'[z for z in {o2}.{a}]')
				decl(f'{o1}.{a}.copy()')
				self.count('attr-list-ops')
			if k.startswith('dict[') and rng.random() < 0.7:
				decl(f'{o1}.{a}["k"]')
				decl(f'[kk for kk in {o1}.{a}]')
				decl(f'{{kk: vv for kk, vv in {o1}.{a}.items()}}')
			if k.startswith('tuple[') and rng.random() < 0.7:
				decl(f'{o1}.{a}[0]')
				decl(f'{o1}.{a}[1]')
				decl(f"{o1}.{a}[{rng.choice(['', '0', '1', '2', '-1', '-2', '+1'])}:{rng.choice(['', '', '1', '2', '3', '-1', '-3'])}]")
		for m, k in getters:
			if rng.random() < 0.8:
				decl(f'{rng.choice(objs)}.{m}()')
		decl(f'{o1}.{meth}({self.scalar_expr("int", env)})')
		decl(f'[x.{meth}(1) for x in {lst}]')
		decl(f'{{x.{meth}(0): x for x in {lst}}}')
		ov = decl(f'{opt}(a)')
		decl(f'{ov}.{meth}(1) if {ov} is not None else 0')
		decl(f'[{ov}, {ov}]')
		decl(f'({o1}, a, s)')
		if rng.random() < 0.6:
			# list literals whose earlier items carry less type information than a later one of the same container class (on_list keeps the
			# LAST element type per class): empty containers first, then containers of objects / scalars
			e0, e1 = rng.choice([('[]', f'[{o1}]'), ('{}', f'{{"k": {o2}}}'), ('[[]]', f'[[{o1}, {o2}]]'), ('[]', '[a, 1]'), ('{}', '{s: b}'), ('[]', f'[({o1}, a)]')])
			w = decl('[' + ', '.join([e0] * rng.randint(1, 2) + [e1]) + ']')
			decl(f'{w}[{rng.randint(0, 1)}]')
			decl(f'[z for z in {w}]')
			if e1 == f'[{o1}]':
				decl(f'{w}[-1][0].{self.base_attr}')
			self.count('list-literal:empty-first')
		if enum_name:
			e1 = decl(f'{enum_name}.{members[0]}')
			e2 = decl(f'{enum_name}.{members[1]} if p else {e1}')
			decl(f'{e1}.value')
			decl(f'{{{e1}: {o1}}}')
			decl(f'[{e1}, {e2}]')
			decl(f'{e1} == {e2}')
		if gen_cls:
			inner = rng.choice(['int', 'str', base])
			g = decl(f'{gen_cls}[{inner}]()')
			val = {'int': 'a', 'str': 's', base: o1}[inner]
			body.append(f'\t{g}.push({val})')
			decl(f'{g}.top()')
			decl(f'{g}.all()')
			decl(f'{g}.data')
			decl(f'[w for w in {g}.all()]')
			body += generic_body
		body += callback_body + nullable_body
		for c in self.shadow_calls:
			decl(c)
		if it_cls and itb_cls:
			vals = {'int': '[1, 2, 3]', 'str': '["a", "bc"]', 'float': '[0.5, 1.5]'}[it_ty]
			for cls in (it_cls, itb_cls):
				x = self.fresh('e')
				body.append(f'\tfor {x} in {cls}({vals}):')
				body.append(f'\t\t{self.fresh("v")} = {x}')
				decl(f'[{x} for {x} in {cls}({vals})]')
				decl(f'{{{x}: 1 for {x} in {cls}({vals})}}')
				decl(f'[[{x}, {x}] for {x} in {cls}({vals}) if {x} == {x}]')
		# ternaries whose branches share the generic class but not its arguments: a Union of both, whichever branch runs
		pairs = [('[a, 1]', '[b]'), ('{"k": a}', '{"k": s}'), ('(a, s)', '(s, a)'), ('[[a]]', '[[b]]'), ('{a: [a]}', '{a: [s]}'), ('[s]', '[a]')]
		for x, y in rng.sample(pairs, 2):
			decl(f"{x} if {rng.choice(['p', 'not p', 'a > 2'])} else {y}")
		# loops
		i, y = self.fresh('i'), self.fresh('y')
		body.append(f'\tfor {i}, {y} in enumerate({lst}):')
		body.append(f'\t\t{self.fresh("v")} = {y}.{meth}({i})')
		body.append(f'\tfor {self.fresh("y")} in {lst}:')
		body.append(f'\t\t{self.fresh("v")} = {self.scalar_expr(rng.choice(SCALARS), env)}')
		# a few generated expressions over the scalars
		for _ in range(rng.randint(2, 5)):
			g2 = X.Gen(rng, env, 'search', session=None)
			t = g2.pick_ty(2)
			decl(g2.expr(t, rng.randint(1, 3)).text)
		main = self.fresh('main')
		out += ['', '', f'def {main}(a: int, p: bool, s: str, b: float) -> None:'] + body
		src = '\n'.join(out) + '\n'
		self.entry = main
		return src, self.hist


def generate(rng: random.Random, allow_hetero: bool = False, modelled: bool = False) -> tuple[str, str, list[list[Any]], dict[str, int]]:
	g = ProgGen(rng, allow_hetero, modelled)
	src, hist = g.generate()
	args = [[rng.choice([0, 1, 3, 9]), rng.random() < 0.5, rng.choice(['', 'ab', 'x y']), rng.choice([0.5, 2.0])] for _ in range(3)]
	return src, g.entry, args, hist
