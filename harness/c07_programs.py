"""C07 — seed material of the failing-input search: small valid programs, the grammar alphabet, ill-typed templates.

Kept apart from harness/c07.py so that the corpus is easy to read and extend. Every program is tab-indented like tranp's own sources.
"""
from __future__ import annotations

import os
import random
import re
from typing import Any

from harness.common import REPO

# ---------------------------------------------------------------------------------------------
# small valid programs (each transpiles with Py2Cpp on the pinned tree; checked at run time and reported in the histogram)

VALID_PROGRAMS: list[str] = [
	# 0 plain functions and arithmetic
	'''a: int = 1
b: float = 2.5
def add(x: int, y: int) -> int:
	return x + y * 2 - a
def neg(x: float) -> float:
	return -x / b
''',
	# 1 class with ctor, method, property
	'''class P:
	n: int
	s: str
	def __init__(self, n: int, s: str) -> None:
		self.n = n
		self.s = s
	def inc(self, d: int) -> int:
		return self.n + d
	@property
	def name(self) -> str:
		return self.s
def use() -> int:
	p = P(1, 'a')
	t = p.name
	return p.inc(2)
''',
	# 2 control flow
	'''def f(n: int) -> int:
	t = 0
	for i in range(n):
		if i % 2 == 0:
			t += i
		elif i > 10:
			break
		else:
			continue
	while t > 100:
		t -= 1
	return t
''',
	# 3 containers
	'''def g() -> None:
	xs: list[int] = [1, 2, 3]
	d: dict[str, int] = {'a': 1}
	ys = [x * 2 for x in xs]
	e = {k: v for k, v in d.items()}
	xs.append(4)
	n = xs[0]
	m = d['a']
	z = len(xs)
	for k, v in d.items():
		print(k, v)
''',
	# 4 enum + class var
	'''from enum import Enum
from typing import ClassVar
class Color(Enum):
	R = 0
	G = 1
class K:
	cnt: ClassVar[int] = 0
	@classmethod
	def make(cls) -> 'K':
		return cls()
def pick(c: Color) -> int:
	if c == Color.R:
		return 0
	return K.cnt
''',
	# 5 inheritance + abstract
	'''from abc import ABCMeta, abstractmethod
class Base(metaclass=ABCMeta):
	@abstractmethod
	def run(self) -> int: ...
	def twice(self) -> int:
		return self.run() * 2
class Sub(Base):
	def run(self) -> int:
		return 3
def call(b: Base) -> int:
	return b.twice()
''',
	# 6 generics
	'''from typing import Generic, TypeVar
T = TypeVar('T')
class Box(Generic[T]):
	v: T
	def __init__(self, v: T) -> None:
		self.v = v
	def get(self) -> T:
		return self.v
def unbox() -> int:
	b = Box[int](1)
	return b.get()
''',
	# 7 try / raise / with-less
	'''def h(n: int) -> str:
	try:
		if n < 0:
			raise RuntimeError()
		return 'ok'
	except RuntimeError as e:
		print(e)
		return 'neg'
	except Exception as e:
		raise RuntimeError() from e
''',
	# 8 strings
	'''def s(a: str, n: int) -> str:
	t = f'{a}:{n}'
	u = a.split(',')[0]
	w = '{} {}'.format(a, n)
	if a.startswith('x') and not a.endswith('y'):
		return t + u
	return w
''',
	# 9 lambda / callable / ternary
	'''from collections.abc import Callable
def apply(f: Callable[[int], int], n: int) -> int:
	return f(n)
def k() -> int:
	g = lambda: 1
	v = 1 if g() > 0 else 2
	return apply(lambda x: x + v, 3)
''',
	# 10 tuple / unpack / union / none
	'''def t() -> tuple[int, str]:
	return 1, 'a'
def u(x: int | None) -> int:
	a, b = t()
	if x is None:
		return a
	return x
''',
	# 11 type alias / nested class / comparison chain
	'''from typing import ClassVar, TypeAlias
DSI: TypeAlias = dict[str, int]
class Outer:
	class Inner:
		v: ClassVar[int] = 0
	def f(self, d: DSI) -> bool:
		i = Outer.Inner()
		return Outer.Inner.v in d.values() or 1 < 2 and not False
''',
	# 12 cpp compat layer
	'''from rogw.tranp.compatible.cpp.cvar import CP, CSP
from rogw.tranp.compatible.cpp.preprocess import c_include, c_pragma
c_pragma('once')
c_include('<memory>')
class A:
	def m(self) -> int:
		return 1
def p() -> int:
	a = A()
	ap = CP(a)
	sp = CSP.new(A())
	return ap.on.m() + sp.on.m()
''',
	# 13 bit ops / slices / del / assert
	'''def b(xs: list[int], n: int) -> int:
	m = n & 3 | 4 ^ 1
	m = m << 1 >> 1
	ys = xs[1:3]
	zs = xs[::2]
	assert n > 0, 'positive'
	del xs[0]
	return ~m + ys[0] + zs[-1]
''',
	# 14 docstrings, comments, decorators with args
	'''from rogw.tranp.compatible.python.embed import Embed
class D:
	"""doc of D"""
	@Embed.public
	def f(self, n: int = 1, *args: int, **kwargs: str) -> None:
		"""doc of f

		Args:
			n: number
		"""
		# a comment
		pass
''',
]


# programs that import from their own module (`__SELF__` is replaced by the module's path: `__main__` in memory, `fz.m<N>` on disk):
# a one-module import cycle that loads fine — what matters is what the NEXT input of the same session does (unload cascade)
SELF_IMPORT_PROGRAMS: list[str] = [
	'from __SELF__ import A\nclass A: ...\na = A()\n',
	'from __SELF__ import f\ndef f() -> int:\n\treturn 1\nx = f()\n',
	'from __SELF__ import A, B\nclass A: ...\nclass B(A): ...\n',
	'from __SELF__ import A\nfrom __SELF__ import A as A2\nclass A:\n\tdef m(self) -> int:\n\t\treturn 1\n',
	'from __SELF__ import Missing\nclass A: ...\n',
	'from __SELF__ import A\nclass A:\n\tdef f(self) -> int:\n\t\treturn self.y\n',
]

# ends of file: what follows the last statement (the final line feed is removed first). Unterminated last lines with and without
# content, indentation-only tails inside and outside the open block, form feed, CR LF, comment, continuation.
EOF_TAILS: list[str] = ['', '\n\t', '\n\t\t', '\n    ', '\n\t\t\t\t', '\n \t', '\n\n\t', '\n\t\n\t', ' ', '\t', '\n#', '\n\t# c', '\r\n\t', '\n\x0c', '\n\\', '\n\tpass']


def with_tail(src: str, tail: str) -> str:
	return src.rstrip('\n') + tail


# depth stress: a well-formed, ill-typed program whose REPORTED node (the undefined name) sits `d` levels deep in the expression tree.
# Node.__str__ walks the ancestor chain (≈ 4 Python frames per level): from ≈ 250 levels on, printing the node needs the renderer's fallback.
DEPTH_KINDS: dict[str, Any] = {
	'paren': lambda d: 'a = ' + '(' * d + 'undefined_name' + ')' * d,
	'list': lambda d: 'a = ' + '[' * d + 'undefined_name' + ']' * d,
	'minus': lambda d: 'a = ' + '-' * d + 'undefined_name',
	'tuple': lambda d: 'a = ' + '(' * d + 'undefined_name' + ',)' * d,
	'not': lambda d: 'a = ' + 'not ' * d + 'undefined_name',
	'call': lambda d: 'a = ' + 'print(' * d + 'undefined_name' + ')' * d,
	'index': lambda d: 'a = undefined_name' + '[0]' * d,
	'attr': lambda d: 'a = undefined_name' + '.b' * d,
}


def depth_cases(thorough: bool) -> list[tuple[str, str]]:
	"""(mode or 'both', source)"""
	out: list[tuple[str, str]] = []
	if thorough:
		for kind, f in DEPTH_KINDS.items():
			for d in (10, 100, 200, 250, 300, 450, 600):
				if (kind, d) in (('attr', 600), ('call', 300), ('call', 450)):
					continue  # seconds of CPU each without reaching a different site
				out.append(('both', f(d) + '\n'))
	else:
		for kind in ('paren', 'list', 'minus', 'tuple'):
			for d in ((10, 100, 250, 300, 600) if kind == 'paren' else (100, 250, 300)):
				out.append(('in-memory', DEPTH_KINDS[kind](d) + '\n'))
			out.append(('on-disk', DEPTH_KINDS[kind](300) + '\n'))
		for kind in ('not', 'index'):
			out.append(('in-memory', DEPTH_KINDS[kind](300) + '\n'))
	return out


# multi-file inputs (harness/c07_pipeline.py): the main text imports a chain of sibling modules; the LEAF is what varies.
# `__M__<name>` = module path of sibling <name>; `#%%FILE <name>` starts a sibling's text, `#%%MISSING <name>` declares one without a file.
PROJECT_SHAPES: dict[str, str] = {
	'depth1': 'from __M__leaf import L\nclass Top(L): ...\n#%%{LEAF}',
	'depth2': 'from __M__mid import Mid\nclass Top(Mid): ...\n#%%FILE mid\nfrom __M__leaf import L\nclass Mid(L): ...\n#%%{LEAF}',
	'depth3': 'from __M__a import A\nclass Top(A): ...\n#%%FILE a\nfrom __M__b import B\nclass A(B): ...\n#%%FILE b\nfrom __M__leaf import L\nclass B(L): ...\n#%%{LEAF}',
	'diamond': 'from __M__x import X\nfrom __M__y import Y\nclass Top(X): ...\n#%%FILE x\nfrom __M__leaf import L\nclass X(L): ...\n#%%FILE y\nfrom __M__leaf import L\nclass Y(L): ...\n#%%{LEAF}',
	'healthy-sibling-first': 'from __M__ok import K\nfrom __M__mid import Mid\nclass Top(Mid): ...\n#%%FILE ok\nclass K: ...\n#%%FILE mid\nfrom __M__ok import K\nfrom __M__leaf import L\nclass Mid(L): ...\n#%%{LEAF}',
}
LEAF_VALID = 'class L:\n\tdef f(self) -> int:\n\t\treturn 1\n'
LEAF_BROKEN: list[str] = ['class L:\n\tdef f(self) -> int:\n\t\treturn (1\n', 'class L(:\n', 'class L:\n\t\tx: int = 1\n\ty: int = 2\n', 'class L: $\n', 'class L:\n\tdef f(self) -> int\n\t\treturn 1\n']


def project_inputs(rng: random.Random, n_mutated: int) -> list[tuple[str, str, bool]]:
	"""(label, multi-file text, leaf_rejected_by_construction): every shape with a valid leaf, each broken leaf, a missing leaf file, and
	token-mutated leaves (whether those still parse is decided by lark at run time)."""
	out: list[tuple[str, str, bool]] = []
	for shape, text in PROJECT_SHAPES.items():
		out.append((f'{shape}/valid', text.replace('{LEAF}', f'FILE leaf\n{LEAF_VALID}'), False))
		for b in LEAF_BROKEN:
			out.append((f'{shape}/broken', text.replace('{LEAF}', f'FILE leaf\n{b}'), True))
		out.append((f'{shape}/missing', text.replace('{LEAF}', 'MISSING leaf\n'), True))
	shapes = list(PROJECT_SHAPES.items())
	for _ in range(n_mutated):
		shape, text = rng.choice(shapes)
		leaf = ''.join(mutate_tokens(rng, tokens_of(LEAF_VALID)))
		if '#%%' in leaf or '__M__' in leaf:
			continue
		out.append((f'{shape}/mutated-leaf', text.replace('{LEAF}', f'FILE leaf\n{leaf}'), False))
	return out


def fixture_programs() -> list[tuple[str, str]]:
	"""(name, source) of the repository's own valid sources used as mutation seeds (tests' fixtures, example/)."""
	rels = [
		'tests/unit/rogw/tranp/implements/cpp/transpiler/fixtures/fixture_py2cpp_edge.py',
		'tests/unit/rogw/tranp/implements/cpp/transpiler/fixtures/fixture_py2cpp_error.py',
		'tests/unit/rogw/tranp/semantics/fixtures/fixture_reflections_error.py',
		'tests/unit/rogw/tranp/semantics/reflection/fixtures/fixture_db_xyz.py',
		'tests/unit/rogw/tranp/syntax/node/fixtures/fixture_node.py',
		'tests/unit/rogw/tranp/implements/transpiler/fixtures/fixture_evaluator.py',
		'tests/unit/rogw/tranp/syntax/node/fixtures/fixture_definition.py',
	]
	out = []
	for r in rels:
		p = os.path.join(REPO, r)
		if os.path.exists(p):
			with open(p, encoding='utf-8') as f:
				out.append((r, f.read()))
	return out


def big_fixture_chunks() -> list[tuple[str, str]]:
	"""The large py2cpp fixture cut at top-level class/def boundaries: header (imports … class Sub) + one chunk each."""
	p = os.path.join(REPO, 'tests/unit/rogw/tranp/implements/cpp/transpiler/fixtures/fixture_py2cpp.py')
	if not os.path.exists(p):
		return []
	with open(p, encoding='utf-8') as f:
		lines = f.read().split('\n')
	starts = [i for i, ln in enumerate(lines) if re.match(r'(class |def |@)', ln) and (i == 0 or not lines[i - 1].startswith('@'))]
	if not starts:
		return []
	# header = everything up to and including class Sub
	hdr_end = next((s for s in starts if lines[s].startswith('class DeclOps')), starts[min(3, len(starts) - 1)])
	header = '\n'.join(lines[:hdr_end])
	out = []
	bounds = [s for s in starts if s >= hdr_end] + [len(lines)]
	for a, b in zip(bounds, bounds[1:]):
		body = '\n'.join(lines[a:b]).rstrip('\n')
		if body.strip():
			out.append((f'fixture_py2cpp.py:{a + 1}', f'{header}\n{body}\n'))
	return out


def large_sources() -> list[tuple[str, str]]:
	"""Whole large modules (thorough tier only: each transpile takes seconds)."""
	out = []
	for r in ['example/json.py', 'example/FW/string.py', 'tests/unit/rogw/tranp/implements/cpp/transpiler/fixtures/fixture_py2cpp.py',
			'tests/unit/rogw/tranp/semantics/fixtures/fixture_reflections.py']:
		p = os.path.join(REPO, r)
		if os.path.exists(p):
			with open(p, encoding='utf-8') as f:
				out.append((r, f.read()))
	return out


# ---------------------------------------------------------------------------------------------
# alphabet of data/grammar.lark (keywords, operators, brackets, literals, names, layout)

KEYWORDS = ['from', 'import', 'as', 'class', 'def', 'lambda', 'if', 'elif', 'else', 'while', 'for', 'in', 'try', 'except', 'with', 'del', 'return',
	'yield', 'assert', 'raise', 'break', 'pass', 'continue', 'or', 'and', 'not', 'is', 'True', 'False', 'None', 'metaclass', 'Annotated', 'Literal',
	'ClassVar', 'TypeAlias', 'TypedDict', 'TypeVar', 'TypeVarTuple', 'ParamSpec', 'bound', 'covariant']
OPERATORS = ['+', '-', '*', '/', '%', '**', '//', '<<', '>>', '&', '|', '^', '~', '<', '>', '==', '>=', '<=', '<>', '!=', '=', '+=', '-=', '*=', '@=', '/=',
	'%=', '&=', '|=', '^=', '<<=', '>>=', '**=', '//=', '->', '.', ',', ':', ';', '@', '...', "'"]
BRACKETS = ['(', ')', '[', ']', '{', '}']
LITERALS = ['0', '1', '42', '0x1F', '1.5', '1e3', "'s'", '"d"', "f'{a}'", "'''t'''", "b'x'", "r'\\d'", "''"]
NAMES = ['a', 'b', 'x', 'self', 'cls', 'int', 'str', 'list', 'dict', 'T', 'A', 'f', 'print', 'range', 'len', '__init__', 'super', 'object', 'Enum']
LAYOUT = ['\n', '\n\t', '\n\t\t', '\n', ' ', '\t', '# c\n', '\\\n']
ALPHABET = KEYWORDS + OPERATORS + BRACKETS + LITERALS + NAMES + LAYOUT

TOKEN_RE = re.compile(r"""
	(?P<nl>\r?\n[\t ]*)
	|(?P<ws>[ \t\f]+)
	|(?P<com>\#[^\n]*)
	|(?P<str>(?:[rbfRBF]{0,2})(?:'''(?:\\.|[^\\])*?'''|\"\"\"(?:\\.|[^\\])*?\"\"\"|'(?:\\.|[^'\\\n])*'|"(?:\\.|[^"\\\n])*"))
	|(?P<num>0[xX][0-9a-fA-F]+|\d+\.\d*(?:[eE][+-]?\d+)?|\.\d+|\d+(?:[eE][+-]?\d+)?)
	|(?P<name>[A-Za-z_][A-Za-z_0-9]*)
	|(?P<op>\*\*=|//=|<<=|>>=|\.\.\.|->|\*\*|//|<<|>>|<=|>=|==|!=|<>|\+=|-=|\*=|/=|%=|&=|\|=|\^=|@=|[-+*/%&|^~<>=.,:;@()\[\]{}])
	|(?P<other>.)
""", re.X | re.S)


def tokens_of(src: str) -> list[str]:
	"""Lossless split of a source text into lexical pieces (join gives the text back)."""
	return [m.group(0) for m in TOKEN_RE.finditer(src)]


# ---------------------------------------------------------------------------------------------
# mutations


def mutate_bytes(rng: random.Random, data: bytes) -> bytes:
	b = bytearray(data)
	for _ in range(rng.choice([1, 1, 1, 2, 3, 5])):
		if not b:
			b.extend(rng.randbytes(1))
			continue
		k = rng.randrange(len(b))
		r = rng.random()
		if r < 0.25:
			b[k] ^= 1 << rng.randrange(8)
		elif r < 0.45:
			del b[k]
		elif r < 0.65:
			b.insert(k, rng.choice(b'()[]{}:,.=\'"\\\n\t #@*-+<>0aZ_\x00\x0c\r\xc3\xe3\xff'))
		elif r < 0.8:
			b[k] = rng.choice(b'()[]{}:,.=\'"\\\n\t #@*-+<>0aZ_\x00\x0c\r\xc3\xe3\xff')
		elif r < 0.9:
			j = rng.randrange(len(b))
			lo, hi = min(k, j), min(max(k, j), min(k, j) + 40)
			b[lo:lo] = b[lo:hi]
		else:
			j = min(len(b), k + rng.randint(1, 30))
			del b[k:j]
	return bytes(b)


def mutate_tokens(rng: random.Random, toks: list[str]) -> list[str]:
	t = list(toks)
	for _ in range(rng.choice([1, 1, 1, 2, 2, 3])):
		if not t:
			t.append(rng.choice(ALPHABET))
			continue
		k = rng.randrange(len(t))
		r = rng.random()
		if r < 0.22:
			del t[k]
		elif r < 0.44:
			t[k] = rng.choice(ALPHABET)
		elif r < 0.6:
			t.insert(k, rng.choice(ALPHABET))
		elif r < 0.72:
			j = rng.randrange(len(t))
			t[k], t[j] = t[j], t[k]
		elif r < 0.82:
			t.insert(k, t[k])
		elif r < 0.88:
			# replace by a token of the same program (keeps names meaningful)
			t[k] = t[rng.randrange(len(t))]
		elif r < 0.92:
			# dot / undot a name: `X` -> `X.Y` with Y another name of the program (or a missing one), `.Y` dropped
			names = [x for x in t if re.fullmatch(r'[A-Za-z_][A-Za-z_0-9]*', x) and x not in KEYWORDS]
			idx = [i for i, x in enumerate(t) if x in names]
			if idx:
				i = rng.choice(idx)
				if i > 0 and t[i - 1] == '.' and rng.random() < 0.4:
					del t[i - 1:i + 1]
				else:
					t[i] = f"{t[i]}.{rng.choice([*names, 'Missing', 'Nope'])}"
		else:
			j = min(len(t), k + rng.randint(2, 8))
			del t[k:j]
	return t


def mutate_lines(rng: random.Random, src: str) -> str:
	ls = src.split('\n')
	k = rng.randrange(len(ls))
	r = rng.random()
	if r < 0.2:
		del ls[k]
	elif r < 0.35:
		ls.insert(k, ls[k])
	elif r < 0.5:
		ls[k] = '\t' + ls[k]
	elif r < 0.65:
		ls[k] = ls[k][1:] if ls[k].startswith('\t') else ls[k]
	elif r < 0.75:
		ls[k] = ls[k].replace('\t', '    ', 1)
	elif r < 0.87:
		j = rng.randrange(len(ls))
		ls[k], ls[j] = ls[j], ls[k]
	else:
		j = rng.randrange(len(ls))
		ls.insert(k, ls[j])
	return '\n'.join(ls)


def token_soup(rng: random.Random) -> str:
	n = rng.choice([1, 2, 3, 5, 8, 13, 21, 34])
	out = []
	for _ in range(n):
		tok = rng.choice(ALPHABET)
		out.append(tok)
		if not tok.endswith(('\n', '\t')) and rng.random() < 0.7:
			out.append(' ')
	return ''.join(out)


# ---------------------------------------------------------------------------------------------
# well-formed (grammar-valid) but ill-typed / ill-scoped programs

ILL_TYPED_TEMPLATES: list[str] = [
	"a: int = 'x'\n",
	'x = y\n',
	'def f() -> int:\n\treturn g()\n',
	'def f(a: int) -> int:\n\treturn a.b.c\n',
	'def f(a: int) -> int:\n\treturn a[0]\n',
	'def f(a: int) -> int:\n\treturn a(1)\n',
	'def f() -> None:\n\tfor i in 3:\n\t\tpass\n',
	'def f() -> None:\n\ta, b = 1\n',
	"def f() -> None:\n\ta, b = {'a': 1}\n",
	"def f() -> None:\n\tn = 1 if True else ''\n",
	'def f() -> Unknown:\n\treturn 1\n',
	'def f(a: Unknown) -> None:\n\tpass\n',
	'class A(Unknown):\n\tpass\n',
	'class A:\n\tdef f(self) -> int:\n\t\treturn self.z\n',
	'class A:\n\tpass\nclass A:\n\tpass\n',
	'def f() -> int:\n\treturn 1\ndef f() -> str:\n\treturn ""\n',
	'from nowhere.nothing import X\n',
	'from typing import NoSuchThing\nx: NoSuchThing = 1\n',
	'def f() -> None:\n\tself.x = 1\n',
	"def f() -> int:\n\treturn 'a' + 1\n",
	"def f() -> int:\n\treturn 'a' - 'b'\n",
	'def f() -> int:\n\treturn -None\n',
	'def f() -> int:\n\treturn not 1 + None\n',
	'def f(xs: list[int]) -> int:\n\treturn xs["k"]\n',
	'def f(d: dict[str, int]) -> int:\n\treturn d[0][1][2]\n',
	'def f(xs: list) -> int:\n\treturn xs[0]\n',
	'def f(xs: list[int, int, int]) -> int:\n\treturn xs[0]\n',
	'def f(d: dict[str]) -> int:\n\tfor k, v in d.items():\n\t\tpass\n\treturn 0\n',
	'def f(t: tuple[int, str]) -> int:\n\ta, b, c = t\n\treturn a\n',
	'def f() -> int:\n\treturn f\n',
	'def f() -> int:\n\treturn int\n',
	'def f() -> None:\n\tx = [][0]\n',
	'def f() -> None:\n\tx = {}\n\ty = x[0]\n',
	'def f() -> None:\n\tx = []\n\tfor y in x:\n\t\tz = y.w\n',
	'def f() -> None:\n\tx = None\n\tx.y()\n',
	'def f() -> None:\n\tx = lambda: y\n\tx()\n',
	'def f() -> None:\n\tx = [i for i in 1]\n',
	'def f() -> None:\n\tx = {k: v for k, v in [1]}\n',
	'def f() -> None:\n\tx = {k: v for k in {}}\n',
	'def f() -> None:\n\twith 1 as x:\n\t\tpass\n',
	'def f() -> None:\n\ttry:\n\t\tpass\n\texcept Nope as e:\n\t\tpass\n',
	'def f() -> None:\n\traise 1\n',
	'def f() -> None:\n\tdel 1\n',
	'def f() -> None:\n\tyield 1\n',
	'def f() -> None:\n\tbreak\n',
	'return 1\n',
	'self.x = 1\n',
	'class A:\n\tx: int = 1\n\tdef f(self) -> str:\n\t\treturn self.x.y\n',
	'class A:\n\tdef __init__(self) -> None:\n\t\tself.a = b\n',
	'class A:\n\tdef f(self) -> None:\n\t\tsuper().g()\n',
	'class A:\n\t@property\n\tdef p(self) -> int:\n\t\treturn 1\ndef f() -> None:\n\tA().p()\n',
	'class A:\n\t@classmethod\n\tdef c(cls) -> int:\n\t\treturn cls.nope\n',
	'from enum import Enum\nclass E(Enum):\n\tA = 0\ndef f() -> int:\n\treturn E.B\n',
	'from enum import Enum\nclass E(Enum):\n\tA = 0\ndef f() -> int:\n\treturn E.A.value.x\n',
	'from typing import TypeVar, Generic\nT = TypeVar("T")\nclass G(Generic[T]):\n\tdef g(self) -> T: ...\ndef f() -> int:\n\treturn G().g().x\n',
	'from typing import TypeVar, Generic\nT = TypeVar("T")\nclass G(Generic[T]):\n\tdef g(self) -> T: ...\ndef f() -> int:\n\treturn G[int, str]().g()\n',
	'from typing import TypeVar\nT = TypeVar("T")\ndef g(a: T) -> T:\n\treturn a\ndef f() -> int:\n\treturn g().x\n',
	'from typing import TypeAlias\nX: TypeAlias = Nope\n',
	'from typing import TypeAlias\nX: TypeAlias = dict[str, Nope]\ndef f(x: X) -> None:\n\ty = x["a"].b\n',
	'from typing import ClassVar\nclass A:\n\tx: ClassVar = y\n',
	'from typing import TypedDict\nD = TypedDict("D", {"a": Nope})\n',
	'from collections.abc import Callable\ndef f(c: Callable[[int], int]) -> str:\n\treturn c(1, 2).x\n',
	'from collections.abc import Callable\ndef f(c: Callable) -> None:\n\tx = c()\n',
	'from rogw.tranp.compatible.cpp.cvar import CP\ndef f() -> None:\n\tx = CP(1).raw.raw\n',
	'from rogw.tranp.compatible.cpp.cvar import CP\ndef f(a: CP) -> None:\n\tx = a.on\n',
	'from rogw.tranp.compatible.cpp.cvar import CP, CSP\ndef f(a: CP[CSP]) -> None:\n\tx = a.on.on.z\n',
	'from rogw.tranp.compatible.cpp.preprocess import c_include\nc_include()\n',
	'from rogw.tranp.compatible.cpp.preprocess import c_include\nc_include(1, 2)\n',
	'from rogw.tranp.compatible.cpp.preprocess import c_pragma\nc_pragma(x)\n',
	'from rogw.tranp.compatible.cpp.function import c_func_ref\ndef f() -> None:\n\tx = c_func_ref(1)\n',
	'from rogw.tranp.compatible.cpp.function import c_func_invoke\ndef f() -> None:\n\tx = c_func_invoke()\n',
	'from rogw.tranp.compatible.python.embed import Embed\n@Embed.nope\ndef f() -> None:\n\tpass\n',
	'from rogw.tranp.compatible.python.embed import Embed\n@Embed.alias()\nclass A:\n\tpass\n',
	'from rogw.tranp.compatible.python.embed import Embed\n@Embed.prop()\nclass A:\n\tpass\n',
	'def f() -> None:\n\tx = "a".nope()\n',
	'def f() -> None:\n\tx = "{}".format()\n',
	"def f() -> None:\n\tx = f'{y}'\n",
	"def f() -> None:\n\tx = f'{1:{2}}'\n",
	'def f() -> None:\n\tx = "%s" % nope\n',
	'def f() -> None:\n\tx = len()\n',
	'def f() -> None:\n\tx = print(sep=1).y\n',
	'def f() -> None:\n\tx = isinstance(1)\n',
	'def f() -> None:\n\tx = cast(int)\n',
	'from typing import cast\ndef f() -> None:\n\tx = cast(Nope, 1)\n',
	'from typing import cast\ndef f() -> None:\n\tx = cast(1, 1).y\n',
	'def f() -> None:\n\tx = list()\n\ty = x.pop().z\n',
	'def f() -> None:\n\tx = dict()\n\ty = x.keys().z\n',
	'def f() -> None:\n\tx = range()\n',
	'def f() -> None:\n\tx = enumerate(1)\n\tfor i, j in x:\n\t\tpass\n',
	'def f() -> None:\n\tfor i, j in enumerate():\n\t\tpass\n',
	'def f() -> None:\n\tfor i, j in [1, 2]:\n\t\tpass\n',
	'def f() -> None:\n\tfor i in range(1):\n\t\tpass\n\tx = i.y\n',
	'def f(*a, **k) -> None:\n\tpass\n',
	'def f(a, b) -> None:\n\tc = a + b\n',
	'def f(a=1) -> None:\n\tb = a.c\n',
	'lambda: x\n',
	'x = lambda a, b: a.c\n',
	'x: list[int] = [i for i in y]\n',
	'1 + 1\n',
	'(1, 2)[3]\n',
	'[1][0].x\n',
	'x = 1\nx.y = 2\n',
	'x = 1\nx[0] = 2\n',
	'x = 1\nx += "a"\n',
	'x, y = 1, 2, 3\n',
	'x = y = z\n',
	'x: int\ny = x.z\n',
	'class A:\n\tx = 1\n\ty: ClassVar = 2\n',
	'class A[T]:\n\tdef f(self) -> T: ...\n\tx = A[1]\n',
	'def f[T](a: T) -> T:\n\treturn a.b\n',
	'class A(metaclass=Nope): ...\n',
	'class A(int, str, Nope): ...\n',
	'class A: ...\nclass B(A.C): ...\n',
	'class A:\n\tclass B: ...\ndef f() -> A.C:\n\tpass\n',
	'def f() -> "A":\n\tpass\n',
	"def f() -> 'list[Nope]':\n\tpass\n",
	'def f() -> list[...]:\n\tpass\n',
	'def f() -> [int]:\n\tpass\n',
	'def f() -> None | Nope:\n\tpass\n',
	'def f() -> Literal[1]:\n\treturn 1\n',
	'def f() -> Annotated[int, x]:\n\treturn 1\n',
	'def f(a: Annotated[Nope, 1]) -> None:\n\tb = a.c\n',
	'def f(a: *int) -> None:\n\tpass\n',
	'def f(a: int = nope) -> None:\n\tpass\n',
	'def f() -> None:\n\tdef g() -> int:\n\t\treturn h\n\tg()\n',
	'def f() -> None:\n\tclass L:\n\t\tpass\n\tL().x\n',
	# dotted type annotations: the receiver resolves, the member is missing / is not a type / is a value (every annotation position)
	'from enum import Enum\nclass Color(Enum):\n\tRed = 0\nx: Color.Red = Color.Red\n',
	'class Outer:\n\tclass Inner: ...\na: Outer.Missing\n',
	'class Outer:\n\tclass Inner: ...\na: Outer.Inner.Missing = 1\n',
	'class Outer:\n\tclass Inner:\n\t\tclass Deep: ...\nb: Outer.Inner.Deep.Nope\n',
	'class Outer:\n\tclass Inner: ...\ndef f(a: Outer.Missing) -> None: ...\n',
	'class Outer:\n\tclass Inner: ...\ndef f() -> Outer.Missing: ...\n',
	'class Outer:\n\tclass Inner: ...\ndef f() -> None:\n\tv: Outer.Missing = 1\n',
	'class Outer:\n\tclass Inner: ...\ndef f(xs: list[Outer.Missing]) -> dict[str, Outer.Nope]: ...\n',
	'class Outer:\n\tclass Inner: ...\nclass Sub(Outer.Missing): ...\n',
	'class Outer:\n\tn: int = 0\n\tdef m(self) -> None: ...\na: Outer.n = 1\nb: Outer.m = 2\n',
	'class Outer:\n\tclass Inner: ...\n\tv: Outer.Nope\n\tdef m(self, p: Outer.Nope) -> None: ...\n',
	'def f() -> None:\n\tx: int.real = 1\n',
	'def f(s: str.upper, n: int.Missing) -> None: ...\n',
	'from typing import TypeAlias\nclass Outer:\n\tclass Inner: ...\nX: TypeAlias = Outer.Missing\nY: TypeAlias = dict[str, Outer.Missing]\n',
	'from typing import TypeVar, Generic\nT = TypeVar("T")\nclass G(Generic[T]):\n\tdef g(self, a: T.x) -> T.y: ...\n',
	'from typing import ParamSpec\nfrom collections.abc import Callable\nP = ParamSpec("P")\ndef f(c: Callable[P, int], *args: P.args, **kwargs: P.kwargs) -> None: ...\n',
	'from typing import ParamSpec\nP = ParamSpec("P")\ndef f(*args: P.nope, **kwargs: P.missing) -> None: ...\n',
	'from enum import Enum\nclass E(Enum):\n\tA = 0\ndef f(e: E.A) -> E.B:\n\treturn e\n',
	'class Outer:\n\tclass Inner: ...\ndef f() -> None:\n\ttry:\n\t\tpass\n\texcept Outer.Missing as e:\n\t\tpass\n',
	'from rogw.tranp.compatible.cpp.cvar import CP\nclass Outer:\n\tclass Inner: ...\ndef f(a: CP[Outer.Missing], b: CP.Missing) -> None: ...\n',
	'if x:\n\tpass\n',
	'while x.y:\n\tpass\n',
	'for i in x:\n\tpass\n',
	'with x as y:\n\tpass\n',
	'try:\n\tpass\nexcept x as e:\n\tpass\n',
	'assert x, y\n',
	'del x\n',
	'raise x from y\n',
	'yield x\n',
	'pass\n',
	'...\n',
	'"doc"\n',
	'# only a comment\n',
	'',
	'\n\n\n',
]

ILL_SUBST = ['Outer.Missing', 'A.B', 'int.real', 'E.A', 'T.x', 'self.v', 'cls.v', 'x.y.z', 'Nope', 'int', 'str', 'None', 'list[int]', 'dict[str, int]', 'A', 'T', 'x', '1', "'s'", 'self', 'cls', 'f', 'Enum', 'CP', 'CP[int]', 'Callable[[int], int]', 'tuple[int, ...]', 'type[int]']


def ill_typed(rng: random.Random) -> str:
	"""A template, optionally with one identifier swapped for another type/name (keeps the text inside the grammar most of the time)."""
	src = rng.choice(ILL_TYPED_TEMPLATES)
	if rng.random() < 0.5:
		toks = tokens_of(src)
		idx = [i for i, t in enumerate(toks) if re.fullmatch(r'[A-Za-z_][A-Za-z_0-9]*', t) and t not in KEYWORDS]
		if idx:
			toks[rng.choice(idx)] = rng.choice(ILL_SUBST)
			src = ''.join(toks)
	if rng.random() < 0.25:
		# put the program inside a function or a class body
		body = ''.join(f'\t{ln}\n' for ln in src.split('\n') if ln)
		if body:
			src = (f'def w() -> None:\n{body}' if rng.random() < 0.5 else f'class W:\n{body}')
	return src


# ---------------------------------------------------------------------------------------------
# small generated (valid by construction) programs

_TYPES = ['int', 'str', 'float', 'bool']
_LIT = {'int': ['0', '1', '42'], 'str': ["'a'", "''", "'b c'"], 'float': ['1.5', '0.0'], 'bool': ['True', 'False']}


def _expr(rng: random.Random, ty: str, env: dict[str, str], depth: int) -> str:
	cands = [n for n, t in env.items() if t == ty]
	r = rng.random()
	if depth <= 0 or r < 0.3:
		return rng.choice(cands) if cands and rng.random() < 0.6 else rng.choice(_LIT[ty])
	if ty == 'int':
		op = rng.choice(['+', '-', '*', '%', '&', '|', '^', '<<'])
		return f'{_expr(rng, ty, env, depth - 1)} {op} {_expr(rng, ty, env, depth - 1)}' if r < 0.8 else f'({_expr(rng, ty, env, depth - 1)})'
	if ty == 'float':
		return f'{_expr(rng, ty, env, depth - 1)} {rng.choice("+-*/")} {_expr(rng, ty, env, depth - 1)}'
	if ty == 'str':
		return f'{_expr(rng, ty, env, depth - 1)} + {_expr(rng, ty, env, depth - 1)}'
	k = rng.random()
	if k < 0.4:
		return f'{_expr(rng, "int", env, depth - 1)} {rng.choice(["<", ">", "==", "!=", "<=", ">="])} {_expr(rng, "int", env, depth - 1)}'
	if k < 0.7:
		return f'{_expr(rng, ty, env, depth - 1)} {rng.choice(["and", "or"])} {_expr(rng, ty, env, depth - 1)}'
	return f'not {_expr(rng, ty, env, depth - 1)}'


def _stmts(rng: random.Random, env: dict[str, str], ret: str, ind: str, depth: int, n: int) -> list[str]:
	out: list[str] = []
	env = dict(env)
	for _ in range(n):
		r = rng.random()
		if r < 0.35:
			ty = rng.choice(_TYPES)
			name = f'v{len(env)}'
			out.append(f'{ind}{name}: {ty} = {_expr(rng, ty, env, 2)}' if rng.random() < 0.5 else f'{ind}{name} = {_expr(rng, ty, env, 2)}')
			env[name] = ty
		elif r < 0.5 and depth > 0:
			out.append(f'{ind}if {_expr(rng, "bool", env, 2)}:')
			out.extend(_stmts(rng, env, ret, ind + '\t', depth - 1, rng.randint(1, 2)))
			if rng.random() < 0.5:
				out.append(f'{ind}else:')
				out.extend(_stmts(rng, env, ret, ind + '\t', depth - 1, 1))
		elif r < 0.62 and depth > 0:
			it = f'i{len(env)}'
			out.append(f'{ind}for {it} in range({_expr(rng, "int", env, 1)}):')
			out.extend(_stmts(rng, {**env, it: 'int'}, ret, ind + '\t', depth - 1, rng.randint(1, 2)))
		elif r < 0.7 and depth > 0:
			out.append(f'{ind}while {_expr(rng, "bool", env, 1)}:')
			out.extend(_stmts(rng, env, ret, ind + '\t', depth - 1, 1))
		elif r < 0.8:
			cands = [nm for nm, t in env.items() if t in ('int', 'float') and nm.startswith('v')]
			if cands:
				nm = rng.choice(cands)
				out.append(f'{ind}{nm} {rng.choice(["+=", "-=", "*="])} {_expr(rng, env[nm], env, 1)}')
			else:
				out.append(f'{ind}pass')
		elif r < 0.88:
			out.append(f'{ind}print({_expr(rng, rng.choice(_TYPES), env, 1)})')
		else:
			out.append(f'{ind}return {_expr(rng, ret, env, 2)}' if ret != 'None' else f'{ind}return')
	return out


def generated_program(rng: random.Random) -> str:
	lines: list[str] = []
	genv: dict[str, str] = {}
	for i in range(rng.randint(0, 2)):
		ty = rng.choice(_TYPES)
		lines.append(f'g{i}: {ty} = {rng.choice(_LIT[ty])}')
		genv[f'g{i}'] = ty
	for i in range(rng.randint(1, 3)):
		params = {f'p{j}': rng.choice(_TYPES) for j in range(rng.randint(0, 3))}
		ret = rng.choice([*_TYPES, 'None'])
		if rng.random() < 0.35:
			lines.append(f'class C{i}:')
			lines.append(f'\tdef m(self{"".join(f", {k}: {v}" for k, v in params.items())}) -> {ret}:')
			ind = '\t\t'
		else:
			lines.append(f'def f{i}({", ".join(f"{k}: {v}" for k, v in params.items())}) -> {ret}:')
			ind = '\t'
		body = _stmts(rng, {**genv, **params}, ret, ind, 2, rng.randint(1, 4))
		lines.extend(body)
		lines.append(f'{ind}return {_expr(rng, ret, {**genv, **params}, 1)}' if ret != 'None' else f'{ind}pass')
	return '\n'.join(lines) + '\n'
