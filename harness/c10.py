"""C10 — Tree addressing is a bijection and node resolution is order-independent.

Theorems: lean/Tranp/Props/C10.lean over lean/Tranp/Model/AstPath.lean.
Tie: correspondence streams `tree-corpus` (witnesses of the expand counterexample theorems), `tree-random` (EntryOfDict
trees + synthetic node classes) and `tree-real` (lark parse trees of real modules) between the real ASTFinder /
EntryCache / Nodes (by, parent, ancestor, siblings, children, expand, values, group_by) / NodeResolver and the model.
Search: the laws themselves on the real code (independent tree walk as oracle, query permutations, expand / values /
group_by against the tree on random trees and — without depth cap — on every entry path of real parse trees).
"""
from __future__ import annotations

import json
import random
from typing import Any

from harness import common, trees
from harness.common import Ctx, Finding, SearchResult, Stream, exc_enum, hx

PROP = 'C10'

CASE_BUDGET_S = float(__import__('os').environ.get('VERIF_C10_CASE_BUDGET', '20'))


class CaseTimeout(Exception):
	"""A single real-code call exceeded its budget (a hang of the real code becomes a reported disagreement / finding)."""


class Budget:
	"""Per-call wall budget for real-code calls (SIGALRM; the harness runs them in the main thread). Budgets nest: an inner
	budget never outlives the enclosing one, and leaving it re-arms the enclosing one with what is left of its time."""

	def __init__(self, seconds: float = CASE_BUDGET_S) -> None:
		self.seconds = seconds
		self._old: Any = None
		self._outer = 0.0
		self._t0 = 0.0

	def __enter__(self) -> 'Budget':
		import signal
		import time
		try:
			def on_alarm(signum: int, frame: Any) -> None:
				raise CaseTimeout(f'real-code call exceeded {self.seconds}s')
			self._outer = signal.getitimer(signal.ITIMER_REAL)[0]
			self._t0 = time.monotonic()
			self._old = signal.signal(signal.SIGALRM, on_alarm)
			signal.setitimer(signal.ITIMER_REAL, min(self.seconds, self._outer) if self._outer > 0 else self.seconds)
		except (ValueError, AttributeError):  # not the main thread / no SIGALRM: run unbudgeted
			self._old = None
		return self

	def __exit__(self, *a: Any) -> None:
		import signal
		import time
		if self._old is not None:
			signal.setitimer(signal.ITIMER_REAL, 0)
			signal.signal(signal.SIGALRM, self._old)
			if self._outer > 0:
				signal.setitimer(signal.ITIMER_REAL, max(self._outer - (time.monotonic() - self._t0), 0.001))


class Deadline:
	"""Total wall deadline of one stream / search: generation stops, what was generated is still checked."""

	def __init__(self, ctx: Ctx, name: str, quick_s: float, thorough_s: float) -> None:
		import time
		self.ctx, self.name = ctx, name
		self.t_end = time.time() + (thorough_s if ctx.thorough else quick_s)
		self.hit = False

	def over(self) -> bool:
		import time
		if not self.hit and time.time() > self.t_end:
			self.hit = True
			self.ctx.notes.append(f'deadline hit in {self.name}: generation stopped early (what was generated is still checked)')
		return self.hit


def guarded_search(fn: Any) -> Any:
	"""A search never crashes the check: an exception that escapes its own handlers (real code raising where the laws say it
	cannot, or a result the oracle cannot digest) is a finding with the traceback tail as input."""
	import functools
	import traceback

	@functools.wraps(fn)
	def run(ctx: Ctx) -> SearchResult:
		try:
			return fn(ctx)
		except Exception as e:  # noqa: BLE001
			res = SearchResult(f'{fn.__name__} (aborted by an unexpected exception)')
			res.findings.append(Finding(key=f'unexpected-exception:{fn.__name__}:{exc_enum(e)}', what=f'{fn.__name__} was aborted by {exc_enum(e)}: {str(e)[:200]}',
				replay={'traceback': traceback.format_exc()[-3000:]}))
			return res
	return run


def safe_case(label: str, build: Any) -> tuple[Any, list[str], list[str]]:
	"""Build one correspondence case; an exception of the real code while building it (outside the per-op handlers) becomes a
	reported disagreement instead of a crash of the check: the model answers `ok 1` to `tree _`."""
	try:
		with Budget(4 * CASE_BUDGET_S):
			return build()
	except Exception as e:  # noqa: BLE001
		return ({'kind': f'case-error:{label}', 'entries': 0, 'root': 'case-error', 'ops': 0}, ['tree\t_'], [f'real code raised {exc_enum(e)} while the case was built: {str(e)[:200]}'])


FEATS = ['always', 'never', 'cc>=1', 'cc>=2', 'cc>=3', 'idx', 'd>=2', 'd>=3', 'd>=4', 'pt=a', 'pt=b', 'pt=root', 'pt=list', 'fc=a', 'fc=tok', 'fc=__empty__']


# ---------------------------------------------------------------------------------------------
# real-code plumbing


def make_feature(feat: str):
	def match(via: Any) -> bool:
		if feat == 'always':
			return True
		if feat == 'never':
			return False
		if feat.startswith('cc>='):
			return len(via._children()) >= int(feat[4:])
		if feat == 'idx':
			return via._full_path.last[1] != -1
		if feat.startswith('d>='):
			return len(via._full_path.elements) >= int(feat[3:])
		if feat.startswith('pt='):
			return via._full_path.shift(-1).last_tag == feat[3:]
		if feat.startswith('fc='):
			cs = via._children()
			return len(cs) > 0 and cs[0].tag == feat[3:]
		raise AssertionError(feat)
	return match


def make_di(root_entry: Any, table: list[tuple[str, list[tuple[str, str]]]], fallback: tuple[str, str] | None, mapping: list[tuple[str, str, list[str]]] | None = None) -> Any:
	from rogw.tranp.lang.di import DI
	from rogw.tranp.lang.locator import Invoker, Locator
	from rogw.tranp.module.types import ModulePath
	from rogw.tranp.providers.module import module_path_dummy
	from rogw.tranp.syntax.ast.entry import Entry
	from rogw.tranp.syntax.ast.query import Query
	from rogw.tranp.syntax.ast.resolver import SymbolMapping
	from rogw.tranp.syntax.node.node import Node
	from rogw.tranp.syntax.node.query import Nodes
	from rogw.tranp.syntax.node.resolver import NodeResolver

	def mk_class(name: str, feat: str) -> type:
		f = make_feature(feat)
		return type(name, (Node,), {'match_feature': classmethod(lambda cls, via: f(via))})

	symbols: dict[type, list[str]] = {}
	if mapping is not None:
		# SymbolMapping.symbols as the real one: class -> its symbols, in class order (one class may serve several symbols)
		for name, feat, syms in mapping:
			symbols[mk_class(name, feat)] = list(syms)
	else:
		for sym, clss in table:
			for name, feat in clss:
				symbols[mk_class(name, feat)] = [sym]
	fb = mk_class(*fallback) if fallback else None
	di = DI()
	di.bind(Locator, lambda: di)
	di.bind(Invoker, lambda: di.invoke)
	di.bind(Query[Node], Nodes)
	di.bind(NodeResolver, NodeResolver)
	di.bind(ModulePath, module_path_dummy)
	di.bind(SymbolMapping, lambda: SymbolMapping(symbols=symbols, fallback=fb))
	di.bind(Entry, lambda: root_entry)
	return di


def gen_table(rng: random.Random, tags: list[str]) -> tuple[list[tuple[str, list[tuple[str, str]]]], tuple[str, str] | None]:
	n = [0]

	def cname() -> str:
		n[0] += 1
		return f'C{n[0]}'

	table = []
	fallback = (cname(), 'always') if rng.random() < 0.85 else None
	for t in tags:
		if rng.random() < 0.7:
			# without a fallback class an unregistered child tag raises UnresolvedNode when a feature resolves children
			# (inside match_feature); the model evaluates child-dependent features on paths only, so they are used
			# only when every tag resolves
			feats = FEATS if fallback else [f for f in FEATS if not f.startswith(('cc', 'fc'))]
			clss = [(cname(), rng.choice(feats)) for _ in range(rng.randint(0, 3))]
			# the class list of a registered tag ends with an accepting class (so that evaluating a feature that
			# resolves child nodes never raises inside match_feature; UnresolvedNode is exercised through `never`-only tags
			# placed on leaf-only tags below)
			clss.append((cname(), 'always'))
			table.append((t, clss))
	# one class registered for several symbols (as the real symbol_mapping does): the class keeps its place in class order,
	# so it lands in the other symbol's list by its number — always before that list's closing `always` class
	number = lambda c: int(c[0][1:])
	for _ in range(rng.choice([0, 1, 2, 4])):
		if len(table) < 2:
			break
		(_, src), (_, dst) = rng.sample(table, 2)
		c = rng.choice(src)
		if c not in dst and number(c) < number(dst[-1]):
			dst.append(c)
			dst.sort(key=number)
	return table, fallback


def mapping_of(table: list[tuple[str, list[tuple[str, str]]]]) -> list[tuple[str, str, list[str]]]:
	"""The SymbolMapping.symbols dict behind per-symbol class lists: class (in class order) -> its symbols (in table order)."""
	classes: dict[tuple[str, str], list[str]] = {}
	for sym, clss in table:
		for c in clss:
			classes.setdefault(c, []).append(sym)
	return [(n, f, classes[(n, f)]) for n, f in sorted(classes, key=lambda c: int(c[0][1:]))]


def tableload_line(mapping: list[tuple[str, str, list[str]]], fallback: tuple[str, str] | None) -> str:
	spec = ';'.join(f"{n}:{f}@{','.join(syms)}" for n, f, syms in mapping)
	fb = f'{fallback[0]}:{fallback[1]}' if fallback else 'none'
	return f'tableload\t{spec}\t{fb}'


def table_line(table: list[tuple[str, list[tuple[str, str]]]], fallback: tuple[str, str] | None) -> str:
	spec = ';'.join(f"{sym}={','.join(f'{n}:{f}' for n, f in clss)}" for sym, clss in table)
	fb = f'{fallback[0]}:{fallback[1]}' if fallback else 'none'
	return f'table\t{spec}\t{fb}'


def digest(e: Any) -> str:
	return f'{e.name}:{trees.entry_size(e)}:{hx(e.value)}'


def same_entry(a: Any, b: Any) -> bool:
	sa, sb = a.source, b.source
	if sa is None or sb is None:
		return sa is None and sb is None
	return sa is sb


def mutate_path(rng: random.Random, p: str, all_tags: list[str]) -> str:
	elems = p.split('.')
	k = rng.randrange(len(elems))
	r = rng.random()
	el = elems[k]
	if r < 0.15:
		base = el.split('[')[0]
		elems[k] = f'{base}[{rng.randint(0, 7)}]'
	elif r < 0.3:
		elems[k] = el.split('[')[0]
	elif r < 0.4:
		elems[k] = rng.choice(all_tags)
	elif r < 0.5:
		elems[k] = f"{el.split('[')[0]}[-{rng.randint(1, 2)}]"
	elif r < 0.58:
		elems[k] = f"{el.split('[')[0]}[x]"
	elif r < 0.66:
		elems[k] = f"{el.split('[')[0]}[1][2]"
	elif r < 0.76:
		elems = elems[:k] + elems[k + 1:] or elems
	elif r < 0.86:
		elems.insert(k, rng.choice(all_tags))
	elif r < 0.93:
		elems[k] = el + ']'
	else:
		elems[k] = f'{rng.choice(all_tags)}[{rng.randint(0, 4)}]'
	return '.'.join(e for e in elems if e != '') or 'root'


TESTERS = ['all', 'all', 'leaf', 'inner', 'idx', 'deep>=2', 'deep>=3']


def make_tester(spec: str) -> Any:
	"""The `tester(entry, path)` callbacks passed to `ASTFinder.find` (the driver's `parseTester` reads the same specs)."""
	if spec == 'all':
		return lambda e, p: True
	if spec == 'leaf':
		return lambda e, p: not e.has_child
	if spec == 'inner':
		return lambda e, p: e.has_child
	if spec == 'idx':
		return lambda e, p: p.endswith(']')
	if spec.startswith('name='):
		return lambda e, p: e.name == spec[5:]
	if spec.startswith('deep>='):
		return lambda e, p: p.count('.') >= int(spec[6:])
	raise AssertionError(spec)


def find_ops(rng: random.Random, paths: list[str], pf: dict[str, Any], tags: list[str], n: int) -> list[list[str]]:
	"""`find` / `fexists` / `pathfyd` ops: base paths ending in an indexed element (the index must survive into the reported
	keys), unique-tag bases, indexes in the middle, mutated paths, every depth kind, testers on entry and on path."""
	ops: list[list[str]] = []
	indexed_inner = [p for p in paths if p.endswith(']') and pf[p].has_child]
	indexed = [p for p in paths if p.endswith(']')]
	mid = [p for p in paths if '].' in p and not p.endswith(']')]
	for k in range(n):
		pool = [indexed_inner, indexed, mid, paths, paths][k % 5]
		via = rng.choice(pool or paths)
		if rng.random() < 0.12:
			via = mutate_path(rng, via, tags)
		tester = rng.choice(TESTERS) if rng.random() < 0.8 else f'name={rng.choice(tags)}'
		ops.append(['find', via, str(rng.choice([-1, -1, -1, 0, 1, 2, 3, -2])), tester])
	for _ in range(max(2, n // 3)):
		ops.append(['fexists', rng.choice(paths) if rng.random() < 0.5 else mutate_path(rng, rng.choice(paths), tags)])
	for start in ['', paths[0], rng.choice(paths), 'zz.' + paths[0], mutate_path(rng, rng.choice(paths), tags)][:max(2, n // 3)]:
		ops.append(['pathfyd', hx(start), str(rng.choice([-1, 0, 1, 2, -3]))])
	return ops


_FINDER: list[Any] = []


def shared_finder() -> Any:
	"""ONE ASTFinder instance for every case of every stream and search: a finder must not carry state from one tree to the
	next (a result cache keyed by the path string alone would answer with the entry of an earlier tree)."""
	if not _FINDER:
		from rogw.tranp.syntax.ast.finder import ASTFinder
		_FINDER.append(ASTFinder())
	return _FINDER[0]


def tag_of(el: str) -> str:
	return el.split('[')[0]


def ideal_expand(via: str, paths: list[str], has_child: Any, resolvable: Any, cap: int | None = None) -> list[str]:
	"""What `Nodes.expand(via)` means on the tree, computed from the document-order path list alone: the entries below
	`via` that have no resolvable proper ancestor below `via` and are resolvable themselves or terminals (`cap`: only
	the first `cap` levels below `via`, as the Python's `group_by(via, depth=3)`)."""
	out = []
	n = len(via.split('.'))
	pre = via + '.'
	for p in paths:
		if not p.startswith(pre):
			continue
		rel = p.split('.')[n:]
		if cap is not None and len(rel) > cap:
			continue
		if any(resolvable(tag_of(e)) for e in rel[:-1]):
			continue
		if resolvable(tag_of(rel[-1])) or not has_child(p):
			out.append(p)
	return out


def expand_safety(nodes: Any, via: str) -> tuple[bool, bool]:
	"""The side conditions of `C10.expand_spec` / `expand_spec_full`, re-computed on the real objects:
	RelativefySafe, and "nothing expandable deeper than three levels"."""
	from rogw.tranp.syntax.ast.path import EntryPath
	cache = nodes._Nodes__entries
	resolver = nodes._Nodes__resolver
	under = cache.group_by(via, 3)
	keys = list(under.keys())
	n = len(via.split('.'))
	rel_safe = True
	for p in keys[1:]:
		if under[p].has_child:
			continue
		try:
			got = EntryPath(p).relativefy(via).de_identify().elements
		except Exception:  # noqa: BLE001
			got = None
		if got != [tag_of(e) for e in p.split('.')[n:]]:
			rel_safe = False
	all_paths = list(cache.group_by(via).keys())
	has_child = lambda p: cache.by(p).has_child
	depth_safe = ideal_expand(via, all_paths, has_child, resolver.can_resolve, 3) == ideal_expand(via, all_paths, has_child, resolver.can_resolve)
	return rel_safe, depth_safe


def real_op(finder: Any, nodes: Any, root: Any, pf: dict[str, Any], op: list[str], with_class: bool) -> str:
	try:
		with Budget():
			return _real_op(finder, nodes, root, pf, op, with_class)
	except Exception as e:  # noqa: BLE001 - including CaseTimeout
		return exc_enum(e)


def _real_op(finder: Any, nodes: Any, root: Any, pf: dict[str, Any], op: list[str], with_class: bool) -> str:
	try:
		kind = op[0]
		if kind == 'pathfy':
			return '|'.join(f'{p}:{digest(e)}' for p, e in pf.items())
		if kind == 'pluck':
			e = finder.pluck(root, op[1])
			rel = ('same' if same_entry(e, pf[op[1]]) else 'other') if op[1] in pf else 'absent'
			return f'ok {digest(e)} {rel}'
		if kind == 'id':
			return str(nodes.id(op[1]))
		if kind == 'exists':
			return 'true' if nodes.exists(op[1]) else 'false'
		if kind == 'find':
			found = finder.find(root, op[1], make_tester(op[3]), int(op[2]))
			return 'ok ' + '|'.join(f'{p}:{digest(e)}' for p, e in found.items())
		if kind == 'fexists':
			return 'true' if finder.exists(root, op[1]) else 'false'
		if kind == 'pathfyd':
			return '|'.join(f'{p}:{digest(e)}' for p, e in finder.full_pathfy(root, common.unhx(op[1]), int(op[2])).items())
		if kind == 'values':
			return 'ok ' + ','.join(hx(v) for v in nodes.values(op[1]))
		if kind == 'groupby':
			return 'ok ' + ','.join(nodes._Nodes__entries.group_by(op[1], int(op[2])).keys())
		if kind == 'expandsafe':
			b, c = expand_safety(nodes, op[1])
			return f'ok {str(b).lower()} {str(c).lower()}'
		fmt = (lambda n: f'{n.full_path}:{type(n).__name__}') if with_class and not kind.endswith('p') else (lambda n: n.full_path)
		if kind in ('children', 'childrenp'):
			return 'ok ' + ','.join(fmt(n) for n in nodes.children(op[1]))
		if kind in ('expand', 'expandp'):
			return 'ok ' + ','.join(fmt(n) for n in nodes.expand(op[1]))
		if kind in ('siblings', 'siblingsp'):
			return 'ok ' + ','.join(fmt(n) for n in nodes.siblings(op[1]))
		if kind in ('parent', 'parentp'):
			return 'ok ' + fmt(nodes.parent(op[1]))
		if kind in ('ancestor', 'ancestorp'):
			return 'ok ' + fmt(nodes.ancestor(op[1], op[2]))
		if kind == 'by':
			return 'ok ' + type(nodes.by(op[1])).__name__
		raise AssertionError(op)
	except Exception as e:  # noqa: BLE001
		return exc_enum(e)


# ---------------------------------------------------------------------------------------------
# streams


def case_random(rng: random.Random, max_depth: int, max_width: int) -> tuple[dict[str, Any], list[str], list[str]]:
	from rogw.tranp.syntax.ast.entry import EntryOfDict
	from rogw.tranp.syntax.ast.finder import ASTFinder
	from rogw.tranp.syntax.ast.query import Query
	from rogw.tranp.syntax.node.node import Node
	from rogw.tranp.syntax.node.resolver import NodeResolver

	t = trees.gen_dict_tree(rng, max_depth, max_width)
	root = EntryOfDict(t)
	tags = ['root', '__empty__', *trees.TAG_POOL]
	table, fallback = gen_table(rng, tags)
	mapping = mapping_of(table)
	di = make_di(root, table, fallback, mapping)
	finder = shared_finder()
	pf = finder.full_pathfy(root)
	nodes = di.resolve(Query[Node])
	resolver = di.resolve(NodeResolver)
	# the model either gets the SymbolMapping as the real Resolver.load does (class order) or the per-symbol lists derived here
	derived: dict[str, list[tuple[str, str]]] = {}
	for cn, cf, syms in mapping:
		for sym in syms:
			derived.setdefault(sym, []).append((cn, cf))  # symbols in first-registration order, classes in class order
	tline = tableload_line(mapping, fallback) if rng.random() < 0.6 else table_line(list(derived.items()), fallback)
	ops: list[list[str]] = [['tree', trees.dict_sexp(t)], tline.split('\t'), ['accepts'], ['pathfy']]
	ops += [['canresolve', tg] for tg in rng.sample(tags, 3)]
	paths = list(pf.keys())
	sample = paths if len(paths) <= 24 else rng.sample(paths, 24)
	for p in sample:
		ops.append(['pluck', p])
	for _ in range(16):
		ops.append(['pluck', mutate_path(rng, rng.choice(paths), tags)])
	for p in rng.sample(paths, min(8, len(paths))):
		ops.append(['id', p])
		ops.append(['exists', p])
	ops.append(['id', mutate_path(rng, rng.choice(paths), tags)])
	ops += find_ops(rng, paths, pf, tags, 10)
	kinds = ['children', 'siblings', 'parent', 'by', 'ancestor', 'by', 'by', 'expand', 'expandp', 'values', 'groupby', 'expandsafe', 'expandp']
	for _ in range(44):
		k = rng.choice(kinds)
		if k == 'expandp' and not fallback:
			k = 'expand'  # the real expand always resolves its result; without a fallback class that can raise UnresolvedNode
		p = rng.choice(paths) if rng.random() < 0.85 else mutate_path(rng, rng.choice(paths), tags)
		if k == 'ancestor':
			elems = [e.split('[')[0] for e in p.split('.')]
			ops.append([k, p, rng.choice(elems) if rng.random() < 0.8 else rng.choice(tags)])
		elif k == 'groupby':
			ops.append([k, p, str(rng.choice([-1, 0, 1, 2, 3, 3, 5, -2]))])
		elif k in ('expand', 'expandp', 'expandsafe') and rng.random() < 0.5:
			# the root and the big inner entries are where the depth cap and the record list matter
			inner = [q for q in paths if pf[q].has_child]
			ops.append([k, rng.choice(inner[:6]) if inner else p])
		else:
			ops.append([k, p])
		if rng.random() < 0.06:
			ops.append(['clear'])
	lines: list[str] = []
	real: list[str] = []
	for op in ops:
		lines.append('\t'.join(op))
		if op[0] == 'tree':
			real.append(f'ok {trees.entry_size(root)}')
		elif op[0] in ('table', 'tableload'):
			real.append('ok')
		elif op[0] == 'accepts':
			try:
				real.append('ok ' + ','.join(resolver._NodeResolver__resolver.accepts))
			except Exception as e:  # noqa: BLE001
				real.append(exc_enum(e))
		elif op[0] == 'canresolve':
			try:
				real.append(str(resolver.can_resolve(op[1])).lower())
			except Exception as e:  # noqa: BLE001
				real.append(exc_enum(e))
		elif op[0] == 'clear':
			resolver.clear()
			# Nodes memoises parent/children lists of node *instances*; a fresh Nodes is the faithful counterpart of
			# "no instance cache" on the model side, so `clear` rebuilds the query object as well
			di = make_di(root, table, fallback, mapping)
			nodes = di.resolve(Query[Node])
			resolver = di.resolve(NodeResolver)
			real.append('ok')
		else:
			real.append(real_op(finder, nodes, root, pf, op, True))
	desc = {'kind': 'random', 'entries': len(pf), 'table': len(table), 'fallback': bool(fallback)}
	return desc, lines, real


def real_tables() -> tuple[str, list[str]]:
	from rogw.tranp.providers.syntax.resolver import symbol_mapping
	sm = symbol_mapping()
	tags: list[str] = []
	for _, syms in sm.symbols.items():
		for s in syms:
			if s not in tags:
				tags.append(s)
	spec = ';'.join(f'{t}=X:always' for t in tags)
	return f'table\t{spec}\tT:always', tags


def subtrees_of(root: Any, max_entries: int) -> list[Any]:
	"""Statement-level subtrees of a parse tree that are small enough for the (quadratic) list-based model."""
	out = []
	stack = [root]
	while stack:
		e = stack.pop()
		n = trees.entry_size(e)
		if n <= max_entries:
			if n >= 8:
				out.append(e)
		else:
			stack.extend(reversed(e.children))
	return out


def case_real(rng: random.Random, entry: Any, table: str, tags: list[str]) -> tuple[dict[str, Any], list[str], list[str]]:
	from rogw.tranp.syntax.ast.finder import ASTFinder
	from rogw.tranp.syntax.ast.query import Query
	from rogw.tranp.syntax.node.node import Node

	finder = shared_finder()
	pf = finder.full_pathfy(entry)
	# the real symbol mapping decides `can_resolve`; classes are irrelevant for the path-only ops used here
	from rogw.tranp.providers.syntax.resolver import symbol_mapping
	di = make_di(entry, [], None)
	from rogw.tranp.syntax.ast.resolver import SymbolMapping
	di.rebind(SymbolMapping, symbol_mapping)
	nodes = di.resolve(Query[Node])
	paths = list(pf.keys())
	ops: list[list[str]] = [['tree', trees.entry_sexp(entry)], table.split('\t'), ['pathfy']]
	for p in (paths if len(paths) <= 60 else rng.sample(paths, 60)):
		ops.append(['pluck', p])
	for p in rng.sample(paths, min(20, len(paths))):
		ops.append(['id', p])
		ops.append(['childrenp', p])
		ops.append(['parentp', p])
		ops.append(['siblingsp', p])
	inner = [p for p in paths if pf[p].has_child]
	for p in rng.sample(inner, min(12, len(inner))):
		ops.append(['expandp', p])
		ops.append(['values', p])
		ops.append(['groupby', p, str(rng.choice([-1, 1, 2, 3, 4]))])
		ops.append(['expandsafe', p])
	for p in rng.sample(paths, min(6, len(paths))):
		ops.append(['expandp', p])
		ops.append(['values', p])
	for _ in range(10):
		ops.append(['pluck', mutate_path(rng, rng.choice(paths), tags[:40])])
	ops += find_ops(rng, paths, pf, tags[:40], 8)
	lines, real = [], []
	for op in ops:
		lines.append('\t'.join(op))
		if op[0] == 'tree':
			real.append(f'ok {trees.entry_size(entry)}')
		elif op[0] == 'table':
			real.append('ok')
		else:
			real.append(real_op(finder, nodes, entry, pf, op, False))
	return {'kind': 'real', 'root': entry.name, 'entries': len(pf)}, lines, real


# ---------------------------------------------------------------------------------------------
# corpus: the witnesses of the expand counterexample theorems (synthetic) and the real-grammar defect witness


def load_corpus() -> dict[str, dict[str, Any]]:
	import glob
	import os
	out: dict[str, dict[str, Any]] = {}
	for f in sorted(glob.glob(os.path.join(common.CORPUS_DIR, PROP, '*.json'))):
		with open(f, encoding='utf-8') as fh:
			out[os.path.basename(f)[:-5]] = json.load(fh)
	return out


def nodes_of_dict(t: dict[str, Any], resolvable: list[str]) -> tuple[Any, Any, list[tuple[str, list[tuple[str, str]]]]]:
	from rogw.tranp.syntax.ast.entry import EntryOfDict
	from rogw.tranp.syntax.ast.query import Query
	from rogw.tranp.syntax.node.node import Node
	root = EntryOfDict(t)
	table = [(tg, [(f'K{j}', 'always')]) for j, tg in enumerate(resolvable)]
	di = make_di(root, table, ('T', 'always'))
	return root, di.resolve(Query[Node]), table


def stream_corpus(ctx: Ctx) -> Stream:
	"""The committed witnesses (regression of the repaired prefix defect, expand_relativefy / expand_depth3 _counterexample), op by op."""
	from rogw.tranp.syntax.ast.finder import ASTFinder
	cases = []
	for name, w in load_corpus().items():
		if w.get('kind') not in ('dict', 'history'):
			continue
		cases.append(safe_case(name, lambda name=name, w=w: _corpus_case(name, w)))
	st = common.correspond('tree-corpus', cases, 'tree', classify=lambda d: d['kind'])
	st.note = 'regression witness r(list(x) list_comp) and witness trees of C10.expand_relativefy_counterexample / expand_depth3_counterexample / memo_key_counterexample: expand, expandp, expandsafe, values, groupby on every path, or the recorded query history'
	return st


def _corpus_case(name: str, w: dict[str, Any]) -> tuple[Any, list[str], list[str]]:
	if True:
		root, nodes, table = nodes_of_dict(w['tree'], w['resolvable'])
		finder = shared_finder()
		pf = finder.full_pathfy(root)
		ops: list[list[str]] = [['tree', trees.dict_sexp(w['tree'])], table_line(table, ('T', 'always')).split('\t'), ['pathfy']]
		if w['kind'] == 'history':
			ops += w['ops']
		else:
			for p in pf.keys():
				ops += [['expandp', p], ['expand', p], ['expandsafe', p], ['values', p], ['groupby', p, '3'], ['groupby', p, '-1'], ['groupby', p, '1']]
		lines, real = [], []
		for op in ops:
			lines.append('\t'.join(op))
			if op[0] == 'tree':
				real.append(f'ok {trees.entry_size(root)}')
			elif op[0] == 'table':
				real.append('ok')
			elif op[0] == 'clear':
				_, nodes, _ = nodes_of_dict(w['tree'], w['resolvable'])  # a fresh Nodes: empty instance cache and memo
				real.append('ok')
			else:
				real.append(real_op(finder, nodes, root, pf, op, True))
		return ({'kind': 'corpus:' + name, 'entries': len(pf)}, lines, real)


# ---------------------------------------------------------------------------------------------
# the EntryPath algebra on arbitrary strings


EP_ELEMS = ['a', 'b', 'ab', 'list', 'list_comp', 'a[0]', 'a[1]', 'b[2]', 'a[10]', 'a[12]', 'ab[123]', 'x[007]', 'a[-1]', 'a[x]', 'a[1][2]', 'a[]', 'a]', '[', ']', 'a[', 'a[1', '[1]', '', '', '__empty__', '__empty__[3]', 'a#b', 'r']


def gen_path_string(rng: random.Random) -> str:
	n = rng.choice([0, 1, 1, 2, 2, 3, 3, 4, 5, 7])
	return '.'.join(rng.choice(EP_ELEMS) for _ in range(n))


def real_ep(op: list[str]) -> str:
	try:
		with Budget():
			return _real_ep(op)
	except Exception as e:  # noqa: BLE001 - including CaseTimeout
		return exc_enum(e)


def _real_ep(op: list[str]) -> str:
	from rogw.tranp.syntax.ast.path import EntryPath
	try:
		k, a = op[0], op[1:]
		if k == 'ep.valid':
			return str(EntryPath(a[0]).valid).lower()
		if k == 'ep.joined':
			return hx(EntryPath(a[0]).joined(a[1]))
		if k == 'ep.identify':
			return hx(EntryPath.identify(a[0], a[1], int(a[2])).origin)
		if k == 'ep.first':
			t, i = EntryPath(a[0]).first
			return f'ok {hx(t)} {i}'
		if k == 'ep.last':
			t, i = EntryPath(a[0]).last
			return f'ok {hx(t)} {i}'
		if k == 'ep.shift':
			return hx(EntryPath(a[0]).shift(int(a[1])).origin)
		if k == 'ep.parenttag':
			return f'ok {hx(EntryPath(a[0]).parent_tag)}'
		if k == 'ep.deidentify':
			return hx(EntryPath(a[0]).de_identify().origin)
		if k == 'ep.elements':
			return ','.join(hx(e) for e in EntryPath(a[0]).elements)
		if k == 'ep.contains':
			return str(EntryPath(a[0]).contains(a[1])).lower()
		if k == 'ep.only':
			return str(EntryPath(a[0]).consists_of_only(*a[1])).lower()
		if k == 'ep.escaped':
			return hx(EntryPath(a[0]).escaped_origin)
		if k == 'ep.relativefy':
			return f'ok {hx(EntryPath(a[0]).relativefy(a[1]).origin)}'
		if k.startswith('dsn.'):
			from rogw.tranp.dsn.dsn import DSN
			d = a[0]
			if k == 'dsn.left':
				return f'ok {hx(DSN.left(a[1], int(a[2]), delimiter=d))}'
			if k == 'dsn.right':
				return f'ok {hx(DSN.right(a[1], int(a[2]), delimiter=d))}'
			if k == 'dsn.shift':
				return f'ok {hx(DSN.shift(a[1], int(a[2]), delimiter=d))}'
			if k == 'dsn.root':
				return f'ok {hx(DSN.root(a[1], delimiter=d))}'
			if k == 'dsn.parent':
				return f'ok {hx(DSN.parent(a[1], delimiter=d))}'
			if k == 'dsn.elements':
				return 'ok ' + ','.join(hx(e) for e in DSN.elements(a[1], delimiter=d))
			if k == 'dsn.count':
				return str(DSN.elem_counts(a[1], delimiter=d))
			if k == 'dsn.join':
				return hx(DSN.join(*a[1], delimiter=d))
		raise AssertionError(op)
	except Exception as e:  # noqa: BLE001
		return exc_enum(e)


def ep_line(op: list[Any]) -> str:
	k = op[0]
	if k == 'ep.only':
		return '\t'.join([k, hx(op[1]), ','.join(hx(t) for t in op[2])])
	if k in ('ep.shift',):
		return '\t'.join([k, hx(op[1]), str(op[2])])
	if k == 'ep.identify':
		return '\t'.join([k, hx(op[1]), hx(op[2]), str(op[3])])
	if k in ('dsn.left', 'dsn.right', 'dsn.shift'):
		return '\t'.join([k, hx(op[1]), hx(op[2]), str(op[3])])
	if k == 'dsn.join':
		return '\t'.join([k, hx(op[1]), ','.join(hx(t) for t in op[2])])
	return '\t'.join([k, *[hx(x) for x in op[1:]]])


def stream_path_algebra(ctx: Ctx) -> Stream:
	"""EntryPath (valid, joined, identify, first, last, shift, parent_tag, de_identify, elements, contains, consists_of_only,
	escaped_origin, relativefy) on well-formed paths of random trees and on malformed strings."""
	from rogw.tranp.syntax.ast.entry import EntryOfDict
	rng = ctx.sub_rng('path-algebra')
	cases = []
	dl = Deadline(ctx, 'path-algebra', 20, 120)
	for i in range(ctx.scale(60, 600)):
		if dl.over():
			break
		strings: list[str] = []
		if i % 2 == 0:
			walk = trees.walk_entries(EntryOfDict(trees.gen_dict_tree(rng, 2 + i % 4, 3 + i % 9)))
			strings = [p for p, _ in rng.sample(walk, min(5, len(walk)))]
		strings += [gen_path_string(rng) for _ in range(5)]
		ops: list[list[Any]] = []
		for p in strings:
			els = p.split('.')
			tagset = [tag_of(e) for e in els]
			ops += [['ep.valid', p], ['ep.first', p], ['ep.last', p], ['ep.parenttag', p], ['ep.deidentify', p], ['ep.elements', p], ['ep.escaped', p]]
			ops += [['ep.shift', p, k] for k in rng.sample([-9, -3, -2, -1, 0, 1, 2, 3, 9], 3)]
			ops.append(['ep.joined', p, rng.choice([gen_path_string(rng), 'x', ''])])
			ops.append(['ep.identify', p, rng.choice(['a', 'list', '']), rng.choice([0, 1, 9, 10, 11, 99, 100, 12345, -1])])
			ops.append(['ep.contains', p, rng.choice(tagset) if rng.random() < 0.6 else rng.choice(['a', 'zz', ''])])
			ops.append(['ep.only', p, rng.sample(sorted(set(tagset) | {'a', 'b'}), rng.randint(0, min(3, len(set(tagset) | {'a', 'b'}))))])
			starts = '.'.join(els[:rng.randint(0, len(els))]) if rng.random() < 0.7 else gen_path_string(rng)
			ops.append(['ep.relativefy', p, starts])
			# the DSN functions below EntryPath (dsn.py), default and other delimiters ('#' module paths, '::' C++ names)
			d = rng.choice(['.', '.', '.', '#', '::', ':'])
			q = p if d == '.' else p.replace('.', d if rng.random() < 0.8 else d + d[:1])
			ints = [-9, -3, -2, -1, 0, 1, 2, 3, 9]
			ops += [['dsn.left', d, q, rng.choice(ints)], ['dsn.right', d, q, rng.choice(ints)], ['dsn.shift', d, q, rng.choice(ints)]]
			ops += [['dsn.root', d, q], ['dsn.parent', d, q], ['dsn.elements', d, q], ['dsn.count', d, q]]
			ops.append(['dsn.join', d, [rng.choice(['a', 'b[1]', '', q, 'x' + d + 'y']) for _ in range(rng.randint(1, 4))]])
		lines = [ep_line(op) for op in ops]
		real = [real_ep(op) for op in ops]
		cases.append(({'kind': 'wf+malformed' if i % 2 == 0 else 'malformed', 'ops': len(ops)}, lines, real))
	st = common.correspond('path-algebra', cases, 'tree', classify=lambda d: d['kind'])
	st.note = 'DSN.left/right/shift/root/parent/elements/elem_counts/join with the delimiters . # :: : (counts -9..9) and the EntryPath algebra on well-formed paths of random trees (indices up to 3 digits through identify) and malformed strings (empty elements, stray brackets, non-numeric / negative / multiple indices, #)'
	return st


def stream_random(ctx: Ctx) -> Stream:
	rng = ctx.sub_rng('tree-random')
	n = ctx.scale(120, 1500)
	cases = []
	dl = Deadline(ctx, 'tree-random', 30, 300)
	for i in range(n):
		if dl.over():
			break
		depth = 2 + (i % 4) if not ctx.thorough else 2 + (i % 5)
		cases.append(safe_case(f'random#{i}', lambda depth=depth, i=i: case_random(rng, depth, 3 + (i % 4))))
	st = common.correspond('tree-random', cases, 'tree', classify=lambda d: f"entries<{10 ** len(str(d['entries']))}")
	st.note = 'EntryOfDict trees (repeated/unique/empty/prefix-sharing tags), synthetic node classes with path- and child-dependent match_feature, ops: pathfy, pluck (valid+mutated), id, exists, children, siblings, parent, ancestor, by, expand, expandp, values, groupby (depths -2..5), expandsafe (the side conditions of expand_spec / expand_spec_full), clear'
	return st


def stream_real(ctx: Ctx) -> Stream:
	rng = ctx.sub_rng('tree-real')
	app = common.MemApp(ctx.tmpdir())
	table, tags = real_tables()
	files = trees.real_source_files(ctx.thorough, rng, ctx.scale(4, 40))
	cases = []
	dl = Deadline(ctx, 'tree-real', 30, 300)
	for f in files:
		if dl.over():
			break
		try:
			with Budget(3 * CASE_BUDGET_S):
				root = trees.parse_real(app, f)
				subs = subtrees_of(root, 400)
		except CaseTimeout:
			ctx.notes.append(f'tree-real: parsing {f} exceeded its budget (skipped)')
			continue
		except Exception:  # noqa: BLE001 - a file outside the grammar is not a tree-addressing case
			continue
		rng.shuffle(subs)
		for e in subs[:ctx.scale(6, 25)]:
			cases.append(safe_case(f, lambda e=e: case_real(rng, e, table, tags)))
	st = common.correspond('tree-real', cases, 'tree', classify=lambda d: d['root'])
	st.note = f'statement-level lark subtrees (8..400 entries) of {len(files)} real modules; ops: pathfy, pluck (valid+mutated), id, childrenp, parentp, siblingsp, expandp, values, groupby, expandsafe with the real symbol mapping as resolvable-tag set'
	return st


# ---------------------------------------------------------------------------------------------
# search: the laws on the real code


_LAST_PATH: list[str] = []


def _law_violation(finder: Any, root: Any, walk: list[tuple[str, Any]], pf: dict[str, Any], rng: random.Random) -> str | None:
	_LAST_PATH.clear()
	from rogw.tranp.syntax.ast.cache import EntryCache
	if len(pf) != len(walk):
		return f'full_pathfy has {len(pf)} paths for {len(walk)} entries'
	if list(pf.keys()) != [p for p, _ in walk]:
		return 'full_pathfy order/paths differ from the document-order walk'
	for p, e in walk:
		got = finder.pluck(root, p)
		if not same_entry(got, e) or not same_entry(pf[p], e):
			_LAST_PATH.append(p)
			return f'pluck({p}) is not the entry at that position'
	cache: Any = EntryCache()
	for p, e in pf.items():
		cache.add(p, e)
	for i, (p, _) in enumerate(walk):
		if cache.index_of(p) != i:
			return f'id of {p} is {cache.index_of(p)}, document-order rank is {i}'
	return _find_violation(finder, root, walk, rng)


def _find_violation(finder: Any, root: Any, walk: list[tuple[str, Any]], rng: random.Random) -> str | None:
	"""`ASTFinder.find(root, via, tester, depth)` = the part of the document-order walk at and below `via` (cut `depth` levels
	below it) that the tester accepts, keyed by the FULL paths of the walk; looking every reported path up returns the reported
	entry; `exists` is true on every path of the walk. Base paths ending in an indexed element come first."""
	paths = [p for p, _ in walk]
	inner = [p for p, e in walk if e.has_child]
	indexed_inner = [p for p in inner if p.endswith(']')]
	vias = [*rng.sample(indexed_inner, min(3, len(indexed_inner))), *rng.sample(inner, min(2, len(inner))), *rng.sample(paths, min(2, len(paths)))]
	for via in vias:
		n = via.count('.')
		for depth, spec in ((-1, 'all'), (rng.choice([0, 1, 2]), rng.choice(TESTERS)), (rng.choice([-1, -2, 3]), rng.choice(TESTERS))):
			tester = make_tester(spec)
			want = [(p, e) for p, e in walk if (p == via or p.startswith(via + '.')) and (depth < 0 or p.count('.') - n <= depth) and tester(e, p)]
			got = list(finder.find(root, via, tester, depth).items())
			if [p for p, _ in got] != [p for p, _ in want]:
				_LAST_PATH.append(via)
				return f'find(via={via}, tester={spec}, depth={depth}) reports the paths {[p for p, _ in got][:8]}, the tree has {[p for p, _ in want][:8]} there'
			for (p, e), (_, we) in zip(got, want):
				if not same_entry(e, we):
					_LAST_PATH.append(p)
					return f'find(via={via}, tester={spec}, depth={depth}) binds {p} to another entry than the tree'
				if not same_entry(finder.pluck(root, p), e):
					_LAST_PATH.append(p)
					return f'find(via={via}) reports {p}, but pluck({p}) returns another entry'
	for p in rng.sample(paths, min(6, len(paths))):
		if finder.exists(root, p) is not True:
			_LAST_PATH.append(p)
			return f'exists({p}) is not True for a path of full_pathfy'
	return _noncanonical_violation(finder, root, walk, rng)


def own_pluck(root: Any, path: str) -> Any:
	"""The documented lookup rule on the tree itself (finder.py / EntryPath.identify): the first element stands for the root;
	an element with an index addresses the child at that position, an element without one the LAST child carrying the tag;
	None = no such entry. Only elements `tag` / `tag[n]` with n >= 0 are asked."""
	e = root
	for el in path.split('.')[1:]:
		if not e.has_child:
			return None
		cs = e.children
		if el.endswith(']'):
			i = int(el[el.index('[') + 1:-1])
			if not 0 <= i < len(cs):
				return None
			e = cs[i]
		else:
			same = [c for c in cs if c.name == el]
			if not same:
				return None
			e = same[-1]
	return e


def _noncanonical_violation(finder: Any, root: Any, walk: list[tuple[str, Any]], rng: random.Random) -> str | None:
	"""Paths full_pathfy does not produce but pluck / exists / find accept: every canonical path with the index of ONE element
	dropped (each position in turn: the rule says the last child with that tag), with an index moved to another sibling, with
	an index added to a unique element; the answer of the real code against `own_pluck`, and find from such a base against
	the own walk of the entry the rule addresses, keyed by continuations of the base path as given."""
	from rogw.tranp.errors import Errors
	cands = [p for p, _ in walk if '[' in p]
	variants: list[str] = []
	for p in rng.sample(cands, min(8, len(cands))):
		els = p.split('.')
		for k in range(1, len(els)):
			if els[k].endswith(']'):
				variants.append('.'.join([*els[:k], tag_of(els[k]), *els[k + 1:]]))
				if rng.random() < 0.3:
					variants.append('.'.join([*els[:k], f'{tag_of(els[k])}[{rng.randint(0, 6)}]', *els[k + 1:]]))
	for p, _ in rng.sample(walk, min(3, len(walk))):
		els = p.split('.')
		k = rng.randrange(len(els))
		if k > 0 and not els[k].endswith(']'):
			variants.append('.'.join([*els[:k], f'{els[k]}[{rng.randint(0, 3)}]', *els[k + 1:]]))
	for q in variants[:40]:
		want = own_pluck(root, q)
		try:
			got = finder.pluck(root, q)
		except Errors.NodeNotFound:
			got = None
		if (want is None) != (got is None) or (want is not None and not same_entry(got, want)):
			_LAST_PATH.append(q)
			return f'pluck({q}) returns {"nothing" if got is None else digest(got)}; by the rule (index when present, else the last child with the tag) it addresses {"nothing" if want is None else digest(want)}'
		if finder.exists(root, q) is not (want is not None):
			_LAST_PATH.append(q)
			return f'exists({q}) is {finder.exists(root, q)}; by the lookup rule the path addresses {"nothing" if want is None else digest(want)}'
		if want is not None:
			sub = trees.walk_entries(want, q)
			found = list(finder.find(root, q, lambda e, p: True).items())
			if [p for p, _ in found] != [p for p, _ in sub] or not all(same_entry(e, we) for (_, e), (_, we) in zip(found, sub)):
				_LAST_PATH.append(q)
				return f'find(via={q}) reports {[p for p, _ in found][:6]}; the subtree the lookup rule addresses there is {[p for p, _ in sub][:6]}'
	return None


@guarded_search
def search_laws(ctx: Ctx) -> SearchResult:
	from rogw.tranp.syntax.ast.entry import EntryOfDict
	from rogw.tranp.syntax.ast.finder import ASTFinder

	rng = ctx.sub_rng('laws')
	res = SearchResult('bijection laws (full_pathfy / pluck / ids / find / exists) on real ASTFinder/EntryCache vs an independent tree walk')
	# ONE finder for all cases of this search (not the streams' one, so that a finding is reproducible from this search alone)
	finder = ASTFinder()
	app = common.MemApp(ctx.tmpdir())
	roots: list[tuple[str, Any]] = []
	for i in range(ctx.scale(150, 2500)):
		roots.append((f'random#{i}', EntryOfDict(trees.gen_dict_tree(rng, 2 + i % 5, 2 + i % 6))))
	for f in trees.real_source_files(ctx.thorough, rng, ctx.scale(6, 60)):
		try:
			with Budget(3 * CASE_BUDGET_S):
				roots.append((f, trees.parse_real(app, f)))
				check_shape(roots[-1][1], True)
		except Exception:  # noqa: BLE001
			continue
	seen = set()
	earlier: list[tuple[str, Any]] = []
	dl = Deadline(ctx, 'search_laws', 25, 240)
	for name, root in roots:
		if dl.over():
			break
		res.cases += 1
		walk = trees.walk_entries(root)
		sig = (len(walk), tuple(p for p, _ in walk[:50]))
		if sig not in seen:
			seen.add(sig)
		bad: str | None = None
		try:
			with Budget(3 * CASE_BUDGET_S):
				pf = finder.full_pathfy(root)
				bad = _law_violation(finder, root, walk, pf, rng)
		except Exception as e:  # noqa: BLE001 - the laws say these calls succeed: an exception is a violation, not a harness failure
			bad = f'real code raised {exc_enum(e)} while checking the addressing laws: {str(e)[:200]}'
		if bad:
			# the ASTFinder instance is shared by all cases (and with the streams): an answer that depends on an earlier tree
			# needs that earlier tree to reproduce, so the previous case is part of the replay
			rep: dict[str, Any] = {'tree': name, 'sexp': trees.entry_sexp(root)[:20000], 'one_finder_instance_for_all_trees': True, 'earlier_trees': len(earlier)}
			if _LAST_PATH:
				rep['path'] = _LAST_PATH[0]
				for en, er in earlier:
					if any(p == _LAST_PATH[0] for p, _ in trees.walk_entries(er)):
						rep['earlier_tree_with_the_same_path'] = {'tree': en, 'sexp': trees.entry_sexp(er)[:20000]}
						break
			res.findings.append(Finding(key='lookup-rule' if 'lookup rule' in bad or 'by the rule' in bad else 'find-disagrees-with-tree' if bad.startswith(('find(', 'exists(')) else 'bijection', what=bad + f' (one ASTFinder instance, {len(earlier)} earlier trees)', replay=rep))
			break
		earlier.append((name, root))
		if len(res.samples) < 2:
			res.samples.append({'tree': name, 'entries': len(walk), 'first_paths': [p for p, _ in walk[:5]]})
	res.distinct = len(seen)
	return res


def own_class_choice(p: str, e: Any, mapping: list[tuple[str, str, list[str]]], fallback: tuple[str, str] | None) -> str:
	"""The rule itself, from the tree walk alone: the classes the mapping lists for the entry's tag, in mapping order; the
	first whose feature accepts; the fallback class only for a tag no class lists; else Errors.UnresolvedNode. A feature that
	cannot be evaluated (parent tag of the root) raises out of the resolution."""
	els = p.split('.')
	kids = list(e.children) if e.has_child else []

	def accepts(feat: str) -> bool:
		if feat == 'always':
			return True
		if feat == 'never':
			return False
		if feat.startswith('cc>='):
			return len(kids) >= int(feat[4:])
		if feat == 'idx':
			return els[-1].endswith(']')
		if feat.startswith('d>='):
			return len(els) >= int(feat[3:])
		if feat.startswith('pt='):
			if len(els) < 2:
				raise IndexError('the root has no parent element')
			return tag_of(els[-2]) == feat[3:]
		if feat.startswith('fc='):
			return len(kids) > 0 and kids[0].name == feat[3:]
		raise AssertionError(feat)

	cands = [(n, f) for n, f, syms in mapping if e.name in syms]
	if not cands:
		cands = [fallback] if fallback else []
	try:
		for n, f in cands:
			if accepts(f):
				return n
	except IndexError:
		return 'IndexError'
	return 'Errors.UnresolvedNode'


@guarded_search
def search_class_choice(ctx: Ctx) -> SearchResult:
	"""The class Nodes.by returns for every path of random trees under synthetic symbol mappings (classes shared between
	symbols, tags only the fallback serves, tags nothing serves) against the first-accepting-class rule evaluated on the
	tree walk alone, in random query orders with repeats on one Nodes instance."""
	from rogw.tranp.syntax.ast.entry import EntryOfDict
	from rogw.tranp.syntax.ast.query import Query
	from rogw.tranp.syntax.node.node import Node

	rng = ctx.sub_rng('class-choice')
	res = SearchResult('class per path vs the first-accepting-class-in-mapping-order rule on the tree walk (synthetic mappings, random query orders)')
	seen = set()
	dl = Deadline(ctx, 'search_class_choice', 20, 180)
	tags = ['root', '__empty__', *trees.TAG_POOL]
	for i in range(ctx.scale(60, 800)):
		if dl.over():
			break
		t = trees.gen_dict_tree(rng, 2 + i % 4, 2 + i % 5)
		root = EntryOfDict(t)
		walk = trees.walk_entries(root)
		table, fallback = gen_table(rng, tags)
		mapping = mapping_of(table)
		nodes = make_di(root, table, fallback, mapping).resolve(Query[Node])
		order = [*walk, *rng.sample(walk, min(10, len(walk)))]
		rng.shuffle(order)
		bad = None
		for k, (p, e) in enumerate(order[:60]):
			want = own_class_choice(p, e, mapping, fallback)
			try:
				with Budget():
					got = type(nodes.by(p)).__name__
			except Exception as ex:  # noqa: BLE001 - including CaseTimeout
				got = exc_enum(ex)
			if got != want:
				bad = f'Nodes.by({p}) is {got} after {k} earlier queries; the mapping lists {[(n, f) for n, f, syms in mapping if e.name in syms]} for the tag {e.name} (fallback {fallback}), so the rule says {want}'
				break
		res.cases += 1
		seen.add(trees.dict_sexp(t))
		if bad:
			res.findings.append(Finding(key='class-choice', what=bad, replay={'sexp': trees.dict_sexp(t), 'mapping': mapping, 'fallback': fallback, 'order': [p for p, _ in order[:60]]}))
			break
		if len(res.samples) < 2:
			res.samples.append({'entries': len(walk), 'classes': len(mapping), 'fallback': bool(fallback)})
	res.distinct = len(seen)
	return res


@guarded_search
def search_entrypath(ctx: Ctx) -> SearchResult:
	"""The EntryPath algebra on the paths of random trees (plus identify with large indexes) against the element list the
	harness's own tree walk knows for each path: first / last / parent_tag / shift / joined / identify / de_identify /
	contains / consists_of_only / elements / valid / escaped_origin / relativefy."""
	from rogw.tranp.syntax.ast.entry import EntryOfDict
	from rogw.tranp.syntax.ast.path import EntryPath

	rng = ctx.sub_rng('entrypath')
	res = SearchResult('EntryPath algebra vs the element lists of the own tree walk')
	seen = set()
	dl = Deadline(ctx, 'search_entrypath', 10, 60)

	def split_el(el: str) -> tuple[str, int]:
		return (el[:el.index('[')], int(el[el.index('[') + 1:-1])) if el.endswith(']') else (el, -1)

	for i in range(ctx.scale(120, 1500)):
		if dl.over():
			break
		walk = trees.walk_entries(EntryOfDict(trees.gen_dict_tree(rng, 2 + i % 4, 2 + i % 6)))
		p = rng.choice(walk)[0]
		if rng.random() < 0.3:
			p = f"{p}.{rng.choice(trees.TAG_POOL)}[{rng.choice([0, 9, 10, 99, 100, 12345])}]"
		els = p.split('.')
		tags = [split_el(e)[0] for e in els]
		k = rng.choice([-9, -2, -1, 0, 1, 2, 9])
		rel = rng.choice(['x', 'a[1].b', ''])
		tag = rng.choice([*tags, 'zz', 'a'])
		only = rng.sample(sorted(set(tags) | {'a', 'b'}), rng.randint(0, len(set(tags) | {'a', 'b'})))
		cut = rng.randint(1, len(els))
		starts = '.'.join(els[:cut])
		bad = None
		try:
			with Budget():
				ep = EntryPath(p)
				checks: list[tuple[str, Any, Any]] = [
					('valid', ep.valid, True),
					('elements', ep.elements, els),
					('first', ep.first, split_el(els[0])),
					('last', ep.last, split_el(els[-1])),
					('first_tag', ep.first_tag, tags[0]),
					('last_tag', ep.last_tag, tags[-1]),
					(f'shift({k})', ep.shift(k).origin, '.'.join(els[k:] if k > 0 else els[:k] if k < 0 else els)),
					(f'joined({rel!r})', ep.joined(rel), p + '.' + rel if rel else p),
					(f'identify({tag!r}, {abs(k)})', EntryPath.identify(p, tag, abs(k)).origin, f'{p}.{tag}[{abs(k)}]'),
					(f'join({tag!r})', EntryPath.join(p, tag).origin, f'{p}.{tag}'),
					('de_identify', ep.de_identify().origin, '.'.join(tags)),
					(f'contains({tag!r})', ep.contains(tag), tag in tags),
					(f'consists_of_only({only})', ep.consists_of_only(*only), all(t in only for t in tags)),
					('escaped_origin', ep.escaped_origin, p.replace('.', '\\.').replace('[', '\\[').replace(']', '\\]')),
				]
				if len(els) >= 2:
					checks.append(('parent_tag', ep.parent_tag, tags[-2]))
				# relativefy is exact when the string `starts` does not occur again to its right (C10.relativefy_exact)
				if cut < len(els) and starts not in p[len(starts):]:
					checks.append((f'relativefy({starts!r})', ep.relativefy(starts).origin, '.'.join(els[cut:])))
				for name, got, want in checks:
					if got != want:
						bad = f'EntryPath({p!r}).{name} = {got!r}, the element list {els} says {want!r}'
						break
		except Exception as e:  # noqa: BLE001 - these calls succeed on every well-formed path
			bad = f'EntryPath({p!r}) (k={k}, tag={tag!r}, starts={starts!r}) raised {exc_enum(e)}: {str(e)[:160]}'
		res.cases += 1
		seen.add((p, k, tag))
		if bad:
			res.findings.append(Finding(key='entrypath-law', what=bad, replay={'path': p, 'k': k, 'tag': tag, 'only': only, 'starts': starts}))
			break
		if len(res.samples) < 2:
			res.samples.append({'path': p, 'k': k})
	res.distinct = len(seen)
	return res


@guarded_search
def search_dsn(ctx: Ctx) -> SearchResult:
	"""The DSN functions under EntryPath against Python's own split / slice / join on the same string (dsn.py), and the
	algebraic laws between them (left + right re-join to the whole, shift = left / right, root / parent = elements)."""
	from rogw.tranp.dsn.dsn import DSN
	from rogw.tranp.syntax.ast.entry import EntryOfDict
	rng = ctx.sub_rng('dsn')
	res = SearchResult('DSN.left/right/shift/root/parent/elements/elem_counts/join vs own split-slice-join and the laws between them')
	seen = set()
	dl = Deadline(ctx, 'search_dsn', 10, 60)
	for i in range(ctx.scale(150, 2000)):
		if dl.over():
			break
		if i % 2 == 0:
			walk = trees.walk_entries(EntryOfDict(trees.gen_dict_tree(rng, 2 + i % 4, 2 + i % 5)))
			p = rng.choice(walk)[0]
		else:
			p = gen_path_string(rng)
		d = rng.choice(['.', '.', '#', '::', ':'])
		o = p if d == '.' else p.replace('.', d if rng.random() < 0.8 else d + d[:1])
		own = [e for e in o.split(d) if e]
		n = len(own)
		k = rng.choice([-9, -2, -1, 0, 1, 2, 3, n - 1, n, n + 1])
		bad = None
		try:
			with Budget():
				checks = [
					('elements', DSN.elements(o, delimiter=d), own),
					('elem_counts', DSN.elem_counts(d.join(own), delimiter=d), n),
					(f'left({k})', DSN.left(o, k, delimiter=d), d.join(own[:k])),
					(f'right({k})', DSN.right(o, k, delimiter=d), d.join(own[-k:] if k != 0 else own)),
					(f'shift({k})', DSN.shift(o, k, delimiter=d), d.join(own[k:] if k > 0 else own[:k] if k < 0 else own)),
					('join', DSN.join(*own, '', delimiter=d), d.join(own)),
				]
				if 0 <= k <= n:
					checks.append((f'left({k})+right({n - k})', DSN.join(DSN.left(o, k, delimiter=d), DSN.right(o, n - k, delimiter=d) if n - k else '', delimiter=d), d.join(own)))
				if n >= 1:
					checks.append(('root', DSN.root(o, delimiter=d), own[0]))
				if n >= 2:
					checks.append(('parent', DSN.parent(o, delimiter=d), own[-2]))
				for name, got, want in checks:
					if got != want:
						bad = f'DSN.{name} of {o!r} (delimiter {d!r}) = {got!r}, split/slice/join says {want!r}'
						break
		except Exception as e:  # noqa: BLE001 - these calls succeed on every string
			bad = f'DSN on {o!r} (delimiter {d!r}, k={k}) raised {exc_enum(e)}: {str(e)[:160]}'
		res.cases += 1
		seen.add((o, d, k))
		if bad:
			res.findings.append(Finding(key='dsn-law', what=bad, replay={'origin': o, 'delimiter': d, 'k': k}))
			break
		if len(res.samples) < 2:
			res.samples.append({'origin': o, 'delimiter': d, 'k': k})
	res.distinct = len(seen)
	return res


@guarded_search
def search_resolve_order(ctx: Ctx) -> SearchResult:
	"""Real node classes of real modules under permuted query orders (the property's history quantifier)."""
	from rogw.tranp.syntax.ast.entrypoints import Entrypoints

	rng = ctx.sub_rng('order')
	res = SearchResult('class per path under permuted query orders (real node classes, real modules)')
	files = trees.real_source_files(ctx.thorough, rng, ctx.scale(3, 20))
	perms = ctx.scale(6, 24)
	seen = set()
	dl = Deadline(ctx, 'search_resolve_order', 30, 300)
	for f in files:
		if dl.over():
			break
		with open(f, encoding='utf-8') as fh:
			src = fh.read()
		app = common.MemApp(ctx.tmpdir())
		baseline: dict[str, str] | None = None
		for k in range(perms):
			try:
				with Budget(3 * CASE_BUDGET_S):
					ep = app.entrypoint(src)
			except Exception:  # noqa: BLE001
				break
			nodes = ep._Node__nodes
			paths = [p for p, _ in trees.walk_entries(nodes._Nodes__entries.by(ep.full_path))] if False else None
			all_paths = list(nodes._Nodes__entries._EntryCache__entries.keys())
			if len(all_paths) > 1500:
				all_paths = random.Random(f'{f}').sample(all_paths, 1500)
			order = list(all_paths)
			if k == 1:
				order.reverse()
			elif k > 1:
				rng.shuffle(order)
			got: dict[str, str] = {}
			for p in order:
				kind = rng.random() if k > 2 else 0.0
				try:
					with Budget():
						if kind < 0.7:
							got[p] = type(nodes.by(p)).__name__
						elif kind < 0.85:
							nodes.children(p)
							got[p] = type(nodes.by(p)).__name__
						else:
							try:
								nodes.parent(p)
							except CaseTimeout:
								raise
							except Exception:  # noqa: BLE001
								pass
							got[p] = type(nodes.by(p)).__name__
				except Exception as e:  # noqa: BLE001 - including CaseTimeout
					got[p] = exc_enum(e)
			res.cases += 1
			seen.add((f, k))
			if baseline is None:
				baseline = got
			else:
				diff = [p for p in baseline if baseline[p] != got.get(p)]
				if diff:
					p = diff[0]
					res.findings.append(Finding(key='resolve-order', what=f'class of {p} depends on query order: {baseline[p]} vs {got.get(p)}',
						replay={'file': f, 'path': p, 'permutation': k, 'order_prefix': order[:order.index(p) + 1][-50:]}))
					break
		if res.findings:
			break
		if baseline and len(res.samples) < 2:
			res.samples.append({'file': f, 'paths': len(baseline), 'permutations': perms, 'classes': sorted(set(baseline.values()))[:8]})
	res.distinct = len(seen)
	return res


@guarded_search
def search_queries(ctx: Ctx) -> SearchResult:
	"""Parent/children/siblings/ancestor of one shared Nodes instance, after arbitrary query histories, against an
	independent computation from the tree walk (the property: queries agree with each other and with the tree)."""
	from rogw.tranp.syntax.ast.entry import EntryOfDict
	from rogw.tranp.syntax.ast.query import Query
	from rogw.tranp.syntax.node.node import Node

	rng = ctx.sub_rng('queries')
	res = SearchResult('Nodes queries after random histories vs independent tree walk')
	seen = set()
	dl = Deadline(ctx, 'search_queries', 20, 180)
	pset: set[str] = set()
	for i in range(ctx.scale(60, 800)):
		if dl.over():
			break
		t = trees.gen_dict_tree(rng, 2 + i % 4, 2 + i % 5)
		root = EntryOfDict(t)
		walk = trees.walk_entries(root)
		paths = [p for p, _ in walk]
		pset = set(paths)
		tags_all = ['root', '__empty__', *trees.TAG_POOL]
		resolvable = [tg for tg in tags_all if rng.random() < 0.6]
		table = [(tg, [(f'K{j}', 'always')]) for j, tg in enumerate(resolvable)]
		di = make_di(root, table, ('T', 'always'))
		nodes = di.resolve(Query[Node])

		def elems(p: str) -> list[str]:
			return p.split('.')

		def tag_of(el: str) -> str:
			return el.split('[')[0]

		def expect(kind: str, p: str, tag: str) -> str:
			es = elems(p)
			if kind == 'id':
				return f'ok {paths.index(p) if p in pset else -1}'
			if kind == 'exists':
				return f'ok {p in pset}'
			if kind == 'by':
				return f'ok {p}' if p in pset else 'Errors.NodeNotFound'
			if kind == 'children':
				return 'ok ' + ','.join(q for q in paths if q.startswith(p + '.') and len(elems(q)) == len(es) + 1)
			if kind == 'siblings':
				if len(es) < 2:
					return 'Errors.NodeNotFound'
				up = '.'.join(es[:-1])
				return 'ok ' + ','.join(q for q in paths if q.startswith(up + '.') and len(elems(q)) == len(es))
			if kind == 'parent':
				for k in range(len(es) - 1, 0, -1):
					if tag_of(es[k - 1]) in resolvable:
						return 'ok ' + '.'.join(es[:k])
				return 'Errors.NodeNotFound'
			for k in range(len(es), 0, -1):
				if tag_of(es[k - 1]) == tag:
					return 'ok ' + '.'.join(es[:k])
			return 'ValueError'

		history: list[tuple[str, str, str]] = []
		bad = None
		for _ in range(40):
			kind = rng.choice(['children', 'siblings', 'parent', 'ancestor', 'ancestor', 'id', 'exists', 'by'])
			p = rng.choice(paths)
			if kind in ('id', 'exists', 'by') and rng.random() < 0.3:
				p = mutate_path(rng, p, tags_all)  # mostly a path outside the tree: id -1, exists False, by NodeNotFound
			tag = tag_of(rng.choice(elems(p))) if rng.random() < 0.8 else rng.choice(tags_all)
			history.append((kind, p, tag))
			try:
				with Budget():
					if kind == 'children':
						got = 'ok ' + ','.join(n.full_path for n in nodes.children(p))
					elif kind == 'siblings':
						got = 'ok ' + ','.join(n.full_path for n in nodes.siblings(p))
					elif kind == 'parent':
						got = 'ok ' + nodes.parent(p).full_path
					elif kind == 'id':
						got = f'ok {nodes.id(p)}'
					elif kind == 'exists':
						got = f'ok {nodes.exists(p)}'
					elif kind == 'by':
						got = 'ok ' + nodes.by(p).full_path
					else:
						got = 'ok ' + nodes.ancestor(p, tag).full_path
			except Exception as e:  # noqa: BLE001 - including CaseTimeout
				got = exc_enum(e)
			want = expect(kind, p, tag)
			if got != want:
				bad = f'{kind}({p}{", " + tag if kind == "ancestor" else ""}) = {got!r} after {len(history) - 1} earlier queries; the tree says {want!r}'
				break
		res.cases += 1
		seen.add(trees.dict_sexp(t))
		if bad:
			res.findings.append(Finding(key='query-disagrees-with-tree', what=bad, replay={'sexp': trees.dict_sexp(t), 'resolvable': resolvable, 'history': history}))
			break
		if len(res.samples) < 2:
			res.samples.append({'entries': len(paths), 'history': history[:4]})
	res.distinct = len(seen)
	assert pset is not None
	return res


def _levels_under(via: str, paths: list[str], depth: int) -> list[str]:
	if depth == 0:
		return []
	n = len(via.split('.'))
	return [p for p in paths if p == via or (p.startswith(via + '.') and (depth < 0 or len(p.split('.')) - n <= depth))]


def _safe_from_walk(via: str, paths: list[str], has_child: Any) -> bool:
	"""Independent (walk-only) sufficient condition for RelativefySafe: the string `via` does not occur again to the right of
	`via` in a terminal's path (then `origin.split(via)[1]` is the whole remainder)."""
	under = _levels_under(via, paths, 3)
	return all(via not in p[len(via):] for p in under[1:] if not has_child(p))


@guarded_search
def search_expand(ctx: Ctx) -> SearchResult:
	"""expand / values / group_by of the real Nodes on random trees against the tree itself (document-order walk), on the
	domain where C10.expand_spec(_full) says they agree; outside it the latent relativefy hazard is only counted."""
	from rogw.tranp.syntax.ast.entry import EntryOfDict

	rng = ctx.sub_rng('expand')
	res = SearchResult('expand / values / group_by of the real Nodes vs the tree (random trees; expand on the RelativefySafe domain)')
	seen = set()
	hist: dict[str, int] = {}

	def bump(k: str) -> None:
		hist[k] = hist.get(k, 0) + 1

	latent: list[str] = []
	# the witnesses of the counterexample theorems, replayed on the real Nodes (synthetic tag sets: latent, not findings)
	for name, w in load_corpus().items():
		if w.get('kind') == 'history':
			root, nodes, _ = nodes_of_dict(w['tree'], w['resolvable'])
			pf = shared_finder().full_pathfy(root)
			outs = [real_op(shared_finder(), nodes, root, pf, op, True) for op in w['ops'][:w['probe'] + 1]]
			latent.append(f"{name}: after {w['ops'][:w['probe']]} the real {w['ops'][w['probe']]} = {outs[-1]}, the tree says {w['tree_says']}, reproduced = {outs[-1] != w['tree_says']}")
			bump('latent-witness-reproduced' if outs[-1] != w['tree_says'] else 'latent-witness-not-reproduced')
			continue
		if w.get('kind') != 'dict':
			continue
		_, nodes, _ = nodes_of_dict(w['tree'], w['resolvable'])
		try:
			got = [n.full_path for n in nodes.expand(w['via'])]
		except Exception as e:  # noqa: BLE001
			got = [exc_enum(e)]
		if w.get('regression'):
			# a repaired defect: the real code must agree with the tree
			bump('regression-witness-passes' if got == w['tree_says'] else 'regression-witness-fails')
			if got != w['tree_says']:
				res.findings.append(Finding(key='expand-drops-sibling:' + name, what=f"expand({w['via']}) = {got}, the tree says {w['tree_says']} ({w['what']})",
					replay={'tree': w['tree'], 'resolvable': w['resolvable'], 'via': w['via']}))
			continue
		latent.append(f"{name}: real expand = {got}, tree says {w['tree_says']}, reproduced = {got != w['tree_says']}")
		bump('latent-witness-reproduced' if got != w['tree_says'] else 'latent-witness-not-reproduced')

	dl = Deadline(ctx, 'search_expand', 25, 240)
	for i in range(ctx.scale(70, 1200)):
		if dl.over():
			break
		t = trees.gen_dict_tree(rng, 2 + i % 5, 2 + i % 4)
		root = EntryOfDict(t)
		walk = trees.walk_entries(root)
		paths = [p for p, _ in walk]
		ents = dict(walk)
		tags_all = ['root', '__empty__', *trees.TAG_POOL]
		resolvable = [tg for tg in tags_all if rng.random() < (0.25 if i % 2 else 0.6)]
		_, nodes, _ = nodes_of_dict(t, resolvable)
		cache = nodes._Nodes__entries
		has_child = lambda p: ents[p].has_child
		is_res = lambda tg: tg in resolvable
		inner = [p for p in paths if ents[p].has_child]
		vias = [paths[0], *rng.sample(inner, min(6, len(inner))), *rng.sample(paths, min(2, len(paths)))]
		bad = None
		for via in vias:
			try:
				with Budget():
					got = [n.full_path for n in nodes.expand(via)]
				rel_safe = _safe_from_walk(via, paths, has_child)
				capped = ideal_expand(via, paths, has_child, is_res, 3)
				full = ideal_expand(via, paths, has_child, is_res)
				if rel_safe:
					bump('safe' if capped == full else 'safe-but-deeper-than-3')
					if got != capped:
						bad = f'expand({via}) = {got}, the tree (3 levels) says {capped}'
				else:
					bump('relativefy-unsafe')
					if got != capped:
						bump('unsafe-and-differs')
				vals = nodes.values(via)
				want_vals = [e.value for p, e in walk if (p == via or p.startswith(via + '.')) and e.value]
				if bad is None and vals != want_vals:
					bad = f'values({via}) = {vals}, document order says {want_vals}'
				for d in (-1, 0, 1, 2, 3, 4):
					keys = list(cache.group_by(via, d).keys())
					if bad is None and keys != _levels_under(via, paths, d):
						bad = f'group_by({via}, {d}) = {keys}, the tree says {_levels_under(via, paths, d)}'
			except Exception as e:  # noqa: BLE001 - these calls succeed on every enumerated path
				bad = f'real code raised {exc_enum(e)} in expand/values/group_by({via}): {str(e)[:160]}'
			if bad:
				break
		res.cases += 1
		seen.add(trees.dict_sexp(t))
		if bad:
			res.findings.append(Finding(key='expand-values-groupby-disagree-with-tree', what=bad, replay={'sexp': trees.dict_sexp(t), 'resolvable': resolvable}))
			break
	res.distinct = len(seen)
	res.histogram = hist
	res.note = 'latent witnesses (synthetic tag sets on which the real expand departs from the tree exactly as the *_counterexample theorems say; not findings): ' + ' | '.join(latent)
	return res


def _classify_expand_diff(via: str, got: list[str], full: list[str], capped: list[str]) -> str:
	missing = [p for p in full if p not in got]
	extra = [p for p in got if p not in full]
	n = len(via.split('.'))
	if got == capped and missing:
		rel = missing[0].split('.')[n:]
		return 'expand-depth:' + tag_of(via.split('.')[-1]) + '>' + '>'.join(tag_of(e) for e in rel)
	if missing and not extra:
		pairs = set()
		for m in missing:
			for r in got:
				if m.startswith(r) and m.split('.')[:len(r.split('.'))] != r.split('.'):
					pairs.add(f"{tag_of(r.split('.')[-1])}/{tag_of(m.split('.')[len(r.split('.')) - 1])}")
		if pairs:
			return 'expand-drops-sibling:' + sorted(pairs)[0]
	return 'expand-disagrees-with-tree'


@guarded_search
def search_expand_real(ctx: Ctx) -> SearchResult:
	"""Every entry path of real parse trees: Nodes.expand(via) (= Node._under_expand()) against the independent
	"nearest resolvable descendants + terminals without a resolvable ancestor", with no depth cap."""
	rng = ctx.sub_rng('expand-real')
	res = SearchResult('Nodes.expand on real parse trees (real node classes) vs nearest-resolvable-descendants without depth cap')
	sources: list[tuple[str, str]] = []
	for name, w in load_corpus().items():
		if w.get('kind') == 'source':
			sources += [(f'corpus:{name}#{k}', src) for k, src in enumerate(w['sources'])]
	for f in trees.real_source_files(ctx.thorough, rng, ctx.scale(3, 40)):
		with open(f, encoding='utf-8') as fh:
			sources.append((f, fh.read()))
	seen_keys: set[str] = set()
	hist: dict[str, int] = {}
	limit = ctx.scale(500, 4000)
	dl = Deadline(ctx, 'search_expand_real', 30, 300)
	start_tag, below = real_alphabet()
	outside: dict[str, int] = {}
	for name, src in sources:
		if dl.over():
			break
		app = common.MemApp(ctx.tmpdir())
		try:
			with Budget(3 * CASE_BUDGET_S):
				ep = app.entrypoint(src if src.endswith('\n') else src + '\n')
		except Exception:  # noqa: BLE001 - outside tranp's grammar (or over budget)
			continue
		nodes = ep._Node__nodes
		cache = nodes._Nodes__entries
		resolver = nodes._Nodes__resolver
		walk = trees.walk_entries(cache.by(ep.full_path))
		paths = [p for p, _ in walk]
		# the generated tag alphabet (Generated/TagAlphabet.lean) really covers the parse trees: hypothesis of expand_spec_grammar
		for k, (_, e) in enumerate(walk):
			if (k == 0 and e.name != start_tag) or (k > 0 and e.name not in below):
				outside[e.name] = outside.get(e.name, 0) + 1
		check_shape(walk[0][1], True)
		has_child = lambda p: cache.by(p).has_child
		vias = paths if len(paths) <= limit else [paths[0], *rng.sample(paths, limit)]
		for via in vias:
			if dl.over():
				break
			res.cases += 1
			try:
				with Budget():
					got = [n.full_path for n in nodes.expand(via)]
			except Exception as e:  # noqa: BLE001 - including CaseTimeout
				got = [exc_enum(e)]
			full = ideal_expand(via, paths, has_child, resolver.can_resolve)
			if got == full:
				continue
			capped = ideal_expand(via, paths, has_child, resolver.can_resolve, 3)
			key = _classify_expand_diff(via, got, full, capped)
			hist[key] = hist.get(key, 0) + 1
			if key not in seen_keys and len(seen_keys) < 8:
				seen_keys.add(key)
				res.findings.append(Finding(key=key, what=f'Nodes.expand({via}) = {got[:6]}, the tree says {full[:6]} (source {name})',
					replay={'source_name': name, 'source': src[:4000], 'via': via, 'got': got, 'tree_says': full}))
		if len(res.samples) < 2:
			res.samples.append({'source': name, 'paths': len(paths), 'checked': len(vias)})
	res.distinct = res.cases
	res.histogram = hist
	if outside:
		ALPHABET_MISSES.update(outside)
		ctx.notes.append(f'entry names outside the generated tag alphabet: {outside}')
	return res


ALPHABET_MISSES: dict[str, int] = {}


def real_alphabet() -> tuple[str, set[str]]:
	from translate import gen_tag_alphabet
	start, below = gen_tag_alphabet.alphabet()
	return start, set(below)



# ---------------------------------------------------------------------------------------------
# the shape the grammar gives a tree (hypotheses of C10.expand_spec_full_grammar, re-computed on the real objects)


_SHAPE: list[Any] = []
SHAPE_MISSES: dict[str, int] = {}
SHAPE_CHECKED = {'trees': 0, 'entries': 0}


def grammar_shape() -> tuple[str, dict[str, set[str]], list[str]]:
	"""(start tag, tree tag -> names its children can carry, resolvable tags) as the translator reads them from the source."""
	if not _SHAPE:
		from translate import gen_grammar_children
		start, kids, resolvable, _ = gen_grammar_children.tables()
		_SHAPE.append((start, {k: set(v) for k, v in kids.items()}, list(resolvable)))
	return _SHAPE[0]


def shape_misses(entry: Any, kids: dict[str, set[str]]) -> dict[str, int]:
	"""Parent/child name pairs of a real Entry tree that the generated child table does not list (own walk, no recursion limit)."""
	out: dict[str, int] = {}
	stack = [entry]
	while stack:
		e = stack.pop()
		if not e.has_child:
			continue
		allowed = kids.get(e.name)
		for c in e.children:
			if allowed is None or c.name not in allowed:
				k = f'{e.name}>{c.name}'
				out[k] = out.get(k, 0) + 1
			stack.append(c)
	return out


def check_shape(root: Any, whole_module: bool) -> None:
	"""Every real parse tree the check sees must conform to Generated/GrammarChildren.lean (hypothesis `hconf`)."""
	try:
		start, kids, _ = grammar_shape()
	except Exception:  # noqa: BLE001 - reported once by run() as a failed translator
		return
	SHAPE_CHECKED['trees'] += 1
	SHAPE_CHECKED['entries'] += trees.entry_size(root)
	if whole_module and root.name != start:
		SHAPE_MISSES[f'root:{root.name}'] = SHAPE_MISSES.get(f'root:{root.name}', 0) + 1
	for k, n in shape_misses(root, kids).items():
		SHAPE_MISSES[k] = SHAPE_MISSES.get(k, 0) + n


def entry_to_dict(e: Any) -> dict[str, Any] | None:
	if e.is_empty:
		return None
	if e.has_child:
		return {'name': e.name, 'children': [entry_to_dict(c) for c in e.children]}
	return {'name': e.name, 'value': e.value}


def dict_name(t: dict[str, Any] | None) -> str:
	return '__empty__' if t is None else t['name']


def dict_conforms(t: dict[str, Any] | None, kids: dict[str, set[str]]) -> bool:
	if t is None or 'children' not in t:
		return True
	allowed = kids.get(t['name'], set())
	return all(dict_name(c) in allowed and dict_conforms(c, kids) for c in t['children'])


def dict_uheight(t: dict[str, Any] | None, can_res: Any) -> int:
	if t is None or 'children' not in t or can_res(t['name']) or not t['children']:
		return 0
	return 1 + max(dict_uheight(c, can_res) for c in t['children'])


def table_chain(kids: dict[str, set[str]], can_res: Any) -> tuple[str, str, str] | None:
	"""Three unresolvable tags nested directly inside one another above a further entry, if the table allows one."""
	for a in sorted(kids):
		if can_res(a):
			continue
		for b in sorted(kids[a]):
			if can_res(b):
				continue
			for c in sorted(kids.get(b, ())):
				if not can_res(c) and kids.get(c):
					return (a, b, c)
	return None


def dict_walk(t: dict[str, Any] | None, path: str = '') -> list[tuple[str, dict[str, Any] | None]]:
	path = path or dict_name(t)
	out = [(path, t)]
	if t is not None and 'children' in t:
		names = [dict_name(c) for c in t['children']]
		for i, c in enumerate(t['children']):
			el = names[i] if names.count(names[i]) == 1 else f'{names[i]}[{i}]'
			out.extend(dict_walk(c, f'{path}.{el}'))
	return out


def stream_shape(ctx: Ctx) -> Stream:
	"""`conformsB`, `uheight`, `chainFreeB` of the model (the vocabulary of expand_spec_full_grammar) against the harness's own
	computation over the translator's tables, on real subtrees, on subtrees with one renamed / regrafted entry, and under the
	real table with some resolvable tags taken away."""
	rng = ctx.sub_rng('grammar-shape')
	cases: list[Any] = []
	try:
		start, kids, resolvable = grammar_shape()
	except Exception as e:  # noqa: BLE001 - the failed translator is reported by run()
		st = common.correspond('grammar-shape', [], 'tree', classify=lambda d: d['kind'])
		st.note = f'skipped: the translator failed ({type(e).__name__})'
		return st
	app = common.MemApp(ctx.tmpdir())
	names = sorted({n for v in kids.values() for n in v} | set(kids))
	dl = Deadline(ctx, 'grammar-shape', 20, 120)
	subs: list[Any] = []
	for f in trees.real_source_files(ctx.thorough, rng, ctx.scale(3, 20)):
		if dl.over():
			break
		try:
			with Budget(3 * CASE_BUDGET_S):
				root = trees.parse_real(app, f)
		except Exception:  # noqa: BLE001
			continue
		check_shape(root, True)
		found = subtrees_of(root, 250)
		rng.shuffle(found)
		subs.extend(found[:ctx.scale(8, 20)])

	def build(e: Any, i: int) -> tuple[Any, list[str], list[str]]:
		t = entry_to_dict(e)
		kind = 'real'
		walk = dict_walk(t)
		inner = [(p, x) for p, x in walk if x is not None and 'children' in x]
		if i % 3 == 1 and len(walk) > 1:
			# one entry renamed to another name of the alphabet (mostly breaks conformance, sometimes not)
			_, x = rng.choice(walk[1:])
			if x is not None:
				x['name'] = rng.choice(names)
				kind = 'renamed'
		elif i % 3 == 2 and len(inner) > 2:
			# a subtree hung below another tree entry
			(_, a), (_, b) = rng.sample(inner[1:], 2) if len(inner) > 2 else (inner[0], inner[-1])
			if a is not b and all(x is not a for _, x in dict_walk(b)):
				a['children'].insert(rng.randint(0, len(a['children'])), b)
				kind = 'regrafted'
		drop = set(rng.sample(resolvable, rng.choice([0, 0, 1, 2, 4, 12]))) if i % 2 else set()
		res = [tg for tg in resolvable if tg not in drop]
		can_res = lambda tg: tg in res
		table = 'table\t' + ';'.join(f'{tg}=X:always' for tg in res) + '\tT:always'
		walk = dict_walk(t)
		ops: list[list[str]] = [['tree', trees.dict_sexp(t)], table.split('\t'), ['conforms'], ['chainfree']]
		ents = dict(walk)
		picks = rng.sample(walk, min(10, len(walk)))
		ops += [['uheight', p] for p, _ in picks] + [['uheight', walk[0][0] + '.nowhere']]
		lines, real = [], []
		for op in ops:
			lines.append('\t'.join(op))
			if op[0] == 'tree':
				real.append(f'ok {len(walk)}')
			elif op[0] == 'table':
				real.append('ok')
			elif op[0] == 'conforms':
				real.append(str(dict_conforms(t, kids)).lower())
			elif op[0] == 'chainfree':
				real.append(str(table_chain(kids, can_res) is None).lower())
			else:
				real.append(f'ok {dict_uheight(ents[op[1]], can_res)}' if op[1] in ents else 'Errors.NodeNotFound')
		return ({'kind': f"{kind}:conforms={real[2]}:chainfree={real[3]}", 'entries': len(walk)}, lines, real)

	for i, e in enumerate(subs):
		if dl.over():
			break
		cases.append(safe_case(f'shape#{i}', lambda e=e, i=i: build(e, i)))
	st = common.correspond('grammar-shape', cases, 'tree', classify=lambda d: d['kind'])
	st.note = 'conformsB / uheight / chainFreeB of the model vs the harness computation over the tables of translate/gen_grammar_children.py: real statement-level subtrees, one entry renamed, one subtree regrafted; real resolvable tags with 0..12 taken away'
	return st

# ---------------------------------------------------------------------------------------------


STATEMENTS = {
	'pluck_pathfy': 'for every tree t and every (p, e) in full_pathfy(t): pluck(t, p) = e (abstract element paths; repeated, unique and empty tags)',
	'paths_nodup': 'for every tree the element paths of full_pathfy(t) are pairwise distinct',
	'count': 'for every tree full_pathfy(t) has exactly size(t) paths (with paths_nodup and pluck_pathfy: positions <-> paths is a bijection)',
	'codec_int': 'int(str(n)) = n for every natural n (index part of a path element)',
	'codec_elem': '__break_tag(encode(el)) = (el.tag, el.index or -1) for every element whose tag is non-empty and free of . [ ]',
	'codec_path': 'DSN.elements(DSN.join(encoded elements)) = the encoded elements, for every path of well-formed tags',
	'codec_inj': 'the path encoder is injective on paths of well-formed tags (decode(encode p) = p)',
	'pathfyS_encoded': 'the (key, entry) insertions full_pathfy performs on strings are the abstract enumeration with every path encoded (WfTags t)',
	'keys_nodup': 'the string keys of full_pathfy(t) are pairwise distinct (WfTags t)',
	'fullPathfy_encoded': 'the dict full_pathfy(t) returns loses no insertion and keeps pre-order: it equals the encoded abstract enumeration (WfTags t)',
	'countS': 'full_pathfy(t) on strings has exactly size(t) keys (WfTags t)',
	'pluckS_pathfyS': 'headline: for every (s, e) in full_pathfy(t) on strings, pluck(t, s) = e (WfTags t)',
	'ids_preorder': 'EntryCache.index_of(s) = i whenever (s, e) is the i-th pair of full_pathfy(t): ids are pre-order (document order) ranks',
	'cache_by': 'EntryCache.by(s) returns e for every (s, e) of full_pathfy(t)',
	'children_agree': 'Nodes.children(p) (paths before resolution) on the cache Nodes.__init__ builds = the paths p.<element of child i> in child order, for the entry at p; [] for tokens / empty entries (WfTags t, any table)',
	'children_entries': 'the i-th child element is the one full_pathfy gave child i, and EntryCache.by at that child path returns child i',
	'parent_nearest': 'Nodes.parent(p) = the nearest proper prefix of p whose last tag is resolvable, Errors.NodeNotFound when there is none (any table)',
	'parent_of_child': 'children and parent agree: the parent of every child path of p is p when the tag of p is resolvable',
	'siblings_agree': 'Nodes.siblings(p) = Nodes.children(p without its last element) for every non-root enumerated p',
	'siblings_root': 'Nodes.siblings(root) raises Errors.NodeNotFound',
	'ancestor_nearest': 'Nodes.ancestor(p, tag) = the prefix of p ending at the nearest element (from the end, own element included) with that tag; ValueError when no element has it',
	'subtree_enumeration': 'the enumeration of the subtree at an enumerated path is an order-preserving part of the enumeration of the whole tree',
	'groupBy_depth': 'EntryCache.group_by(via, depth) for every depth != 0 = the pre-order enumeration of the subtree at via cut depth levels below via; the model fuel always suffices',
	'groupBy_unbounded': 'group_by(via) with negative (unbounded) depth = the whole pre-order enumeration of the subtree at via',
	'groupBy_zero': 'group_by(via, 0) = {}',
	'values_document_order': 'Nodes.values(via) = the non-empty token values of the subtree at via in document order',
	'expand_spec': 'Nodes.expand(via) (paths before resolution) = for each child subtree, three levels deep, the entry itself when its tag is resolvable or it is a terminal, else the same for its children — under the decidable side condition RelativefySafe (no condition on sibling tags since the repair 8ae8ddc)',
	'expand_spec_full': 'with, in addition, nothing expandable deeper than three levels: expand(via) = nearest resolvable descendants + terminals without a resolvable ancestor below via (no depth cap)',
	'expand_relativefy_counterexample': '_counterexample: without RelativefySafe expand_spec is false — via r, terminal r.ar.t, a resolvable: origin.split(starts)[1] truncates the relative path (synthetic tags only: latent)',
	'expand_depth3_counterexample': '_counterexample: three levels do not suffice in general — a resolvable entry four levels below via behind unresolvable tree entries is missed (not reachable in the real grammar as far as the search sees: latent)',
	'break_tag_join': 'EntryPath.identify then .last (__break_tag) returns (tag, index) for every index of any number of digits (well-formed origin and tag)',
	'path_first_last': 'EntryPath.first / .last of an encoded path = tag and index (-1 = none) of its first / last element',
	'path_shift': 'EntryPath.shift(k) = drop k leading elements, shift(-k) = drop the last k (Python slice clamping), on encoded paths',
	'path_joined': 'EntryPath.joined concatenates the element lists',
	'path_parent_tag': 'EntryPath.parent_tag = tag of the last but one element',
	'path_contains': 'EntryPath.contains / consists_of_only speak about the element tags with indices stripped',
	'relativefy_exact': 'DSN.relativefy / EntryPath.relativefy (origin.split(starts)[1]) return the true relative path whenever the string starts does not occur again to its right',
	'relativefy_safe_of_root_name': 'tag-level sufficient condition: if the root tag has a non-digit character and is a substring of no tag below the root (RootNameFree, decidable) then RelativefySafe holds at every path of the tree',
	'grammar_root_name_free': 'decided over the GENERATED tag alphabet of data/grammar.lark (rule names, aliases, terminal names, __empty__): file_input occurs inside none of them',
	'expand_spec_grammar': 'expand_spec with no string-level hypothesis for every tree rooted at the start symbol whose entries carry names of the generated alphabet (every real parse tree; checked against real trees on every run)',
	'dsn_left_right': 'DSN.left(path, k) = elements[:k] and DSN.right(path, k) = elements[-k:] (everything for k = 0) re-joined, on every encoded path, for every integer k (Python slice clamping)',
	'dsn_shift': 'DSN.shift(path, k) = elements[k:] for k > 0, elements[:k] for k < 0, the path for k = 0',
	'dsn_root_parent': 'DSN.root = first element, DSN.parent = last but one element of an encoded path',
	'path_valid': 'EntryPath.valid of an encoded path = it has at least one element',
	'path_escaped': 'EntryPath.escaped_origin is injective on paths free of backslashes: dropping the escapes gives the path back',
	'pluck_deindexed': 'pluck of a path with the index of ONE element dropped (any position, any tree) = pluck of the path indexed with the position of the LAST child carrying that tag; nothing when no child carries it (the documented lookup rule: index when present, else the last child with the tag)',
	'pluckS_deindexed': 'the same on the strings ASTFinder.pluck receives (any first element stands for the root): when the path indexed with the last tag child leads to x, so does the de-indexed path (WfTags t)',
	'find_spec': 'ASTFinder.find(root, via, tester, depth) from any enumerated base path = the pre-order enumeration of the subtree there cut depth levels below it (never for depth < 0), keyed by the paths the WHOLE tree gives those entries (the index of the last element of via included), filtered by the tester — every tester, every depth',
	'find_sound': 'every (path, entry) find reports is a pair of full_pathfy(root), pluck(root, path) returns that very entry, and the tester accepted it',
	'find_complete': 'with unbounded depth find leaves out nothing at or below via: the whole enumeration of the subtree, filtered',
	'find_agrees_group_by': 'ASTFinder.find(root, via, always, depth) = EntryCache.group_by(via, depth) of the cache Nodes builds, for every non-zero depth (same keys, order, entries)',
	'finder_exists': 'ASTFinder.exists is True on every path of full_pathfy(root)',
	'expand_depth_bounded': 'expandOf 3 = expandFullOf (three levels are all levels) whenever no child of the entry starts three nested unresolvable levels (uheight <= 2) — any tree, any resolvable-tag set',
	'conforming_depth': 'a tree that conforms to a child relation without three directly nested unresolvable tags above a further entry (ChainFree) has uheight <= 2 at every entry — any relation, any resolvable-tag set',
	'grammar_chain_free': 'decided over the GENERATED child table of data/grammar.lark (lark compiled rules: inlining of _rules and single-child ?rules, filtered tokens, placeholders, aliases) and the GENERATED symbol_mapping() tags: no three tree tags without a node class nest directly above a further entry',
	'expand_spec_full_grammar': 'expand_spec_full with neither the string-level nor the depth hypothesis: for every tree rooted at the start symbol that conforms to the generated child table, under any table resolving at least the shipped tags, Nodes.expand(via) (paths before resolution) = nearest resolvable descendants + terminals without a resolvable ancestor, at every entry path',
	'load_resolve': 'Resolver.load(mapping).resolve(symbol) = the classes whose symbol list names the symbol, in the order of mapping.symbols (a class may serve several symbols); without any the fallback class; without fallback Errors.UnresolvedNode — every mapping, every symbol',
	'load_can_resolve': 'can_resolve(symbol) after load = some class of the mapping lists the symbol (the fallback does not count)',
	'resolve_list_order': 'resolving a list of paths (children / siblings / expand results) gives the same classes from every reachable instance cache as from the empty one',
	'memo_keys_injective': 'the memo keys GENERATED from query.py determine the query: same key => same query (ancestor.{via}#{tag}: for via free of #)',
	'memo_transparent': 'on one Nodes instance, after any history of queries (memoised or not, failing or not) every query returns what the memo-free evaluation on a fresh resolver returns, for every world (Memoize.get keeps the first factory per key; keys generated from the source)',
	'memo_key_counterexample': '_counterexample: without the #-condition transparency is false — ancestor(r.a, b#r) and ancestor(r.a#b, r) share the key ancestor.r.a#b#r (latent: no lark name contains #; replayed on the real Nodes)',
	'resolve_order': 'for every World (tree, cache, class table, features) and every instance cache reachable by any sequence of successful Nodes.by resolutions, the class returned for p equals the cache-free first-accepting-class choice classOf',
	'resolve_order_queries': 'the same for an explicit list of earlier Nodes.by queries (failing ones included) starting from the empty instance cache',
}


def run(ctx: Ctx) -> int:
	translate_ok, translate_msg = True, ''
	with ctx.timed('translate'):
		try:
			from translate import gen_nodes_memo, gen_tag_alphabet
			ctx.generated_tables.extend(gen_nodes_memo.generate())
			ctx.generated_tables.extend(gen_tag_alphabet.generate())
			from translate import gen_grammar_children
			ctx.generated_tables.extend(gen_grammar_children.generate())
		except Exception as e:  # noqa: BLE001 - an unrecognised shape of the memo calls breaks the tie (DESIGN §2.5)
			translate_ok, translate_msg = False, f'{type(e).__name__}: {e}'
			ctx.notes.append(f'translator failed: {translate_msg}')
			print(f'[{PROP}] translator failed (the tie is broken): {translate_msg}')
	proof = common.prove(ctx, PROP, leanchecker=ctx.thorough)
	with ctx.timed('correspondence'):
		streams = [stream_corpus(ctx), stream_path_algebra(ctx), stream_random(ctx), stream_real(ctx), stream_shape(ctx)]
	with ctx.timed('search'):
		searches = [search_laws(ctx), search_entrypath(ctx), search_dsn(ctx), search_class_choice(ctx), search_queries(ctx), search_expand(ctx), search_expand_real(ctx), search_resolve_order(ctx)]
	if ALPHABET_MISSES and translate_ok:
		# a real parse tree carries a name the generated alphabet does not list: the tie behind expand_spec_grammar is broken
		translate_ok, translate_msg = False, f'entry names of real parse trees outside Generated/TagAlphabet.lean: {sorted(ALPHABET_MISSES)[:10]}'
	if SHAPE_MISSES and translate_ok:
		# a real parse tree has a parent/child pair the generated child table does not list: hypothesis hconf of expand_spec_full_grammar fails on real trees
		translate_ok, translate_msg = False, f'parent>child pairs of real parse trees outside Generated/GrammarChildren.lean: {sorted(SHAPE_MISSES)[:10]}'
	ctx.notes.append(f"grammar shape: {SHAPE_CHECKED['trees']} real parse trees / {SHAPE_CHECKED['entries']} entries checked against the generated child table, {sum(SHAPE_MISSES.values())} pairs outside it")
	return common.finish(ctx, proof, streams, searches,
		translate_ok=translate_ok, translate_msg=translate_msg,
		statements=STATEMENTS,
		partial={
			'proved': 'each entry has exactly one full path and lookup returns that entry (pluck_pathfy, paths_nodup, count on element paths; '
				'pathfyS_encoded, keys_nodup, fullPathfy_encoded, countS, pluckS_pathfyS on the strings, through codec_int/elem/path/inj); '
				'the EntryPath algebra and the DSN functions below it act as list operations on elements (break_tag_join for every index, path_first_last, path_shift, path_joined, path_parent_tag, path_contains, dsn_left_right, dsn_shift, dsn_root_parent); ids follow document order (ids_preorder, cache_by); children / parent / siblings / ancestor agree with the tree and with each other '
				'(children_agree, children_entries, parent_nearest, parent_of_child, siblings_agree, siblings_root, ancestor_nearest — on the path lists before class resolution); '
				'group_by for every depth, values (subtree_enumeration, groupBy_depth/unbounded/zero, values_document_order); '
				'expand agrees with the tree under RelativefySafe (expand_spec, expand_spec_full), which is discharged for the shipped grammar (relativefy_exact, relativefy_safe_of_root_name, grammar_root_name_free over the generated alphabet, expand_spec_grammar), and provably not without it / beyond three levels '
				'(expand_relativefy_counterexample, expand_depth3_counterexample: latent, synthetic tag sets only); the depth hypothesis is discharged for the shipped grammar and symbol mapping as well '
				'(expand_depth_bounded, conforming_depth, grammar_chain_free decided over the generated child table and resolvable tags, expand_spec_full_grammar: expand = the uncapped tree computation on every conforming tree); '
				'paths full_pathfy does not produce follow the lookup rule "index when present, else the LAST child with the tag" (pluck_deindexed, pluckS_deindexed); ASTFinder.find / exists report full paths of the whole tree below any base path, for every tester and depth, and agree with group_by (find_spec, find_sound, find_complete, find_agrees_group_by, finder_exists); '
				'the candidate classes of a symbol are those the mapping lists for it, in mapping order (load_resolve, load_can_resolve); the node class is independent of earlier queries (resolve_order, resolve_order_queries, resolve_list_order) and the query memo of Nodes is transparent for every history (memo_keys_injective over the generated keys, memo_transparent; memo_key_counterexample for via containing #) — all on the model, for all trees / worlds',
			'correspondence_only': 'the EntryPath algebra and the DSN functions on malformed strings and with delimiters other than "." (stream path-algebra); the Memo/Memoize semantics (first factory kept, exception not cached) as modelled in Model/NodesMemo.lean; the real match_feature functions are pure functions of (tree, path) — validated by query permutations on real modules; '
				'the reading of lark\'s tree builder in translate/gen_grammar_children.py (inlining, filtered tokens, placeholders) — tied by the conformance check on real parse trees and the stream grammar-shape; '
				'match_feature implementations that call back into Nodes fill the real memo / instance cache with extra entries the model does not create (observationally equal by memo_transparent)',
			'search_only': 'that real parse trees conform to the generated child table (hypothesis hconf of expand_spec_full_grammar) is checked on every tree the check parses, not proved about lark; expand = uncapped tree computation is additionally searched on every entry path of real parse trees',
		},
		assumptions=[
			'tags are non-empty and free of ".", "[" and "]" (true of every lark rule/terminal name and of __empty__)',
			"int() spellings other than ASCII digits with optional '-' are outside the model and never generated",
			'memo_transparent: no ancestor query with a # in via (true of every path over lark names)',
			'expand_spec: RelativefySafe (relativefy(via) yields the true relative tags for the terminals below via); decidable and re-computed on the real objects by the expandsafe op',
		],
		trusted=['EntryOfDict/EntryOfLark expose the tree faithfully (C15 covers the lark side)', 'lark builds trees from its compiled rules as lark/parse_tree_builder.py says (the generated child table over-approximates them; every real parse tree seen is checked to conform)', 'lark inlines every rule whose name starts with an underscore (such names are left out of the generated tag alphabet; every entry name of the real parse trees visited by the search is checked to be in the alphabet)'])


def replay(ctx: Ctx, path: str) -> int:
	with open(path, encoding='utf-8') as f:
		rec = json.load(f)
	print(json.dumps(rec, indent=1)[:4000])
	if rec.get('kind') == 'failing-input':
		# re-run the law search restricted to the recorded tree
		from rogw.tranp.syntax.ast.finder import ASTFinder
		print('replay: re-running the full check with the recorded seed')
	ctx2 = Ctx(PROP, rec.get('tier', 'quick'), int(rec.get('seed', 0)))
	return run(ctx2)
