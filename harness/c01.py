"""C01 — Transpiled C++ behaves like the Python source.

Theorems: lean/Tranp/Props/C01.lean over lean/Tranp/Model/Emit.lean (+ Generated/CppTemplates.lean from translate/gen_cpp_templates.py).
Tie: correspondence streams `emit` (random operator trees, every ordered operator pair x side forced, real Py2Cpp `return` text vs model tokens),
`cpptable` (g++ grouping), `sem` (CPython / g++ values on ints, bools, floats), `stmt` (statements core: real body lines, CPython, g++).
Search (the property's own oracle, no model): harness/gen_prog.py programs -> real transpile -> g++ -std=c++20 -> run -> CPython (harness/cxx.py):
corpus witnesses, probe programs (one known defect each, own key), idiom families (must agree), generated programs selected from a pool so that every
construct feature occurs (select_cover), every operator pair. The search runs in a forked child from the start (start_search) and overlaps the proof build and
the correspondence streams. Limits that decide a verdict are CPU time (cxx.run_limited, ITIMER_PROF); wall deadlines only skip work, and every skip is counted.
"""
from __future__ import annotations

import copy
import glob
import json
import os
import random
import re
from collections import Counter
from typing import Any

from harness import common, cxx, gen_prog
from harness.common import Ctx, Finding, SearchResult, Stream, hx

PROP = 'C01'


def deadline(ctx: Ctx, quick_s: float, thorough_s: float) -> float:
	"""total wall deadline of one stream / search phase: what is not reached is skipped and counted, never waited for"""
	import time
	return time.time() + (thorough_s if ctx.thorough else quick_s)


def past(dl: float) -> bool:
	import time
	return time.time() > dl


# ---------------------------------------------------------------------------------------------
# search


def _short(r: dict[str, Any]) -> dict[str, Any]:
	return {'status': r['status'], 'why': (r.get('why') or '')[:600], 'diffs': r.get('diffs', [])[:3]}


def attribute(pl: cxx.Pipeline, failing: list[tuple[gen_prog.Prog, dict[str, Any]]]) -> list[tuple[gen_prog.Prog, dict[str, Any], list[str], dict[str, Any]]]:
	"""Counterfactual attribution: a failing program P is explained by class K iff P with every *other* class repaired
	still fails and P with all classes repaired passes. -> (P, result, culprit classes | [] = unexplained, details)"""
	jobs: list[dict[str, Any]] = []
	index: list[tuple[int, str]] = []
	for n, (p, _) in enumerate(failing):
		present = gen_prog.present_classes(p)
		jobs.append(gen_prog.to_dict(gen_prog.repaired(p, set())))
		index.append((n, '*'))
		for k in present:
			jobs.append(gen_prog.to_dict(gen_prog.repaired(p, {k})))
			index.append((n, k))
	res = pl.check_many(jobs, per_unit=1) if jobs else []
	out = []
	for n, (p, r) in enumerate(failing):
		mine = {k: (jobs[i], res[i]) for i, (m, k) in enumerate(index) if m == n}
		full_prog, full = mine['*']
		ok = lambda x: x['status'] in ('agree', 'vacuous')  # noqa: E731
		culprits = [k for k, (_, rr) in mine.items() if k != '*' and not ok(rr)] if ok(full) else []
		if ok(full) and not culprits:
			# no single class suffices alone: the failure needs a combination. Necessary members = classes whose repair alone cures it.
			present = [k for k in mine if k != '*']
			alone = pl.check_many([gen_prog.to_dict(gen_prog.repaired(p, set(present) - {k})) for k in present], per_unit=1) if present else []
			necessary = [k for k, rr in zip(present, alone) if ok(rr)]
			culprits = necessary or (['combo:' + '+'.join(sorted(present))] if present else [])
		details = {'present_classes': [k for k in mine if k != '*'], 'all_repaired': _short(full), 'all_repaired_source': full_prog['source'],
			'per_class': {k: rr['status'] for k, (_, rr) in mine.items() if k != '*'}}
		out.append((p, r, culprits, details))
	return out


def signature(p: gen_prog.Prog) -> str:
	kinds: set[str] = set()
	for e, _, _, _ in gen_prog.walk_exprs(p):
		if e.k in ('bin', 'un'):
			kinds.add(f'{e.k}{e.op}')
		elif e.k in ('call', 'meth'):
			kinds.add(f'{e.k}:{e.val}')
		elif e.k not in ('lit', 'var'):
			kinds.add(e.k)

	def st(body: list[gen_prog.S]) -> None:
		for s in body:
			kinds.add(f's:{s.k}')
			for sub in ([b for _, b in s.a] + ([s.b] if s.b else []) if s.k == 'if' else [s.b] if s.k == 'while' else [s.c] if s.k.startswith('for_') else [s.a, s.b] if s.k == 'try' else []):
				st(sub)
	for c in p.classes:
		kinds.add('class')
		for f in [c.ctor, *c.methods]:
			st(f.body)
	for f in p.funcs:
		st(f.body)
	return ','.join(sorted(kinds))


def shrink(pl: cxx.Pipeline, p: gen_prog.Prog, r: dict[str, Any], rounds: int = 12, dl: float | None = None) -> tuple[gen_prog.Prog, dict[str, Any]]:
	"""Generic greedy reduction of an unexplained failure (the same failure must persist: status, and for a rejection the same
	exception — deleting a declaration turns any rejected program into one rejected for an unresolved name, which is another failure)."""

	def sig(x: dict[str, Any]) -> str:
		if x['status'] != 'rejected':
			return x['status']
		why = str(x.get('why', ''))
		inner = re.findall(r'([A-Za-z]+(?:Error|Exception))\(', why)
		return f"rejected:{why.split(':', 1)[0]}:{inner[-1] if inner else ''}"

	status = sig(r)

	def candidates(q: gen_prog.Prog) -> list[gen_prog.Prog]:
		out: list[gen_prog.Prog] = []
		# drop a function / keep a single entry
		for i, f in enumerate(q.funcs):
			c = copy.deepcopy(q)
			del c.funcs[i]
			c.args.pop(f.name, None)
			if c.funcs and any(g.entry for g in c.funcs):
				out.append(c)
		# drop one statement anywhere (never the last `return` of a function)

		def paths(body: list[gen_prog.S], pre: tuple) -> list[tuple]:
			res = []
			for i, s in enumerate(body):
				res.append((*pre, i))
				if s.k == 'if':
					for j, (_, b) in enumerate(s.a):
						res.extend(paths(b, (*pre, i, 'a', j)))
					if s.b:
						res.extend(paths(s.b, (*pre, i, 'b')))
				elif s.k == 'while':
					res.extend(paths(s.b, (*pre, i, 'b')))
				elif s.k.startswith('for_'):
					res.extend(paths(s.c, (*pre, i, 'c')))
				elif s.k == 'try':
					res.extend(paths(s.a, (*pre, i, 'a')))
					res.extend(paths(s.b, (*pre, i, 'b')))
			return res

		def delete(body: list[gen_prog.S], path: tuple) -> bool:
			cur: Any = body
			k = 0
			while k < len(path) - 1:
				s = cur[path[k]]
				slot = path[k + 1]
				if slot == 'a' and s.k == 'if':
					cur = s.a[path[k + 2]][1]
					k += 3
				else:
					cur = getattr(s, slot)
					k += 2
			if len(cur) <= 1 and cur is not body:
				cur[path[-1]] = gen_prog.S('pass')
				return True
			if cur is body and path[-1] == len(cur) - 1:
				return False
			del cur[path[-1]]
			return True

		for fi, f in enumerate(q.funcs):
			for path in paths(f.body, ()):
				c = copy.deepcopy(q)
				if delete(c.funcs[fi].body, path):
					out.append(c)
		# replace an operator expression by one of its same-typed children
		n_expr = sum(1 for _ in gen_prog.walk_exprs(q))
		for idx in range(n_expr):
			c = copy.deepcopy(q)
			for j, (e, _, _, ctx) in enumerate(gen_prog.walk_exprs(c)):
				if j == idx:
					if ctx == 'target':
						break
					for kid in e.kids:
						if kid.ty == e.ty and e.k in ('bin', 'un', 'not', 'bool', 'tern', 'cmp'):
							keep_paren = e.paren
							e.k, e.ty, e.kids, e.op, e.val, e.paren = kid.k, kid.ty, kid.kids, kid.op, kid.val, kid.paren or keep_paren
							out.append(c)
							break
					break
		return out

	cur, cur_r = p, r
	for _ in range(rounds):
		if dl is not None and past(dl):
			break   # the program found so far is still a concrete failing input
		cands = candidates(cur)[:32]
		if not cands:
			break
		res = pl.check_many([gen_prog.to_dict(c) for c in cands], per_unit=1)
		good = [(len(gen_prog.print_prog(c)), i) for i, (c, rr) in enumerate(zip(cands, res)) if sig(rr) == status]
		if not good:
			break
		_, i = min(good)
		cur, cur_r = cands[i], res[i]
	return cur, cur_r


def select_cover(rng: random.Random, feats: list[dict[str, int]], n: int, need: int, prefer: list[bool] | None = None) -> tuple[list[int], int]:
	"""indices of `n` pool members such that every feature occurs in at least `need` of them where the pool (and `n`) allow it, rarest
	feature first (among the candidates for a feature the `prefer`red ones first); filled up in pool order.
	-> (indices, number of features that stayed below `need`)"""
	per: Counter[str] = Counter()
	for h in feats:
		per.update(h.keys())
	have: Counter[str] = Counter()
	chosen: list[int] = []
	used: set[int] = set()
	for feat, _ in sorted(per.items(), key=lambda kv: (kv[1], kv[0])):
		while have[feat] < need and len(chosen) < n:
			cands = [i for i, h in enumerate(feats) if i not in used and feat in h]
			if not cands:
				break
			if prefer is not None and any(prefer[i] for i in cands):
				cands = [i for i in cands if prefer[i]]
			i = rng.choice(cands)
			used.add(i)
			chosen.append(i)
			have.update(feats[i].keys())
	for i in range(len(feats)):
		if len(chosen) >= n:
			break
		if i not in used:
			used.add(i)
			chosen.append(i)
	return chosen, sum(1 for f in per if have[f] < need)


def load_corpus() -> list[dict[str, Any]]:
	out = []
	for fn in sorted(glob.glob(os.path.join(common.CORPUS_DIR, PROP, '*.json'))):
		with open(fn, encoding='utf-8') as f:
			rec = json.load(f)
		rec['_file'] = os.path.relpath(fn, common.VERIF)
		out.append(rec)
	return out


def search_programs(ctx: Ctx, pl: cxx.Pipeline) -> SearchResult:
	rng = ctx.sub_rng('programs')
	res = SearchResult('run_cpp(transpile(P), a) == run_python(P, a): real Py2Cpp + g++ -std=c++20 vs CPython on generated typed programs')
	hist: Counter[str] = Counter()
	seen: set[str] = set()
	dl = deadline(ctx, 75, 1200)   # wall budget of the search: a phase that would START after it is skipped (and counted), reductions stop
	import time
	marks: list[tuple[str, float]] = [('start', time.time())]

	def mark(name: str) -> None:
		marks.append((name, time.time()))
		ctx.timings[f'search:{name}'] = round(marks[-1][1] - marks[-2][1], 3)

	# 1. corpus: minimised witnesses of the known defect classes, replayed first (concrete replays)
	corpus = load_corpus()
	# witnesses of listed known findings are expected to fail (own translation unit each); the others are regressions of repaired defects and
	# are expected to agree: compiled together (a unit that g++ rejects is recompiled program by program by check_many)
	try:
		listed = {k.get('key') for k in common.load_known(PROP)}
	except Exception:  # noqa: BLE001 - the list only decides how the witnesses are grouped
		listed = set()
	corpus.sort(key=lambda c: (c['key'] in listed, c['_file']))
	n_agree = sum(1 for c in corpus if c['key'] not in listed)
	cres = (pl.check_many([c['program'] for c in corpus[:n_agree]], per_unit=8, fresh=False) if n_agree else []) \
		+ (pl.check_many([c['program'] for c in corpus[n_agree:]], per_unit=1, fresh=False) if corpus[n_agree:] else [])
	for c, r in zip(corpus, cres):
		res.cases += 1
		hist[f"corpus:{r['status']}"] += 1
		seen.add(c['program']['source'])
		if r['status'] not in ('agree', 'vacuous'):
			res.findings.append(Finding(key=c['key'], what=f"{c['what']} [{c['_file']}: {r['status']}]",
				replay={'corpus': c['_file'], 'key': c['key'], 'program': c['program'], 'result': _short(r), 'emitted': r.get('emitted')}))
		elif r['status'] == 'vacuous':
			ctx.notes.append(f"corpus witness {c['_file']} is vacuous: {r.get('why')}")

	mark('corpus')
	# 2b. probe programs: one construct tranp is known to mishandle per program, randomised operands, own finding key
	probes = [gen_prog.probe_program(random.Random(rng.random())) for _ in range(0 if past(dl) else ctx.scale(5, 45))]
	hist['skipped-at-deadline:probes'] += int(past(dl))
	for (key, d), r in zip(probes, pl.check_many([d for _, d in probes], per_unit=1) if probes else []):
		res.cases += 1
		seen.add(d['source'])
		hist[f"probe:{key}:{r['status']}"] += 1
		if r['status'] in ('mismatch', 'rejected', 'cxx-rejected'):
			res.findings.append(Finding(key=key, what=gen_prog.PROBE_WHAT[key] + f" [probe program: {r['status']}]",
				replay={'key': key, 'program': d, 'result': _short(r), 'emitted': r.get('emitted')}))

	# 2b'. idiom programs: small families with randomised operands that must agree (callable captures, list-fill declarations)
	idioms = [gen_prog.idiom_program(random.Random(rng.random()), key) for key in sorted(gen_prog.IDIOM_WHAT) for _ in range(0 if past(dl) else ctx.scale(3, 20))]
	hist['skipped-at-deadline:idioms'] += int(past(dl))
	for (key, d), r in zip(idioms, pl.check_many([d for _, d in idioms], per_unit=3)):
		res.cases += 1
		hist[f"{key}:{r['status']}"] += 1
		if r['status'] in ('mismatch', 'rejected', 'cxx-rejected'):
			res.findings.append(Finding(key=key, what=gen_prog.IDIOM_WHAT[key] + f" [idiom program: {r['status']}]",
				replay={'key': key, 'program': d, 'result': _short(r), 'emitted': r.get('emitted')}))

	mark('probes+idioms')
	# 2. generated programs: generating is cheap, transpiling + compiling is not. A pool is generated and the programs that run are
	# selected so that EVERY construct feature of the generator (for over enumerate / dict views / object views, list and dict comprehensions,
	# default arguments, every augmented operator, ...) occurs in at least `need` of them, whatever the seed; the rest is filled in pool order
	n = 0 if past(dl) else ctx.scale(40, 450)
	hist['skipped-at-deadline:generated'] += int(past(dl))
	pool = [gen_prog.generate(random.Random(rng.random()), size=1 + i % 3) for i in range(ctx.scale(1500, 3000))]
	# (programs free of the known defect classes are preferred for the cover: a failing program costs an attribution, and the fill keeps the others)
	chosen, uncovered = select_cover(random.Random(rng.random()), [h for _, h in pool], n, need=ctx.scale(2, 6),
		prefer=[not gen_prog.present_classes(p) for p, _ in pool])
	progs: list[gen_prog.Prog] = []
	for i in chosen:
		p, h = pool[i]
		progs.append(p)
		hist.update({f'construct:{k}': v for k, v in h.items()})
	hist['construct-features-in-pool'] = len({k for _, h in pool for k in h})
	hist['construct-features-below-cover'] = uncovered
	dicts = [gen_prog.to_dict(p) for p in progs]
	results = pl.check_many(dicts, per_unit=10)
	failing: list[tuple[gen_prog.Prog, dict[str, Any]]] = []
	compared = 0
	for p, d, r in zip(progs, dicts, results):
		res.cases += 1
		seen.add(d['source'])
		hist[f"status:{r['status']}"] += 1
		compared += r.get('compared', 0)
		if r['status'] == 'vacuous':
			hist['vacuous:' + re.sub(r'[0-9.\-e+]+$', '', str(r.get('why', ''))[:40])] += 1
		if r['status'] in ('mismatch', 'rejected', 'cxx-rejected'):
			failing.append((p, r))
		elif len(res.samples) < 2 and r['status'] == 'agree':
			res.samples.append({'source': d['source'][:600], 'compared_calls': r['compared']})
	hist['calls-compared'] = compared

	mark('generated')
	# 2c. forced operator pairs: every well-typed parent x child pair of the precedence ladder (unary x binary, binary x binary x side,
	# binary x unary) as its own tiny function, called on arguments on which the two groupings of the operator sequence differ
	pcases = gen_prog.pair_cases(random.Random(rng.random()))
	pprogs = [] if past(dl) else gen_prog.pair_programs(rng, pcases, per_program=12)
	hist['skipped-at-deadline:pairs'] += int(past(dl))
	hist['pair:cases'] = len(pcases)
	hist['pair:cases-with-distinguishing-arguments'] = sum(1 for c in pcases if c['distinguishing'])
	bad_cases: list[dict[str, Any]] = []
	# two halves: on a busy machine the second one is dropped (counted) rather than run past the budget
	half = (len(pprogs) + 1) // 2
	pres = pl.check_many([d for _, d in pprogs[:half]], per_unit=6) if pprogs else []
	if pprogs and past(dl + 8):
		hist['skipped-at-deadline:pair-programs'] += len(pprogs) - half
		pprogs = pprogs[:half]
	else:
		pres += pl.check_many([d for _, d in pprogs[half:]], per_unit=6) if pprogs[half:] else []
	for (chunk, d), r in zip(pprogs, pres):
		res.cases += 1
		hist[f"pair-program:{r['status']}"] += 1
		if r['status'] in ('mismatch', 'rejected', 'cxx-rejected'):
			bad_cases.extend(chunk)
	if bad_cases:
		# locate: one function per program
		singles = gen_prog.pair_programs(rng, bad_cases, per_program=1)
		for (chunk, d), r in zip(singles, pl.check_many([d for _, d in singles], per_unit=1)):
			if r['status'] in ('mismatch', 'rejected', 'cxx-rejected'):
				c = chunk[0]
				hist[f"pair-finding:{c['key']}"] += 1
				res.findings.append(Finding(key=c['key'], what=f"operator pair: `{c['expr']}` (Python groups {c['full']}) does not behave like the source "
					f"[the other grouping of the same operators is {c['alt']}; {r['status']}]",
					replay={'key': c['key'], 'program': d, 'result': _short(r), 'emitted': r.get('emitted')}))

	mark('pairs')
	# 3. attribute every failing program to defect classes; shrink what stays unexplained
	unexplained = 0
	for p, r, culprits, details in attribute(pl, failing):
		d = gen_prog.to_dict(p)
		if culprits:
			for k in culprits:
				hist[f'finding:{k}'] += 1
				res.findings.append(Finding(key=k, what=gen_prog.CLASS_WHAT.get(k, k) + f" [generated program: {r['status']}]",
					replay={'key': k, 'program': d, 'result': _short(r), 'emitted': r.get('emitted'), 'attribution': details}))
		else:
			unexplained += 1
			if unexplained > 3:
				continue
			q, qr = shrink(pl, p, r, rounds=ctx.scale(8, 20), dl=dl)
			# re-attribute the reduced program: shrinking may have exposed a known pattern in isolation
			(_, _, culprits2, details2), = attribute(pl, [(q, qr)])
			key = culprits2[0] if culprits2 else f"unexplained:{qr['status']}:{signature(q)}"
			hist[f'finding:{key}'] += 1
			res.findings.append(Finding(key=key, what=f"{qr['status']} not explained by a known defect class; reduced program in the replay",
				replay={'key': key, 'program': gen_prog.to_dict(q), 'result': _short(qr), 'emitted': qr.get('emitted'), 'original_program': d,
					'original_result': _short(r), 'attribution': details, 'attribution_reduced': details2}))
	mark('attribute+shrink')
	res.distinct = len(seen)
	res.histogram = dict(sorted(hist.items()))
	res.note = '; '.join(gen_prog.SUBSET_NOTES[:2])
	return res


# ---------------------------------------------------------------------------------------------
# correspondence stream `emit`: real Py2Cpp on operator expressions vs Tranp.Emit (driver family `emit`)

PARAMS = 'a: int, b: int, c: int, p: bool, q: bool, x: float, y: float, xs: list[int], d: dict[int, int]'
T_INT, T_BOOL, T_FLOAT = 'int', 'bool', 'float'
# (python token, level index in data/grammar.lark's ladder, operand type, result type)
BIN = [('or', 0, T_BOOL, T_BOOL), ('and', 1, T_BOOL, T_BOOL),
	('<', 3, T_INT, T_BOOL), ('>', 3, T_INT, T_BOOL), ('==', 3, T_INT, T_BOOL), ('>=', 3, T_INT, T_BOOL), ('<=', 3, T_INT, T_BOOL), ('!=', 3, T_INT, T_BOOL),
	('in', 3, 'container', T_BOOL), ('not in', 3, 'container', T_BOOL), ('is', 3, T_BOOL, T_BOOL), ('is not', 3, T_BOOL, T_BOOL),
	('|', 4, T_INT, T_INT), ('^', 5, T_INT, T_INT), ('&', 6, T_INT, T_INT), ('<<', 7, T_INT, T_INT), ('>>', 7, T_INT, T_INT),
	('+', 8, T_INT, T_INT), ('-', 8, T_INT, T_INT), ('*', 9, T_INT, T_INT), ('/', 9, T_FLOAT, T_FLOAT), ('%', 9, T_INT, T_INT)]
UN = [('not', 2), ('+', 10), ('-', 10), ('~', 10)]
LEVEL_OF = {tok: lv for tok, lv, _, _ in BIN}


class OT:
	"""operator tree of the stream generator: kind in atom un bin tern; `group` = written with parentheses"""

	def __init__(self, kind: str, op: str = '', kids: list['OT'] | None = None, text: str = '', ty: str = T_INT) -> None:
		self.kind, self.op, self.kids, self.text, self.ty, self.group = kind, op, kids or [], text, ty, False

	def level(self) -> int:
		if self.group or self.kind == 'atom':
			return 11
		if self.kind == 'tern':
			return -1
		if self.kind == 'un':
			return 2 if self.op == 'not' else 10
		return LEVEL_OF[self.op]

	def src(self) -> str:
		s = self._src()
		return f'({s})' if self.group else s

	def _src(self) -> str:
		if self.kind == 'atom':
			return self.text
		if self.kind == 'un':
			return ('not ' if self.op == 'not' else self.op) + self.kids[0].src()
		if self.kind == 'tern':
			return f'{self.kids[0].src()} if {self.kids[1].src()} else {self.kids[2].src()}'
		return f'{self.kids[0].src()} {self.op} {self.kids[1].src()}'


def ot_atom(rng: random.Random, ty: str) -> OT:
	if ty == T_BOOL:
		return OT('atom', text=rng.choice(['p', 'q', 'p', 'q', 'True', 'False']), ty=T_BOOL)
	if ty == T_FLOAT:
		return OT('atom', text=rng.choice(['x', 'y', 'x', 'y', '2.0', '0.5']), ty=T_FLOAT)
	if ty == 'list':
		return OT('atom', text='xs', ty='list')
	if ty == 'dict':
		return OT('atom', text='d', ty='dict')
	return OT('atom', text=rng.choice(['a', 'b', 'c', 'a', 'b', 'c', '1', '2', '7', '10']), ty=T_INT)


def ot_fix(parent_kind: str, parent_op: str, side: int, child: OT) -> OT:
	"""put the parentheses Python's grammar needs so that the text parses back to this tree (never more, unless already set)"""
	lv = child.level()
	if parent_kind == 'bin':
		plv = LEVEL_OF[parent_op]
		need = plv if side == 0 else plv + 1
		if plv == 3:
			need = 4   # comparison operands are or_expr; a bare comparison child would extend the chain
		if lv < need:
			child.group = True
	elif parent_kind == 'un':
		if lv < (2 if parent_op == 'not' else 10):
			child.group = True
	elif parent_kind == 'tern':
		if lv < (0 if side < 2 else -1):
			child.group = True
	return child


def ot_gen(rng: random.Random, ty: str, depth: int, mixed: bool, swap_ok: bool = False) -> OT:
	"""random well-typed operator tree. With `mixed`, an int may stand where and/or/not expect a bool and a bool as the right
	operand of int arithmetic — the combinations the stub dunders of compatible/libralies/classes.py accept (type inference is
	not part of this model; an `OperationNotAllowed` would only show the generator left tranp's typed subset)."""
	want = ty
	if mixed and swap_ok and ty in (T_INT, T_BOOL) and rng.random() < 0.3:
		want = T_BOOL if ty == T_INT else T_INT
	if depth <= 0 or rng.random() < 0.15:
		return ot_atom(rng, want)
	r = rng.random()
	if r < 0.08:
		t = OT('tern', kids=[ot_gen(rng, want, depth - 1, mixed), ot_gen(rng, T_BOOL, depth - 1, mixed), ot_gen(rng, want, depth - 1, mixed)], ty=want)
		for i, k in enumerate(t.kids):
			ot_fix('tern', '', i, k)
		return ot_maybe_group(rng, t)
	if want == T_FLOAT:
		op = rng.choice(['+', '-', '*', '/', '%', '%', 'neg'])
		if op == 'neg':
			t = OT('un', '-', [ot_gen(rng, T_FLOAT, depth - 1, mixed)], ty=T_FLOAT)
			ot_fix('un', '-', 0, t.kids[0])
			return ot_maybe_group(rng, t)
		l = ot_gen(rng, T_FLOAT if rng.random() < 0.7 else T_INT, depth - 1, mixed)
		rr = ot_gen(rng, T_FLOAT if (l.ty != T_FLOAT or rng.random() < 0.6) else T_INT, depth - 1, mixed)
		t = OT('bin', op, [l, rr], ty=T_FLOAT)
	elif want == T_BOOL:
		if r < 0.3:
			t = OT('un', 'not', [ot_gen(rng, T_BOOL, depth - 1, mixed, True)], ty=T_BOOL)
			ot_fix('un', 'not', 0, t.kids[0])
			return ot_maybe_group(rng, t)
		tok, _, oty, _ = rng.choice([b for b in BIN if b[3] == T_BOOL])
		if oty == 'container':
			cont = rng.choice(['list', 'dict'])
			t = OT('bin', tok, [ot_gen(rng, T_INT, depth - 1, mixed), ot_atom(rng, cont)], ty=T_BOOL)
		elif LEVEL_OF[tok] == 3 and tok not in ('is', 'is not') and rng.random() < 0.15:
			t = OT('bin', tok, [ot_gen(rng, T_FLOAT, depth - 1, mixed), ot_gen(rng, T_FLOAT, depth - 1, mixed)], ty=T_BOOL)
		else:
			sw = tok in ('and', 'or')
			t = OT('bin', tok, [ot_gen(rng, oty, depth - 1, mixed, sw), ot_gen(rng, oty, depth - 1, mixed, sw)], ty=T_BOOL)
	else:
		if r < 0.28:
			op = rng.choice(['+', '-', '-', '~'])
			t = OT('un', op, [ot_gen(rng, T_INT, depth - 1, mixed)], ty=T_INT)
			ot_fix('un', op, 0, t.kids[0])
			return ot_maybe_group(rng, t)
		tok, _, oty, _ = rng.choice([b for b in BIN if b[3] == T_INT])
		t = OT('bin', tok, [ot_gen(rng, T_INT, depth - 1, mixed), ot_gen(rng, T_INT, depth - 1, mixed, tok in ('+', '-', '*', '&', '|', '^', '%'))], ty=T_INT)
	for i, k in enumerate(t.kids):
		ot_fix('bin', t.op, i, k)
	return ot_maybe_group(rng, t)


def ot_maybe_group(rng: random.Random, t: OT) -> OT:
	if rng.random() < 0.12:
		t.group = True
	return t


def ot_child_for(rng: random.Random, op_or_un: tuple[str, str], ty_hint: str) -> OT:
	"""a minimal tree whose head is the given operator"""
	kind, op = op_or_un
	if kind == 'un':
		return OT('un', op, [ot_atom(rng, T_BOOL if op == 'not' else T_INT)], ty=T_BOOL if op == 'not' else T_INT)
	tok, _, oty, rty = next(b for b in BIN if b[0] == op)
	if oty == 'container':
		return OT('bin', tok, [ot_atom(rng, T_INT), ot_atom(rng, rng.choice(['list', 'dict']))], ty=T_BOOL)
	return OT('bin', tok, [ot_atom(rng, oty), ot_atom(rng, oty)], ty=rty)


def forced_pairs(rng: random.Random) -> list[tuple[str, OT]]:
	"""every ordered (parent operator, side, child operator) once: the child stands bare where Python's grammar allows it"""
	heads = [('bin', b[0]) for b in BIN] + [('un', u[0]) for u in UN]
	out: list[tuple[str, OT]] = []
	for pk, pop in heads:
		for ck, cop in heads:
			sides = [0, 1] if pk == 'bin' else [0]
			for side in sides:
				child = ot_child_for(rng, (ck, cop), '')
				if pk == 'un':
					t = OT('un', pop, [child], ty=T_BOOL if pop == 'not' else T_INT)
				else:
					tok, _, oty, rty = next(b for b in BIN if b[0] == pop)
					other = ot_atom(rng, rng.choice(['list', 'dict']) if oty == 'container' and side == 0 else (T_INT if oty == 'container' else oty))
					if oty == 'container' and side == 1:
						# the right operand of `in` must be a container: a bare operator child is not typable; keep the pair on the left only
						continue
					t = OT('bin', tok, [child, other] if side == 0 else [other, child], ty=rty)
				ot_fix(pk, pop, side, child)
				out.append((f'{pop}/{side}/{cop}' + ('(grouped)' if child.group else ''), t))
	return out


def cpython_grouping(expr_src: str) -> str:
	"""Python's own grouping of the source text (CPython `ast`), printed like the driver's `pytree`: C++ symbols, binary,
	comparison chains nested to the left, parentheses dropped."""
	import ast as A
	sym = {A.Add: '+', A.Sub: '-', A.Mult: '*', A.Div: '/', A.Mod: '%', A.LShift: '<<', A.RShift: '>>', A.BitOr: '|', A.BitXor: '^', A.BitAnd: '&',
		A.Eq: '==', A.NotEq: '!=', A.Lt: '<', A.LtE: '<=', A.Gt: '>', A.GtE: '>=', A.Is: '==', A.IsNot: '!=', A.And: '&&', A.Or: '||',
		A.Not: '!', A.USub: '-', A.UAdd: '+', A.Invert: '~'}

	def go(n: A.expr) -> str:
		if isinstance(n, A.Name):
			return n.id
		if isinstance(n, A.Constant):
			return {True: 'true', False: 'false'}.get(n.value, None) if isinstance(n.value, bool) else A.get_source_segment(expr_src, n) or repr(n.value)
		if isinstance(n, A.BoolOp):
			acc = go(n.values[0])
			for v in n.values[1:]:
				acc = f'({acc} {sym[type(n.op)]} {go(v)})'
			return acc
		if isinstance(n, A.UnaryOp):
			return f'({sym[type(n.op)]}{go(n.operand)})'
		if isinstance(n, A.BinOp):
			return f'({go(n.left)} {sym[type(n.op)]} {go(n.right)})'
		if isinstance(n, A.Compare):
			acc = go(n.left)
			for o, c in zip(n.ops, n.comparators):
				acc = f'({acc} {sym[type(o)]} {go(c)})'
			return acc
		raise ValueError(type(n).__name__)
	return go(A.parse(expr_src, mode='eval').body)


class RealNodes:
	"""serialises the operator nodes the real tranp built for an expression into the driver's encoding"""

	def __init__(self, tr: cxx.Transpiler) -> None:
		import rogw.tranp.syntax.node.definition as defs
		import rogw.tranp.semantics.reflection.definition as refs
		from rogw.tranp.semantics.reflections import Reflections
		self.defs, self.refs = defs, refs
		self.tr = tr
		self.reflections = tr.app.resolve(Reflections)
		self.levels = {defs.OrCompare: 0, defs.AndCompare: 1, defs.Comparison: 3, defs.OrBitwise: 4, defs.XorBitwise: 5, defs.AndBitwise: 6,
			defs.ShiftBitwise: 7, defs.Sum: 8, defs.Term: 9}
		self.ids: dict[str, int] = {}

	def ty(self, node: Any) -> tuple[str, bool]:
		raw = self.reflections.type_of(node)
		name = self.tr.py2cpp.to_domain_name(raw)
		is_dict = raw.impl(self.refs.Object).type_is(dict)
		return (name if name in ('int', 'float', 'double', 'bool') else 'other'), is_dict

	def enc(self, node: Any) -> str:
		defs = self.defs
		if isinstance(node, defs.Group):
			return 'g ' + self.enc(node.expression)
		if isinstance(node, defs.Factor):
			return 'f ' + {'+': 'pos', '-': 'neg', '~': 'inv'}[node.operator.tokens] + ' ' + self.enc(node.value)
		if isinstance(node, defs.NotCompare):
			return 'n ' + self.enc(node.value)
		if isinstance(node, defs.TernaryOperator):
			return f't {self.enc(node.primary)} {self.enc(node.condition)} {self.enc(node.secondary)}'
		if isinstance(node, defs.BinaryOperator):
			els = node.elements
			out = [f'c {self.levels[type(node)]} {self.ty(els[0])[0]} {(len(els) - 1) // 2} {self.enc(els[0])}']
			for i in range(1, len(els), 2):
				t, is_dict = self.ty(els[i + 1])
				out.append(f"{els[i].tokens} {1 if is_dict else 0} {t} {self.enc(els[i + 1])}")
			return ' '.join(out)
		text = self.tr.py2cpp.transpile(node)
		return f'a {self.ids.setdefault(text, len(self.ids) + 1)} {hx(text)}'


def emit_cases(tr: cxx.Transpiler, items: list[tuple[str, OT]]) -> list[tuple[dict[str, Any], list[str], list[str]]]:
	"""one `def f(a, b, c, p, q, x, y, xs, d) -> T` per batch: `r<i> = <expr>` statements, the last expression is returned
	(parsing the parameter list dominates the cost of a case, so the expressions of a batch share one function)"""
	from translate.gen_cpp_templates import cpp_tokens
	rtys = {T_INT: 'int', T_BOOL: 'bool', T_FLOAT: 'float'}
	body = ''.join(f'\tr{i} = {t.src()}\n' for i, (_, t) in enumerate(items[:-1]))
	source = f"def f({PARAMS}) -> {rtys.get(items[-1][1].ty, 'int')}:\n{body}\treturn {items[-1][1].src()}\n"
	try:
		with cxx.budget(cxx.REAL_CALL_BUDGET, 'transpile of a batch of operator expressions'):
			module = tr.app.module(source)
			text = tr.py2cpp.transpile(module.entrypoint)
		fn = [n for n in module.entrypoint.statements if type(n).__name__ == 'Function'][0]
		stmts = [s for s in fn.statements if type(s).__name__ in ('MoveAssign', 'Return')]
		lines = [ln.strip() for ln in text.split('\n')]
		rets = [ln.split(' = ', 1)[1] for ln in lines if re.match(r'[A-Za-z_:<>, ]+ r[0-9]+ = .*;$', ln)] + [ln[len('return '):] for ln in lines if ln.startswith('return ')]
		if len(rets) != len(items) or len(stmts) != len(items):
			raise ValueError(f'{len(rets)} statement lines / {len(stmts)} statement nodes for {len(items)} expressions')
	except Exception as e:  # noqa: BLE001
		if len(items) > 1:
			return [c for it in items for c in emit_cases(tr, [it])]
		# a rejection of a valid operator expression is a disagreement with the (total) model
		return [({'pair': items[0][0], 'expr': items[0][1].src()}, ['emit\ta 0 -'], [f'real-code exception {common.exc_enum(e)}: {str(e)[:200]}'])]
	out = []
	for (name, t), ret, st in zip(items, rets, stmts):
		desc = {'pair': name, 'expr': t.src()}
		try:
			real_text = ret[:-1] if ret.endswith(';') else f'<statement line without ;: {ret}>'
			with cxx.budget(cxx.REAL_CALL_BUDGET, 'serialising the operator nodes'):
				enc = RealNodes(tr).enc(st.return_value if type(st).__name__ == 'Return' else st.value)
			real_toks = ' '.join(cpp_tokens(real_text))   # text the tokeniser does not know = a disagreement, not a crash
		except Exception as e:  # noqa: BLE001
			out.append((desc, ['emit\ta 0 -'], [f'real-code exception {common.exc_enum(e)}: {str(e)[:200]}']))
			continue
		core = not _has(t, lambda n: n.kind == 'tern' or (n.kind == 'bin' and n.op in ('in', 'not in'))) and 'fmod(' not in real_text
		desc.update(enc=enc, text=real_text, core=core, noin=not _has(t, lambda n: n.kind == 'bin' and n.op in ('in', 'not in')))
		ops = [f'emit\t{enc}', f'toks\t{enc}', f'wf\t{enc}', f'pytree\t{enc}']
		real = ['ok ' + hx(real_text), 'ok ' + real_toks, 'true', ('ok ' + cpython_grouping(t.src())) if core else 'none']
		out.append((desc, ops, real))
	return out


def _has(t: OT, pred: Any) -> bool:
	return pred(t) or any(_has(k, pred) for k in t.kids)


# `prog k` runs case k; `prog x k1 k2 ..` runs the cases in one process, each result on a line `@k<TAB>value` (a case that ends the process —
# UBSan, a loop that does not end — leaves the later ones without a line: those are then run one process per case)
BATCH_MAIN = ('int main(int argc, char** argv) { if (argc > 2) { for (int i = 2; i < argc; i++) { int k = atoi(argv[i]); printf("@%d\\t", k); fflush(stdout); '
	'run(k); fflush(stdout); } return 0; } run(atoi(argv[1])); return 0; }')


def run_batch(exe: str, ks: list[int]) -> dict[int, str]:
	"""results of the cases that completed in the one-process run (none when the machine gave it no CPU within the wall limit)"""
	out: dict[int, str] = {}
	for i in range(0, len(ks), 400):
		_, text, _, why = cxx.run_limited([exe, 'x', *[str(k) for k in ks[i:i + 400]]], 30, 240)
		if why == 'wall-timeout':
			continue
		for line in text.split('\n'):
			m = re.fullmatch(r'@([0-9]+)\t(\S.*)', line)
			if m:
				out[int(m.group(1))] = m.group(2).strip()
	return out


GROUPING_PRELUDE = r'''#include <iostream>
#include <string>
// every operator of the core is overloaded to print how the compiler grouped it: g++ is the oracle for the C++ grammar
struct T { std::string s; };
#define VF_B(op) inline T operator op(const T& a, const T& b) { return T{"(" + a.s + " " #op " " + b.s + ")"}; }
VF_B(+) VF_B(-) VF_B(*) VF_B(/) VF_B(%) VF_B(<<) VF_B(>>) VF_B(&) VF_B(|) VF_B(^) VF_B(==) VF_B(!=) VF_B(<) VF_B(>) VF_B(<=) VF_B(>=) VF_B(&&) VF_B(||)
#define VF_U(op) inline T operator op(const T& a) { return T{std::string("(") + #op + a.s + ")"}; }
VF_U(!) VF_U(~) VF_U(-) VF_U(+)
'''


def stream_cpptable(ctx: Ctx, emit_cases_done: list[tuple[dict[str, Any], list[str], list[str]]]) -> Stream:
	"""validates the trusted constant `cppTable`: g++ prints its own grouping of each emitted text (operators overloaded on a
	string-building type) and the model's `Prec.parse cppOps` of the emitted tokens must print the same."""
	import subprocess
	from concurrent.futures import ThreadPoolExecutor
	from translate.gen_cpp_templates import cpp_tokens
	todo = [d for d, _, _ in emit_cases_done if d.get('core')]
	todo = todo[:ctx.scale(100000, 100000)]
	work = ctx.tmpdir('tranp-verif-cpptable-')
	chunks = [todo[i:i + 250] for i in range(0, len(todo), 250)]

	def build(args: tuple[int, list[dict[str, Any]]]) -> list[str | None]:
		n, chunk = args
		lines = [GROUPING_PRELUDE, 'int main() {']
		names: dict[str, str] = {}
		body = []
		fused = []
		for d in chunk:
			toks = cpp_tokens(d['text'])
			fused.append('--' in toks or '++' in toks)
			if fused[-1]:
				continue
			out = []
			for tk in toks:
				if re.fullmatch(r'[A-Za-z_][A-Za-z_0-9]*|[0-9][0-9a-zA-Z.]*', tk):
					out.append(names.setdefault(tk, f'v{len(names)}'))
				else:
					out.append(tk)
			body.append(f"\tstd::cout << ({' '.join(out)}).s << \"\\n\";")
		lines.extend(f'\tT {v}{{"{k}"}};' for k, v in names.items())
		lines.extend(body)
		lines.append('\treturn 0;\n}')
		src = os.path.join(work, f'g{n}.cpp')
		with open(src, 'w', encoding='utf-8') as f:
			f.write('\n'.join(lines) + '\n')
		rc, _, err = cxx.run_cmd(['g++', '-std=c++20', '-O0', '-w', src, '-o', src[:-4]], 600)
		if rc == -9:
			return [None] * len(chunk)   # the compiler did not finish within the wall limit: the chunk is skipped and counted, never reported
		if rc != 0:
			return [f'g++ rejects the emitted operator text: {err[-300:]}'.replace('\n', ' ')] * len(chunk)
		rc, outs, _, why = cxx.run_limited([src[:-4]], 10, 300)
		if why == 'wall-timeout':
			return [None] * len(chunk)
		outl = outs.split('\n')
		res, k = [], 0
		for fz in fused:
			if fz:
				res.append('none')
			else:
				res.append('ok ' + outl[k] if k < len(outl) else 'no output line from the grouping program')
				k += 1
		return res

	with ThreadPoolExecutor(8) as ex:
		reals = [r for chunk_res in ex.map(build, list(enumerate(chunks))) for r in chunk_res]
	cases = [({'expr': d['expr'], 'text': d['text']}, [f"reparse\t{d['enc']}", f"parsew\t{d['enc']}"], [r, r]) for d, r in zip(todo, reals) if r is not None]
	st = common.correspond('cpptable', cases, 'emit', classify=lambda d: 'regrouped-or-flat')
	st.histogram['skipped-at-wall-limit'] = sum(1 for r in reals if r is None)
	st.note = ('g++ -std=c++20 prints its grouping of every emitted core text (operator overloading on a string type); the model prints Prec.parse cppOps (emit n) and the wrapper grammar\'s parseX (toksW n), which must coincide on the core; '
		'ternary / call forms of the wrapper grammar are validated by value in stream sem (g++ evaluating the real text)')
	return st


def stream_sem(ctx: Ctx, emit_cases_done: list[tuple[dict[str, Any], list[str], list[str]]]) -> Stream:
	"""validates the trusted transcriptions of `sem_full`: `pyEval` (ints, bools, floats, ternary) against CPython (the instrumented
	evaluation that defines the agreement subset) and `cEvalX ∘ parseX` (wrapper grammar over Prec) against g++ running the real
	emitted text under UBSan (float variables are `double` on both sides: Lean's Float is binary64)."""
	import subprocess
	from concurrent.futures import ThreadPoolExecutor
	from translate.gen_cpp_templates import cpp_tokens
	rng = ctx.sub_rng('sem')
	int_names, bool_names, flt_names = ['a', 'b', 'c'], ['p', 'q'], ['x', 'y']
	names = int_names + bool_names + flt_names
	todo = []
	for d, _, _ in emit_cases_done:
		if 'enc' not in d or not d.get('noin'):
			continue
		atoms = dict(re.findall(r'a ([0-9]+) ([0-9a-f]+)', d['enc']))
		texts = {int(i): common.unhx(h) for i, h in atoms.items()}
		if all(t in names + ['true', 'false'] or re.fullmatch(r'[0-9]+(\.[0-9]+)?', t) for t in texts.values()) and ' other ' not in d['enc']:
			todo.append((d, texts))
	rng.shuffle(todo)
	todo = todo[:ctx.scale(300, 1500)]
	work = ctx.tmpdir('tranp-verif-sem-')
	cases_in = []
	for d, texts in todo:
		small = rng.random() < 0.6
		vals: dict[str, Any] = {n: (rng.randint(0, 9) if small else rng.choice([0, 1, -1, 7, -8, 31, 33, 1000, -65536, 2 ** 30, -(2 ** 31), 2 ** 31 - 1, rng.randint(-50, 50)])) for n in int_names}
		vals.update({n: rng.random() < 0.5 for n in bool_names})
		vals.update({n: rng.randint(-32 if not small else 0, 32) / 4.0 for n in flt_names})
		env = []
		for i, t in texts.items():
			v = vals[t] if t in vals else (True if t == 'true' else False if t == 'false' else float(t) if '.' in t else int(t))
			env.append(f"{i}:{'b' + str(int(v)) if isinstance(v, bool) else 'f' + str(int(v * 4096)) if isinstance(v, float) else 'i' + str(v)}")
		cases_in.append((d, vals, ' '.join(env)))
	# CPython side
	py_real: list[str | None] = []
	for d, vals, _ in cases_in:
		prog = {'source': f"def f(a: int, b: int, c: int, p: bool, q: bool, x: float, y: float) -> int:\n\treturn {d['expr']}\n",
			'entries': [{'fn': 'f', 'params': ['int', 'int', 'int', 'bool', 'bool', 'float', 'float'], 'ret': 'int', 'args': [[vals[n] for n in names]]}], 'classes': {}, 'strict_truth': True}
		r = cxx.run_python(prog)[('f', 0)]
		if r.startswith('out:') and 'exactly representable' in r:
			py_real.append(None)   # the search's float domain (binary32-exact) is narrower than the model's abstract floats: not comparable
		elif r.startswith('out:') or r == 'raised':
			py_real.append('out')
		elif r in ('True', 'False'):
			py_real.append('ok b:1' if r == 'True' else 'ok b:0')
		elif r.endswith('f'):
			fv = float(r[:-1]) * 4096
			py_real.append(f'ok f:{int(fv)}' if abs(fv) < 4.0e18 else ('ok f:-big' if fv < 0 else 'ok f:big'))
		else:
			py_real.append(f'ok i:{r}')
	# a tag mismatch (the emitter chose the `%` template from types that do not describe the operands: the repaired fmod:left-type)
	# is reported as a disagreement: with the types tranp inferred it cannot occur any more
	model_py = common.lean_driver('emit', [f"evalpy\t{env}\t{d['enc']}" for d, _, env in cases_in])
	tag_ix = {k for k, m in enumerate(model_py) if m == 'tagmismatch'}
	fused_ix = {k for k, (d, _, _) in enumerate(cases_in) if {'--', '++'} & set(cpp_tokens(d['text']))}
	core_ix = [k for k in range(len(cases_in)) if k not in fused_ix]
	# where the model says the C++ evaluation is undefined there is nothing to observe (g++ folds `c - 2 || false` to `c != 2`
	# before UBSan sees the overflow): those evaluations are skipped, and counted
	model_cpp = dict(zip(core_ix, common.lean_driver('emit', [f"evalcpp\t{cases_in[k][2]}\t{cases_in[k][0]['enc']}" for k in core_ix])))
	ub_ix = {k for k in core_ix if model_cpp[k] == 'ub'}
	core_ix = [k for k in core_ix if k not in ub_ix]
	src = ['#include <cstdio>', '#include <cstdlib>', '#include <cmath>',
		'static void show(bool v) { printf("%d\\n", v ? 1 : 0); }', 'static void show(int v) { printf("%d\\n", v); }', 'static void show(long v) { printf("%ld\\n", v); }',
		'static void show(double v) { if (!std::isfinite(v)) printf("f:nonfinite\\n"); else if (std::fabs(v * 4096.0) < 4.0e18) printf("f:%lld\\n", (long long)(v * 4096.0)); '
		'else printf(v < 0 ? "f:-big\\n" : "f:big\\n"); }']
	for k in core_ix:
		src.append(f"static void f{k}(int a, int b, int c, bool p, bool q, double x, double y) {{ show({cases_in[k][0]['text']}); }}")
	src.append('static void run(int k) { switch (k) {')
	for k in core_ix:
		v = cases_in[k][1]
		src.append(f"\tcase {k}: f{k}({v['a']}, {v['b']}, {v['c']}, {'true' if v['p'] else 'false'}, {'true' if v['q'] else 'false'}, {v['x']!r}, {v['y']!r}); break;")
	src.append('} }')
	src.append(BATCH_MAIN)
	path = os.path.join(work, 'sem.cpp')
	with open(path, 'w', encoding='utf-8') as f:
		f.write('\n'.join(src).replace('-2147483648', '(-2147483647 - 1)') + '\n')
	rc, _, gxx_err = cxx.run_cmd(['g++', '-std=c++20', '-O0', '-w', '-fsanitize=undefined', '-fno-sanitize-recover=undefined', path, '-o', path[:-4]], 600)
	rejected = rc != 0 and rc != -9

	run_dl = deadline(ctx, 40, 500)

	def run_one(k: int) -> str | None:
		if rejected:
			return 'g++ rejects the unit of emitted operator texts: ' + gxx_err[-300:].replace('\n', ' ').replace('\t', ' ')
		if rc == -9 or past(run_dl):
			return None   # skipped at a wall limit (the compiler's, or the stream's deadline): counted, never reported
		rc1, out1, _, why = cxx.run_limited([path[:-4], str(k)], 5, 120)
		if why == 'wall-timeout':
			return None
		return f'ok {out1.strip()}' if rc1 == 0 and out1.strip() else 'ub'

	batch = {} if rejected or rc == -9 else run_batch(path[:-4], core_ix)
	rest = [k for k in core_ix if k not in batch]
	with ThreadPoolExecutor(16) as ex:
		cpp_real = {**{k: f'ok {v}' for k, v in batch.items()}, **dict(zip(rest, ex.map(run_one, rest)))}
	run_skipped = sum(1 for v in cpp_real.values() if v is None)
	cpp_real = {k: v for k, v in cpp_real.items() if v is not None}
	cpp_real.update({k: 'noparse' for k in fused_ix})
	cpp_real.update({k: 'ub' for k in ub_ix})
	cases = []
	for k, (d, vals, env) in enumerate(cases_in):
		ops, real = [], []
		if py_real[k] is not None:
			ops.append(f"evalpy\t{env}\t{d['enc']}")
			real.append(py_real[k])
		if k in cpp_real:
			ops.append(f"evalcpp\t{env}\t{d['enc']}")
			real.append(cpp_real[k])
		if ops:
			cases.append(({'expr': d['expr'], 'text': d['text'], 'vals': vals, 'py': py_real[k] or 'n/a', 'cpp': cpp_real.get(k)}, ops, real))
	st = common.correspond('sem', cases, 'emit', classify=lambda d: f"py:{d['py'][:4]}/cpp:{(d['cpp'] or 'n/a')[:4]}")
	st.histogram['cpp-undefined-skipped'] = len(ub_ix)
	st.histogram['cpp-fused-sign'] = len(fused_ix)
	st.histogram['py-tagmismatch'] = len(tag_ix)
	st.histogram['cpp-run-skipped-at-deadline'] = run_skipped
	st.histogram['py-inexact-float-skipped'] = sum(1 for r in py_real if r is None)
	st.note = ('int/bool/float operator expressions incl. ternary of stream emit evaluated on random environments: pyEval vs CPython (instrumented = the subset checks), '
		'cEvalX(parseX (emit n)) vs g++ -std=c++20 -fsanitize=undefined running the real emitted text (floats as double on both sides)')
	return st


class StmtGen:
	"""core programs: `v = e`, `return e`, `if/elif/else`, `while` over int/bool operator expressions. Reads only names that are
	visible in the C++ block structure (the hypothesis `scopeOK` of C01.stmt_agree); assignment targets vary between visible
	names (plain assignment), fresh names (declaration), names declared in an already closed block (declared again: what
	`VarsCollector._merged` decides) and parameters. Loops are bounded by a dedicated counter."""

	POOL = ['s', 't', 'u', 'v', 'w', 'n', 'm']
	INT_OPS = ['+', '-', '*', '%', '&', '|', '^', '<<', '>>']

	def __init__(self, rng: random.Random) -> None:
		self.rng = rng
		self.vis: list[list[str]] = [['a', 'b', 'c']]
		self.closed: list[str] = []
		self.counters = 0
		self.fixed: set[str] = set()   # not assignable here: loop variables and what stop / step of an enclosing for read
		self.loops: list[bool] = []   # enclosing loops, innermost last: may the body `continue` (a while loop whose counter is incremented at the end of the body may not)
		self.shape: Counter[str] = Counter()

	def visible(self) -> list[str]:
		return [n for f in self.vis for n in f]

	def int_expr(self, depth: int) -> str:
		r = self.rng
		if depth <= 0 or r.random() < 0.3:
			return r.choice(self.visible()) if r.random() < 0.7 else str(r.randint(0, 9))
		k = r.random()
		if k < 0.12:
			return '-' + self.int_atomish(depth - 1)
		if k < 0.24:
			return '(' + self.int_expr(depth - 1) + ')'
		op = r.choice(self.INT_OPS)
		if op in ('<<', '>>') and r.random() < 0.8:
			return f'{self.int_expr(depth - 1)} {op} {r.randint(0, 3)}'   # mostly inside the agreement subset (shift count 0..31)
		return f'{self.int_expr(depth - 1)} {op} {self.int_expr(depth - 1)}'

	def int_atomish(self, depth: int) -> str:
		e = self.int_expr(depth)
		return e if re.fullmatch(r'[a-z0-9]+', e) else f'({e})'

	def bool_expr(self, depth: int) -> str:
		r = self.rng
		k = r.random()
		if depth <= 0 or k < 0.5:
			return f"{self.int_expr(min(depth, 1))} {r.choice(['<', '>', '<=', '>=', '==', '!='])} {self.int_expr(min(depth, 1))}"
		if k < 0.65:
			return f'not ({self.bool_expr(depth - 1)})'
		if k < 0.75:
			return f'not {self.bool_expr(0)}'
		return f"{self.bool_expr(depth - 1)} {r.choice(['and', 'or'])} {self.bool_expr(depth - 1)}"

	def target(self) -> str:
		t = self._target()
		for _ in range(8):
			if t not in self.fixed:
				return t
			t = self._target()
		fresh = [n for n in self.POOL + ['z0', 'z1', 'z2', 'z3'] if n not in self.visible() and n not in self.fixed]
		return fresh[0]

	def _target(self) -> str:
		r = self.rng
		k = r.random()
		locals_vis = [n for n in self.visible() if n in self.POOL]
		if k < 0.4 and locals_vis:
			self.shape['assign:visible'] += 1
			return r.choice(locals_vis)
		if k < 0.65 and [n for n in self.closed if n not in self.visible()]:
			self.shape['assign:redeclare-after-closed-block'] += 1
			return r.choice([n for n in self.closed if n not in self.visible()])
		if k < 0.72:
			self.shape['assign:parameter'] += 1
			return r.choice(['a', 'b', 'c'])
		fresh = [n for n in self.POOL if n not in self.visible()]
		if fresh:
			self.shape['assign:fresh'] += 1
			return r.choice(fresh)
		self.shape['assign:visible'] += 1
		return r.choice(locals_vis)

	def block(self, depth: int, ind: int, n: int, tail: list[str] | None = None) -> list[str]:
		self.vis.insert(0, []) if ind > 1 else None
		out: list[str] = []
		for _ in range(n):
			out.extend(self.stmt(depth, ind))
		for t in tail or []:
			out.append('\t' * ind + t)
		if ind > 1:
			self.closed.extend(self.vis.pop(0))
		return out

	def stmt(self, depth: int, ind: int) -> list[str]:
		r = self.rng
		pre = '\t' * ind
		if self.loops and r.random() < 0.14:
			# break / continue of the innermost loop: bare (what follows in the block is dead code) or at the end of an `if` block that may
			# have declared names of its own
			word = 'continue' if self.loops[-1] and r.random() < 0.5 else 'break'
			if r.random() < 0.25:
				self.shape[f'{word}:bare'] += 1
				return [f'{pre}{word}']
			self.shape[f'{word}:in-if'] += 1
			return [f'{pre}if {self.bool_expr(1)}:'] + self.block(depth - 1, ind + 1, r.randint(0, 2) if depth > 0 else r.randint(0, 1), tail=[word])
		k = r.random()
		if k < 0.12:
			# augmented assignment: the target must be visible (and assignable here)
			cands = [n for n in self.visible() if n not in self.fixed and not re.fullmatch(r'[ik][0-9]+', n)]
			if cands:
				op = r.choice(['+', '+', '-', '*', '%', '&', '|', '^', '<<', '>>'])
				rhs = str(r.randint(0, 3)) if op in ('<<', '>>') and r.random() < 0.8 else self.int_expr(r.randint(0, 2))
				self.shape[f'aug:{op}='] += 1
				return [f'{pre}{r.choice(cands)} {op}= {rhs}']
		if depth <= 0 or k < 0.5:
			e = self.int_expr(r.randint(0, 3))
			v = self.target()
			if v not in self.visible():
				self.vis[0].append(v)
			return [f'{pre}{v} = {e}']
		if k < 0.58:
			self.shape['return:nested' if ind > 1 else 'return:early'] += 1
			return [f'{pre}return {self.int_expr(2)}']
		if k < 0.85:
			arms = r.choice([1, 1, 2, 3])
			self.shape[f'if:{arms}-arm'] += 1
			out = []
			for i in range(arms):
				out.append(f"{pre}{'if' if i == 0 else 'elif'} {self.bool_expr(2)}:")
				out.extend(self.block(depth - 1, ind + 1, r.randint(1, 3)))
			if r.random() < 0.5:
				self.shape['if:else'] += 1
				out.append(f'{pre}else:')
				out.extend(self.block(depth - 1, ind + 1, r.randint(1, 3)))
			return out
		if k < 0.93:
			# for over range: fresh loop variable, bounded arguments, `stop` may follow `i < ` unparenthesised, the body leaves the loop
			# variable and everything stop / step read alone (the hypotheses of C01.stmt_agree; their negations are probe programs)
			def small() -> str:
				x = r.choice(self.visible())
				return r.choice([str(r.randint(0, 4)), f'{x} % {r.randint(1, 4)}', f'({x} & {r.randint(1, 3)})', f'({x} & 3) + {r.randint(0, 2)}', f'{r.randint(0, 2)} << 1'])
			form = r.choice([1, 2, 2, 3])
			args = [small() for _ in range(form)]
			if form == 3:
				args[2] = str(r.randint(1, 3))
			self.shape[f'for:range/{form}'] += 1
			i_name = f'i{self.counters}'
			self.counters += 1
			reads = set(re.findall(r'[a-z][a-z0-9]*', ' '.join(args[1:] if form > 1 else args)))
			saved = set(self.fixed)
			self.fixed |= reads | {i_name}
			self.vis.insert(0, [i_name])
			out = [f"{pre}for {i_name} in range({', '.join(args)}):"]
			self.loops.append(True)
			out.extend(self.block(depth - 1, ind + 1, r.randint(1, 3)))
			self.loops.pop()
			self.closed.extend(self.vis.pop(0))
			self.fixed = saved
			return out
		self.shape['while'] += 1
		k_name = f'k{self.counters}'
		self.counters += 1
		self.vis[0].append(k_name)
		cond = f'{k_name} < {r.randint(0, 4)}' + (f' and {self.bool_expr(1)}' if r.random() < 0.3 else '')
		out = [f'{pre}{k_name} = 0', f'{pre}while {cond}:']
		step = r.choice([f'{k_name} = {k_name} + 1', f'{k_name} += 1'])
		head = r.random() < 0.5   # the counter is incremented first: the body may `continue`
		self.loops.append(head)
		saved = set(self.fixed)
		self.fixed |= {k_name}
		body = self.block(depth - 1, ind + 1, r.randint(1, 3), tail=None if head else [step])
		self.fixed = saved
		self.loops.pop()
		if head:
			body.insert(0, '\t' * (ind + 1) + step)
		out.extend(body)
		return out

	def program(self) -> str:
		body = self.block(self.rng.choice([1, 2, 2, 3]), 1, self.rng.randint(2, 5), tail=[f'return {self.int_expr(2)}'])
		return 'def f(a: int, b: int, c: int) -> int:\n' + '\n'.join(body) + '\n'


def stmt_encode(tr: cxx.Transpiler, source: str) -> tuple[str, list[str], dict[int, str], RealNodes]:
	"""the statement tree tranp built, in the driver's encoding, and the body lines Py2Cpp emitted (indentation dropped)"""
	module = tr.app.module(source)
	text = tr.py2cpp.transpile(module.entrypoint)
	fn = [n for n in module.entrypoint.statements if type(n).__name__ == 'Function'][0]
	rn = RealNodes(tr)
	for pname in ('a', 'b', 'c'):
		rn.ids.setdefault(pname, len(rn.ids) + 1)

	def enc_block(stmts: list[Any]) -> str:
		return ' '.join([f'B {len(stmts)}'] + [enc_stmt(x) for x in stmts])

	def enc_stmt(x: Any) -> str:
		kind = type(x).__name__
		if kind == 'MoveAssign':
			name = x.receivers[0].tokens
			ty = tr.py2cpp.to_accessible_name(rn.reflections.type_of(x.value))
			return f'A {rn.ids.setdefault(name, len(rn.ids) + 1)} {hx(name)} {hx(ty)} {rn.enc(x.value)}'
		if kind == 'Return':
			return f'R {rn.enc(x.return_value)}'
		if kind == 'Break':
			return 'K'
		if kind == 'Continue':
			return 'C'
		if kind == 'AugAssign':
			name = x.receiver.tokens
			return f'U {rn.ids.setdefault(name, len(rn.ids) + 1)} {hx(name)} {x.operator.tokens[:-1]} {rn.enc(x.value)}'
		if kind == 'While':
			return f'W {rn.enc(x.condition)} {enc_block(x.statements)}'
		if kind == 'For':
			if x.iterates.calls.tokens != 'range' or len(x.symbols) != 1:
				raise ValueError('for loop outside the core')
			name = x.symbols[0].tokens
			vals = [rn.enc(a.value) for a in x.iterates.arguments]
			lit = lambda t: f'a {rn.ids.setdefault(t, len(rn.ids) + 1)} {hx(t)}'  # noqa: E731 - the `0` / `1` proc_for_range supplies
			begin, stop, step = (lit('0'), vals[0], lit('1')) if len(vals) == 1 else (vals[0], vals[1], lit('1')) if len(vals) == 2 else vals
			return f'F {rn.ids.setdefault(name, len(rn.ids) + 1)} {hx(name)} {begin} {stop} {step} {enc_block(x.statements)}'
		if kind == 'If':
			arms = [(x.condition, x.statements)] + [(e.condition, e.statements) for e in x.else_ifs]
			has_else = type(x.else_clause).__name__ == 'Else'
			return ' '.join([f'I {len(arms)}'] + [f'{rn.enc(c)} {enc_block(b)}' for c, b in arms]
				+ ['1' if has_else else '0', enc_block(x.else_clause.statements if has_else else [])])
		raise ValueError(f'statement {kind} outside the core')

	enc = enc_block(fn.statements)
	lines = text.split('\n')
	start = next(i for i, ln in enumerate(lines) if re.match(r'int f\(int a, int b, int c\) \{$', ln))
	end = max(i for i, ln in enumerate(lines) if ln == '}')
	texts = {i: t for t, i in rn.ids.items()}
	return enc, [ln.strip() for ln in lines[start + 1:end]], texts, rn


def stream_stmt(ctx: Ctx) -> Stream:
	"""ties Model.EmitStmt to the real code: (1) `emitLines typeOf (annotate params body)` = the body lines Py2Cpp emits for the
	statement tree tranp built (which assignment declares = VarsCollector; statement templates); (2) `pyExec` = CPython running
	the source; (3) `cExec` = g++ -std=c++20 -fsanitize=undefined running the real emitted function."""
	import subprocess
	from concurrent.futures import ThreadPoolExecutor
	rng = ctx.sub_rng('stmt')
	tr = cxx.Transpiler(ctx.tmpdir())
	fuel = 400
	progs = []
	shape: Counter[str] = Counter()
	for _ in range(ctx.scale(80, 400)):
		g = StmtGen(rng)
		progs.append(g.program())
		shape.update(g.shape)
	pre: list[dict[str, Any]] = []
	dl = deadline(ctx, 40, 500)
	skipped_dl = 0
	for n_src, source in enumerate(progs):
		if past(dl):
			skipped_dl = len(progs) - n_src
			break
		small = rng.random() < 0.7
		args = [rng.randint(0, 9) if small else rng.choice([0, 1, -1, 7, -8, 31, 33, 1000, -65536, 2 ** 30, -(2 ** 31), 2 ** 31 - 1]) for _ in range(3)]
		d: dict[str, Any] = {'source': source, 'args': args}
		try:
			with cxx.budget(cxx.REAL_CALL_BUDGET, 'transpile + serialisation of a core program'):
				enc, real_lines, texts, _ = stmt_encode(tr, source)
			d.update(enc=enc, lines=real_lines)
			lits = ' '.join(f'{i}:i{t}' for i, t in texts.items() if re.fullmatch(r'[0-9]+', t))
			d['run'] = f"{' '.join(f'{i + 1}={v}' for i, v in enumerate(args))}\t{lits}\t{fuel}\t{enc}"
		except Exception as e:  # noqa: BLE001 - a rejection of a valid core program is a disagreement with the (total) model
			d['exception'] = f'real-code exception {common.exc_enum(e)}: {str(e)[:200]}'
		pre.append(d)
	runnable = [d for d in pre if 'run' in d]
	model_py = common.lean_driver('emit', [f"stmtpy\t{d['run']}" for d in runnable])
	model_cpp = common.lean_driver('emit', [f"stmtcpp\t{d['run']}" for d in runnable])
	# CPython (only where the model claims an in-subset run: outside it `1000 << 2 ** 30` is not something to execute; an alarm bounds the rest)
	import signal

	def on_alarm(signum: int, frame: Any) -> None:
		raise TimeoutError('generated core program used more than 10 s of CPU time')

	# CPU time (ITIMER_PROF), not wall time: the bound must not depend on the load of the machine
	old_handler = signal.signal(signal.SIGPROF, on_alarm)
	try:
		for d, mp in zip(runnable, model_py):
			d['model_py'] = mp
			if mp.endswith('py=out'):
				d['py'] = 'n/a'
				continue
			env: dict[str, Any] = {}
			try:
				signal.setitimer(signal.ITIMER_PROF, 10)
				exec(compile(d['source'], '<stmt>', 'exec'), env)  # noqa: S102 - generated core program (ints only, bounded loops)
				r = env['f'](*d['args'])
				d['py'] = 'end' if r is None else f'ret {int(r)}'
			except Exception as e:  # noqa: BLE001
				d['py'] = f'raised {type(e).__name__}'
			finally:
				signal.setitimer(signal.ITIMER_PROF, 0)
	finally:
		signal.signal(signal.SIGPROF, old_handler)
	# g++ on the real emitted functions whose model reading is defined
	work = ctx.tmpdir('tranp-verif-stmt-')
	gxx = [(k, d) for k, (d, mc) in enumerate(zip(runnable, model_cpp)) if mc.startswith('cpp=ret')]
	src = ['#include <cstdio>', '#include <cstdlib>']
	for k, d in gxx:
		src.append(f'static int f{k}(int a, int b, int c) {{\n' + '\n'.join(d['lines']) + '\n}')
	src.append('static void run(int k) { switch (k) {')
	for k, d in gxx:
		src.append(f"\tcase {k}: printf(\"%d\\n\", f{k}({', '.join(str(v) for v in d['args'])})); break;")
	src.append('} }')
	src.append(BATCH_MAIN)
	path = os.path.join(work, 'stmt.cpp')
	with open(path, 'w', encoding='utf-8') as f:
		f.write('\n'.join(src).replace('-2147483648', '(-2147483647 - 1)') + '\n')
	rc, _, gxx_err = cxx.run_cmd(['g++', '-std=c++20', '-O0', '-w', '-fsanitize=undefined', '-fno-sanitize-recover=undefined', path, '-o', path[:-4]], 600)

	run_dl = deadline(ctx, 40, 400)

	def run_one(k: int) -> str | None:
		if rc == -9 or past(run_dl):
			return None   # skipped at a wall limit (the compiler's, or the stream's deadline): counted, never reported
		if rc != 0:
			return 'g++ rejects the unit of emitted functions: ' + gxx_err[-300:].replace('\n', ' ').replace('\t', ' ')
		rc1, out1, _, why = cxx.run_limited([path[:-4], str(k)], 5, 120)
		if why == 'wall-timeout':
			return None
		return f'cpp=ret {out1.strip()}' if rc1 == 0 and out1.strip() else 'cpp=ub'   # the CPU limit = a loop that does not end where the model's does

	all_k = [k for k, _ in gxx]
	batch = {} if rc != 0 else run_batch(path[:-4], all_k)
	rest = [k for k in all_k if k not in batch]
	with ThreadPoolExecutor(16) as ex:
		cpp_real = {**{k: f'cpp=ret {v}' for k, v in batch.items()}, **dict(zip(rest, ex.map(run_one, rest)))}
	cases = []
	skipped_out = 0
	for d in pre:
		desc = {'source': d['source'], 'args': d['args']}
		if 'exception' in d:
			cases.append((desc, ['stmtemit\t1 2 3\tB 0'], [d['exception']]))
			continue
		ops = [f"stmtemit\t1 2 3\t{d['enc']}"]
		real = ['ok ' + '|'.join(hx(ln) for ln in d['lines'])]
		desc.update(py=d['py'], model_py=d['model_py'])
		if d['model_py'].endswith('py=out'):
			skipped_out += 1   # outside the agreement subset (32-bit range, % operands, shift range): no claim
		else:
			ops.append(f"stmtpy\t{d['run']}")
			real.append(f"scope=true py={d['py']}")
		cases.append((desc, ops, real))
	for k, d in gxx:
		if cpp_real[k] is not None:
			cases.append(({'source': d['source'], 'args': d['args'], 'emitted': d['lines']}, [f"stmtcpp\t{d['run']}"], [cpp_real[k]]))
	st = common.correspond('stmt', cases, 'emit', classify=lambda d: 'cpp-run' if 'emitted' in d else ('py:' + d.get('model_py', 'exception').split('py=')[-1][:3]))
	st.histogram.update({f'gen:{k}': v for k, v in shape.items()})
	st.histogram['py-outside-subset-skipped'] = skipped_out
	st.histogram['skipped-at-deadline'] = skipped_dl
	st.histogram['cpp-run-skipped-at-deadline'] = sum(1 for v in cpp_real.values() if v is None)
	st.histogram['cpp-run'] = len(gxx)
	st.note = ('generated core programs (assign / augmented assign / return / if-elif-else / bounded while / for over range(1-3 arguments) / break / continue (bare and at the end of an if block) over int/bool operator expressions; reads visible in the C++ block structure; '
		'targets: visible, fresh, re-declared after a closed block, parameters) through the real App/Py2Cpp: the statement tree tranp built is serialised (declared type '
		'from Reflections.type_of/to_accessible_name) and the model must reproduce the emitted body lines exactly (stmtemit), CPython\'s result (stmtpy, scopeOK = true) '
		'and g++ -fsanitize=undefined running the real emitted function (stmtcpp)')
	return st


def stream_emit(ctx: Ctx) -> Stream:
	rng = ctx.sub_rng('emit')
	tr = cxx.Transpiler(ctx.tmpdir())
	forced = forced_pairs(rng)
	items = list(forced)
	depth = ctx.scale(6, 8)
	for i in range(ctx.scale(300, 1500)):
		items.append(('random', ot_gen(rng, rng.choice([T_INT, T_INT, T_BOOL, T_BOOL, T_FLOAT]), 1 + i % depth, mixed=i % 4 == 3)))
	cases = []
	dl = deadline(ctx, 50, 700)
	skipped = 0
	for i in range(0, len(items), 40):
		if past(dl):
			skipped = len(items) - i
			break
		cases.extend(emit_cases(tr, items[i:i + 40]))
	st = common.correspond('emit', cases, 'emit', classify=lambda d: 'forced-pair' if d['pair'] != 'random' else 'random')
	st.raw_cases = cases  # type: ignore[attr-defined]
	st.histogram['forced_pairs'] = len(forced)
	st.histogram['skipped-at-deadline'] = skipped
	st.histogram['forced_pairs_bare'] = sum(1 for n, _ in forced if not n.endswith('(grouped)'))
	st.note = ('`def f(a, b, c: int, p, q: bool, x, y: float, xs: list[int], d: dict[int, int]) -> T: return <expr>` through the real App/Py2Cpp; '
		'the operator nodes tranp built are serialised (types from Reflections.type_of/to_domain_name, leaf text from the leaf handlers) and the model must '
		'reproduce the exact `return` text (emit), its C++ tokens (toks), accept the tree as grammar-producible (wf) and give CPython\'s grouping (pytree, vs `ast`)')
	return st


# ---------------------------------------------------------------------------------------------


STATEMENTS = {
	'ladder_eq': 'the operators/levels/kinds the model enumerates = the expression ladder translated from data/grammar.lark (decide)',
	'ops_total': 'for every ladder operator, operand-type pair and dict flag a branch of the translated binary_operator.j2 / binary_in.j2 is selected and mentions both operands; unary/ternary/group likewise (decide over generated tables)',
	'emitter_table_agrees': 'CppOperatorPrecedences (translated from py2cpp.py) gives every core infix operator the level of its C++ symbol in cppTable (+1), and `!` the unary value above all of them',
	'group': 'group_statement proved: for every grammar-producible operator node of the core without a comparison chain, C++ lexing merges no emitted tokens, Prec.parse cppTable parses them, and the tree is Python\'s grouping up to the parentheses the guards added (by construction: is_regrouped_operand / on_factor / on_not_compare)',
	'group_chain_counterexample': 'without the explicit exclusion the sentence is false: a < b < c (known finding chain-compare; corpus/C01/f2-chain-compare.json on the real code)',
	'group_full': 'group for EVERY operator node (coreW: also ternary, in / not in over list and dict, float % -> fmod) except comparison chains: the emitted tokens (fuse-free under C++ maximal munch) are parsed by the wrapper grammar (conditional-expression over Prec.parse cppTable over postfix primaries with member/call suffixes; parseX, unique) into a tree in normal form that equals Python\'s grouping up to the added parentheses',
	'group_full_chain_counterexample': 'the same counterexample for the full sentence (a < b < c)',
	'flat_iff': 'the unguarded flat text (emitter before 0598c93) is re-parsed into Python\'s tree iff no parent/child slot is in badPairs (60 slots computed from the two tables): why the guards are needed',
	'sem': 'inside the agreement subset (32-bit ints, % on non-negative/positive operands, no /, shifts 0..31, bools under and/or/not, no comparison chain) the C++ value of the tree with Python\'s grouping equals the Python value, without UB',
	'agree': 'group + sem: for chain-free core nodes and in-subset evaluations the emitted token text, as C++ parses it, evaluates to the Python value',
	'sem_full': 'sem with floats abstract (FOps F, only law: floor-% = fmod on non-negative dividend / positive divisor): int->float promotion in mixed arithmetic and comparisons, / with a float operand, the fmod branch of the % template, ternary; at every % the emitter\'s type tags must describe the operand values (else tagMismatch; never on truthfully tagged Term chains since the repair of fmod:left-type)',
	'agree_full': 'group_full + sem_full: the emitted tokens, parsed by the wrapper grammar, evaluate in C++ (usual arithmetic conversions, fmod call, ?:, short-circuit) to the Python value for every in-subset evaluation',
	'toyOps_law': 'non-vacuity of the float hypotheses (an interpretation satisfying ModLaw) + an example through agree_full',
	'fmod_left_type_regression': 'the repaired fmod:left-type (6063966, Ty.acc: the accumulated left type stays floating point): x % a % b with float x is emitted fmod(fmod(x, a), b), is inside agree_full, and the tag check of pyEval never fires on it for a float x and ints a, b',
	'stmt_decl': 'the model of VarsCollector (one pass, `_merged`: same or enclosing scope) marks as declarations exactly the assignments whose name is not declared in an open C++ block at that point (proved equal to the scoped reading annotV)',
	'stmt_agree': 'statements core (v = e, v op= e for + - * % & | ^ << >>, return e, if/elif/else, while, for v in range(begin, stop, step), break, continue over the operator core, 32-bit ints/bools): under the static condition scopeOK — every read and every augmented-assignment target is visible in the C++ block structure; for a for loop: fresh loop variable, the body assigns neither it nor anything stop/step read, `v < stop` an operator node of the core in which stop needs no parentheses, positive step — if the Python run (one function-level store, range evaluated once, loop variable rebound per iteration) is InSubset and returns r, the C++ reading of the emitted statements (declaration at the first assignment per scope chain, frames pushed/popped at braces and at the for statement, the PASTED loop test `v < stop` and the step re-evaluated per iteration, every emitted token sequence parsed by cppTable; break / continue leave every block up to the innermost loop, ending the lifetime of the names declared in them, continue in a for goes to the increment) returns r with the same fuel',
	'stmt_forms': 'every translated statement template (assign / declare / aug-assign / return / if / else-if / else / while / for-range heads, break, continue, closing lines), read as C++ by readForm, is the statement form cExec gives the corresponding constructor, with the template variables in the positions emitLines fills (receiver left of =, value right; the for head declares, tests and increments the same symbol from begin / size / step): decide over the generated tables',
	'stmt_scope_counterexample': 'scopeOK is not vacuous: `if a > 0: v = 1 else: v = 2; return v` is valid Python (returns 1) but the statements the collector logic yields read an undeclared v (the real emitter rejects: finding reject:block-scoped-name)',
	'range_reevaluated_counterexample': 'the known finding range:args-reevaluated as a fact about the emitted form: `for i in range(0, n, 1): if n < 5: n = n + 1; t = t + 1` — Python iterates twice, the emitted `for (auto i = 0; i < n; i += 1)` five times; scopeOK fails exactly on the clause "the body assigns nothing stop reads"',
	'range_loopvar_counterexamples': 'the two loop-variable clauses of scopeOK are necessary on the emitted form: a loop variable that is an already declared name is shadowed by `auto i` (python 2, c++ 5; finding range:loopvar-shadowed); a body that assigns the loop variable skips iterations (python 10, c++ 4; finding range:loopvar-assigned)',
	'for_test_reparses': 'the loop test flow/for/range.j2 pastes (`{{ symbol }} < {{ size }}`, read from the translated template) is, for every stop that is_regrouped_operand(stop, <) would not parenthesise, exactly the token text of the operator node `v < stop`; by `group` C++ parses it into the comparison with the whole stop (discharges the former tightArg assumption)',
	'aug_ops_in_grammar': 'the operators the model gives `v op= e` (+ - * % & | ^ << >>) are terminals of aug_assign_op translated from data/grammar.lark (the remaining @= /= **= //= are outside the int core)',
	'for_test_flat_counterexample': 'necessity: for stop `a & b` the pasted test is `i < a & b`, not the node text `i < (a & b)`, and C++ parses it as (i < a) & b (known finding flat:range-arg as a fact about the pasted text)',
	'paren_decision_uses_own_operand': 'in the fold over a chain the k-th right element is parenthesised iff is_regrouped_operand(that element, the operator in front of it), the first operand against the first operator: the pairing of operands with operators is part of the model (a shifted pairing changes the emitted text the emit stream compares)',
}


def start_search(ctx: Ctx) -> tuple[Any, Any]:
	"""The search (real transpiler + g++ + CPython; no Lean involved) runs in a forked child from the very start, overlapping the translator,
	the lake build and the single-threaded correspondence streams of the parent. -> (process, receiving end of the result pipe)"""
	import multiprocessing
	import sys
	import time
	import traceback
	sys.stdout.flush()
	sys.stderr.flush()
	mp = multiprocessing.get_context('fork')
	recv, send = mp.Pipe(duplex=False)

	def child() -> None:
		try:
			recv.close()
			ctx._tmpdirs = []   # the child removes what the child creates
			ctx.timings, ctx.notes = {}, []
			t0 = time.time()
			pl = cxx.Pipeline(ctx, workers=ctx.scale(8, 12))   # every worker builds a real App: on a busy machine the start-up of 12 costs more than it saves
			try:
				res = [search_programs(ctx, pl)]
			finally:
				pl.close()
			ctx.timings['search'] = round(time.time() - t0, 3)
			send.send(('ok', res, ctx.notes, ctx.timings))
		except common.InfraError as e:
			send.send(('infra', str(e)))
		except BaseException:  # noqa: BLE001 - reported by the parent as a crash of the harness (exit 2)
			send.send(('crash', traceback.format_exc()))
		finally:
			try:
				ctx.cleanup()
				send.close()
			finally:
				os._exit(0)

	p = mp.Process(target=child)   # not a daemon: it has children of its own (transpiler workers, g++)
	p.start()
	send.close()
	return p, recv


def collect_search(ctx: Ctx, started: tuple[Any, Any]) -> list[SearchResult]:
	p, recv = started
	try:
		if not recv.poll(3 * 3600):
			raise common.InfraError('the search process did not report within its wall limit')
		msg = recv.recv()
	except EOFError:
		raise common.InfraError('the search process ended without a result') from None
	finally:
		p.join(30)
		if p.is_alive():
			p.kill()
	if msg[0] == 'infra':
		raise common.InfraError(msg[1])
	if msg[0] == 'crash':
		raise RuntimeError('search process crashed:\n' + msg[1])
	_, res, notes, timings = msg
	ctx.notes.extend(notes)
	ctx.timings.update(timings)
	return res


def run(ctx: Ctx) -> int:
	from translate import gen_cpp_templates
	search_started = start_search(ctx)
	try:
		return _run(ctx, search_started)
	except BaseException:
		if search_started[0].is_alive():
			search_started[0].kill()   # its own children end with their current g++ / transpile job
		raise


def _run(ctx: Ctx, search_started: tuple[Any, Any]) -> int:
	from translate import gen_cpp_templates
	translate_ok, translate_msg = True, ''
	try:
		with ctx.timed('translate'):
			ctx.generated_tables = gen_cpp_templates.generate()
	except Exception as e:  # noqa: BLE001 - the translator fails loudly when a template/grammar/i18n file leaves the skeleton it understands
		translate_ok, translate_msg = False, f'{type(e).__name__}: {e}'
	proof = common.prove(ctx, PROP, leanchecker=ctx.thorough)
	streams: list[Stream] = []
	if proof.built:
		with ctx.timed('correspondence'):
			st = stream_emit(ctx)
			streams = [st, stream_cpptable(ctx, st.raw_cases), stream_sem(ctx, st.raw_cases), stream_stmt(ctx)]  # type: ignore[attr-defined]
			del st.raw_cases  # type: ignore[attr-defined]
	with ctx.timed('search-wait-after-correspondence'):
		searches = collect_search(ctx, search_started)
	return common.finish(ctx, proof, streams, searches, statements=STATEMENTS, translate_ok=translate_ok, translate_msg=translate_msg,
		partial={
			'proved': 'operator level: emitted tokens re-parsed by the C++ grammar (Prec table + wrapper grammar for ?:, calls, members) = Python grouping for every chain-free operator node incl. ternary, in / not in, fmod (group, group_full); '
				'the emitter\'s precedence table agrees with the C++ grammar table; operator semantics agree inside the subset on ints, bools and abstract floats (sem, agree, sem_full, agree_full); template/ladder totality (ops_total, ladder_eq). '
				'statement level: which assignment declares (stmt_decl) and agreement of assign / augmented assign / return / if-elif-else / while / for-over-range / break / continue programs over the operator core on ints/bools under the static condition scopeOK (stmt_agree), each clause of which is proved necessary on the emitted form (stmt_scope_counterexample, range_reevaluated_counterexample, range_loopvar_counterexamples); every translated statement template read as C++ is the statement form the C++ semantics gives its constructor (stmt_forms)',
			'correspondence_only': 'Model.Emit = real Py2Cpp on operator nodes (stream emit: exact text, tokens, wf, CPython grouping); cppTable and the wrapper grammar = g++\'s grammar (stream cpptable; by value in stream sem); '
				'pyEval / cEvalX = CPython / g++ on ints, bools, floats (stream sem); Model.EmitStmt = real Py2Cpp body lines, CPython and g++ on generated core programs (stream stmt)',
			'search_only': 'for loops over lists/dicts/enumerate, while-else / for-else, calls between functions, functions/closures/default args, classes, enums, containers, comprehensions, strings, casts, exceptions, augmented/destructuring assignment, float and bool variables in statements, '
				'acceptance by g++ -std=c++20, never-rejected: generated programs vs CPython',
			'false_on_current_tree': 'the grouping sentence for comparison chains (group_chain_counterexample; known finding chain-compare); '
				'never-rejected for names first assigned in a nested block and read after it (stmt_scope_counterexample; finding reject:block-scoped-name); '
				'for over range outside scopeOK: re-evaluated stop/step, shadowed or assigned loop variable (range_reevaluated_counterexample, range_loopvar_counterexamples; findings range:args-reevaluated, range:loopvar-shadowed, range:loopvar-assigned)',
		},
		assumptions=[
			'an atom is any primary; its text is whatever its own handler rendered (leaf handlers are outside the model)',
			'the domain name of each chain element and the declared type of each assignment are the ones Reflections.type_of / to_domain_name / to_accessible_name gave (type inference is C03\'s subject)',
			'`in` / `not in` are grouped (call form = a postfix primary) but their C++ value needs containers: Err.unsupported in cEvalX, search only',
			'floats are abstract in sem_full (no IEEE claim; both languages read over the same F; tranp maps float to C++ float: the search restricts floats to values exactly representable in binary32, stream sem uses double on both sides)',
			'statements core: variables hold ints; the statement templates (assign/move_assign*.j2, assign/aug_assign.j2, statement/return.j2, flow/if/*.j2, flow/while.j2, flow/for/range.j2, statement/break.j2, statement/continue.j2) are TRANSLATED on every run (gen_cpp_templates: whole-file skeleton check, head/tail lines as pieces) and interpreted by emitLines; not covered: the is_initializer / is_static / return-self / `std::is_same_v` constexpr branches; loops carry fuel (no claim about non-termination)',
		],
		trusted=['cppTable + the wrapper grammar (conditional-expression, postfix call/member): ISO C++20 expression grammar transcribed (validated against g++ by streams cpptable and sem)',
			'denotePy / denoteCpp, pyEval / cEvalX, pyExec / cExec: transcriptions of the two language definitions for int/bool/float operators and the statements core (validated against CPython and g++ -fsanitize=undefined by streams sem and stmt)',
			'g++ 12 -std=c++20 as the C++ oracle of the search; std::format shimmed in the driver prelude (g++ 12 has no <format>)'])


def replay(ctx: Ctx, path: str) -> int:
	with open(path, encoding='utf-8') as f:
		rec = json.load(f)
	inp = rec.get('input', rec)
	prog = inp.get('program')
	if prog is None:
		print(json.dumps(rec, indent=1)[:3000])
		print('replay: no program in this file (proof/correspondence failure); re-running the check with the recorded seed')
		return run(Ctx(PROP, rec.get('tier', 'quick'), int(rec.get('seed', 0))))
	pl = cxx.Pipeline(ctx)
	r = pl.check(prog, fresh=True)
	print(f"key: {inp.get('key', rec.get('key'))}")
	print('--- python source\n' + prog['source'])
	print('--- emitted C++\n' + str(r.get('emitted')))
	print(f"--- status: {r['status']} (calls compared: {r.get('compared')}) {(r.get('why') or '')[:1500]}")
	for d in r.get('diffs', [])[:8]:
		print(f"  {d['fn']}{tuple(d['args'])}: python={d['python']} c++={d['cpp']}")
	ctx.cleanup()
	if r['status'] in ('mismatch', 'rejected', 'cxx-rejected'):
		print(f'VIOLATION property={PROP} replay={os.path.relpath(path, common.VERIF)}')
		return 1
	print(f'[{PROP}] replay: the recorded input no longer fails ({r["status"]})')
	return 0
