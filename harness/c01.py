"""C01 — Transpiled C++ behaves like the Python source.

Theorems: lean/Tranp/Props/C01.lean over lean/Tranp/Model/Emit.lean (+ Generated/CppTemplates.lean from translate/gen_cpp_templates.py).
Tie: correspondence stream `emit` (random operator trees, every ordered operator pair x side forced, real Py2Cpp `return` text vs model tokens).
Search (the property's own oracle, no model): harness/gen_prog.py programs -> real transpile -> g++ -std=c++20 -> run -> CPython (harness/cxx.py).
"""
from __future__ import annotations

import copy
import glob
import json
import os
import random
import re
from collections import Counter
from typing import Any

from harness import common, cxx, gen_prog
from harness.common import Ctx, Finding, SearchResult, Stream, hx

PROP = 'C01'


# ---------------------------------------------------------------------------------------------
# search


def _short(r: dict[str, Any]) -> dict[str, Any]:
	return {'status': r['status'], 'why': (r.get('why') or '')[:600], 'diffs': r.get('diffs', [])[:3]}


def attribute(pl: cxx.Pipeline, failing: list[tuple[gen_prog.Prog, dict[str, Any]]]) -> list[tuple[gen_prog.Prog, dict[str, Any], list[str], dict[str, Any]]]:
	"""Counterfactual attribution: a failing program P is explained by class K iff P with every *other* class repaired
	still fails and P with all classes repaired passes. -> (P, result, culprit classes | [] = unexplained, details)"""
	jobs: list[dict[str, Any]] = []
	index: list[tuple[int, str]] = []
	for n, (p, _) in enumerate(failing):
		present = gen_prog.present_classes(p)
		jobs.append(gen_prog.to_dict(gen_prog.repaired(p, set())))
		index.append((n, '*'))
		for k in present:
			jobs.append(gen_prog.to_dict(gen_prog.repaired(p, {k})))
			index.append((n, k))
	res = pl.check_many(jobs, per_unit=1) if jobs else []
	out = []
	for n, (p, r) in enumerate(failing):
		mine = {k: (jobs[i], res[i]) for i, (m, k) in enumerate(index) if m == n}
		full_prog, full = mine['*']
		ok = lambda x: x['status'] in ('agree', 'vacuous')  # noqa: E731
		culprits = [k for k, (_, rr) in mine.items() if k != '*' and not ok(rr)] if ok(full) else []
		if ok(full) and not culprits:
			# no single class suffices alone: the failure needs a combination; name the combination
			present = [k for k in mine if k != '*']
			culprits = ['combo:' + '+'.join(sorted(present))] if present else []
		details = {'present_classes': [k for k in mine if k != '*'], 'all_repaired': _short(full), 'all_repaired_source': full_prog['source'],
			'per_class': {k: rr['status'] for k, (_, rr) in mine.items() if k != '*'}}
		out.append((p, r, culprits, details))
	return out


def signature(p: gen_prog.Prog) -> str:
	kinds: set[str] = set()
	for e, _, _, _ in gen_prog.walk_exprs(p):
		if e.k in ('bin', 'un'):
			kinds.add(f'{e.k}{e.op}')
		elif e.k in ('call', 'meth'):
			kinds.add(f'{e.k}:{e.val}')
		elif e.k not in ('lit', 'var'):
			kinds.add(e.k)

	def st(body: list[gen_prog.S]) -> None:
		for s in body:
			kinds.add(f's:{s.k}')
			for sub in ([b for _, b in s.a] + ([s.b] if s.b else []) if s.k == 'if' else [s.b] if s.k == 'while' else [s.c] if s.k.startswith('for_') else [s.a, s.b] if s.k == 'try' else []):
				st(sub)
	for c in p.classes:
		kinds.add('class')
		for f in [c.ctor, *c.methods]:
			st(f.body)
	for f in p.funcs:
		st(f.body)
	return ','.join(sorted(kinds))


def shrink(pl: cxx.Pipeline, p: gen_prog.Prog, r: dict[str, Any], rounds: int = 12) -> tuple[gen_prog.Prog, dict[str, Any]]:
	"""Generic greedy reduction of an unexplained failure (same failure status must persist)."""
	status = r['status']

	def candidates(q: gen_prog.Prog) -> list[gen_prog.Prog]:
		out: list[gen_prog.Prog] = []
		# drop a function / keep a single entry
		for i, f in enumerate(q.funcs):
			c = copy.deepcopy(q)
			del c.funcs[i]
			c.args.pop(f.name, None)
			if c.funcs and any(g.entry for g in c.funcs):
				out.append(c)
		# drop one statement anywhere (never the last `return` of a function)

		def paths(body: list[gen_prog.S], pre: tuple) -> list[tuple]:
			res = []
			for i, s in enumerate(body):
				res.append((*pre, i))
				if s.k == 'if':
					for j, (_, b) in enumerate(s.a):
						res.extend(paths(b, (*pre, i, 'a', j)))
					if s.b:
						res.extend(paths(s.b, (*pre, i, 'b')))
				elif s.k == 'while':
					res.extend(paths(s.b, (*pre, i, 'b')))
				elif s.k.startswith('for_'):
					res.extend(paths(s.c, (*pre, i, 'c')))
				elif s.k == 'try':
					res.extend(paths(s.a, (*pre, i, 'a')))
					res.extend(paths(s.b, (*pre, i, 'b')))
			return res

		def delete(body: list[gen_prog.S], path: tuple) -> bool:
			cur: Any = body
			k = 0
			while k < len(path) - 1:
				s = cur[path[k]]
				slot = path[k + 1]
				if slot == 'a' and s.k == 'if':
					cur = s.a[path[k + 2]][1]
					k += 3
				else:
					cur = getattr(s, slot)
					k += 2
			if len(cur) <= 1 and cur is not body:
				cur[path[-1]] = gen_prog.S('pass')
				return True
			if cur is body and path[-1] == len(cur) - 1:
				return False
			del cur[path[-1]]
			return True

		for fi, f in enumerate(q.funcs):
			for path in paths(f.body, ()):
				c = copy.deepcopy(q)
				if delete(c.funcs[fi].body, path):
					out.append(c)
		# replace an operator expression by one of its same-typed children
		n_expr = sum(1 for _ in gen_prog.walk_exprs(q))
		for idx in range(n_expr):
			c = copy.deepcopy(q)
			for j, (e, _, _, ctx) in enumerate(gen_prog.walk_exprs(c)):
				if j == idx:
					if ctx == 'target':
						break
					for kid in e.kids:
						if kid.ty == e.ty and e.k in ('bin', 'un', 'not', 'bool', 'tern', 'cmp'):
							keep_paren = e.paren
							e.k, e.ty, e.kids, e.op, e.val, e.paren = kid.k, kid.ty, kid.kids, kid.op, kid.val, kid.paren or keep_paren
							out.append(c)
							break
					break
		return out

	cur, cur_r = p, r
	for _ in range(rounds):
		cands = candidates(cur)[:48]
		if not cands:
			break
		res = pl.check_many([gen_prog.to_dict(c) for c in cands], per_unit=1)
		good = [(len(gen_prog.print_prog(c)), i) for i, (c, rr) in enumerate(zip(cands, res)) if rr['status'] == status]
		if not good:
			break
		_, i = min(good)
		cur, cur_r = cands[i], res[i]
	return cur, cur_r


def load_corpus() -> list[dict[str, Any]]:
	out = []
	for fn in sorted(glob.glob(os.path.join(common.CORPUS_DIR, PROP, '*.json'))):
		with open(fn, encoding='utf-8') as f:
			rec = json.load(f)
		rec['_file'] = os.path.relpath(fn, common.VERIF)
		out.append(rec)
	return out


def search_programs(ctx: Ctx, pl: cxx.Pipeline) -> SearchResult:
	rng = ctx.sub_rng('programs')
	res = SearchResult('run_cpp(transpile(P), a) == run_python(P, a): real Py2Cpp + g++ -std=c++20 vs CPython on generated typed programs')
	hist: Counter[str] = Counter()
	seen: set[str] = set()

	# 1. corpus: minimised witnesses of the known defect classes, replayed first (concrete replays)
	corpus = load_corpus()
	cres = pl.check_many([c['program'] for c in corpus], per_unit=1, fresh=False) if corpus else []
	for c, r in zip(corpus, cres):
		res.cases += 1
		hist[f"corpus:{r['status']}"] += 1
		seen.add(c['program']['source'])
		if r['status'] not in ('agree', 'vacuous'):
			res.findings.append(Finding(key=c['key'], what=f"{c['what']} [{c['_file']}: {r['status']}]",
				replay={'corpus': c['_file'], 'key': c['key'], 'program': c['program'], 'result': _short(r), 'emitted': r.get('emitted')}))
		elif r['status'] == 'vacuous':
			ctx.notes.append(f"corpus witness {c['_file']} is vacuous: {r.get('why')}")

	# 2. generated programs
	n = ctx.scale(40, 600)
	progs: list[gen_prog.Prog] = []
	for i in range(n):
		p, h = gen_prog.generate(random.Random(rng.random()), size=1 + i % 3)
		progs.append(p)
		hist.update({f'construct:{k}': v for k, v in h.items()})
	dicts = [gen_prog.to_dict(p) for p in progs]
	results = pl.check_many(dicts, per_unit=10)
	failing: list[tuple[gen_prog.Prog, dict[str, Any]]] = []
	compared = 0
	for p, d, r in zip(progs, dicts, results):
		res.cases += 1
		seen.add(d['source'])
		hist[f"status:{r['status']}"] += 1
		compared += r.get('compared', 0)
		if r['status'] == 'vacuous':
			hist['vacuous:' + re.sub(r'[0-9.\-e+]+$', '', str(r.get('why', ''))[:40])] += 1
		if r['status'] in ('mismatch', 'rejected', 'cxx-rejected'):
			failing.append((p, r))
		elif len(res.samples) < 2 and r['status'] == 'agree':
			res.samples.append({'source': d['source'][:600], 'compared_calls': r['compared']})
	hist['calls-compared'] = compared

	# 3. attribute every failing program to defect classes; shrink what stays unexplained
	unexplained = 0
	for p, r, culprits, details in attribute(pl, failing):
		d = gen_prog.to_dict(p)
		if culprits:
			for k in culprits:
				hist[f'finding:{k}'] += 1
				res.findings.append(Finding(key=k, what=gen_prog.CLASS_WHAT.get(k, k) + f" [generated program: {r['status']}]",
					replay={'key': k, 'program': d, 'result': _short(r), 'emitted': r.get('emitted'), 'attribution': details}))
		else:
			unexplained += 1
			if unexplained > 3:
				continue
			q, qr = shrink(pl, p, r, rounds=ctx.scale(8, 20))
			# re-attribute the reduced program: shrinking may have exposed a known pattern in isolation
			(_, _, culprits2, details2), = attribute(pl, [(q, qr)])
			key = culprits2[0] if culprits2 else f"unexplained:{qr['status']}:{signature(q)}"
			hist[f'finding:{key}'] += 1
			res.findings.append(Finding(key=key, what=f"{qr['status']} not explained by a known defect class; reduced program in the replay",
				replay={'key': key, 'program': gen_prog.to_dict(q), 'result': _short(qr), 'emitted': qr.get('emitted'), 'original_program': d,
					'original_result': _short(r), 'attribution': details, 'attribution_reduced': details2}))
	res.distinct = len(seen)
	res.histogram = dict(sorted(hist.items()))
	res.note = '; '.join(gen_prog.SUBSET_NOTES[:2])
	return res


# ---------------------------------------------------------------------------------------------


STATEMENTS: dict[str, str] = {}


def run(ctx: Ctx) -> int:
	proof = None
	streams: list[Stream] = []
	with ctx.timed('search'):
		pl = cxx.Pipeline(ctx)
		try:
			searches = [search_programs(ctx, pl)]
		finally:
			pl.close()
	return common.finish(ctx, proof, streams, searches, statements=STATEMENTS)


def replay(ctx: Ctx, path: str) -> int:
	with open(path, encoding='utf-8') as f:
		rec = json.load(f)
	inp = rec.get('input', rec)
	prog = inp.get('program')
	if prog is None:
		print(json.dumps(rec, indent=1)[:3000])
		print('replay: no program in this file (proof/correspondence failure); re-running the check with the recorded seed')
		return run(Ctx(PROP, rec.get('tier', 'quick'), int(rec.get('seed', 0))))
	pl = cxx.Pipeline(ctx)
	r = pl.check(prog, fresh=True)
	print(f"key: {inp.get('key', rec.get('key'))}")
	print('--- python source\n' + prog['source'])
	print('--- emitted C++\n' + str(r.get('emitted')))
	print(f"--- status: {r['status']} (calls compared: {r.get('compared')}) {(r.get('why') or '')[:1500]}")
	for d in r.get('diffs', [])[:8]:
		print(f"  {d['fn']}{tuple(d['args'])}: python={d['python']} c++={d['cpp']}")
	ctx.cleanup()
	if r['status'] in ('mismatch', 'rejected', 'cxx-rejected'):
		print(f'VIOLATION property={PROP} replay={os.path.relpath(path, common.VERIF)}')
		return 1
	print(f'[{PROP}] replay: the recorded input no longer fails ({r["status"]})')
	return 0
