"""Shared pieces of the C11/C12 harnesses: protocol encoders, real-engine wrappers, grammar-directed sentence sampling,
token rendering, random rule-set (tuple tree) generation."""
from __future__ import annotations

import random
import re
from typing import Any

from harness.common import exc_enum, hx
from translate import gen_rules

# ---------------------------------------------------------------------------------------------
# protocol encoders


def tentry_sexp(t: Any) -> str:
	"""Tuple tree -> the driver's s-expression (space separated, names and values hex-escaped)."""
	name, body = t
	if isinstance(body, str):
		return f't:{hx(name)}:{hx(body)}'
	return '( ' + hx(name) + ''.join(' ' + tentry_sexp(c) for c in body) + ' )'


def tok_field(string: str, cls: int, smap: Any) -> str:
	return f'{hx(string)}:{cls}:{smap[0]}:{smap[1]}:{smap[2]}:{smap[3]}'


def toks_field(tokens: list[Any], regexps: list[str]) -> str:
	if not tokens:
		return '-'
	return ','.join(tok_field(t.string, gen_rules.classify(regexps, t.string), tuple(t.source_map)) for t in tokens)


def rx_spec(regexps: list[str], classes: list[int]) -> str:
	if not regexps:
		return '-'
	return ';'.join(f"{hx(rx)}={','.join(str(c) for c in classes if c >> i & 1)}" for i, rx in enumerate(regexps))


def pat_show(p: Any) -> str:
	"""Real Pattern/Patterns -> the `rules` driver's pattern text."""
	from rogw.tranp.implements.syntax.tranp.rule import Comps, Operators, Pattern, Roles
	if isinstance(p, Pattern):
		r = 'S' if p.role == Roles.Symbol else 'T'
		c = {Comps.NoComp: 'N', Comps.Regexp: 'R', Comps.Equals: 'E'}[p.comp]
		return f'p:{hx(p.expression)}:{r}:{c}'
	o = 'and' if p.op == Operators.And else 'or'
	return f'( G:{o}:{p.rep.value}' + ''.join(' ' + pat_show(e) for e in p.entries) + ' )'


def rules_show(rules: Any) -> str:
	return ';'.join(f'{hx(k)}={pat_show(p)}' for k, p in rules._rules.items())


# ---------------------------------------------------------------------------------------------
# real engine


class FixedTokenizer:
	"""ITokenizer that returns a prepared token list (the engine accepts any ITokenizer)."""

	def __init__(self, tokens: list[Any]) -> None:
		self.tokens = tokens

	def parse(self, source: str) -> list[Any]:
		return list(self.tokens)


class BudgetExceeded(Exception):
	"""A call into the code under test did not return within its wall budget."""


class budget:
	"""`with budget(seconds):` — hard cap on a call into the real code (main thread only). The cap is on the CPU time of this process
	(signal.ITIMER_VIRTUAL), so the verdict does not depend on how loaded the machine is; a wall timer of `WALL_FACTOR` times
	that stands behind it for calls that block without using CPU. A call that runs over raises BudgetExceeded, which the callers turn
	into an outcome / finding `budget-exceeded` (a loop that no longer ends, an exponential blow-up) instead of a check that never
	returns. Budgets do not nest (the inner one would cancel the outer timers): callers wrap single calls."""

	WALL_FACTOR = 10.0

	def __init__(self, seconds: float) -> None:
		self.seconds = seconds

	def _fire(self, *a: Any) -> None:
		raise BudgetExceeded(f'no result within {self.seconds} s of CPU time ({self.seconds * self.WALL_FACTOR:.0f} s wall)')

	def __enter__(self) -> 'budget':
		import signal
		self._old = signal.signal(signal.SIGVTALRM, self._fire)
		self._old_real = signal.signal(signal.SIGALRM, self._fire)
		# repeating timers: code under test that swallows the first BudgetExceeded in a broad `except` is interrupted again
		signal.setitimer(signal.ITIMER_VIRTUAL, self.seconds, 1.0)
		signal.setitimer(signal.ITIMER_REAL, self.seconds * self.WALL_FACTOR, 5.0)
		return self

	def __exit__(self, *a: Any) -> None:
		import signal
		signal.setitimer(signal.ITIMER_VIRTUAL, 0)
		signal.setitimer(signal.ITIMER_REAL, 0)
		signal.signal(signal.SIGVTALRM, self._old)
		signal.signal(signal.SIGALRM, self._old_real)


CALL_BUDGET_S = 15.0  # CPU seconds; the slowest sentences the generators emit take ≈ 1.5 s (harness/c11.py too_deep)


class Deadline:
	"""Total wall budget of one stream / search: loops stop generating when it is over and report what they have."""

	def __init__(self, seconds: float) -> None:
		import time
		self.end = time.time() + seconds
		self.seconds = seconds

	def expired(self) -> bool:
		import time
		return time.time() > self.end


def real_tokens(tokenizer: Any, source: str) -> list[Any]:
	"""tokenizer.parse under the call budget"""
	with budget(CALL_BUDGET_S):
		return tokenizer.parse(source)


def real_parse(rules: Any, tokenizer: Any, source: str, entry: str = 'entry') -> tuple[str, Any]:
	"""('ok', tuple tree) | ('Errors.Syntax', message) | (enum, None)."""
	from rogw.tranp.errors import Errors
	from rogw.tranp.implements.syntax.tranp.syntax import SyntaxParser
	try:
		with budget(CALL_BUDGET_S):
			tree = SyntaxParser(rules, tokenizer).parse(source, entry)
			return 'ok', tree.simplify()
	except BudgetExceeded:
		return 'budget-exceeded', None
	except Errors.Syntax as e:
		return 'Errors.Syntax', str(e)
	except Exception as e:  # noqa: BLE001
		return exc_enum(e), None


def real_parse_with(parser: Any, source: str, entry: str = 'entry') -> tuple[str, Any]:
	"""real_parse on a given SyntaxParser instance (history replays)"""
	from rogw.tranp.errors import Errors
	try:
		with budget(CALL_BUDGET_S):
			return 'ok', parser.parse(source, entry).simplify()
	except BudgetExceeded:
		return 'budget-exceeded', None
	except Errors.Syntax as e:
		return 'Errors.Syntax', str(e)
	except Exception as e:  # noqa: BLE001
		return exc_enum(e), None


def real_parse_line(kind: str, payload: Any) -> str:
	if kind == 'ok':
		return 'ok ' + tentry_sexp(payload)
	if kind == 'Errors.Syntax':
		return 'Errors.Syntax ' + hx(payload)
	return kind


# ---------------------------------------------------------------------------------------------
# grammar-directed sampling


PY_KEYWORDS = {'False', 'None', 'True', 'and', 'as', 'assert', 'async', 'await', 'break', 'class', 'continue', 'def', 'del', 'elif', 'else', 'except',
	'finally', 'for', 'from', 'global', 'if', 'import', 'in', 'is', 'lambda', 'nonlocal', 'not', 'or', 'pass', 'raise', 'return', 'try', 'while', 'with', 'yield'}

NAME_POOL = ['Falsey', 'True_', 'a', 'b', 'c', 'x', 'y', 'z', 'f', 'g', 'n', 'i', 'k', 'v', 'foo', 'bar', '_t', 'x1', 'Obj', 'self', 'cls', 'val', 'items', 'int', 'str']
STRING_POOL = ["'s'", '"t"', "'a b'", '"x.y"', "''", '""', "'it\\'s'", '"q\\"r"', "'1'", '"k"', "'[0]'", '"(a, b)"', "'if'"]
DIGIT_POOL = ['0', '1', '2', '7', '10', '42', '100']
DECIMAL_POOL = ['0.5', '1.0', '2.25', '10.01', '0.0']


# --- an INDEPENDENT reading of a .lark grammar text (no tranp code involved): the sentence sampler and the C12 fixed-point
#     oracle must not depend on the rule loader they are testing.
#     node = ('sym', name) | ('str', text) | ('rx', regexp) | ('seq', [node…]) | ('alt', [node…]) | ('opt', node) | ('rep', node, '*'|'+'|'?'|None)


class LarkSyntaxError(Exception):
	pass


def lark_tokens(text: str) -> list[tuple[str, str]]:
	"""(kind, text) tokens of a meta-grammar text: sym, str, rx, op ('[', ']', '(', ')', '|', ':=', '*', '+', '?'), nl."""
	out: list[tuple[str, str]] = []
	i, n = 0, len(text)
	while i < n:
		c = text[i]
		if c == '\n':
			out.append(('nl', c))
			i += 1
		elif c in ' \t\r\f':
			i += 1
		elif text.startswith('//', i):
			while i < n and text[i] != '\n':
				i += 1
		elif c in '"/':
			j = i + 1
			while j < n and text[j] != c:
				j += 2 if text[j] == '\\' else 1
			if j >= n:
				raise LarkSyntaxError(f'unterminated {c} at {i}')
			out.append(('str' if c == '"' else 'rx', text[i + 1:j]))
			i = j + 1
		elif text.startswith(':=', i):
			out.append(('op', ':='))
			i += 2
		elif c in '[]()|*+?':
			out.append(('op', c))
			i += 1
		elif c.isalpha() or c == '_':
			j = i
			while j < n and (text[j].isalnum() or text[j] == '_'):
				j += 1
			out.append(('sym', text[i:j]))
			i = j
		elif c.isdigit():
			out.append(('sym', c))
			i += 1
		else:
			raise LarkSyntaxError(f'unexpected character {c!r} at {i}')
	return out


SPACE_CODES = {'\\t': '\t', '\\f': '\f', '\\r': '\r', '\\n': '\n'}


def read_lark(text: str) -> dict[str, tuple[str, Any]]:
	"""symbol -> (unwrap marker '' | '1' | '*', node), in file order."""
	toks = lark_tokens(text)
	pos = [0]

	def peek() -> tuple[str, str]:
		return toks[pos[0]] if pos[0] < len(toks) else ('eof', '')

	def take(kind: str, val: str | None = None) -> str:
		k, v = peek()
		if k != kind or (val is not None and v != val):
			raise LarkSyntaxError(f'expected {kind} {val or ""} at token {pos[0]}, got {k} {v!r}')
		pos[0] += 1
		return v

	def term() -> Any:
		k, v = peek()
		if k == 'sym':
			pos[0] += 1
			return ('sym', v)
		if k == 'str':
			pos[0] += 1
			return ('str', SPACE_CODES.get(v, v))
		if k == 'rx':
			pos[0] += 1
			return ('rx', v)
		if (k, v) == ('op', '['):
			pos[0] += 1
			e = alt()
			take('op', ']')
			return ('opt', e)
		if (k, v) == ('op', '('):
			pos[0] += 1
			e = alt()
			take('op', ')')
			k2, v2 = peek()
			if k2 == 'op' and v2 in '*+?':
				pos[0] += 1
				return ('rep', e, v2)
			return ('rep', e, None)
		raise LarkSyntaxError(f'term expected at token {pos[0]}, got {k} {v!r}')

	def seq() -> Any:
		items = [term()]
		while peek()[0] in ('sym', 'str', 'rx') or peek() in (('op', '['), ('op', '(')):
			items.append(term())
		return items[0] if len(items) == 1 else ('seq', items)

	def alt() -> Any:
		alts = [seq()]
		while peek() == ('op', '|'):
			pos[0] += 1
			alts.append(seq())
		return alts[0] if len(alts) == 1 else ('alt', alts)

	rules: dict[str, tuple[str, Any]] = {}
	while peek()[0] != 'eof':
		if peek()[0] == 'nl':
			pos[0] += 1
			continue
		name = take('sym')
		unwrap = ''
		if peek() == ('op', '['):
			pos[0] += 1
			k, v = peek()
			if (k, v) not in (('sym', '1'), ('op', '*')):
				raise LarkSyntaxError(f'unwrap marker expected after {name}[')
			pos[0] += 1
			unwrap = v
			take('op', ']')
		take('op', ':=')
		rules[name] = (unwrap, alt())
		if peek()[0] != 'eof':
			take('nl')
	return rules


def lark_show(rules: dict[str, tuple[str, Any]]) -> str:
	"""The independent reading in the `rules_show` format (what Rules.from_ast of the compiled grammar must equal)."""
	def show(n: Any) -> str:
		k = n[0]
		if k == 'sym':
			return f'p:{hx(n[1])}:S:N'
		if k == 'str':
			return f'p:{hx(n[1])}:T:E'
		if k == 'rx':
			return f'p:{hx(n[1])}:T:R'
		if k == 'seq':
			return '( G:and:off' + ''.join(' ' + show(e) for e in n[1]) + ' )'
		if k == 'alt':
			return '( G:or:off' + ''.join(' ' + show(e) for e in n[1]) + ' )'
		if k == 'opt':
			return f'( G:and:[] {show(n[1])} )'
		return f"( G:and:{n[2] or 'off'} {show(n[1])} )"
	return ';'.join(f"{hx(name + (f'[{u}]' if u else ''))}={show(node)}" for name, (u, node) in rules.items())



def tree_show(tree: Any) -> str:
	"""What Rules.from_ast must build from a WELL-SHAPED tuple tree, written in the `rules_show` format by an independent walk
	of the tree (no tranp code): the oracle for the rule loader."""
	def value(v: str) -> str:
		body = v[1:-1]
		return SPACE_CODES.get(body, body)

	def show(t: Any) -> str:
		name, body = t
		if isinstance(body, str):
			if name == 'symbol':
				return f'p:{hx(body)}:S:N'
			if name == 'string':
				return f'p:{hx(value(body))}:T:E'
			return f'p:{hx(body[1:-1])}:T:R'
		if name == 'terms':
			return '( G:and:off' + ''.join(' ' + show(c) for c in body) + ' )'
		if name == 'terms_or':
			return '( G:or:off' + ''.join(' ' + show(c) for c in body) + ' )'
		if name == 'expr_opt':
			return '( G:and:[]' + ''.join(' ' + show(c) for c in body) + ' )'
		rep = body[-1][1] if body[-1][0] == 'repeat' else 'off'
		return f'( G:and:{rep}' + ''.join(' ' + show(c) for c in body[:-1]) + ' )'

	out = []
	for _, (sym, unwrap, expr) in tree[1]:
		key = sym[1] + (f'[{unwrap[1]}]' if unwrap[0] == 'unwrap' else '')
		out.append(f'{hx(key)}={show(expr)}')
	return ';'.join(out)


def bad_leaf(tree: Any, grammar: dict[str, tuple[str, Any]]) -> tuple[str, str] | None:
	"""First token leaf of an engine tree whose text its terminal rule cannot match, judged by the INDEPENDENT reading of the grammar
	and the real `re.fullmatch` (a rule `name := /regexp/` or `name := "text"`); None if every leaf is fine."""
	name, body = tree
	if isinstance(body, str):
		if name in grammar:
			node = grammar[name][1]
			if node[0] == 'rx' and re.fullmatch(node[1], body) is None:
				return name, body
			if node[0] == 'str' and node[1] != body:
				return name, body
		return None
	for c in body:
		r = bad_leaf(c, grammar)
		if r:
			return r
	return None


def lark_terminals(rules: dict[str, tuple[str, Any]]) -> tuple[list[str], list[str]]:
	strings: list[str] = []
	regexps: list[str] = []

	def walk(n: Any) -> None:
		if n[0] == 'str' and n[1] not in strings:
			strings.append(n[1])
		elif n[0] == 'rx' and n[1] not in regexps:
			regexps.append(n[1])
		elif n[0] in ('seq', 'alt'):
			for e in n[1]:
				walk(e)
		elif n[0] in ('opt', 'rep'):
			walk(n[1])

	for _, node in rules.values():
		walk(node)
	return strings, regexps


def case_neighbours(strings: list[str], regexps: list[str]) -> list[str]:
	"""Identifiers that equal a word of the grammar UP TO LETTER CASE — `true`, `TRUE`, `none`, `And`, `IF`, `Lambda` …: for CPython they are
	plain names; an engine that compares terminals loosely reads them as the constant / keyword. Words = the identifier-shaped string
	terminals and the alternatives of regexp terminals that are plain words (`False|True`), read from the grammar text. All case variants
	of the words regexp terminals match (they sit BEFORE `var` in `atom`), one or two per keyword."""
	words_rx: list[str] = []
	for rx in regexps:
		if re.fullmatch(r'[A-Za-z_]+(\|[A-Za-z_]+)*', rx):
			words_rx += rx.split('|')
	words_kw = [s for s in strings if re.fullmatch(r'[A-Za-z_]+', s)]
	taken = set(words_rx) | set(words_kw) | PY_KEYWORDS
	out: list[str] = []
	for w in words_rx:
		out += [w.lower(), w.upper(), w.swapcase(), w[0].swapcase() + w[1:], w[:-1] + w[-1].swapcase()]
	for i, w in enumerate(words_kw):
		out += [w.upper(), w.capitalize(), w.lower()] if w[0].isupper() else [(w.upper(), w.capitalize())[i % 2]]
	return [v for v in dict.fromkeys(out) if v not in taken and re.fullmatch(r'[A-Za-z_]\w*', v)]


class Sampler:
	"""Random derivations from an independently read grammar (`read_lark`). String terminals are emitted literally, every
	regexp terminal samples from a pool validated with `re.fullmatch` and against the grammar's keyword (terminal) list."""

	def __init__(self, grammar: dict[str, tuple[str, Any]], rng: random.Random, max_depth: int, opt_prob: dict[str, float] | None = None, base_opt: float = 0.35) -> None:
		self.g = {k: v[1] for k, v in grammar.items()}
		self.rng = rng
		self.max_depth = max_depth
		self.opt_prob = opt_prob or {}
		self.base_opt = base_opt
		strings, regexps = lark_terminals(grammar)
		self.keywords = set(strings) | set(regexps)
		self.pools: dict[str, list[str]] = {}
		self.case_neighbours = case_neighbours(strings, regexps)
		candidates = NAME_POOL + self.case_neighbours + STRING_POOL + DIGIT_POOL + DECIMAL_POOL + ['True', 'False', '<', '>', '==', '<=', '>=', '!=', '+', '-', '*', '/', '%', '**', '?', '1']
		for rx in regexps:
			pool = [s for s in candidates if re.fullmatch(rx, s) and s not in self.keywords]
			if rx == '[a-zA-Z_]\\w*':
				pool = [s for s in pool if s not in PY_KEYWORDS]
			if not pool:
				raise ValueError(f'no sample token for regexp terminal /{rx}/ — the sentence sampler does not know this grammar')
			self.pools[rx] = pool
		self.height: dict[str, int] = {}
		self.budget = 40
		self.or_bias = 1.0
		INF = 10 ** 6
		h = {s: INF for s in self.g}
		changed = True
		while changed:
			changed = False
			for s2 in self.g:
				v = 1 + self._h(self.g[s2], h)
				if v < h[s2]:
					h[s2] = v
					changed = True
		self.height = h

	def _h(self, n: Any, h: dict[str, int]) -> int:
		k = n[0]
		if k == 'sym':
			return h.get(n[1], 10 ** 6)
		if k in ('str', 'rx'):
			return 0
		if k == 'opt' or (k == 'rep' and n[2] in ('*', '?')):
			return 0
		if k == 'rep':
			return self._h(n[1], h)
		vals = [self._h(e, h) for e in n[1]]
		return min(vals) if k == 'alt' else max(vals, default=0)

	def derive(self, symbol: str, depth: int = 0, budget: int | None = None) -> list[str]:
		"""Random derivation of `symbol`. `budget` (soft token budget) is reset when given."""
		if budget is not None:
			self.budget = budget
		return self._node(self.g[symbol], depth + 1, symbol)

	def _node(self, n: Any, depth: int, owner: str) -> list[str]:
		rng = self.rng
		room = self.max_depth - depth
		broke = self.budget <= 0
		k = n[0]
		if k == 'sym':
			return self.derive(n[1], depth)
		if k == 'str':
			self.budget -= 1
			return [n[1]]
		if k == 'rx':
			self.budget -= 1
			return [rng.choice(self.pools[n[1]])]
		if k in ('opt', 'rep'):
			body = n[1]
			kind = '[]' if k == 'opt' else n[2]
			if kind is None:
				return self._node(body, depth, owner)
			prob = self.opt_prob.get(owner, self.base_opt)
			if self._h(body, self.height) >= room or broke:
				prob = 0.0
			if kind in ('?', '[]'):
				cnt = 1 if rng.random() < prob else 0
			else:
				cnt = 0 if kind == '*' else 1
				while cnt < 3 and rng.random() < prob:
					cnt += 1
			out: list[str] = []
			for _ in range(cnt):
				out.extend(self._node(body, depth, owner))
			return out
		if k == 'alt':
			hs = [self._h(e, self.height) for e in n[1]]
			if broke or min(hs) >= room:
				best = min(hs)
				return self._node(rng.choice([e for e, h in zip(n[1], hs) if h == best]), depth, owner)
			cand = [(e, h) for e, h in zip(n[1], hs) if h < room]
			weights = [1.0 / (1 + h) ** self.or_bias for _, h in cand]
			return self._node(rng.choices([e for e, _ in cand], weights=weights)[0], depth, owner)
		out = []
		for e in n[1]:
			out.extend(self._node(e, depth, owner))
		return out


# ---------------------------------------------------------------------------------------------
# rendering token strings to Python text


OPENERS = {'(', '[', '{'}
CLOSERS = {')', ']', '}'}


def _wordlike(s: str) -> bool:
	return bool(re.fullmatch(r'[\w.]+|\'.*\'|".*"', s, flags=re.S))


WRAP_INDENTS = ['', ' ', '  ', '    ', '      ', '        ', '\t', '\t\t', '\t\t\t']


def render_tokens(tokens: list[str], rng: random.Random | None = None, tight: float = 0.0, indent: str = '\t', wrap: float = 0.0) -> str:
	"""Token strings (incl. "\\n", \\INDENT, \\DEDENT, \\OP_UNARY_MINUS) -> source text. Blocks are indented with `indent`. With `wrap`, the blank
	after an opening bracket or a comma and before a closing bracket — inside brackets only — becomes a line break followed by an
	arbitrary indentation (a continuation line: insignificant layout for CPython and for the tokenizer)."""
	out: list[str] = []
	level = 0
	depth = 0
	at_line_start = True
	prev: str | None = None
	glue_next = False
	for t in tokens:
		if t == '\n':
			out.append('\n')
			at_line_start = True
			prev = None
			glue_next = False
			continue
		if t == '\\INDENT':
			level += 1
			continue
		if t == '\\DEDENT':
			level = max(0, level - 1)
			continue
		text = '-' if t == '\\OP_UNARY_MINUS' else t
		if at_line_start:
			out.append(indent * level)
			at_line_start = False
		elif glue_next:
			pass
		else:
			sep = ' '
			if rng is not None and prev is not None and rng.random() < tight:
				if prev in OPENERS or text in CLOSERS or text == ',':
					sep = ''
				elif text in ('(', '[') and re.fullmatch(r'[A-Za-z_]\w*|\)|\]', prev):
					sep = ''
				elif (text == '.' or prev == '.') and not re.fullmatch(r'[\d.]+', prev):
					sep = ''
				elif text == ':' and _wordlike(prev):
					sep = ''
			if wrap and rng is not None and depth > 0 and prev is not None and (prev in OPENERS or prev == ',' or text in CLOSERS) and rng.random() < wrap:
				sep = '\n' + rng.choice(WRAP_INDENTS)
			out.append(sep)
		out.append(text)
		if text in OPENERS:
			depth += 1
		elif text in CLOSERS:
			depth = max(0, depth - 1)
		glue_next = t == '\\OP_UNARY_MINUS'
		prev = text
	return ''.join(out)


def mutate_tokens(tokens: list[str], rng: random.Random, vocabulary: list[str]) -> tuple[list[str], str]:
	"""One token-level mutation. Returns (tokens, mutation kind)."""
	toks = list(tokens)
	kind = rng.choice(['delete', 'delete', 'insert', 'replace', 'replace', 'swap', 'dup', 'truncate', 'drop-head'])
	if not toks:
		return [rng.choice(vocabulary)], 'insert'
	i = rng.randrange(len(toks))
	if kind == 'delete':
		del toks[i]
	elif kind == 'insert':
		toks.insert(i, rng.choice(vocabulary))
	elif kind == 'replace':
		toks[i] = rng.choice(vocabulary)
	elif kind == 'swap' and len(toks) >= 2:
		j = min(i, len(toks) - 2)
		toks[j], toks[j + 1] = toks[j + 1], toks[j]
	elif kind == 'dup':
		toks.insert(i, toks[i])
	elif kind == 'truncate':
		toks = toks[:i]
	else:
		toks = toks[i:]
	return toks, kind


# ---------------------------------------------------------------------------------------------
# random rule sets as tuple trees (C12 streams, C11 `engine-random` stream)


STRING_TERMINALS = ['"a"', '"b"', '"+"', '"("', '")"', '"["', '"]"', '"if"', '":="', '"|"', '"*"', '"?"', '"\\n"', '"\\t"', '"a b"', '"x.y"', '"/"', '"//"', '"1"', '"\\INDENT"', '"\\\\"', '"\'"', '"#"', '"="', '"key\tvalue"', '"a\nb"', '"\tx"', '"x\r"', '"a\fb"', '"a \t"', '"/a/"', '"[a]"', '"(a)"', '"/"', '"a/"', '"]"', '"[["']
REGEXP_TERMINALS = ['/a/', '/[a-z]+/', '/\\d+/', '/[+-]/', '/x|y/', '/[\\/]/', '/a b/', '/"q"/', '/[*+?]/', '/\\w+/', '/[ab]c/', '/(a)*/', '/[|]/', '/\\[\\]/',
	# bodies that begin / end with an escaped slash, a bracket or a quote (boundary characters of the printed form)
	'/a\\//', '/\\//', '/<\\//', '/\\/a/', '/\\/\\//', '/[a]/', '/(a)/', '/"/', '/a"/']
# backslash runs of length 1..5 directly before the delimiter: odd runs escape it (it stays inside the terminal), even runs do not
REGEXP_TERMINALS += [r'/a\/b/', r'/a\\/', r'/a\\\/b/', r'/\\\//', r'/a\\\\/', r'/a\\\\\/b/', r'/[a-z]:\\\/\w+/', r'/\\\\\//']
# longer than two characters but beginning with a backslash escape, and several escapes in a row: only the exact two-character forms are control codes
STRING_TERMINALS += [r'"\nil"', r'"\tab"', r'"\r\n"', r'"\t\t"', r'"\n\n"', r'"\fx"', r'"\rx"', r'"\n "', r'"x\n"']
STRING_TERMINALS += [r'"a\\"', r'"a\\\\"', r'"\\\\"', r'"x\\y"', r'"x\\\y"']
# raw ASCII control characters other than TAB/LF/CR inside terminals (form feed, vertical tab, FS, GS, RS): printed raw, lexed raw
STRING_TERMINALS += ['"\x0c"', '"a\x0cb"', '"\x0b"', '"a\x1cb"', '"\x1d"', '"x\x1e"']
REGEXP_TERMINALS += ['/a\x0cb/', '/\x0b/', '/x\x1c/']
# escaped quotes and escaped backslashes before a quote: render_rules doubles every backslash and then turns `\\'` back into `\'`, so the
# generated module reads `\'` as `'` (clean behaviour, see quote_fixup_show); the gram lexer keeps an escaped delimiter inside the terminal
STRING_TERMINALS += ['"\\\'"', '"a\\\'b"', '"\\\\\'"']
REGEXP_TERMINALS += ["/\\'/", "/a\\'b/", "/\\\\'/", '/\\"/', "/[^\\'\\\\]+/"]


def unescaped_quote_or_line_break(v: str) -> bool:
	"""What render_rules of the clean tree cannot express (known finding render-import:quote-or-line-break-in-terminal): a single quote
	that no backslash precedes, a raw LF or CR. An ESCAPED quote `\'` is handled by the second fix-up and is NOT part of it."""
	return bool(re.search(r"(?<!\\)'", v)) or '\n' in v or '\r' in v


def quote_fixup_show(show: str) -> str:
	"""`rules_show` text of what the module written by the clean render_rules evaluates to: Python reads the rendered `\'` as `'`, so every
	`\'` inside a terminal arrives as `'` (py_rules.py relies on it); everything else arrives unchanged."""
	return re.sub(r'p:([0-9a-f]+):', lambda m: 'p:' + hx(bytes.fromhex(m.group(1)).decode('utf-8').replace("\\'", "'")) + ':', show)


SYMBOL_NAMES = ['entry', 'expr', 'term', 'atom', 'name', 'op', 'x', 'y1', 'a_b', 'Rule', 'list', 'item', '_u', 'n0']


_HEAD_TERMINALS: tuple[list[str], list[str]] | None = None
OPERATOR_TAILS: list[str] = ['=']  # what completes a terminal opener to a combined symbol (filled by combined_head_terminals)


def combined_head_terminals() -> tuple[list[str], list[str]]:
	"""(string terminals, regexp terminals) whose body BEGINS with what completes a combined symbol of the gram token definition after a
	terminal opener (`/` + `=` is the inherited `/=` operator), and more generally with every tail and every whole combined symbol (`==`,
	`->`, `...`, `||`): read from the real definition of data/syntax/gram_tokenizer.py, so a new combined symbol or opener extends the set.
	Only regexps `re` can compile and bodies without a raw slash are kept."""
	global _HEAD_TERMINALS
	if _HEAD_TERMINALS is not None:
		return _HEAD_TERMINALS
	combined = ['-=', '+=', '*=', '/=', '%=', '&=', '|=', '^=', '~=', '==', '!=', '<=', '>=', '&&', '||', '<<', '>>', '->', '**', ':=', '...']
	openers = ['/', '"']
	try:
		from data.syntax.gram_tokenizer import gram_tokenizer
		with budget(CALL_BUDGET_S):
			d = gram_tokenizer()._definition
			combined = list(d.combined_symbols)
			openers = sorted({p['open'] for p in list(d.quote) + list(d.comment)})
	except Exception:  # noqa: BLE001 - fall back to the pinned definition; the searches report what the real tokenizer does with it
		pass
	tails: list[str] = []
	for o in openers:
		tails += [c[len(o):] for c in combined if c.startswith(o) and len(c) > len(o)]   # what turns the opener into an operator
	critical = set(tails)
	OPERATOR_TAILS[:] = sorted(critical) or ['=']
	tails += [c[1:] for c in combined] + list(combined)
	strings: list[str] = []
	regexps: list[str] = []
	for t in dict.fromkeys(tails):
		if not t or '/' in t or '"' in t:
			continue
		strings.append(f'"{t}"')
		for body in ((t, f'{t}+', f'{t}|x', f'{t}{t}|!{t}') if t in critical else (t,)):
			try:
				re.compile(body)
			except re.error:
				continue
			regexps.append(f'/{body}/')
	_HEAD_TERMINALS = (strings, list(dict.fromkeys(regexps)))
	return _HEAD_TERMINALS


class RuleGen:
	"""Random tuple trees shaped like the meta-grammar's output (`well_shaped=True`) or deliberately off-shape."""

	def __init__(self, rng: random.Random, symbols: list[str] | None = None, strings: list[str] | None = None, regexps: list[str] | None = None) -> None:
		self.rng = rng
		self.symbols = symbols or SYMBOL_NAMES
		hs, hr = combined_head_terminals()
		self.strings = strings or (STRING_TERMINALS + hs[:8])
		self.regexps = regexps or (REGEXP_TERMINALS + hr)

	def term(self, depth: int, bare_groups: bool) -> Any:
		r = self.rng.random()
		if depth <= 0 or r < 0.45:
			k = self.rng.random()
			if k < 0.5:
				return ('symbol', self.rng.choice(self.symbols))
			if k < 0.8:
				return ('string', self.rng.choice(self.strings))
			return ('regexp', self.rng.choice(self.regexps))
		if r < 0.6:
			return ('expr_opt', [self.expr(depth - 1, bare_groups)])
		rep = self.rng.choice(['*', '+', '?', '*', '?', None if bare_groups else '+'])
		tail = ('repeat', rep) if rep else ('__empty__', '')
		return ('expr_rep', [self.expr(depth - 1, bare_groups), tail])

	def terms(self, depth: int, bare_groups: bool) -> Any:
		n = self.rng.choice([1, 1, 2, 2, 3, 4])
		items = [self.term(depth, bare_groups) for _ in range(n)]
		return items[0] if n == 1 else ('terms', items)

	def expr(self, depth: int, bare_groups: bool) -> Any:
		n = self.rng.choice([1, 1, 1, 2, 3])
		alts = [self.terms(depth, bare_groups) for _ in range(n)]
		return alts[0] if n == 1 else ('terms_or', alts)

	def rule(self, name: str, depth: int, bare_groups: bool) -> Any:
		u = self.rng.random()
		unwrap = ('unwrap', '1') if u < 0.25 else ('unwrap', '*') if u < 0.4 else ('__empty__', '')
		return ('rule', [('symbol', name), unwrap, self.expr(depth, bare_groups)])

	def grammar(self, n_rules: int, depth: int, bare_groups: bool = False) -> Any:
		names = self.rng.sample(self.symbols, min(n_rules, len(self.symbols)))
		return ('entry', [self.rule(n, depth, bare_groups) for n in names])

	def malform(self, tree: Any) -> Any:
		"""One off-shape edit of a well-shaped tuple tree (exercises the assert / IndexError / ValueError paths of from_ast)."""
		rng = self.rng
		kind = rng.choice(['root-name', 'rule-name', 'rule-short', 'rule-token', 'unwrap-name', 'expr-name', 'token-as-tree', 'tree-as-token',
			'rep-value', 'rep-tree', 'rep-empty-children', 'bad-make', 'dup-rule', 'symbol-quoted', 'first-not-token'])
		name, rules = tree
		rules = [(r[0], list(r[1])) for r in rules if not isinstance(r[1], str)]
		i = rng.randrange(len(rules)) if rules else 0

		def edit_expr(e: Any) -> Any:
			n, b = e
			if isinstance(b, str):
				if kind == 'expr-name':
					return (rng.choice(['symbolx', 'repeat', 'unwrap', '__empty__', 'rule']), b)
				if kind == 'token-as-tree':
					return (n, [])
				if kind == 'bad-make':
					return (n, rng.choice(['', 'a b', '"abc', '/abc', 'a-b', '"', '/', '+', '[x]', 'a.b']))
				if kind == 'symbol-quoted':
					return ('symbol', rng.choice(['"q"', '/r/', '"\\n"']))
				return e
			if kind == 'tree-as-token' and rng.random() < 0.5:
				return (n, 'x')
			if kind == 'expr-name' and rng.random() < 0.5:
				return (rng.choice(['termz', 'rule', 'entry', 'expr']), b)
			if n == 'expr_rep':
				if kind == 'rep-value':
					return (n, [*b[:-1], ('repeat', rng.choice(['', '*+', '+?', '*+?', 'off', '[]', '**', 'x', '?*']))])
				if kind == 'rep-tree':
					return (n, [*b[:-1], ('repeat', [])])
				if kind == 'rep-empty-children':
					return (n, [])
			if b and rng.random() < 0.7:
				j = rng.randrange(len(b))
				return (n, [*b[:j], edit_expr(b[j]), *b[j + 1:]])
			return e

		if kind == 'root-name':
			return (rng.choice(['entries', 'rule', '']), rules)
		if not rules:
			return tree
		rn, rb = rules[i]
		if len(rb) < 3:
			return (name, rules)
		if kind == 'rule-name':
			rules[i] = (rng.choice(['rules', 'entry', 'symbol']), rb)
		elif kind == 'rule-short':
			rules[i] = (rn, rb[:rng.randrange(0, 3)])
		elif kind == 'rule-token':
			rules[i] = (rn, 'x')  # type: ignore[assignment]
		elif kind == 'unwrap-name':
			rules[i] = (rn, [rb[0], (rng.choice(['unwrap', 'repeat', 'symbol', '__empty__']), rng.choice(['1', '*', '', '2', 'ab'])), *rb[2:]])
		elif kind == 'dup-rule':
			rules.append((rn, [rb[0], rb[1], ('symbol', 'dup')]))
			if rng.random() < 0.5:
				rules.append(rules[0])
		elif kind == 'first-not-token':
			rules[i] = (rn, [(rng.choice(['name', 'string']), rb[0][1]) if rng.random() < 0.5 else ('symbol', []), *rb[1:]])
		else:
			rules[i] = (rn, [rb[0], rb[1], edit_expr(rb[2]), *rb[3:]])
		return (name, rules)
