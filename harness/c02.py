"""C02 — Node tree groups programs exactly as CPython parses them.

Theorems: lean/Tranp/Props/C02.lean (ladder = CPython's table by `decide` over the generated ladder; grouping round trip
for every operator term; decision logic of the first-match class dispatch), over lean/Tranp/Prec.lean,
Model/Ladder.lean, Model/Classify.lean.
Tie: translators translate/gen_grammar_ladder.py + gen_resolver_table.py + gen_decl_matchers.py + gen_grammar_parents.py +
gen_match_features.py (every match_feature body pinned by skeleton digest, its constants generated); correspondence streams
  `lark-vs-rd`  real lark tree of generated operator texts        vs  rdParse over the generated ladder,
  `classify`    real `type(node).__name__` at every tree position  vs  first-match model over the generated table,
  `pygroup`     `ast.parse` of printMin pyTable e                  vs  astOf e / toAst(rdParse(...)) (validates pyTable).
Search (real code only): canon(nodes(s)) == canon(ast.parse(s)) for generated programs of the common language; the canon carries
the KIND of every node whose class goes by a name (function kinds, Enum / Class, Super / FuncCall, list / dict / callable / custom
generic types, self / cls references, declaration / reference roles), computed on the CPython side from the ast alone; fixed
near-miss programs (near_miss_programs) put every word the classification goes by, and every name that merely contains it, at
every steering position on every run; non_steering_programs put the same words where they must NOT steer (later / star parameters,
defaults, annotations, decorator arguments, labels, attribute names, type arguments); wide_programs have 104 (one: 1005) siblings
of every kind (statements, members, parameters, arguments, elements, operands, bases, decorators, clauses) so that sibling indexes
of three and four digits occur in every path the matchers and indexed lookups read.
"""
from __future__ import annotations

import ast
import json
import os
import random
import re
import traceback
import warnings
from collections import Counter
from typing import Any

from harness import common, trees
from harness.common import Ctx, Finding, SearchResult, Stream, exc_enum, hx

PROP = 'C02'

# operator spellings in the order of `Tranp.Ladder.opNames` (code = index)
OP_NAMES = ['or', 'and', 'not', '<', '>', '==', '>=', '<=', '!=', 'in', 'not in', 'is', 'is not', '|', '^', '&', '<<', '>>', '+', '-', '*', '/', '%', '~', '//', '@', '**', '<>', 'if', 'else', 'lambda', ':', ',']
# the grammar's ladder, loosest first (used only to *generate* texts; never as an oracle)
GEN_LEVELS: list[tuple[str, list[str]]] = [
	('bin', ['or']), ('bin', ['and']), ('pre', ['not']),
	('bin', ['<', '>', '==', '>=', '<=', '!=', 'in', 'not in', 'is', 'is not']),
	('bin', ['|']), ('bin', ['^']), ('bin', ['&']), ('bin', ['<<', '>>']), ('bin', ['+', '-']), ('bin', ['*', '/', '%']),
	('pre', ['+', '-', '~']),
]
KEEP_KINDS = {'NAME', 'DEC_NUMBER', 'FLOAT_NUMBER', 'HEX_NUMBER', 'STRING', 'MATCH', 'CASE'}
# keyword facts of grammar.lark as the translator read them off lark's LALR table (set by run_translators)
LEXER_FACTS: dict[str, Any] = {'reserved': [], 'statement_start': [], 'soft_names': []}
# tree names of the ladder fragment the reference parser covers (calls, displays, ternaries … are search-only)
FRAGMENT_TAGS = {'or_test', 'and_test', 'not_test', 'comparison', 'comp_op', 'comp_in', 'comp_not_in', 'comp_is', 'comp_is_not', 'or_expr', 'xor_expr',
	'and_expr', 'shift_expr', 'sum', 'term', 'factor', 'group_expr', 'var', 'name', 'number', 'string', 'const_true', 'const_false', 'const_none',
	'ternary_test', 'lambdadef', 'lambdaparams'}


# ---------------------------------------------------------------------------------------------
# translators


def run_translators(ctx: Ctx) -> tuple[bool, str]:
	from translate import gen_decl_matchers, gen_grammar_ladder, gen_grammar_parents, gen_match_features, gen_resolver_table
	msgs = []
	ok = True
	for mod in (gen_grammar_ladder, gen_resolver_table, gen_decl_matchers, gen_grammar_parents, gen_match_features):
		try:
			for rec in mod.generate():
				if 'lexer' in rec:
					LEXER_FACTS.update(rec.pop('lexer'))
				if 'words' in rec:
					# the words the code's match_feature methods compare node texts with must be the ones Python gives a meaning to
					# (the oracle's own list, never taken from the code): another word = a classification the generator does not exercise
					words = rec.pop('words')
					if words != STEER_WORDS:
						ok = False
						msgs.append(f'{mod.__name__}: the code compares node texts with {words}, the oracle and the generator know {STEER_WORDS}')
				ctx.generated_tables.append(rec)
		except Exception as e:  # noqa: BLE001 - an unrecognised input shape breaks the tie (DESIGN §2.3)
			ok = False
			msgs.append(f'{mod.__name__}: {type(e).__name__}: {e}')
	return ok, '; '.join(msgs)


# ---------------------------------------------------------------------------------------------
# budgets: no real-code call, model call, stream or search can hang the check


class CaseTimeout(Exception):
	"""a single real-code evaluation exceeded its budget (a finding where the property says the call returns)"""


CASE_BUDGET_S = 20.0


class budget:
	"""`with budget(seconds):` — raises CaseTimeout in the main thread when the body runs longer (SIGALRM; a no-op elsewhere)"""

	def __init__(self, seconds: float = CASE_BUDGET_S) -> None:
		self.seconds = seconds
		self.armed = False

	def __enter__(self) -> 'budget':
		import signal
		import threading
		if threading.current_thread() is threading.main_thread() and hasattr(signal, 'setitimer'):
			def on_alarm(signum: int, frame: Any) -> None:
				raise CaseTimeout(f'exceeded {self.seconds}s')
			self.old = signal.signal(signal.SIGALRM, on_alarm)
			signal.setitimer(signal.ITIMER_REAL, self.seconds)
			self.armed = True
		return self

	def __exit__(self, *a: Any) -> bool:
		import signal
		if self.armed:
			signal.setitimer(signal.ITIMER_REAL, 0)
			signal.signal(signal.SIGALRM, self.old)
		return False


class Deadline:
	"""total wall budget of one stream / search: generation stops (and is counted) when it is used up"""

	def __init__(self, ctx: Ctx, quick_s: float, thorough_s: float) -> None:
		import time
		self.t_end = time.time() + ctx.scale(int(quick_s), int(thorough_s))

	def over(self) -> bool:
		import time
		return time.time() > self.t_end


def correspond_batched(name: str, cases: list[tuple[Any, list[str], list[str]]], batch: int = 400, batch_timeout: float = 240.0) -> Stream:
	"""`common.correspond` in batches, each with its own model budget: a batch on which the Lean driver does not answer in time
	(or answers with the wrong number of lines) becomes a disagreement of that stream, never a hang or a harness crash."""
	total = Stream(name)
	for k in range(0, len(cases), batch):
		part = cases[k:k + batch]
		lines = [ln for _, ops, _ in part for ln in ops]
		try:
			model = common.lean_driver('ladder', lines, timeout=batch_timeout)
			pos = 0
			for desc, ops, real in part:
				mod = model[pos:pos + len(ops)]
				pos += len(ops)
				total.cases += 1
				for i, (o, r, m) in enumerate(zip(ops, real, mod)):
					if r != m:
						total.disagreements.append({'case': desc, 'op_index': i, 'op': o[:2000], 'real': r[:4000], 'model': m[:4000]} if len(total.disagreements) < 5
							else {'op': o[:200], 'real': r[:200], 'model': m[:200]})
						break
				if len(total.samples) < 3:
					total.samples.append({'ops': [o[:300] for o in ops[:3]], 'real': [r[:300] for r in real[:3]]})
		except common.InfraError as e:
			total.cases += len(part)
			total.disagreements.append({'case': {'batch_from': k, 'batch_size': len(part)}, 'op': '(batch)', 'real': '(see cases)', 'model': f'model-budget-exceeded-or-failed: {str(e)[:300]}'})
	total.distinct = len({tuple(ops) for _, ops, _ in cases})
	return total


# ---------------------------------------------------------------------------------------------
# real-code plumbing


def real_parse(app: common.MemApp, text: str) -> Any:
	from rogw.tranp.syntax.ast.parser import SyntaxParser
	app.source = text if text.endswith('\n') else text + '\n'
	return app.resolve(SyntaxParser)(app.main)


def in_fragment(entry: Any, parent: str = '') -> bool:
	if entry.is_empty:
		return parent == 'lambdadef'  # `lambda: x` — the absent [lambdaparams]
	if not entry.has_child:
		return True
	return entry.name in FRAGMENT_TAGS and all(in_fragment(c, entry.name) for c in entry.children)


def canon_entry_sexp(entry: Any) -> str:
	"""Entry view (names, children, token values); generated terminal names of keywords/punctuation are canonicalised to `T`."""
	out: list[str] = []

	def go(e: Any) -> None:
		if e.is_empty:
			out.append('_')
		elif e.has_child:
			out.append('(')
			out.append(e.name)
			for c in e.children:
				go(c)
			out.append(')')
		else:
			kind = e.name if e.name in KEEP_KINDS else 'T'
			out.append(f't:{kind}:{hx(e.value)}')

	go(entry)
	return ' '.join(out)


# ---------------------------------------------------------------------------------------------
# stream lark-vs-rd


ATOM_NAMES = ['a', 'b', 'c', 'x1', '_y', 'nota', 'inx', 'is_', 'orx', 'andy', 'notin', 'isnot', 'iff', 'selfish', 'A', 'Tru']


def gen_atom(rng: random.Random) -> str:
	r = rng.random()
	if r < 0.55:
		return rng.choice(ATOM_NAMES)
	if r < 0.68:
		return str(rng.choice([0, 1, 7, 10, 42, 1234567890]))
	if r < 0.76:
		return rng.choice(['1.5', '0.25', '10.0', '3.14'])
	if r < 0.82:
		return rng.choice(['0x1F', '0xff', '0X0a'])
	if r < 0.9:
		return rng.choice(["'s'", '"t"', "''", "'a b'", '"x+y"', "'not in'"])
	return rng.choice(['True', 'False', 'None'])


def gen_optree(rng: random.Random, depth: int, ops_extra: bool) -> Any:
	if depth <= 0 or rng.random() < 0.18:
		return ('atom', gen_atom(rng))
	r = rng.random()
	if r < 0.08:
		return ('par', gen_optree(rng, depth - 1, ops_extra))
	if r < 0.2:
		return ('tern', gen_optree(rng, depth - 1, ops_extra), gen_optree(rng, depth - 1, ops_extra), gen_optree(rng, depth - 1, ops_extra))
	if r < 0.28:
		return ('lam', [rng.choice(['x', 'y', 'nota', 'p1', '_']) for _ in range(rng.choice([0, 1, 1, 2, 3]))], gen_optree(rng, depth - 1, ops_extra))
	lv = rng.randrange(len(GEN_LEVELS))
	kind, ops = GEN_LEVELS[lv]
	op = rng.choice(ops)
	if ops_extra and rng.random() < 0.04:
		op, kind = rng.choice([('<>', 'bin'), ('//', 'bin'), ('**', 'bin'), ('@', 'bin')])
		lv = 3 if op == '<>' else 9
	if kind == 'pre':
		return ('pre', lv, op, gen_optree(rng, depth - 1, ops_extra))
	return ('bin', lv, op, gen_optree(rng, depth - 1, ops_extra), gen_optree(rng, depth - 1, ops_extra))


def level_of(t: Any) -> int:
	if t[0] in ('tern', 'lam'):
		return -1  # the rule `expression`, looser than `or`
	return t[1] if t[0] in ('bin', 'pre') else 99


def print_optree(rng: random.Random, t: Any, mode: str, p_wrap: float, sp: str) -> str:
	"""mode 'min': parentheses where the ladder needs them (+ random extra); 'raw': only random ones (changes the grouping — fine:
	both parsers read the same text)."""
	def wrap(s: str, need: bool) -> str:
		if (need and mode == 'min') or rng.random() < p_wrap:
			return f'({s})'
		return s

	def go(t: Any) -> str:
		if t[0] == 'atom':
			return t[1]
		if t[0] == 'par':
			return f'({go(t[1])})'
		if t[0] == 'tern':
			_, b, c, e = t
			return f'{wrap(go(b), level_of(b) < 0)} if {wrap(go(c), level_of(c) < 0)} else {wrap(go(e), False)}'
		if t[0] == 'lam':
			_, ps, body = t
			head = 'lambda' + (' ' + (',' + rng.choice(['', ' '])).join(ps) if ps else '') + rng.choice(['', ' ']) + ':'
			return f'{head} {wrap(go(body), False)}'
		if t[0] == 'pre':
			_, lv, op, e = t
			inner = wrap(go(e), level_of(e) < lv)
			return f'{op} {inner}' if op == 'not' or rng.random() < 0.3 else f'{op}{inner}'
		_, lv, op, l, r = t
		ls = wrap(go(l), level_of(l) < lv)
		rs = wrap(go(r), level_of(r) <= lv)
		s = sp if op not in ('or', 'and', 'in', 'not in', 'is', 'is not') else ' '
		if s == '' and (op in ('+', '-') and rs.startswith(('+', '-'))):
			s = ' '
		opx = op.replace(' ', '  ') if ' ' in op and rng.random() < 0.2 else op
		return f'{ls}{s}{opx}{s}{rs}'

	return go(t)


def mutate_text(rng: random.Random, text: str) -> str:
	toks = text.replace('(', ' ( ').replace(')', ' ) ').split()
	if not toks:
		return text
	k = rng.randrange(len(toks))
	r = rng.random()
	if r < 0.3:
		del toks[k]
	elif r < 0.55:
		toks.insert(k, rng.choice(['not', '==', '(', ')', '+', 'in', 'is', 'a', 'or', '~', 'if', 'else', ':', 'lambda', *(LEXER_FACTS['reserved'] or ['while'])]))
	elif r < 0.8:
		toks[k] = rng.choice(['not', 'is', 'in', ')', '(', '*', 'and', 'b', *(LEXER_FACTS['reserved'] or ['while'])])
	else:
		toks = toks[:k] + toks[k + 1:] + toks[k:k + 1]
	return ' '.join(toks)


TOKEN_RE = re.compile(r"[A-Za-z_][A-Za-z_0-9]*|\d[\w.]*|'[^']*'|\"[^\"]*\"|\S")
KEYWORD_OPS = ('or', 'and', 'in', 'is', 'not', 'if', 'else', 'for')


def keyword_split_hazard(text: str) -> bool:
	"""lark's lexer has no word boundary after keyword terminals: where an operator is expected `True andy` is read as `True and y`.
	CPython rejects such texts (two operands in a row), so they are outside C02's language; the reference lexer does not model it.
	The operand/operator position is tracked as lark's contextual lexer does (keywords are names where an operand is expected)."""
	operand, not_ok, lam_ok = True, True, True
	toks = TOKEN_RE.findall(text)
	skip = False
	for i, tok in enumerate(toks):
		if skip:
			skip = False
			continue
		is_word = tok[0].isalpha() or tok[0] == '_'
		nxt = toks[i + 1] if i + 1 < len(toks) else ''
		if not operand and ((tok == 'is' and nxt == 'not') or (tok == 'not' and nxt == 'in')):
			skip, operand, not_ok, lam_ok = True, True, False, False
			continue
		if not operand and tok == 'not' and nxt.startswith('in'):
			# after the `not` of `not in` only the terminal IN is acceptable: `not inx` is read as `not in x`
			return True
		if operand:
			if tok == 'not' and not_ok:
				lam_ok = False
				continue
			if tok == 'lambda' and lam_ok:
				not_ok, lam_ok = False, False  # parameters follow (names), then `:`
				continue
			if tok == ':':
				not_ok, lam_ok = True, True
				continue
			if is_word or tok[0].isdigit() or tok[0] in '\'"':
				operand = False
			elif tok == '(':
				not_ok, lam_ok = True, True
			elif tok == ')':
				operand = False
			else:
				not_ok, lam_ok = False, False
		else:
			if is_word and tok not in KEYWORD_OPS:
				if tok.startswith(KEYWORD_OPS):
					return True
				continue
			if tok == ')':
				continue
			operand = True
			not_ok = tok in ('or', 'and', '(', 'if', 'else', ':')
			lam_ok = tok in ('(', 'else', ':')
	return False


KEYWORD_POSITIONS = ['{w}', '{w} + 1', '{w} if a else b', 'a + {w}', 'a == {w}', 'a is not {w}', '({w})', 'a and {w}', 'not {w}', '- {w}', '~{w} * 2',
	'x if {w} else y', 'x if y else {w}', 'lambda {w}: 1', 'lambda: {w}', 'lambda a, {w}: a', '({w}) or {w}', '{w} {w}', 'a {w} b']


def stream_lark_vs_rd(ctx: Ctx) -> Stream:
	rng = ctx.sub_rng('lark-vs-rd')
	deadline = Deadline(ctx, 60, 400)
	app = common.MemApp(ctx.tmpdir())
	n = ctx.scale(1500, 25000)
	cases = []
	hist: Counter[str] = Counter()
	corpus_texts = [c['text'] for c in load_corpus() if c.get('stream') == 'lark-vs-rd']
	# every keyword of the grammar (and a few soft / builtin words) at every kind of name position of an expression, on every run:
	# where the parser state accepts the keyword terminal lark takes it, elsewhere the word is a NAME
	for w in [*LEXER_FACTS['reserved'], 'print', 'type', 'self', '_']:
		for tpl in KEYWORD_POSITIONS:
			corpus_texts.append(tpl.format(w=w))
	n_fixed = len(corpus_texts)
	for i in range(n + n_fixed):
		if i < n_fixed:
			text, kind = corpus_texts[i], 'corpus+keywords'
		else:
			depth = 1 + (i % 6) if not ctx.thorough else 1 + (i % 8)
			t = gen_optree(rng, depth, ops_extra=True)
			mode = 'min' if rng.random() < 0.6 else 'raw'
			text = print_optree(rng, t, mode, rng.choice([0.0, 0.0, 0.15, 0.5]), rng.choice(['', ' ', ' ', '  ']))
			kind = mode
			if rng.random() < 0.15:
				text = mutate_text(rng, text)
				kind = 'mutated'
			if keyword_split_hazard(text):
				hist[f'{kind}:skipped-keyword-prefix-after-operand'] += 1
				continue
		if deadline.over():
			hist['deadline-reached'] += 1
			break
		try:
			with budget():
				root = real_parse(app, text)
			kids = root.children
			if len(kids) == 1 and not in_fragment(kids[0]):
				# a mutation produced a call / tuple / ternary …: outside the fragment of the reference parser
				hist[f'{kind}:outside-fragment'] += 1
				continue
			real = 'ok ' + canon_entry_sexp(kids[0]) if len(kids) == 1 else 'error'
		except Exception:  # noqa: BLE001 - every rejection (lexer or parser) is the single outcome `error`
			real = 'error'
		hist[f"{kind}:{'ok' if real != 'error' else 'rejected'}"] += 1
		cases.append(({'text': text, 'kind': kind}, [f'rd\t{hx(text)}'], [real]))
	st = correspond_batched('lark-vs-rd', cases, batch=2000)
	st.histogram = dict(hist)
	st.note = ('texts of `expression`: operators of all ladder levels, conditional expressions, lambdas, parentheses around any of them (`<>`, unsupported `//` `**` `@`, names that extend keywords, numbers, strings, constants; '
		'minimal / random / redundant parentheses, varied spacing) plus token-level mutations; real = lark tree through the Entry view, model = rdParse(lex text)')
	return st


# ---------------------------------------------------------------------------------------------
# stream pygroup


PY_OPS: dict[type, str] = {
	ast.Add: '+', ast.Sub: '-', ast.Mult: '*', ast.Div: '/', ast.Mod: '%', ast.BitOr: '|', ast.BitXor: '^', ast.BitAnd: '&',
	ast.LShift: '<<', ast.RShift: '>>', ast.FloorDiv: '//', ast.MatMult: '@', ast.Pow: '**',
	ast.Not: 'not', ast.Invert: '~', ast.UAdd: '+', ast.USub: '-', ast.And: 'and', ast.Or: 'or',
	ast.Eq: '==', ast.NotEq: '!=', ast.Lt: '<', ast.LtE: '<=', ast.Gt: '>', ast.GtE: '>=', ast.Is: 'is', ast.IsNot: 'is not', ast.In: 'in', ast.NotIn: 'not in',
}


def py_group_sexp(n: ast.AST) -> str:
	if isinstance(n, ast.Expression):
		return py_group_sexp(n.body)
	if isinstance(n, ast.Name):
		return n.id
	if isinstance(n, ast.UnaryOp):
		return f'(U {PY_OPS[type(n.op)]} {py_group_sexp(n.operand)})'
	if isinstance(n, ast.BinOp):
		return f'(B {PY_OPS[type(n.op)]} {py_group_sexp(n.left)} {py_group_sexp(n.right)})'
	if isinstance(n, ast.BoolOp):
		return f'(L {PY_OPS[type(n.op)]}' + ''.join(' ' + py_group_sexp(v) for v in n.values) + ')'
	if isinstance(n, ast.Compare):
		return f'(C {py_group_sexp(n.left)}' + ''.join(f" {PY_OPS[type(o)].replace(' ', '_')} {py_group_sexp(c)}" for o, c in zip(n.ops, n.comparators)) + ')'
	if isinstance(n, ast.IfExp):
		return f'(I {py_group_sexp(n.test)} {py_group_sexp(n.body)} {py_group_sexp(n.orelse)})'
	if isinstance(n, ast.Lambda):
		return '(F [' + ' '.join(a.arg for a in n.args.args) + f'] {py_group_sexp(n.body)})'
	raise ValueError(type(n).__name__)


SUPPORTED_BIN = [(lv, op) for lv, (k, ops) in enumerate(GEN_LEVELS) if k == 'bin' for op in ops]
SUPPORTED_PRE = [(lv, op) for lv, (k, ops) in enumerate(GEN_LEVELS) if k == 'pre' for op in ops]


def gen_prec_expr(rng: random.Random, depth: int, counter: list[int]) -> str:
	if depth <= 0 or rng.random() < 0.15:
		counter[0] += 1
		return f'a{counter[0]}'
	r = rng.random()
	if r < 0.1:
		return f'( p {gen_prec_expr(rng, depth - 1, counter)} )'
	if r < 0.19:
		return f'( i {gen_prec_expr(rng, depth - 1, counter)} {gen_prec_expr(rng, depth - 1, counter)} {gen_prec_expr(rng, depth - 1, counter)} )'
	if r < 0.25:
		k = rng.choice([0, 1, 1, 2, 3])
		ps = []
		for _ in range(k):
			counter[0] += 1
			ps.append(f'a{counter[0]}')
		return f"( l {k} {' '.join(ps)}{' ' if ps else ''}{gen_prec_expr(rng, depth - 1, counter)} )"
	if r < 0.4:
		_, op = rng.choice(SUPPORTED_PRE)
		return f'( u {OP_NAMES.index(op)} {gen_prec_expr(rng, depth - 1, counter)} )'
	_, op = rng.choice(SUPPORTED_BIN)
	left_depth = depth - 1 if rng.random() < 0.7 else depth  # long left spines = long chains
	return f'( b {OP_NAMES.index(op)} {gen_prec_expr(rng, min(left_depth, depth - 1 + (rng.random() < 0.3)), counter)} {gen_prec_expr(rng, depth - 1, counter)} )'


def stream_pygroup(ctx: Ctx) -> Stream:
	rng = ctx.sub_rng('pygroup')
	n = ctx.scale(1500, 20000)
	exprs = []
	for i in range(n):
		exprs.append(gen_prec_expr(rng, 1 + i % (6 if not ctx.thorough else 8), [0]))
	cases = []
	hist: Counter[str] = Counter()
	try:
		texts = common.lean_driver('ladder', [f'pymin\t{e}' for e in exprs], timeout=300)
	except common.InfraError as ex:
		st = Stream('pygroup')
		st.cases = len(exprs)
		st.disagreements.append({'op': 'pymin (all)', 'real': '(texts)', 'model': f'model-budget-exceeded-or-failed: {str(ex)[:300]}'})
		return st
	for e, t in zip(exprs, texts):
		if not t.startswith('ok '):
			cases.append(({'expr': e}, [f'pymin\t{e}'], ['ok <text>']))
			continue
		try:
			text = common.unhx(t[3:])
		except ValueError:
			cases.append(({'expr': e}, [f'pymin\t{e}'], ['ok <hex text>']))
			continue
		try:
			with warnings.catch_warnings():
				warnings.simplefilter('ignore')
				real = py_group_sexp(ast.parse(text, mode='eval'))
		except Exception as ex:  # noqa: BLE001 - CPython rejecting pyTable's minimal text is itself a disagreement
			real = f'cpython-rejects:{type(ex).__name__}'
		hist[f"tokens<{10 ** len(str(len(text.split())))}"] += 1
		cases.append(({'expr': e, 'text': text}, [f'astof\t{e}', f'rdast\t{e}'], [real, real]))
	st = correspond_batched('pygroup', cases, batch=3000)
	st.histogram = dict(hist)
	st.note = ('random operator terms over the common operators with random explicit parentheses; the text is Lean\'s printMin pyTable e; '
		'real = ast.parse(text) folded to (U/B/L/C …), model = astOf e and toAst(rdParseP ladder text) — validates pyTable, astOf and the theorem C02.group end to end')
	return st


# ---------------------------------------------------------------------------------------------
# program generator (common language of CPython and grammar.lark)


# What the generator leaves out, and why each omission is OUTSIDE the property's quantifier ("accepted by both CPython and
# grammar.lark") or beyond what CPython's ast can tell — everything else that differs is generated and raised (MARK_WHAT):
#   * rejected by grammar.lark: trailing comments, `;`, bare `raise`/`except`/`yield` statements, while/for-else, try-else/finally,
#     several `if`s or an `if` between the `for`s of a comprehension, keyword-only / positional-only parameters, `f(*a, b)`, `**`,
#     `//`, `@`, `:=`, `a[1:2, 3]`, implicit string concatenation, set displays, `import x`, defs without `->`;
#   * rejected by CPython: `<>`, keyword-shaped identifiers (`x = is`), two operands in a row (`True andy`, which lark splits into
#     `True and y` — see keyword_split_hazard), keyword arguments before positional ones;
#   * not distinguishable in CPython's ast (tranp's tree is finer, nothing to compare against): `else:` holding exactly one `if`
#     vs `elif`; `a[(1, 2)]` vs `a[1, 2]` (generated, compared modulo the identification); redundant parentheses (generated,
#     `Group` is transparent in the canon); the order between positional and keyword arguments of a call.
# The words tranp's classification goes by (match_feature tests and DeclableMatcher compare node texts with them). Python gives a
# meaning to exactly these spellings; every other identifier — longer, shorter, differently cased, or a dotted path that merely
# has the word as one of its parts — is an ordinary name. The generator places such near misses wherever the word itself steers
# the classification (CONVENTIONS rule 16: names that are prefixes of each other).
STEER_DECORATORS = ['classmethod', 'staticmethod']
STEER_DEF_NAME = '__init__'
STEER_FIRST_PARAM = 'self'
STEER_BASE = 'Enum'
STEER_THIS = 'self'
STEER_CLS = 'cls'
STEER_SUPER = 'super'
STEER_LIST = 'list'
STEER_DICT = 'dict'
# role -> word, as translate/gen_match_features.py names the words it reads off the match_feature methods (compared in run_translators)
STEER_WORDS = {'decorator': STEER_DECORATORS[0], 'def-name': STEER_DEF_NAME, 'base': STEER_BASE, 'class-reference': STEER_CLS, 'this-reference': STEER_THIS,
	'list-type': STEER_LIST, 'dict-type': STEER_DICT, 'super-call': STEER_SUPER}


def near_misses(word: str, dotted: bool = False) -> list[str]:
	"""identifiers that contain / extend / shorten / re-case `word` without being it (deterministic, duplicates removed, keywords dropped);
	`dotted`: also dotted paths having the word, or a near miss of it, as one part"""
	import keyword
	core = word.strip('_') or word
	out = [f'not_a_{word}', f'{word}s', f'{word}_', f'_{word}', f'x{word}', f'{word}2', f'my{word}er', word[:-1], word[1:], core[:max(1, len(core) // 2)], core[len(core) // 2:],
		word.upper(), word.lower(), word.capitalize(), word.swapcase(), core]
	if dotted:
		out += [f'pkg.{word}', f'{word}.sub', f'hooks.{word}s.register', f'pkg.{word}.register', f'{word}.{word}', f'{word}_count']
	seen: list[str] = []
	for w in out:
		parts = w.split('.')
		if w == word or w in seen or not all(p.isidentifier() and not keyword.iskeyword(p) and p not in LEXER_FACTS['reserved'] for p in parts):
			continue
		seen.append(w)
	return seen


def near_miss_programs() -> list[tuple[str, str]]:
	"""(name, source): small fixed programs, checked on every run, that put every near miss of every steering word at every place where
	the word itself would change the classification — next to the word itself at the same places (so that both directions of a
	wrong comparison show: a near miss taken for the word, and the word no longer recognised among / beside other names)"""
	progs: list[tuple[str, str]] = []

	def emit(name: str, blocks: list[list[str]], head: list[str] | None = None, max_lines: int = 48) -> None:
		"""pack self-contained groups of lines into programs of at most ~max_lines lines (small enough for every stream's size limit)"""
		cur: list[str] = list(head or [])
		k = 0
		for b in blocks:
			if len(cur) > len(head or []) and len(cur) + len(b) > max_lines:
				progs.append((f'{name}-{k}', '\n'.join(cur) + '\n'))
				k += 1
				cur = list(head or [])
			cur += b
		if len(cur) > len(head or []):
			progs.append((f'{name}-{k}', '\n'.join(cur) + '\n'))

	# decorators: on a module-level def, on methods (any position of the decorator list, with and without arguments), on a closure
	for word in STEER_DECORATORS:
		blocks = []
		for k, v in enumerate(near_misses(word, dotted=True)):
			call = '(3)' if k % 3 == 1 else ''
			blocks.append([f'@{v}{call}', f'def top{k}(p: int) -> int:', f'\t@{v}{call}', f'\tdef inner{k}(q: int) -> int:', '\t\treturn q', f'\treturn inner{k}(p)',
				f'class D{k}(Base):', f'\t@{v}{call}', f'\tdef plain{k}(self, p: int) -> int:', '\t\treturn p',
				'\t@deco', f'\t@{v}{call}', f'\tdef {STEER_DEF_NAME}(self) -> None:', '\t\tpass'])
		emit(f'near-miss-decorator-{word}', blocks)
	# the word itself among other decorators, for comparison
	emit('decorator-positions', [[f'class P{k}:', *[f'\t@{d}' for d in decos], f"\tdef f{k}({'cls, ' if 'classmethod' in decos else ''}p: int) -> int:", '\t\treturn p']
		for k, decos in enumerate([['classmethod'], ['deco', 'classmethod'], ['classmethod', 'pkg.wrap(1)'], ['a.b', 'classmethod', 'override'], ['staticmethod'], ['deco', 'staticmethod']])])
	# class bases: Enum at every position of 1..3 bases, beside plain / dotted / generic bases; near misses alone and beside others; nested classes
	others = ['str', 'Mixin', 'mod.Base', 'Box[int]']
	blocks = []
	k = 0
	for n in (1, 2, 3):
		for pos in range(n):
			bases = [others[(pos + j) % len(others)] for j in range(n)]
			bases[pos] = STEER_BASE
			blocks.append([f'class E{k}({", ".join(bases)}):', '\tA = 1', '\tB = 2'])
			k += 1
	for v in near_misses(STEER_BASE, dotted=True) + [f'Box[{STEER_BASE}]']:
		blocks.append([f'class E{k}({v}):', '\tA = 1', f'class E{k}b(str, {v}):', '\tA = 1', f'class E{k}c({v}, Mixin):', '\tA = 1'])
		k += 1
	blocks.append(['class Holder:', f'\tclass Inner(int, {STEER_BASE}):', '\t\tA = 1', '\tclass Other(int):', '\t\tA = 1',
		'def make() -> None:', f'\tclass Local(Mixin, {STEER_BASE}):', '\t\tA = 1', '\tclass Plain(Mixin):', '\t\tA = 1'])
	emit('class-bases', blocks)
	# def names: near misses of __init__ as methods, the word itself as constructor, both at module level and as closures
	emit('near-miss-def-name-method', [[f'\tdef {v}(self, p: int) -> None:', '\t\tself.p = p'] for v in near_misses(STEER_DEF_NAME)],
		head=['class N(Base):', f'\tdef {STEER_DEF_NAME}(self, p: int) -> None:', '\t\tself.p = p'])
	emit('near-miss-def-name-function', [[f'def {v}(p: int) -> None:', f'\tdef {v}(q: int) -> None:', '\t\tpass'] for v in [STEER_DEF_NAME, *near_misses(STEER_DEF_NAME)]])
	# first parameters: near misses of self on class functions (each also is the known divergence classify:method-without-self-name), on closures and module-level defs
	emit('near-miss-first-param', [[f'\tdef m{k}({v}, p: int) -> int:', f'\t\tdef c{k}({v}: int) -> int:', f'\t\t\treturn {v}', f'\t\treturn c{k}(p)']
		for k, v in enumerate(near_misses(STEER_FIRST_PARAM))], head=['class S(Base):', f'\tdef m({STEER_FIRST_PARAM}, p: int) -> int:', '\t\treturn p'])
	emit('near-miss-first-param-function', [[f'def g{k}({v}: int) -> int:', f'\treturn {v}'] for k, v in enumerate(near_misses(STEER_FIRST_PARAM))])
	# references: self / cls and their near misses as operands, receivers, arguments and attribute-assignment receivers, in a method, a class method and at module level
	for word in (STEER_THIS, STEER_CLS):
		body = [[f't{k} = {v}', f'u{k} = {v}.attr + other.{v}', f'w{k} = f({v}, key={v})[{v}]', f'{v}.a.b = [{v}, {word}]'] for k, v in enumerate([word, *near_misses(word)])]
		emit(f'near-miss-reference-{word}-method', [['\t\t' + ln for ln in b] for b in body], head=['class R(Base):', f'\tdef m({STEER_THIS}, p: int) -> None:'])
		emit(f'near-miss-reference-{word}-classmethod', [['\t\t' + ln for ln in b] for b in body], head=['class R(Base):', '\t@classmethod', f'\tdef c({STEER_CLS}, p: int) -> None:'])
		emit(f'near-miss-reference-{word}-module', body)
	# generic types: list / dict and their near misses (plain and dotted) with one and two arguments, as annotations, parameters, return types and bases
	blocks = []
	k = 0
	for word in (STEER_LIST, STEER_DICT):
		for v in [word, *near_misses(word, dotted=True)]:
			blocks.append([f'a{k}: {v}[int] = x', f'b{k}: {v}[str, {v}[int]] = x', f'def f{k}(p: {v}[int], q: Box[{v}[str, int]] = 1) -> {v}[str, int]:', '\tpass', f'class G{k}({v}[int], Base):', '\tpass'])
			k += 1
	blocks.append(['c1: Callable[[int], str] = x', 'c2: Callable[..., str] = x', 'c3: list[int] | None = x', 'c4: Handler[[list[int], dict[str, int]], list[int]] = x', 'c5: Pair[int, str] = x'])
	emit('near-miss-generic-type', blocks)
	# super: the word and its near misses as callee, with and without arguments, bare and as receiver of a method call
	emit('near-miss-super', [[f'\t\t{v}().{STEER_DEF_NAME}(p)', f'\t\tt{k} = {v}(U, self).make(p, key={v}())', f'\t\tu{k} = {v}(p)'] for k, v in enumerate([STEER_SUPER, *near_misses(STEER_SUPER, dotted=True)])],
		head=['class U(Base):', f'\tdef {STEER_DEF_NAME}(self, p: int) -> None:'])
	return progs


def non_steering_programs() -> list[tuple[str, str]]:
	"""(name, source): the steering words at places where they must NOT steer — a later parameter, a `*` / `**` parameter, a default
	value, an annotation, a decorator argument, an attribute name, an argument label, a type argument, a name bound in a class body
	— so that a test that looks at any element instead of the steering one shows. One small program per construct (a construct
	grammar.lark does not have only drops its own program)."""
	S, C, I, E, SUP, L, D = STEER_THIS, STEER_CLS, STEER_DEF_NAME, STEER_BASE, STEER_SUPER, STEER_LIST, STEER_DICT
	cm, sm = STEER_DECORATORS
	progs: list[tuple[str, str]] = []

	def add(name: str, lines: list[str]) -> None:
		progs.append((f'non-steering-{name}', '\n'.join(lines) + '\n'))

	# self / cls elsewhere in the parameter list of class functions, closures and module-level functions
	for k, params in enumerate([f'x: int, {S}: int', f'x: int, y: int, {S}: int = 1', f'x: int, *{S}: int', f'x: int, **{S}: int', f'x: int, *a: int, **{S}: int',
			f'x: int, y: int = {S}', f'x: {S}, y: {C}', f'x: int, {C}: int', f'x: Box[{S}], y: int = {S}.{S}', f'x, {S}', f'x, *{S}']):
		add(f'param-{k}', ['class Q(Base):', '\t@' + sm, f'\tdef s({params}) -> int:', '\t\treturn x',
			f'\tdef u({params}) -> int:', '\t\treturn x', '\t@' + cm, f'\tdef c({C}, {params}) -> int:', '\t\treturn x',
			f'\tdef m({S}, {params.replace(S + ":", "z:").replace("*" + S, "*z").replace(", " + S, ", z")}) -> int:', f'\t\tdef inner({params}) -> int:', '\t\t\treturn x', '\t\treturn x',
			f'def f({params}) -> int:', f'\tdef g({params}) -> int:', '\t\treturn x', '\treturn x'])
	# the other words as parameter names, defaults, annotations and return types
	add('param-words', ['class Q(Base):', f'\tdef {I}({S}, {I}: int, {cm}: int = 1, {E}: {E} = {E}) -> None:', f'\t\t{S}.{I} = {I}',
		f'\tdef m({S}, {SUP}: int, {L}: {L}, {D}: {D} = {D}) -> {E}:', f'\t\treturn {SUP}', f'def f({cm}: int, {sm}: int, {I}: int) -> {cm}:', f'\treturn {I}'])
	# classmethod / staticmethod as decorator ARGUMENTS, as attribute parts and as plain names
	for k, deco in enumerate([f'deco({cm})', f'deco(key={cm})', f'pkg.wrap({sm}, 1)', f'deco({cm}, {sm})', f'deco([{cm}])', f'deco({cm}.x)', f'deco(x.{cm})']):
		add(f'decorator-argument-{k}', [f'@{deco}', 'def top(p: int) -> int:', f'\t@{deco}', '\tdef inner(q: int) -> int:', '\t\treturn q', f'\treturn {cm}(inner)',
			'class D(Base):', f'\t@{deco}', f'\tdef plain({S}, p: int) -> int:', f'\t\treturn {cm}', f'\t@{deco}', f'\tdef {I}({S}) -> None:', '\t\tpass',
			f'\t@{deco}', f'\tdef helper(p: int) -> int:', '\t\treturn p'])
	# Enum anywhere but among the bases: type argument of a base, decorator, class name, names bound in / used by the body
	add('enum-elsewhere', [f'class K0(Box[{E}]):', '\tA = 1', f'class K1(Mixin, Box[int, {E}]):', '\tA = 1', f'@{E}', 'class K2(Mixin):', '\tA = 1', f'@deco({E})', 'class K3(Mixin):', '\tA = 1',
		'class K4(Mixin):', f'\t{E} = 1', f'\tB: {E} = {E}', f'\tdef m({S}, {E}: int) -> {E}:', f'\t\treturn {E}', f'class {E}(Mixin):', '\tA = 1',
		'class K5(Mixin):', f'\tclass {E}(Base):', '\t\tA = 1', f'\tclass Inner({E}, Base):', '\t\tA = 1', f'class K6(mod.{E}, {E}.sub):', '\tA = 1'])
	# super / list / dict / self / cls as arguments, labels, attribute names, type arguments, plain annotations
	add('call-words', [f't0 = f({SUP})', f't1 = a.{SUP}()', f't2 = f({SUP}={SUP}())', f't3 = {SUP}.{SUP}({SUP})', f't4 = f({S}=1, {C}=2, {I}=3)', f't5 = a.{S} + a.{C} + a.{I}.{E}',
		f't6 = f()({SUP})', f't7 = ({SUP}())({SUP})', f't8 = {L}({D}({SUP}()))', f't9 = [{S}, {C}][{L}]'])
	add('type-words', [f'a0: Box[{L}] = x', f'a1: Box[{L}, {D}] = x', f'a2: Callable[[{L}], {D}] = x', f'a3: {L} = x', f'a4: {D} | {L} | None = x', f'a5: pkg.{L}[int] = x',
		f'a6: {L}[{D}[str, {L}[int]]] = x', f'a7: Box[{L}[int], {D}[str, int]] = x', f'def f(p: {L}, q: Box[{D}]) -> {L}:', '\tpass', f'class G({L}, Box[{D}]):', '\tpass'])
	return progs


def wide_programs() -> list[tuple[str, str]]:
	"""(name, source): mechanically generated programs with MORE THAN A HUNDRED (one of them more than a thousand) siblings of one kind
	— statements of a module / block / class body, parameters, arguments, elements, bases, decorators, clauses, operands — so that
	sibling indexes of three and four digits occur in the paths every path-pattern matcher and every indexed child lookup works
	with. The kinds and roles of all nodes are compared as everywhere else."""
	n = 104
	S, I, E = STEER_THIS, STEER_DEF_NAME, STEER_BASE
	progs: list[tuple[str, str]] = []

	def add(name: str, lines: list[str]) -> None:
		progs.append((f'wide-{name}', '\n'.join(lines) + '\n'))

	add('module-assignments-1005', [f'v{k} = {k}' if k % 7 else f'w{k}: int = v{k - 1 if k else 0}' for k in range(1005)])
	add('module-defs-and-classes', [ln for k in range(n) for ln in (f'def f{k}(p{k}: int) -> int:', f'\tq{k} = p{k}', f'\treturn q{k}')]
		+ [ln for k in range(n) for ln in (f'class C{k}(Mixin, {E}):' if k % 2 else f'class C{k}(Base):', f'\tA{k} = {k}')] + [f'r{k} = f{k}(C{k})' for k in range(n)])
	add('class-body', ['class Wide(Base):', *[f'\tcv{k}: ClassVar[int] = {k}' for k in range(n)], *[f'\tfw{k}: int' for k in range(n)],
		f'\tdef {I}({S}) -> None:', *[f'\t\t{S}.m{k}: int = {k}' if k % 2 else f'\t\t{S}.m{k} = {k}' for k in range(n)],
		*[ln for k in range(n) for ln in (('\t@classmethod', f'\tdef g{k}(cls) -> int:') if k % 3 == 0 else ('\t@staticmethod', f'\tdef g{k}(p: int) -> int:') if k % 3 == 1 else (f'\tdef g{k}({S}) -> int:',)) + (f'\t\treturn {k}',)]])
	add('function-body', ['def body(p: int) -> int:', *[f'\tt{k} = p' for k in range(n)], *[f'\tu{k}: int = t{k}' for k in range(n)], *[f'\tt{k} += u{k}' for k in range(n)],
		*[ln for k in range(n) for ln in (f'\tdef c{k}(q: int) -> int:', f'\t\treturn q')], *[ln for k in range(n) for ln in (f'\tif t{k}:', f'\t\tz{k} = {k}')], '\treturn p'])
	add('parameters-arguments', ['class P(Base):', f"\tdef m({S}, {', '.join(f'p{k}: int' for k in range(n))}, {', '.join(f'd{k}: int = {k}' for k in range(n))}) -> int:",
		f"\t\treturn f({', '.join(f'p{k}' for k in range(n))}, {', '.join(f'k{k}=d{k}' for k in range(n))})",
		f"def g({', '.join(f'p{k}' for k in range(n))}) -> int:", f"\treturn h({', '.join(f'p{k}' for k in range(n))})"])
	add('displays', [f"xs = [{', '.join(f'a{k}' for k in range(n))}]", f"ts = ({', '.join(f'a{k}' for k in range(n))})", f"ds = {{{', '.join(f'a{k}: b{k}' for k in range(n))}}}",
		f"ys = m[{', '.join(f'a{k}' for k in range(n))}]", f"{', '.join(f't{k}' for k in range(n))} = xs", f"for {', '.join(f'i{k}' for k in range(n))} in xs:", '\tpass',
		f"zs = [{', '.join(f'lambda q{k}: q{k}' for k in range(n))}]", f"del {', '.join(f'a{k}' for k in range(n))}"])
	add('operands', [f"s = {' + '.join(f'a{k}' for k in range(n))}", f"b = {' and '.join(f'a{k}' for k in range(n))}", f"o = {' or '.join(f'a{k}' for k in range(n))}",
		f"c = {' < '.join(f'a{k}' for k in range(n))}", f"m = {' * '.join(f'a{k}' for k in range(n))}", f"x = {' | '.join(f'a{k}' for k in range(n))}",
		f"u: {' | '.join(f'T{k}' for k in range(n))} = s", f"g: Box[{', '.join(f'T{k}' for k in range(n))}] = s", f"ch = a{''.join(f'.b{k}' for k in range(n))}", f"ca = f{''.join(f'(a{k})' for k in range(n))}"])
	add('bases-decorators', [*[f'@deco{k}' for k in range(n)], f"class B({', '.join(f'M{k}' for k in range(n))}, {E}):", '\tA = 1',
		'class D(Base):', *[f'\t@deco{k}({k})' for k in range(n)], '\t@classmethod', '\tdef c(cls) -> None:', '\t\tpass', *[f'\t@deco{k}' for k in range(n)], f'\tdef m({S}) -> None:', '\t\tpass'])
	add('clauses', ['def cl(p: int) -> int:', '\tif a0:', '\t\tx0 = 0', *[ln for k in range(1, n) for ln in (f'\telif a{k}:', f'\t\tx{k} = {k}')], '\telse:', '\t\tpass', '\t\tpass',
		'\ttry:', '\t\tpass', *[ln for k in range(n) for ln in (f'\texcept E{k} as e{k}:', f'\t\ty{k} = e{k}')],
		f"\twith {', '.join(f'o{k}() as w{k}' for k in range(n))}:", '\t\tpass', '\treturn p', f"from pkg.sub import {', '.join(f'n{k} as m{k}' if k % 2 else f'n{k}' for k in range(n))}"][::-1][:1]
		+ ['def cl(p: int) -> int:', '\tif a0:', '\t\tx0 = 0', *[ln for k in range(1, n) for ln in (f'\telif a{k}:', f'\t\tx{k} = {k}')], '\telse:', '\t\tpass', '\t\tpass',
		'\ttry:', '\t\tpass', *[ln for k in range(n) for ln in (f'\texcept E{k} as e{k}:', f'\t\ty{k} = e{k}')],
		f"\twith {', '.join(f'o{k}() as w{k}' for k in range(n))}:", '\t\tpass', '\treturn p'])
	return progs


class Gen:
	"""Random programs of the common language, as source text. Structure is random; layout (tabs/spaces, blank lines, redundant
	parentheses, line breaks inside brackets, comment lines) is random too. `conventional=True` keeps to the coding
	conventions under which tranp's name-based classification is Python's (Props/C02.lean `Conventional`)."""

	def __init__(self, rng: random.Random, size: int, rich: bool = True) -> None:
		self.rng = rng
		self.size = size
		self.rich = rich
		self.indent_unit = rng.choice(['\t', '\t', '    ', '  '])
		self.p_paren = rng.choice([0.0, 0.05, 0.2])
		self.n = 0

	# -- names
	def fresh(self, base: str = 'v') -> str:
		self.n += 1
		return f'{base}{self.n}'

	def name(self) -> str:
		return self.rng.choice(['a', 'b', 'c', 'n', 'xs', 'item', 'value', 'data', 'inx', 'nota', 'result', 'selfish', 'cls_', 'A', 'B'])

	# -- expressions
	def expr(self, d: int) -> str:
		s = self._expr(d)
		if self.rng.random() < self.p_paren:
			s = f'({s})'
		return s

	def atom(self) -> str:
		r = self.rng.random()
		if r < 0.5:
			return self.name()
		if r < 0.65:
			return str(self.rng.choice([0, 1, 2, 10, 255, 1000]))
		if r < 0.72:
			if self.rng.random() < 0.02:
				return self.rng.choice(['0o17', '0b101', '2j'])  # known finding raise:UnresolvedNode:number
			# every lexical class of number: plain / underscored ints, hex, floats with and without a dot, with exponents
			return self.rng.choice(['1.5', '0.5', '2.0', '1e3', '0x1F', '0xff', '1e5', '2E-3', '7e+2', '1_0e2', '1.', '.5', '1_000', '0e0', '0XAB', '0x_ff', '10', '007'[2:], '1.5e-3', '6.02E23', '0.', '1_0.0_1'])
		if r < 0.84:
			return self.rng.choice(["'s'", '"t"', "''", "'a.b'", '"x y"', "'it\\'s'", '"q\\n"'])
		return self.rng.choice(['True', 'False', 'None'])

	def _expr(self, d: int) -> str:
		rng = self.rng
		if d <= 0 or rng.random() < 0.22:
			return self.atom()
		r = rng.random()
		if r < 0.34:
			lv = rng.randrange(len(GEN_LEVELS))
			kind, ops = GEN_LEVELS[lv]
			op = rng.choice(ops)
			if kind == 'pre':
				return f'{op} {self.operand(d - 1, lv)}' if op == 'not' else f'{op}{self.operand(d - 1, lv)}'
			k = rng.choice([2, 2, 2, 3, 4]) if lv in (0, 1, 3, 8, 9) else 2
			parts = [self.operand(d - 1, lv)]
			for _ in range(k - 1):
				o = rng.choice(ops)
				rhs = self.operand(d - 1, lv + 1)
				parts.append(f' {o} {rhs}')
			return ''.join(parts)
		if r < 0.42:
			return f'{self.operand(d - 1, 1)} if {self.operand(d - 1, 1)} else {self.expr_noparen_ternary(d - 1)}'
		if r < 0.56:
			return self.call(d)
		if r < 0.73:
			return self.chainable(d)
		if r < 0.79:
			return '[' + self.items(d - 1, star=True) + ']'
		if r < 0.84:
			k = rng.choice([0, 1, 2, 3])
			if k == 0:
				return '()'
			if k == 1:
				return f'({self.expr(d - 1)},)'
			return '(' + ', '.join(self.expr(d - 1) for _ in range(k)) + ')'
		if r < 0.89:
			k = rng.randint(0, 3)
			return '{' + ', '.join(f'{self.expr(d - 1)}: {self.expr(d - 1)}' for _ in range(k)) + '}'
		if r < 0.93 and self.rich:
			ps = ', '.join(self.fresh('p') for _ in range(rng.randint(0, 2)))
			return f"lambda{' ' + ps if ps else ''}: {self.expr(d - 1)}"
		if r < 0.97 and self.rich:
			return self.comprehension(d - 1)
		return '...' if rng.random() < 0.3 else self.atom()

	def expr_noparen_ternary(self, d: int) -> str:
		return self.expr(d)

	def operand(self, d: int, min_level: int) -> str:
		"""an operand that needs no parentheses at `min_level`: primary-ish things, or a parenthesised expression"""
		rng = self.rng
		r = rng.random()
		if d <= 0 or r < 0.45:
			return self.primary(d)
		if r < 0.75:
			# an operator expression of a tighter level, bare
			lvs = [lv for lv in range(len(GEN_LEVELS)) if lv >= min_level]
			if lvs:
				lv = rng.choice(lvs)
				kind, ops = GEN_LEVELS[lv]
				op = rng.choice(ops)
				if kind == 'pre':
					return f'{op} {self.operand(d - 1, lv)}' if op == 'not' else f'{op}{self.operand(d - 1, lv)}'
				return f'{self.operand(d - 1, lv)} {op} {self.operand(d - 1, lv + 1)}'
		return f'({self._expr(d)})'

	def primary(self, d: int) -> str:
		rng = self.rng
		r = rng.random()
		if d <= 0 or r < 0.5:
			return self.atom()
		if r < 0.9:
			return self.chainable(d)
		return f'({self._expr(d)})'

	def chainable(self, d: int) -> str:
		"""name / call / attribute / subscript chains, also on literal and parenthesised receivers"""
		rng = self.rng
		r = rng.random()
		if d <= 0 or r < 0.3:
			return self.name()
		if r < 0.55:
			return self.call(d)
		if r < 0.78:
			base = self.chainable(d - 1) if rng.random() < 0.7 else rng.choice([f'({self._expr(d - 1)})', "'s'", '[]', self.name()])
			return f'{base}.{self.name()}'
		base = self.chainable(d - 1) if rng.random() < 0.75 else rng.choice([f'({self._expr(d - 1)})', "'s'", '[a, b]', '{a: b}', '(a, b)', '"t"'])
		return f'{base}[{self.slices(d - 1)}]'

	def primary_base(self, d: int) -> str:
		return self.chainable(d)

	def call(self, d: int) -> str:
		rng = self.rng
		f = self.primary_base(d - 1) if rng.random() < 0.6 else self.name()
		args = [self.expr(d - 1) for _ in range(rng.choice([0, 1, 1, 2, 3]))]
		args += [f'{self.rng.choice(["key", "sep", "n", "default"])}={self.expr(d - 1)}' for _ in range(rng.choice([0, 0, 1, 2]))]
		rng.shuffle(args) if False else None
		if rng.random() < 0.15:
			args.append(f'*{self.operand(d - 1, 4)}')
		if rng.random() < 0.12:
			args.append(f'**{self.operand(d - 1, 4)}')
		return f"{f}({', '.join(args)})"

	def key_expr(self, d: int) -> str:
		"""a subscript key; parenthesised tuples included (compared modulo CPython's identification of `a[(1, 2)]` and `a[1, 2]`)"""
		return self.expr(d)

	def slices(self, d: int) -> str:
		rng = self.rng
		r = rng.random()
		if r < 0.5:
			return self.key_expr(d)
		if r < 0.65:
			return ', '.join(self.expr(d) for _ in range(rng.choice([2, 3])))
		lo = self.expr(d) if rng.random() < 0.6 else ''
		hi = self.expr(d) if rng.random() < 0.6 else ''
		s = f'{lo}:{hi}'
		if rng.random() < 0.3:
			s += f':{self.expr(d)}' if rng.random() < 0.8 else ':'
		return s if s != '::' or True else s

	def items(self, d: int, star: bool = False) -> str:
		rng = self.rng
		k = rng.randint(0, 3)
		out = []
		for _ in range(k):
			out.append(('*' + self.operand(d, 4)) if star and rng.random() < 0.12 else self.expr(d))
		return ', '.join(out)

	def comprehension(self, d: int) -> str:
		rng = self.rng
		fors = []
		for _ in range(rng.choice([1, 1, 2])):
			names = ', '.join(self.fresh('i') for _ in range(rng.choice([1, 1, 2])))
			fors.append(f'for {names} in {self.operand(d, 1)}')
		cond = f' if {self.operand(d, 1)}' if rng.random() < 0.4 else ''
		if rng.random() < 0.7:
			return f"[{self.expr(d)} {' '.join(fors)}{cond}]"
		return '{' + f"{self.expr(d)}: {self.expr(d)} {' '.join(fors)}{cond}" + '}'

	# -- types
	def type_expr(self, d: int = 2) -> str:
		rng = self.rng
		r = rng.random()
		if d <= 0 or r < 0.45:
			return rng.choice(['int', 'str', 'float', 'bool', 'A', 'B', 'object'])
		if r < 0.55:
			return f'{rng.choice(["mod", "pkg.sub"])}.{rng.choice(["T", "Item"])}'
		if r < 0.65:
			return f'list[{self.type_expr(d - 1)}]'
		if r < 0.73:
			return f'dict[{self.type_expr(d - 1)}, {self.type_expr(d - 1)}]'
		if r < 0.8:
			return f'{rng.choice(["Box", "tuple", "Iterator"])}[{", ".join(self.type_expr(d - 1) for _ in range(rng.choice([1, 2])))}]'
		if r < 0.86:
			ps = ', '.join(self.type_expr(d - 1) for _ in range(rng.randint(0, 2)))
			return f'Callable[[{ps}], {self.type_expr(d - 1)}]' if rng.random() < 0.8 else f'Callable[..., {self.type_expr(d - 1)}]'
		if r < 0.94:
			return f'{self.type_expr(0)} | {self.type_expr(0)}' + (' | None' if rng.random() < 0.4 else '')
		return 'None'

	# -- statements
	def block(self, d: int, ctx: str, ind: int) -> list[str]:
		rng = self.rng
		n = rng.randint(1, 3 if d > 0 else 2)
		out: list[str] = []
		for _ in range(n):
			out.extend(self.stmt(d, ctx, ind))
		return out

	def line(self, ind: int, s: str) -> str:
		return self.indent_unit * ind + s

	def simple(self, ctx: str, ind: int) -> list[str]:
		rng = self.rng
		r = rng.random()
		d = rng.choice([1, 2, 2, 3])
		if r < 0.2:
			return [self.line(ind, self.expr(d))]
		if r < 0.42:
			targets = ', '.join(self.fresh('t') for _ in range(rng.choice([1, 1, 1, 2, 3])))
			value = self.expr(d) if rng.random() < 0.8 else ', '.join(self.expr(d - 1) for _ in range(2))
			if rng.random() < 0.03:
				targets += f' = {self.fresh("t")}'  # chained assignment (known finding group:chained-assignment)
			elif ',' in targets and rng.random() < 0.08:
				targets = targets.replace(', ', ', *', 1)  # starred target (known divergence canon:starred-target-star-dropped)
			elif rng.random() < 0.015:
				# a parenthesised / bracketed target list (known finding raise:MoveAssign.receivers:Errors.IllegalConvertion; rare: it aborts the comparison)
				targets = rng.choice(['({})', '[{}]']).format(targets)
			if rng.random() < 0.02 and ctx in ('func', 'method', 'loopfunc'):
				value = rng.choice(['yield', '(yield)'])  # known divergence canon:bare-yield-read-as-name
			return [self.line(ind, f'{targets} = {value}')]
		if r < 0.5:
			return [self.line(ind, f'{self.fresh("t")}: {self.type_expr()}' + (f' = {self.expr(d)}' if rng.random() < 0.7 else ''))]
		if r < 0.57:
			return [self.line(ind, f'{self.name()} {rng.choice(["+=", "-=", "*=", "/=", "%=", "&=", "|=", "^=", "<<=", ">>="])} {self.expr(d)}')]
		if r < 0.63:
			tgt = f'{self.name()}.{self.name()}' if rng.random() < 0.6 else f'{self.name()}[{self.key_expr(1)}]'
			return [self.line(ind, f'{tgt} = {self.expr(d)}')]
		if r < 0.7 and ctx in ('func', 'method', 'loopfunc'):
			return [self.line(ind, 'return' + (f' {self.expr(d)}' if rng.random() < 0.8 else ''))]
		if r < 0.75:
			return [self.line(ind, 'pass')]
		if r < 0.8:
			return [self.line(ind, f'assert {self.expr(d)}' + (f', {self.expr(1)}' if rng.random() < 0.4 else ''))]
		if r < 0.85:
			exc = rng.choice(['ValueError', 'E', 'errors.Bad'])
			call = f"{exc}({self.items(1)})" if rng.random() < 0.7 else exc
			return [self.line(ind, f'raise {call}' + (f' from {self.name()}' if rng.random() < 0.2 else ''))]
		if r < 0.89:
			return [self.line(ind, 'del ' + ', '.join(self.name() for _ in range(rng.choice([1, 2]))))]
		if r < 0.93 and ctx in ('loop', 'loopfunc'):
			return [self.line(ind, rng.choice(['break', 'continue']))]
		if r < 0.96 and ctx in ('func', 'method', 'loopfunc') and self.rich:
			return [self.line(ind, f'yield {self.expr(d)}')]
		return [self.line(ind, self.expr(d))]

	def stmt(self, d: int, ctx: str, ind: int) -> list[str]:
		rng = self.rng
		out: list[str] = []
		if rng.random() < 0.06:
			out.append('' if rng.random() < 0.5 else self.indent_unit * ind)  # blank line (possibly with trailing indentation)
		if rng.random() < 0.05:
			out.append(self.line(ind, f'# note {self.n}'))
		if d <= 0 or rng.random() < 0.55:
			return out + self.simple(ctx, ind)
		r = rng.random()
		inner = 'loopfunc' if ctx in ('func', 'method', 'loopfunc') else 'loop'
		if r < 0.25:
			out.append(self.line(ind, f'if {self.expr(2)}:'))
			out += self.block(d - 1, ctx, ind + 1)
			for _ in range(rng.choice([0, 0, 1, 2])):
				out.append(self.line(ind, f'elif {self.expr(2)}:'))
				out += self.block(d - 1, ctx, ind + 1)
			if rng.random() < 0.45:
				out.append(self.line(ind, 'else:'))
				body = self.block(d - 1, ctx, ind + 1)
				# `else:` holding exactly one `if` is indistinguishable from `elif` in CPython's ast: keep it distinguishable
				body.append(self.line(ind + 1, 'pass'))
				out += body
			return out
		if r < 0.37:
			out.append(self.line(ind, f'while {self.expr(2)}:'))
			return out + self.block(d - 1, inner, ind + 1)
		if r < 0.52:
			names = ', '.join(self.fresh('k') for _ in range(rng.choice([1, 1, 2])))
			it = self.expr(2) if rng.random() < 0.8 else f'{self.name()}, {self.name()}'
			out.append(self.line(ind, f'for {names} in {it}:'))
			return out + self.block(d - 1, inner, ind + 1)
		if r < 0.62:
			out.append(self.line(ind, 'try:'))
			out += self.block(d - 1, ctx, ind + 1)
			for _ in range(rng.choice([1, 1, 2])):
				out.append(self.line(ind, f'except {rng.choice(["ValueError", "E", "errors.Bad", "KeyError"])}' + (f' as {self.fresh("e")}' if rng.random() < 0.6 else '') + ':'))
				out += self.block(d - 1, ctx, ind + 1)
			return out
		if r < 0.7:
			def with_item() -> str:
				# calls, but also bare identifiers / attributes (`with lock:`) and other expressions
				r2 = rng.random()
				ce = self.call(2) if r2 < 0.5 else self.name() if r2 < 0.75 else f'{self.name()}.{self.name()}' if r2 < 0.9 else self.expr(1)
				return ce + (f' as {self.fresh("w")}' if rng.random() < 0.5 else '')
			items = ', '.join(with_item() for _ in range(rng.choice([1, 1, 2])))
			if rng.random() < 0.12:
				# CPython's parenthesised with-item list (known divergence canon:with-parenthesised-items)
				items = '(' + ', '.join(self.name() if rng.random() < 0.6 else self.call(1) for _ in range(rng.choice([2, 2, 3]))) + (',' if rng.random() < 0.2 else '') + ')'
			out.append(self.line(ind, f'with {items}:'))
			return out + self.block(d - 1, ctx, ind + 1)
		if r < 0.9:
			return out + self.funcdef(d - 1, ctx, ind)
		return out + self.classdef(d - 1, ind)

	def decorators(self, ind: int, first: str | None) -> list[str]:
		rng = self.rng
		out = []
		for _ in range(rng.choice([0, 0, 0, 1, 2])):
			dn = rng.choice(['deco', 'pkg.wrap', 'override', 'abstractmethod'])
			if rng.random() < 0.3:
				# a name that merely contains / extends / qualifies one of the words Python gives a meaning to
				dn = rng.choice(near_misses(rng.choice(STEER_DECORATORS), dotted=True))
			out.append(self.line(ind, f'@{dn}' + (f'({self.items(1)})' if rng.random() < 0.3 else '')))
		if first:
			# `@classmethod` / `@staticmethod` at any position of the decorator list
			out.insert(rng.randint(0, len(out)), self.line(ind, f'@{first}'))
		return out

	def params(self, first: str | None) -> str:
		rng = self.rng
		ps = [first] if first else []
		seen_default = False
		for _ in range(rng.choice([0, 1, 1, 2, 3])):
			p = self.fresh('p')
			if rng.random() < 0.8:
				p += f': {self.type_expr()}'
			if seen_default or rng.random() < 0.3:
				seen_default = True
				p += f' = {self.expr(1)}' if ':' in p else f'={self.expr(1)}'
			ps.append(p)
		if rng.random() < 0.15:
			ps.append(f'*{self.fresh("args")}' + (f': {self.type_expr(1)}' if rng.random() < 0.5 else ''))
		if rng.random() < 0.12:
			ps.append(f'**{self.fresh("kw")}' + (f': {self.type_expr(1)}' if rng.random() < 0.5 else ''))
		return ', '.join(ps)

	def funcdef(self, d: int, ctx: str, ind: int, in_class: bool = False, force: str | None = None) -> list[str]:
		rng = self.rng
		out: list[str] = []
		name = self.fresh('f')
		first: str | None = None
		deco_first: str | None = None
		if in_class:
			r = rng.random()
			if r < 0.15:
				deco_first, first = 'classmethod', 'cls'
				# a class method is one by its decorator, whatever its first parameter or its name is called
				r4 = rng.random()
				if r4 < 0.12:
					first = 'self'
				elif r4 < 0.2:
					name = '__init__'
				elif r4 < 0.25:
					name, first = '__init__', 'self'
			elif r < 0.25:
				deco_first = 'staticmethod'
			elif r < 0.4:
				name, first = '__init__', 'self'
			else:
				first = 'self'
			if force == 'static':
				# a static-style helper: decorated @staticmethod, or undecorated without `self` (then also classify:method-without-self-name)
				name, first = (name if name != '__init__' else self.fresh('f')), None
				deco_first = 'staticmethod' if rng.random() < 0.6 else None
			r2 = rng.random() if force is None else 1.0
			if r2 < 0.05 and deco_first is None and name != '__init__':
				first = rng.choice(['this', 'me', None, *near_misses(STEER_FIRST_PARAM)])  # known divergence classify:method-without-self-name
			elif r2 < 0.07 and deco_first == 'staticmethod':
				first = 'self'  # known divergence classify:staticmethod-taking-self
		else:
			# outside class bodies the names that used to steer the classification must not matter
			r = rng.random()
			if r < 0.08:
				first = 'self'
			elif r < 0.12:
				first = 'cls'
			if rng.random() < 0.04:
				name = '__init__'
			if rng.random() < 0.02:
				deco_first, first = 'classmethod', 'cls'  # known divergence classify:classmethod-outside-class
		if name != '__init__' and rng.random() < 0.05:
			name = rng.choice(near_misses(STEER_DEF_NAME))  # an ordinary name, inside and outside classes
		out += self.decorators(ind, deco_first)
		ret = 'None' if name == '__init__' else self.type_expr()
		out.append(self.line(ind, f'def {name}({self.params(first)}) -> {ret}:'))
		body: list[str] = []
		if rng.random() < 0.25:
			body.append(self.line(ind + 1, '"""doc %d"""' % self.n))
		if name == '__init__' and rng.random() < 0.8:
			for _ in range(rng.choice([1, 2, 3])):
				attr = self.fresh('m')
				r3 = rng.random()
				# what is assigned to: the attribute itself (a declaration), or something reached THROUGH self (not one)
				target = (f'self.{attr}' if r3 < 0.55 else f'self.{self.name()}.{attr}' if r3 < 0.67 else f'self.{self.name()}().{attr}' if r3 < 0.76
					else f'self.{self.name()}[{self.expr(1)}].{attr}' if r3 < 0.85 else f'self.{attr}, self.{self.fresh("m")}' if r3 < 0.92 else f'{self.name()}.self.{attr}')
				# an annotation on a target that is no declaration (`self.a.b: T = v`) is the known finding
				# raise:AnnoAssign.receiver:Errors.IllegalConvertion — generated, but rarely: it aborts the comparison of the program
				plain = r3 < 0.55
				ann = f': {self.type_expr(1)}' if ',' not in target and rng.random() < (0.4 if plain else 0.06) else ''
				body.append(self.line(ind + 1, f'{target}{ann} = {self.expr(1)}'))
			if rng.random() < 0.2:
				body.append(self.line(ind + 1, f'if {self.name()}:'))
				body.append(self.line(ind + 2, f'self.{self.fresh("m")} = {self.expr(1)}'))
			if rng.random() < 0.15:
				body.append(self.line(ind + 1, f'self.{self.fresh("m")} += {self.expr(1)}'))
			if rng.random() < 0.4:
				body.append(self.line(ind + 1, f'super().__init__({self.items(1)})'))
		if first == 'self' and name != '__init__' and rng.random() < 0.25:
			body.append(self.line(ind + 1, f'self.{self.fresh("m")} = {self.expr(1)}'))  # outside the constructor: a plain attribute assignment
		body += self.block(d, 'method' if in_class else 'func', ind + 1)
		if rng.random() < 0.12:
			# a class declared inside this function / method (function → class → def, class → method → class → def): the defs of its
			# body are class-level functions by Python's scoping however deep the class is nested
			body += self.classdef(max(d - 1, 0), ind + 1, local=True)
		if rng.random() < 0.04:
			# a triple-quoted string statement that is not first (known divergence canon:docstring-hoisted)
			prefix = self.indent_unit * (ind + 1)
			spots = [i for i in range(1, len(body)) if body[i].startswith(prefix) and not body[i][len(prefix):].startswith((' ', '\t', 'elif', 'else', 'except'))] + [len(body)]
			body.insert(rng.choice(spots), self.line(ind + 1, '"""late %d"""' % self.n))
		return out + body

	def classdef(self, d: int, ind: int, local: bool = False) -> list[str]:
		rng = self.rng
		out = self.decorators(ind, None)
		name = self.fresh('C')
		bases = [rng.choice(['A', 'B', 'mod.Base', 'Box[int]', 'Enum', 'object', 'str']) for _ in range(rng.choice([0, 0, 1, 1, 2, 3]))]
		if bases and rng.random() < 0.25:
			bases[rng.randrange(len(bases))] = 'Enum'  # at any position, beside any other bases
		if bases and rng.random() < 0.15:
			bases[rng.randrange(len(bases))] = rng.choice(near_misses(STEER_BASE, dotted=True) + ['Box[Enum]'])
		if rng.random() < 0.05:
			bases.append(f'metaclass={rng.choice(["Meta", "abc.ABCMeta"])}')  # known divergence canon:class-metaclass-dropped
		out.append(self.line(ind, f'class {name}' + (f"({', '.join(bases)})" if bases or rng.random() < 0.2 else '') + ':'))
		body: list[str] = []
		if rng.random() < 0.3:
			body.append(self.line(ind + 1, '"""class doc"""'))
		for _ in range(rng.choice([0, 1, 2])):
			r = rng.random()
			if r < 0.4:
				body.append(self.line(ind + 1, f'{self.fresh("cv")}: ClassVar[{self.type_expr(1)}] = {self.expr(1)}'))
			elif r < 0.7:
				body.append(self.line(ind + 1, f'{self.fresh("fw")}: {self.type_expr(1)}'))
			else:
				body.append(self.line(ind + 1, f'{self.fresh("K")} = {self.expr(1)}'))
		for _ in range(rng.choice([0, 1, 2, 3])):
			if rng.random() < 0.06:
				# a function of the class under an `if` of the class body (known divergence classify:class-function-under-block)
				body.append(self.line(ind + 1, f'if {self.name()}:'))
				body += self.funcdef(max(d - 1, 0), 'class', ind + 2, in_class=True)
			else:
				body += self.funcdef(max(d - 1, 0), 'class', ind + 1, in_class=True)
		if local and rng.random() < 0.7:
			body += self.funcdef(0, 'class', ind + 1, in_class=True, force='static')
		if rng.random() < 0.15 and d > 0:
			body += self.classdef(d - 1, ind + 1)
		if not body:
			body.append(self.line(ind + 1, 'pass'))
		return out + body

	def module(self) -> str:
		rng = self.rng
		out: list[str] = []
		for _ in range(rng.choice([0, 1, 2])):
			mod = rng.choice(['os', 'pkg.sub', 'a.b.c'])
			names = ', '.join(self.fresh('imp') + (f' as {self.fresh("al")}' if rng.random() < 0.3 else '') for _ in range(rng.choice([1, 2])))
			out.append(f'from {mod} import ' + (f'({names})' if rng.random() < 0.2 else names))
		for _ in range(self.size):
			out += self.stmt(self.rng.choice([1, 2, 2, 3]), 'module', 0)
		return '\n'.join(out) + '\n'


# ---------------------------------------------------------------------------------------------
# stream classify


def keyword_names_program(app: common.MemApp) -> list[str]:
	"""every keyword of the grammar as attribute name, call argument label, parameter and variable — wherever lark (the
	reference) accepts it there as a NAME"""
	lines = []
	for w in LEXER_FACTS['reserved']:
		for tpl in ('v = a.{w}', 'a.{w} = 1', 'f({w}=1)', 'g(a, {w}=b, *c)', 'x = b + {w}', 'def h({w}: int) -> None:\n\tpass'):
			line = tpl.format(w=w)
			try:
				with budget():
					app.entrypoint(line + '\n')
			except Exception:  # noqa: BLE001 - the keyword terminal is acceptable at that position: not a name there
				continue
			lines.append(line)
	return lines


def stream_classify(ctx: Ctx) -> Stream:
	from rogw.tranp.syntax.ast.finder import ASTFinder
	rng = ctx.sub_rng('classify')
	app = common.MemApp(ctx.tmpdir())
	n = ctx.scale(90, 1200)
	cases = []
	hist: Counter[str] = Counter()
	sources = [(c['source'], 'corpus') for c in load_corpus() if c.get('stream') == 'classify']
	for i in range(n):
		sources.append((Gen(rng, 2 + i % 4).module(), 'generated'))
	sources += [(s, 'special') for s in SPECIAL_PROGRAMS]
	sources += [(s, 'special-near-miss') for _, s in near_miss_programs() + non_steering_programs()]
	sources += [(s, 'special-wide') for _, s in wide_programs()]
	kw_items = keyword_names_program(app)
	for k in range(0, len(kw_items), 40):
		sources.append(('\n'.join(kw_items[k:k + 40]) + '\n', 'special-keywords'))
	deadline = Deadline(ctx, 60, 500)
	for src, kind in sources:
		if deadline.over() and kind == 'generated':
			hist['deadline-reached'] += 1
			continue
		try:
			with budget():
				ep = app.entrypoint(src)
		except Exception:  # noqa: BLE001 - outside the grammar: not a classification case
			hist['rejected-by-grammar'] += 1
			continue
		try:
			with budget(60.0):
				nodes = ep._Node__nodes
				root = real_parse(app, src)
				pf = ASTFinder().full_pathfy(root)
				if len(pf) > (12000 if kind == 'special-wide' else 1800):  # the mechanical wide programs are compared whole (the model reads them in < 1 s)
					hist['skipped-too-large'] += 1
					continue
				parts = []
				for p in pf.keys():
					try:
						cls = type(nodes.by(p)).__name__
					except CaseTimeout:
						raise
					except Exception as e:  # noqa: BLE001
						cls = exc_enum(e)
					hist[cls] += 1
					parts.append(f'{p}={cls}')
				case = ({'kind': kind, 'source': src, 'entries': len(pf)}, [f'tree\t{trees.entry_sexp(root)}', 'classes'], [f'ok {trees.entry_size(root)}', '|'.join(parts)])
		except Exception as e:  # noqa: BLE001 - the real side did not answer within its budget / could not be read: counted, reported in the histogram
			hist[f'real-side-failed:{type(e).__name__}'] += 1
			continue
		cases.append(case)
	st = correspond_batched('classify', cases, batch=40)
	st.histogram = dict(hist)
	st.note = ('generated nests of classes / functions / decorators / assignments / imports / calls / annotations plus hand-written programs that reach every '
		'multi-class tag; real = type(nodes.by(path)).__name__ for every path of full_pathfy, model = first-match over the generated resolver table')
	return st


def stream_call_args(ctx: Ctx) -> Stream:
	"""argument lists: tranp's `FuncCall.arguments` (label / unpacking of each Argument node) vs the model's `readArgs`"""
	rng = ctx.sub_rng('call-args')
	app = common.MemApp(ctx.tmpdir())
	cases = []
	hist: Counter[str] = Counter()
	for i in range(ctx.scale(150, 2500)):
		g = Gen(rng, 1)
		n_pos, n_kw = rng.choice([0, 1, 2, 3]), rng.choice([0, 0, 1, 2])
		parts = [g.expr(1) for _ in range(n_pos)] + [f'{rng.choice(["key", "sep", "n", "self", "lambda_", *[w for w in LEXER_FACTS["reserved"] if w not in ("lambda", "not", "True", "False", "None")]])}={g.expr(1)}' for _ in range(n_kw)]
		rng.shuffle(parts)  # grammar.lark lets named and plain arguments mix freely (CPython does not; irrelevant for this reading)
		if rng.random() < 0.3:
			parts.append(f'*{g.name()}')
		if rng.random() < 0.25:
			parts.append(f'**{g.name()}')
		src = f"{g.name()}({', '.join(parts)})\n"
		try:
			with budget():
				ep = app.entrypoint(src)
			call = ep.statements[0]
			real = 'ok ' + ','.join(('star' if a.unpacking == '*' else 'dstar' if a.unpacking == '**' else f'kw:{a.label.tokens}' if node_class(a.label) != 'Empty' else 'pos') for a in call.arguments)
			root = real_parse(app, src)
			args_entries = [c for c in root.children[0].children if not c.is_empty and c.name == 'arguments']
			sexp = trees.entry_sexp(args_entries[0]) if args_entries else '( arguments )'
		except Exception as e:  # noqa: BLE001
			hist[f'rejected:{exc_enum(e)}'] += 1
			continue
		hist[f'args={len(parts)}'] += 1
		cases.append(({'source': src}, [f'args\t{sexp}'], [real]))
	st = correspond_batched('call-args', cases, batch=1000)
	st.histogram = dict(hist)
	st.note = 'calls with 0–7 arguments (plain, named, `*`, `**`, shuffled plain/named); real = (unpacking, label) of each FuncCall.arguments node, model = readArgs of the `arguments` subtree'
	return st


SPECIAL_PROGRAMS = [
	# every multi-class tag, including the unconventional placements the counter-example theorems are about
	'''from typing import Callable, TypeAlias, TypeVar
from a.b import (c, d as e)
T = TypeVar('T')
Alias: TypeAlias = dict[str, int]
Mode: TypeAlias = Literal['r', 'w']
Row = TypedDict('Row', {'k': int, 'v': str})
flag: Literal[1] = 1
class Color(Enum):
	RED = 1
	BLUE = 0x2
class Base(Generic[T]):
	count: ClassVar[int] = 0
	names: ClassVar = ['a']
	fwd: list[int]
	other: Callable[[int, str], None]
	"""not a docstring position"""
	def __init__(self, n: int, cb: Callable[..., int] = f) -> None:
		"""ctor"""
		self.n: int = n
		self.m = 1.5
		selfish.x = 2
		self.a.b = 3
		n.q = self.n
		super().__init__()
	@classmethod
	def make(cls, *args: int, **kw: str) -> 'Base':
		return cls(*args, **kw)
	@classmethod
	def odd(self, x: float = 1e5) -> None:
		y = [2E-3, 7e+2, 1_0e2, 1., .5, 1_000, 0e0, 0XAB]
	@classmethod
	def __init__(cls) -> None:
		pass
	@deco
	@classmethod
	def late(cls) -> None:
		pass
	@staticmethod
	def st(x: int) -> int:
		def inner(self) -> int:
			return x
		return inner(x)
	def method(self, other: Base[int]) -> dict[str, list[int]]:
		def closure(y: float = 1.0) -> float:
			return y
		for i, j in pairs:
			with open(p) as fh, lock:
				try:
					z = fh.read(size=1, *rest)
				except OSError as err:
					raise Bad(err) from err
		cb = lambda a, b: a + b
		xs = [k for k in range(3) if k]
		ds = {k: v for k, v in items}
		cls = 1
		return {'a': xs}
	if flag:
		def conditional(self) -> None:
			pass
def __init__(x: int) -> None:
	pass
def top(self) -> None:
	self.v = 1
''',
	'''class A:
	def f(this) -> None:
		pass
	class Inner(A):
		def g(self) -> None:
			def h() -> None:
				class Deep:
					def m(self) -> None: pass
			return h
x: int = 0o17 if False else 1
''',
]


# ---------------------------------------------------------------------------------------------
# canon: one S-expression vocabulary for tranp nodes and CPython ast


class CanonError(Exception):
	pass


class NodeAccessError(Exception):
	def __init__(self, key: str, detail: str) -> None:
		super().__init__(key)
		self.key = key
		self.detail = detail


def sx(tag: str, *parts: Any) -> str:
	def one(p: Any) -> str:
		if isinstance(p, (list, tuple)):
			return '[' + ' '.join(one(q) for q in p) + ']'
		return 'None' if p is None else str(p)
	return '(' + ' '.join([tag, *[one(p) for p in parts]]) + ')'


def const_repr(v: Any) -> str:
	return f'{type(v).__name__}:{v!r}'


AUG_OPS = {ast.Add: '+=', ast.Sub: '-=', ast.Mult: '*=', ast.Div: '/=', ast.Mod: '%=', ast.BitAnd: '&=', ast.BitOr: '|=', ast.BitXor: '^=',
	ast.LShift: '<<=', ast.RShift: '>>=', ast.Pow: '**=', ast.FloorDiv: '//=', ast.MatMult: '@='}


# known divergences of tranp's reading from CPython's inside the property's quantifier. Each is RAISED as a finding under its own
# key whenever a generated (or corpus) program contains the construct; the CPython-side canon is then continued with tranp's
# reading of that one construct, so that every other difference in the same program is still reported separately.
MARK_WHAT = {
	'group:chained-assignment': 'a = b = c: MoveAssign.value is b, c is unreachable (CPython: targets [a, b], value c)',
	'canon:with-parenthesised-items': 'with (a, b): — CPython (3.9+) reads a parenthesised list of with-items, grammar.lark one item whose expression is the tuple (a, b)',
	'canon:docstring-hoisted': 'a triple-double-quoted string statement that is not the first statement of a def/class body is moved into `comment` (only the last one is kept) and removed from `statements`',
	'canon:bare-yield-read-as-name': 'x = yield / (yield): grammar.lark has no bare yield expression and does not reserve the word: it is read as a variable called yield (CPython: Yield)',
	'canon:class-metaclass-dropped': 'class A(B, metaclass=M): the metaclass argument is in the lark tree but no node property exposes it (CPython: keywords=[metaclass=M])',
	'canon:starred-target-star-dropped': 'a, *b = c: grammar.lark reads the `*` of a starred target but keeps no trace of it (`assign_namelist: expression ("," ["*"]? expression)*`): receivers [a, b]; CPython: [a, Starred(b)]',
	'classify:method-without-self-name': 'a function of a class body whose first parameter is not called self is classified Function (Python: instance method whatever the name)',
	'classify:staticmethod-taking-self': 'a @staticmethod whose first parameter is called self is classified Method (Python: plain function)',
	'classify:classmethod-outside-class': '@classmethod on a def that is not in a class body is classified ClassMethod (Python: a decorated function / closure)',
	'classify:super-by-callee-text': 'a call whose callee is itself an argument-less call of super (`super()()`, `(super())(x)`) is classified Super: Super.match_feature compares the callee\'s token text, which is `super` again (Python: an ordinary call of the proxy object)',
	'classify:class-function-under-block': 'a def nested in an if/try/with/loop block of a class body is classified Closure (Python: it is still a function of the class)',
}


class PyCanon:
	"""CPython side. Function kinds and declaration/reference roles are computed from Python's own scoping rules."""

	def __init__(self, src: str = '') -> None:
		self.src = src
		self.marks: dict[str, str] = {}

	def mark(self, key: str, node: ast.AST) -> None:
		self.marks.setdefault(key, f"line {getattr(node, 'lineno', '?')}: {MARK_WHAT[key]}")

	def module(self, m: ast.Module) -> str:
		return sx('Module', self.body(m.body, 'module'))

	def body(self, stmts: list[ast.stmt], scope: str, direct: bool = False, owner: ast.AST | None = None) -> list[str]:
		"""`direct`: the statements of a class body itself; `owner`: the def/class whose body this is (doc-string handling)"""
		if owner is not None:
			stmts = self.hoist_docstrings(stmts, owner)
		ctor = isinstance(owner, ast.FunctionDef) and owner.name == '__init__'
		return [self.stmt(s, scope, direct, ctor) for s in stmts]

	def is_docstring_stmt(self, s: ast.stmt) -> bool:
		if not (isinstance(s, ast.Expr) and isinstance(s.value, ast.Constant) and isinstance(s.value.value, str)):
			return False
		seg = ast.get_source_segment(self.src, s.value) or ''
		return seg.startswith('"""') and seg.endswith('"""') and len(seg) >= 6

	def hoist_docstrings(self, stmts: list[ast.stmt], owner: ast.AST) -> list[ast.stmt]:
		docs = [i for i, st in enumerate(stmts) if self.is_docstring_stmt(st)]
		if docs in ([], [0]):
			return stmts
		self.mark('canon:docstring-hoisted', stmts[docs[-1]])
		return [stmts[docs[-1]]] + [st for i, st in enumerate(stmts) if i not in docs]

	def with_is_parenthesised_list(self, s: ast.With) -> bool:
		"""`with ( item, item … [,] ) :` — the opening parenthesis after `with` closes right before the colon"""
		import io
		import tokenize
		lines = self.src.split('\n')[s.lineno - 1:]
		text = '\n'.join(lines)[s.col_offset:]
		try:
			toks = [t for t in tokenize.generate_tokens(io.StringIO(text).readline) if t.type not in (tokenize.NL, tokenize.NEWLINE, tokenize.COMMENT, tokenize.INDENT, tokenize.DEDENT)]
		except (tokenize.TokenError, IndentationError, SyntaxError):
			toks = []
			try:
				for t in tokenize.generate_tokens(io.StringIO(text).readline):
					if t.type not in (tokenize.NL, tokenize.NEWLINE, tokenize.COMMENT, tokenize.INDENT, tokenize.DEDENT):
						toks.append(t)
			except (tokenize.TokenError, IndentationError, SyntaxError):
				pass
		if len(toks) < 3 or toks[0].string != 'with' or toks[1].string != '(':
			return False
		depth = 0
		for i, t in enumerate(toks[1:], start=1):
			if t.string in '([{' and t.type == tokenize.OP:
				depth += 1
			elif t.string in ')]}' and t.type == tokenize.OP:
				depth -= 1
				if depth == 0:
					closes_before_colon = i + 1 < len(toks) and toks[i + 1].string == ':'
					trailing_comma = toks[i - 1].string == ','
					return closes_before_colon and (len(s.items) >= 2 or trailing_comma)
		return False

	def names_of_target(self, t: ast.expr, ctor: bool = False) -> list[str]:
		elts = t.elts if isinstance(t, ast.Tuple) else [t]
		if any(isinstance(e, ast.Starred) for e in elts):
			self.mark('canon:starred-target-star-dropped', t)
			elts = [e.value if isinstance(e, ast.Starred) else e for e in elts]
		out = [self.expr(e, store=True) for e in elts]
		# an instance variable is DECLARED by `self.<name> = …` / `self.<name>: T = …` written as a statement of the body of a
		# function called `__init__`, `self.<name>` being the (first) target: exactly `Attribute(Name('self'), name)` — not a
		# longer chain through self (`self.a.b`, `self.f().x`, `self.a[0].x`: those assign into another object)
		first = elts[0] if elts else None
		if ctor and isinstance(first, ast.Attribute) and isinstance(first.value, ast.Name) and first.value.id == 'self':
			out[0] = sx('AttrDecl', self.expr(first.value), first.attr)
		return out

	def stmt(self, s: ast.stmt, scope: str, direct: bool = False, ctor: bool = False) -> str:
		e = self.expr
		if isinstance(s, ast.Expr):
			return sx('Expr', e(s.value))
		if isinstance(s, ast.Assign):
			if len(s.targets) != 1:
				# tranp's reading: first target list, the second target as the value, the rest unreachable
				self.mark('group:chained-assignment', s)
				return sx('Assign', self.names_of_target(s.targets[0], ctor), e(s.targets[1]))
			return sx('Assign', self.names_of_target(s.targets[0], ctor), e(s.value))
		if isinstance(s, ast.AnnAssign):
			ann = s.annotation
			# grammar.lark's own forms `x: ClassVar = v` (class_var_assign → MoveAssign) and `x: ClassVar[T] = v`
			# (class_var_anno_assign → AnnoAssign of T): the ClassVar wrapper is syntax there, not a type
			# the ClassVar wrapper is carried by the receiver's class on the tranp side (DeclClassVar): role `classvar`
			if isinstance(ann, ast.Name) and ann.id == 'ClassVar' and s.value is not None and isinstance(s.target, ast.Name):
				return sx('Assign', [sx('Name', s.target.id, 'classvar')], e(s.value))
			if isinstance(ann, ast.Subscript) and isinstance(ann.value, ast.Name) and ann.value.id == 'ClassVar' and s.value is not None and isinstance(s.target, ast.Name):
				return sx('AnnAssign', sx('Name', s.target.id, 'classvar'), self.type(ann.slice), e(s.value))
			return sx('AnnAssign', self.names_of_target(s.target, ctor)[0], self.type(ann), e(s.value) if s.value else None)
		if isinstance(s, ast.AugAssign):
			return sx('AugAssign', e(s.target), AUG_OPS[type(s.op)], e(s.value))
		if isinstance(s, ast.Return):
			return sx('Return', e(s.value) if s.value else None)
		if isinstance(s, ast.Pass):
			return 'Pass'
		if isinstance(s, ast.Break):
			return 'Break'
		if isinstance(s, ast.Continue):
			return 'Continue'
		if isinstance(s, ast.Assert):
			return sx('Assert', e(s.test), e(s.msg) if s.msg else None)
		if isinstance(s, ast.Raise):
			return sx('Raise', e(s.exc) if s.exc else None, e(s.cause) if s.cause else None)
		if isinstance(s, ast.Delete):
			return sx('Delete', [e(t) for t in s.targets])
		if isinstance(s, ast.If):
			return self.if_chain(s, scope)
		if isinstance(s, ast.While):
			if s.orelse:
				raise CanonError('while-else')  # not in grammar.lark
			return sx('While', e(s.test), self.body(s.body, scope))
		if isinstance(s, ast.For):
			if s.orelse:
				raise CanonError('for-else')  # not in grammar.lark
			return sx('For', self.names_of_target(s.target), e(s.iter), self.body(s.body, scope))
		if isinstance(s, ast.Try):
			if s.orelse or s.finalbody:
				raise CanonError('try-else/finally')
			hs = [sx('Handler', self.type(h.type) if h.type else None, sx('Name', h.name, 'decl') if h.name else None, self.body(h.body, scope)) for h in s.handlers]
			return sx('Try', self.body(s.body, scope), hs)
		if isinstance(s, ast.With):
			if all(i.optional_vars is None for i in s.items) and self.with_is_parenthesised_list(s):
				self.mark('canon:with-parenthesised-items', s)
				items = [sx('Item', sx('Tuple', [e(i.context_expr) for i in s.items]), None)]
			else:
				items = [sx('Item', e(i.context_expr), e(i.optional_vars, store=True) if i.optional_vars else None) for i in s.items]
			return sx('With', items, self.body(s.body, scope))
		if isinstance(s, ast.FunctionDef):
			decos = [self.decorator(d) for d in s.decorator_list]
			deco_names = [ast.unparse(d.func if isinstance(d, ast.Call) else d) for d in s.decorator_list]
			cm, st, init = 'classmethod' in deco_names, 'staticmethod' in deco_names, s.name == '__init__'
			first = s.args.args[0].arg if s.args.args else None
			# the kind Python's scoping dictates (independent of tranp)
			if scope == 'class':
				kind = 'ClassMethod' if cm else 'Constructor' if init else 'Function' if st else 'Method'
			elif scope == 'function':
				kind = 'Closure'
			else:
				kind = 'Function'
			# the known divergences of the name-/path-based match_feature tests: raised, then continued with tranp's kind
			if cm and scope != 'class':
				self.mark('classify:classmethod-outside-class', s)
				kind = 'ClassMethod'
			elif scope == 'class' and not direct and not cm:
				self.mark('classify:class-function-under-block', s)
				kind = 'Closure'
			elif scope == 'class' and direct and not cm and not init:
				if not st and first != 'self':
					self.mark('classify:method-without-self-name', s)
					kind = 'Function'
				elif st and first == 'self':
					self.mark('classify:staticmethod-taking-self', s)
					kind = 'Method'
			return sx('Def', kind, s.name, decos, self.params(s.args), self.type(s.returns) if s.returns else None, self.body(s.body, 'function', owner=s))
		if isinstance(s, ast.ClassDef):
			if any(k.arg != 'metaclass' for k in s.keywords):
				raise CanonError('class keywords')  # only `metaclass=` is in grammar.lark
			if s.keywords:
				self.mark('canon:class-metaclass-dropped', s)
			# the kind of the class: an enumeration is a class that lists the bare name `Enum` among its bases, at any position and
			# next to any other bases (`class E(str, Enum)`); a longer or dotted name that merely contains the word is another class
			ckind = 'Enum' if any(isinstance(b, ast.Name) and b.id == 'Enum' for b in s.bases) else 'Class'
			return sx('Class', ckind, s.name, [self.decorator(d) for d in s.decorator_list], [self.type(b) for b in s.bases], self.body(s.body, 'class', direct=True, owner=s))
		if isinstance(s, ast.ImportFrom):
			return sx('Import', s.module, [sx('alias', a.name, a.asname) for a in s.names])
		raise CanonError(f'stmt {type(s).__name__}')

	def if_chain(self, s: ast.If, scope: str) -> str:
		elifs = []
		orelse = s.orelse
		# an `elif` is an `If` that is the only statement of `orelse` (the generator never writes `else:` around a lone `if`)
		while len(orelse) == 1 and isinstance(orelse[0], ast.If):
			elifs.append(sx('Elif', self.expr(orelse[0].test), self.body(orelse[0].body, scope)))
			orelse = orelse[0].orelse
		return sx('If', self.expr(s.test), self.body(s.body, scope), elifs, self.body(orelse, scope) if orelse else None)

	def decorator(self, d: ast.expr) -> str:
		if isinstance(d, ast.Call):
			return sx('Decorator', ast.unparse(d.func), self.args(d))
		return sx('Decorator', ast.unparse(d), [])

	def params(self, a: ast.arguments) -> list[str]:
		if a.posonlyargs or a.kwonlyargs:
			raise CanonError('posonly/kwonly')
		out = []
		defaults: list[Any] = [None] * (len(a.args) - len(a.defaults)) + list(a.defaults)
		for arg, dflt in zip(a.args, defaults):
			out.append(sx('P', '', arg.arg, self.type(arg.annotation) if arg.annotation else None, self.expr(dflt) if dflt is not None else None))
		if a.vararg:
			out.append(sx('P', '*', a.vararg.arg, self.type(a.vararg.annotation) if a.vararg.annotation else None, None))
		if a.kwarg:
			out.append(sx('P', '**', a.kwarg.arg, self.type(a.kwarg.annotation) if a.kwarg.annotation else None, None))
		return out

	def type(self, t: ast.expr) -> str:
		"""annotations / bases / except types: tranp reads them with its type grammar"""
		if isinstance(t, ast.Name):
			return sx('TName', t.id)
		if isinstance(t, ast.Attribute):
			return sx('TAttr', self.type(t.value), t.attr)
		if isinstance(t, ast.Constant) and t.value is None:
			return 'TNone'
		if isinstance(t, ast.Constant) and t.value is Ellipsis:
			return 'TEllipsis'
		if isinstance(t, ast.Constant) and isinstance(t.value, str):
			# a quoted annotation: tranp parses the quoted text as a type
			return self.type(ast.parse(t.value, mode='eval').body)
		if isinstance(t, ast.Subscript):
			subs = t.slice.elts if isinstance(t.slice, ast.Tuple) else [t.slice]
			# the kind of a generic type: `list[…]` / `dict[…]` by the bare name, a callable signature by its shape
			# (`X[[params] | ..., R]`), anything else a user type
			base = t.value.id if isinstance(t.value, ast.Name) else None
			is_sig = len(subs) == 2 and (isinstance(subs[0], ast.List) or (isinstance(subs[0], ast.Constant) and subs[0].value is Ellipsis))
			gkind = 'ListType' if base == STEER_LIST else 'DictType' if base == STEER_DICT else 'CallableType' if is_sig else 'CustomType'
			return sx('TGeneric', gkind, self.type(t.value), [self.type(x) for x in subs])
		if isinstance(t, ast.List):
			return sx('TList', [self.type(x) for x in t.elts])
		if isinstance(t, ast.BinOp) and isinstance(t.op, ast.BitOr):
			parts: list[ast.expr] = []
			cur: ast.expr = t
			while isinstance(cur, ast.BinOp) and isinstance(cur.op, ast.BitOr):
				parts.append(cur.right)
				cur = cur.left
			parts.append(cur)
			return sx('TUnion', [self.type(x) for x in reversed(parts)])
		raise CanonError(f'type {type(t).__name__}')

	def args(self, c: ast.Call) -> list[str]:
		out = []
		for a in c.args:
			out.append(sx('star', self.expr(a.value)) if isinstance(a, ast.Starred) else sx('pos', self.expr(a)))
		for k in c.keywords:
			out.append(sx('dstar', self.expr(k.value)) if k.arg is None else sx('kw', k.arg, self.expr(k.value)))
		return out

	def expr(self, n: ast.expr, store: bool = False) -> str:
		e = self.expr
		if isinstance(n, ast.Name):
			# `self` / `cls` are the instance / class reference wherever they stand (exactly these spellings); any other name is
			# bound (store position) or used
			role = 'this' if n.id == STEER_THIS else 'clsref' if n.id == STEER_CLS else 'decl' if store else 'ref'
			return sx('Name', n.id, role)
		if isinstance(n, ast.Constant):
			if n.value is Ellipsis:
				return 'Ellipsis'
			return sx('Const', const_repr(n.value))
		if isinstance(n, ast.Attribute):
			return sx('Attr', e(n.value), n.attr)
		if isinstance(n, ast.Call):
			# `super(…)`: a call whose callee is the bare name super
			ckind = 'Super' if isinstance(n.func, ast.Name) and n.func.id == STEER_SUPER else 'FuncCall'
			if ckind == 'FuncCall' and self.only_super(n.func):
				# `super()()`: the callee is itself a call; tranp goes by the callee's token text, which is `super` again
				self.mark('classify:super-by-callee-text', n)
				ckind = 'Super'
			return sx('Call', ckind, e(n.func), self.args(n))
		if isinstance(n, ast.Subscript):
			sl = n.slice
			if isinstance(sl, ast.Slice):
				keys = sx('Slice', e(sl.lower) if sl.lower else None, e(sl.upper) if sl.upper else None, e(sl.step) if sl.step else None)
			elif isinstance(sl, ast.Tuple):
				if any(isinstance(x, ast.Slice) for x in sl.elts):
					raise CanonError('slice in tuple index')
				keys = sx('Keys', [e(x) for x in sl.elts])
			else:
				keys = sx('Keys', [e(sl)])
			return sx('Index', e(n.value), keys)
		if isinstance(n, ast.UnaryOp):
			return sx('UnaryOp', PY_OPS[type(n.op)], e(n.operand))
		if isinstance(n, ast.BinOp):
			return sx('BinOp', PY_OPS[type(n.op)], e(n.left), e(n.right))
		if isinstance(n, ast.BoolOp):
			return sx('BoolOp', PY_OPS[type(n.op)], [e(v) for v in n.values])
		if isinstance(n, ast.Compare):
			return sx('Compare', e(n.left), [sx('cmp', PY_OPS[type(o)].replace(' ', '_'), e(c)) for o, c in zip(n.ops, n.comparators)])
		if isinstance(n, ast.IfExp):
			return sx('IfExp', e(n.test), e(n.body), e(n.orelse))
		if isinstance(n, ast.Lambda):
			a = n.args
			if a.defaults or a.vararg or a.kwarg or a.kwonlyargs or a.posonlyargs:
				raise CanonError('lambda params')
			return sx('Lambda', [x.arg for x in a.args], e(n.body))
		if isinstance(n, ast.List):
			return sx('List', [e(x, store) for x in n.elts])
		if isinstance(n, ast.Tuple):
			return sx('Tuple', [e(x, store) for x in n.elts])
		if isinstance(n, ast.Dict):
			return sx('Dict', [sx('dstar', e(v)) if k is None else sx('pair', e(k), e(v)) for k, v in zip(n.keys, n.values)])
		if isinstance(n, ast.Starred):
			return sx('Starred', e(n.value, store))
		if isinstance(n, ast.ListComp):
			return sx('ListComp', e(n.elt), *self.generators(n.generators))
		if isinstance(n, ast.DictComp):
			return sx('DictComp', sx('pair', e(n.key), e(n.value)), *self.generators(n.generators))
		if isinstance(n, ast.Yield):
			if n.value is None:
				self.mark('canon:bare-yield-read-as-name', n)
				return sx('Name', 'yield', 'ref')
			return sx('Yield', e(n.value))
		raise CanonError(f'expr {type(n).__name__}')

	def only_super(self, n: ast.expr) -> bool:
		"""an expression whose only token (brackets aside) is the word super: `super`, `super()`, `super()()` …"""
		if isinstance(n, ast.Name):
			return n.id == STEER_SUPER
		return isinstance(n, ast.Call) and not n.args and not n.keywords and self.only_super(n.func)

	def generators(self, gens: list[ast.comprehension]) -> tuple[list[str], str | None]:
		fors = []
		cond = None
		for i, g in enumerate(gens):
			if g.is_async:
				raise CanonError('async comprehension')
			if g.ifs and (i != len(gens) - 1 or len(g.ifs) != 1):
				raise CanonError('comprehension ifs')
			if g.ifs:
				cond = self.expr(g.ifs[0])
			fors.append(sx('for', self.names_of_target(g.target), self.expr(g.iter)))
		return fors, cond


DECL_CLASSES = {'DeclLocalVar', 'DeclThisVarForward', 'DeclParam', 'DeclClassParam', 'DeclThisParam', 'AltTypesName', 'TypesName', 'ImportName'}
REF_CLASSES = {'Var', 'ClassRef', 'ThisRef', 'ArgumentLabel'}
BIN_CLASSES = {'OrBitwise', 'XorBitwise', 'AndBitwise', 'ShiftBitwise', 'Sum', 'Term'}


def node_class(n: Any) -> str:
	t = type(n.__dict__['_w_node']) if isinstance(n, W) else type(n)
	# `dirty_child` / `dirty_proxify` wrap the node class in a local subclass called Proxy (node.py:476-500)
	while t.__name__ == 'Proxy':
		t = t.__bases__[0]
	return t.__name__


def access_key(node: Any, prop: str, e: BaseException) -> str:
	name = exc_enum(e)
	if name == 'Errors.UnresolvedNode' and len(e.args) >= 2 and isinstance(e.args[1], str):
		# no class accepts this tag at this position: keyed by the tag, wherever it occurs
		return f"UnresolvedNode:{e.args[1].split('.')[-1].split('[')[0]}"
	return f'{node_class(node)}.{prop}:{name}'


class W:
	"""A node seen through its properties: every property access / helper call that raises is reported with the class and
	property that raised (finding key), results are wrapped again."""

	def __init__(self, node: Any) -> None:
		self.__dict__['_w_node'] = node

	@staticmethod
	def wrap(v: Any) -> Any:
		from rogw.tranp.syntax.node.node import Node
		if isinstance(v, Node):
			return W(v)
		if isinstance(v, (list, tuple)):
			return [W.wrap(x) for x in v]
		return v

	def __getattr__(self, k: str) -> Any:
		node = self.__dict__['_w_node']
		try:
			v = getattr(node, k)
		except Exception as e:  # noqa: BLE001
			raise NodeAccessError(access_key(node, k, e), str(e)[:300]) from e
		if callable(v):
			def call(*a: Any) -> Any:
				try:
					return W.wrap(v(*a))
				except Exception as e:  # noqa: BLE001
					raise NodeAccessError(access_key(node, f'{k}()', e), str(e)[:300]) from e
			return call
		return W.wrap(v)


class TranpCanon:
	"""tranp side: class name + expandable properties of each node, mapped to the shared vocabulary."""

	def cls(self, n: Any) -> str:
		return node_class(n)

	def module(self, ep: Any) -> str:
		return sx('Module', self.body(W(ep).statements))

	def body(self, stmts: list[Any]) -> list[str]:
		return [self.stmt(s) for s in stmts if self.cls(s) != 'Comment']

	def def_body(self, n: Any) -> list[str]:
		# `comment` (the doc string) + `statements` (everything else), both expandable properties
		doc = [] if self.cls(n.comment) == 'Empty' else [sx('Expr', self.expr(n.comment))]
		return doc + self.body(n.statements)

	def opt(self, n: Any, f: Any) -> Any:
		return None if self.cls(n) == 'Empty' else f(n)

	def stmt(self, n: Any) -> str:
		c = self.cls(n)
		e = self.expr
		if c == 'MoveAssign':
			return sx('Assign', [e(r) for r in n.receivers], e(n.value))
		if c == 'AnnoAssign':
			return sx('AnnAssign', e(n.receiver), self.type(n.var_type), self.opt(n.value, e))
		if c == 'AugAssign':
			return sx('AugAssign', e(n.receiver), n.operator.tokens, e(n.value))
		if c == 'Return':
			return sx('Return', self.opt(n.return_value, e))
		if c == 'Yield':
			return sx('Expr', sx('Yield', e(n.yield_value)))
		if c == 'Pass':
			return 'Pass'
		if c == 'Break':
			return 'Break'
		if c == 'Continue':
			return 'Continue'
		if c == 'Assert':
			return sx('Assert', e(n.condition), self.opt(n.assert_body, e))
		if c == 'Throw':
			return sx('Raise', e(n.throws), self.opt(n.via, e))
		if c == 'Delete':
			return sx('Delete', [e(t) for t in n.targets])
		if c == 'If':
			elifs = [sx('Elif', e(x.condition), self.body(x.statements)) for x in n.else_ifs]
			return sx('If', e(n.condition), self.body(n.statements), elifs, self.opt(n.else_clause, lambda x: self.body(x.statements)))
		if c == 'While':
			return sx('While', e(n.condition), self.body(n.statements))
		if c == 'For':
			return sx('For', [e(s) for s in n.symbols], e(n.for_in.iterates), self.body(n.statements))
		if c == 'Try':
			hs = [sx('Handler', self.type(h.var_type), e(h.symbol) if h._exists('name') else None, self.body(h.statements)) for h in n.catches]
			return sx('Try', self.body(n.statements), hs)
		if c == 'With':
			return sx('With', [sx('Item', e(i.enter), self.opt(i.symbol, e)) for i in n.entries], self.body(n.statements))
		if c in ('Function', 'Method', 'ClassMethod', 'Constructor', 'Closure'):
			return sx('Def', c, n.symbol.tokens, [self.decorator(d) for d in n.decorators], [self.param(p) for p in n.parameters], self.type(n.return_type), self.def_body(n))
		if c in ('Class', 'Enum'):
			return sx('Class', c, n.symbol.tokens, [self.decorator(d) for d in n.decorators], [self.type(b) for b in n.inherits], self.def_body(n))
		if c == 'Import':
			return sx('Import', n.import_path.tokens, [sx('alias', s.entity_symbol.tokens, self.opt(s.alias, lambda a: a.tokens)) for s in n.symbols])
		# an expression statement
		return sx('Expr', e(n))

	def decorator(self, d: Any) -> str:
		return sx('Decorator', d.path.tokens, self.args(d.arguments))

	def param(self, p: Any) -> str:
		return sx('P', p.packing, p.symbol.tokens, self.opt(p.var_type, self.type), self.opt(p.default_value, self.expr))

	def args(self, arguments: list[Any]) -> list[str]:
		"""CPython's ast keeps positional/starred arguments and keyword/`**` arguments in two lists: the relative order of the
		two groups is not part of the ast, the order inside each group is"""
		xs = [self.arg(a) for a in arguments]
		return [x for x in xs if x.startswith(('(pos', '(star'))] + [x for x in xs if x.startswith(('(kw', '(dstar'))]

	def arg(self, a: Any) -> str:
		v = self.expr(a.value)
		if a.unpacking == '*':
			return sx('star', v)
		if a.unpacking == '**':
			return sx('dstar', v)
		if self.cls(a.label) != 'Empty':
			return sx('kw', a.label.tokens, v)
		return sx('pos', v)

	def type(self, t: Any) -> str:
		c = self.cls(t)
		if c == 'VarOfType':
			return sx('TName', t.tokens)
		if c == 'RelayOfType':
			return sx('TAttr', self.type(t.receiver), t.prop.tokens)
		if c == 'NullType':
			return 'TNone'
		if c in ('ListType', 'DictType', 'CustomType'):
			return sx('TGeneric', c, self.type(t.type_name), [self.type(x) for x in t.sub_types])
		if c == 'CallableType':
			slices = t._children('typed_slices')
			return sx('TGeneric', c, self.type(t.type_name), [self.type(x) for x in slices])
		if c == 'TypeParameters':
			return 'TEllipsis' if t.tag == 'typed_elipsis' else sx('TList', [self.type(x) for x in t.type_params])
		if c == 'UnionType':
			return sx('TUnion', [self.type(x) for x in t.or_types])
		raise CanonError(f'type node {c}')

	def chain(self, n: Any) -> tuple[list[str], list[str]]:
		els = n.elements
		operands = [self.expr(x) for x in els[0::2]]
		ops = [x.tokens for x in els[1::2]]
		return operands, ops

	def expr(self, n: Any) -> str:
		c = self.cls(n)
		e = self.expr
		if c == 'DeclClassVar':
			return sx('Name', n.tokens, 'classvar')
		if c in DECL_CLASSES:
			return sx('Name', n.tokens, 'decl')
		if c in REF_CLASSES:
			return sx('Name', n.tokens, {'ThisRef': 'this', 'ClassRef': 'clsref'}.get(c, 'ref'))
		if c in ('Integer', 'Float', 'String', 'DocString'):
			with warnings.catch_warnings():
				warnings.simplefilter('ignore')
				v = ast.literal_eval(n.tokens)
			# the KIND of the literal is what the node class says (Integer / Float / String), the value what its text says:
			# CPython's `1e5` is `float:100000.0`; an Integer node for it would read `int:100000.0`
			kind = {'Integer': 'int', 'Float': 'float', 'String': 'str', 'DocString': 'str'}[c]
			return sx('Const', f'{kind}:{v!r}')
		if c == 'Truthy':
			return sx('Const', const_repr(True))
		if c == 'Falsy':
			return sx('Const', const_repr(False))
		if c == 'Null':
			return sx('Const', const_repr(None))
		if c == 'Elipsis':
			return 'Ellipsis'
		if c in ('Relay', 'DeclThisVar'):
			if c == 'DeclThisVar':
				# the receiver/prop split of a declared instance variable is read off its two children
				return sx('AttrDecl', e(n._at(0)), n._at(1).tokens)
			return sx('Attr', e(n.receiver), n.prop.tokens)
		if c in ('FuncCall', 'Super'):
			return sx('Call', c, e(n.calls), self.args(n.arguments))
		if c == 'Indexer':
			if n.sliced:
				lo, hi, st = n.keys
				return sx('Index', e(n.receiver), sx('Slice', self.opt(lo, e), self.opt(hi, e), self.opt(st, e)))
			keys = n.keys
			if len(keys) == 1:
				# `a[(1, 2)]` and `a[1, 2]` are one and the same CPython ast (Subscript with a Tuple slice); tranp keeps the
				# parentheses apart (keys [Tuple] vs keys [1, 2]) — finer than the oracle, not a divergence: compared modulo that
				k = keys[0]
				while self.cls(k) == 'Group':
					k = k.expression
				if self.cls(k) == 'Tuple':
					return sx('Index', e(n.receiver), sx('Keys', [e(x) for x in k.values]))
			return sx('Index', e(n.receiver), sx('Keys', [e(k) for k in keys]))
		if c in ('Factor', 'NotCompare'):
			return sx('UnaryOp', n.operator.tokens, e(n.value))
		if c in BIN_CLASSES:
			operands, ops = self.chain(n)
			acc = operands[0]
			for o, r in zip(ops, operands[1:]):
				acc = sx('BinOp', o, acc, r)
			return acc
		if c in ('OrCompare', 'AndCompare'):
			operands, ops = self.chain(n)
			if len(set(ops)) != 1:
				raise CanonError('mixed boolean chain')
			return sx('BoolOp', ops[0], operands)
		if c == 'Comparison':
			operands, ops = self.chain(n)
			return sx('Compare', operands[0], [sx('cmp', o.replace('.', '_'), r) for o, r in zip(ops, operands[1:])])
		if c == 'TernaryOperator':
			return sx('IfExp', e(n.condition), e(n.primary), e(n.secondary))
		if c == 'Lambda':
			return sx('Lambda', [s.tokens for s in n.symbols], e(n.expression))
		if c == 'List':
			return sx('List', [e(x) for x in n.values])
		if c == 'Tuple':
			return sx('Tuple', [e(x) for x in n.values])
		if c == 'Dict':
			return sx('Dict', [sx('pair', e(i.first), e(i.second)) if self.cls(i) == 'Pair' else sx('dstar', e(i)) for i in n.items])
		if c == 'Spread':
			return sx('Starred', e(n.expression))
		if c == 'Group':
			return e(n.expression)
		if c in ('ListComp', 'DictComp'):
			proj = n.projection
			p = sx('pair', e(proj.first), e(proj.second)) if c == 'DictComp' else e(proj)
			fors = [sx('for', [e(s) for s in f.symbols], e(f.for_in.iterates)) for f in n.fors]
			return sx(c, p, fors, self.opt(n.condition, e))
		raise CanonError(f'expr node {c}')


def first_diff(a: str, b: str) -> str:
	i = 0
	while i < min(len(a), len(b)) and a[i] == b[i]:
		i += 1
	return f'@{i}: tranp …{a[max(0, i - 60):i + 80]}… vs cpython …{b[max(0, i - 60):i + 80]}…'


CANON_VOCAB = {'Module', 'Expr', 'Assign', 'AssignChain', 'AnnAssign', 'AugAssign', 'Return', 'Pass', 'Break', 'Continue', 'Assert', 'Raise', 'Delete', 'If', 'Elif',
	'While', 'For', 'Try', 'Handler', 'With', 'Item', 'Def', 'Class', 'Import', 'alias', 'Decorator', 'P', 'TName', 'TAttr', 'TNone', 'TEllipsis', 'TGeneric', 'TList',
	'TUnion', 'pos', 'kw', 'star', 'dstar', 'Name', 'Const', 'Attr', 'Call', 'Index', 'Slice', 'Keys', 'UnaryOp', 'BinOp', 'BoolOp', 'Compare', 'cmp', 'IfExp',
	'AttrDecl', 'Lambda', 'List', 'Tuple', 'Dict', 'pair', 'Starred', 'ListComp', 'DictComp', 'for', 'Yield', 'Ellipsis', 'None', 'decl', 'ref', 'classvar',
	'Function', 'Method', 'ClassMethod', 'Constructor', 'Closure', 'Enum', 'this', 'clsref', 'Super', 'FuncCall', 'ListType', 'DictType', 'CallableType', 'CustomType', *OP_NAMES, 'is_not', 'not_in'}


def construct_key(src: str, a: str, b: str) -> str:
	"""a stable name for the failing construct: the innermost canon tag around the first difference plus, when they are part of
	the canon vocabulary (never identifiers or literals), the first differing words of both sides"""
	i = 0
	while i < min(len(a), len(b)) and a[i] == b[i]:
		i += 1

	def tag_at(s: str) -> str:
		j = s.rfind('(', 0, i + 1)
		return s[j + 1:].split(' ')[0].split(')')[0] if j >= 0 else '?'

	def word_at(s: str) -> str:
		j = i
		while j > 0 and s[j - 1] not in ' ()[]':
			j -= 1
		w = re.split(r'[ ()\[\]]', s[j:], maxsplit=1)[0]
		m = re.match(r'(int|float|complex|str|bool|NoneType|bytes):', w)
		if m:
			return m.group(1)  # the KIND of a literal (never its value)
		return w if w in CANON_VOCAB else '*'
	return f'canon:{tag_at(a)}:{word_at(a)}/{tag_at(b)}:{word_at(b)}'


class Checked(tuple):
	"""(status, key, detail) of the comparison plus `.marks`: the known divergences the program contains (key -> detail)"""
	marks: dict[str, str]

	def __new__(cls, status: str, key: str | None, detail: str | None, marks: dict[str, str] | None = None) -> 'Checked':
		self = super().__new__(cls, (status, key, detail))
		self.marks = marks or {}
		return self

	def keys(self) -> set[str]:
		out = set(self.marks)
		if self[0] in ('diff', 'raise') and self[1]:
			out.add(self[1])
		return out


def check_source(app: common.MemApp, src: str) -> Checked:
	"""('ok' | 'skip:<why>' | 'diff' | 'raise', key, detail) with `.marks`"""
	import lark
	try:
		with warnings.catch_warnings():
			warnings.simplefilter('ignore')
			tree = ast.parse(src)
	except SyntaxError:
		return Checked('skip:cpython-rejects', None, None)
	except Exception as e:  # noqa: BLE001 - ValueError (NUL), RecursionError, MemoryError: CPython does not read the text
		return Checked(f'skip:cpython-rejects:{type(e).__name__}', None, None)
	pc = PyCanon(src)
	try:
		py = pc.module(tree)
	except CanonError as e:
		return Checked(f'skip:outside-oracle:{e}', None, None)
	except Exception as e:  # noqa: BLE001 - the oracle side itself failed (e.g. RecursionError on a very deep tree): no verdict for this text
		return Checked(f'skip:oracle-error:{type(e).__name__}', None, None)
	try:
		with budget():
			ep = app.entrypoint(src)
	except CaseTimeout as e:
		return Checked('raise', 'raise:parse:timeout', f'the parser did not return within {CASE_BUDGET_S}s: {e}')
	except Exception as e:  # noqa: BLE001
		# a text outside grammar.lark is outside the property's quantifier: lark's own exception (pinned tree: raw for in-memory
		# modules; after fix 12dd004: wrapped into Errors.Syntax with the lark exception as cause / argument)
		causes = [e, e.__cause__, *getattr(e, 'args', ())]
		if any(isinstance(c, lark.exceptions.LarkError) for c in causes):
			return Checked('skip:grammar-rejects', None, None)
		return Checked('raise', f'raise:parse:{exc_enum(e)}', ''.join(traceback.format_exception_only(type(e), e))[-400:])
	marks = pc.marks
	try:
		with budget():
			tr = TranpCanon().module(ep)
	except CaseTimeout as e:
		return Checked('raise', 'raise:nodes:timeout', f'building / reading the node tree did not finish within {CASE_BUDGET_S}s: {e}', marks)
	except CanonError as e:
		return Checked('raise', f'canon-unmapped:{e}', str(e), marks)
	except NodeAccessError as e:
		return Checked('raise', f'raise:{e.key}', e.detail, marks)
	except Exception as e:  # noqa: BLE001 - node construction / property access failed on a text both parsers accept
		return Checked('raise', f'raise:nodes:{exc_enum(e)}', ''.join(traceback.format_exception_only(type(e), e))[-400:], marks)
	if tr == py:
		return Checked('ok', None, None, marks)
	return Checked('diff', construct_key(src, tr, py), first_diff(tr, py), marks)


def shrink_source(app: common.MemApp, src: str, key: str, budget: int = 250) -> str:
	"""delete statements (a line together with its more deeply indented followers) while the same finding key reproduces"""
	lines = [ln for ln in src.split('\n') if ln.strip()]

	def indent(ln: str) -> int:
		return len(ln) - len(ln.lstrip(' \t'))

	def fails(ls: list[str]) -> bool:
		return bool(ls) and key in check_source(app, '\n'.join(ls) + '\n').keys()
	import time
	t_end = time.time() + 30.0
	steps = 0
	changed = True
	while changed and steps < budget and time.time() < t_end:
		changed = False
		i = 0
		while i < len(lines) and steps < budget and time.time() < t_end:
			j = i + 1
			while j < len(lines) and indent(lines[j]) > indent(lines[i]):
				j += 1
			cand = lines[:i] + lines[j:]
			steps += 1
			if fails(cand):
				lines = cand
				changed = True
			else:
				# keep the header, try to replace its body by `pass`
				if j > i + 1 and lines[i].rstrip().endswith(':'):
					body_indent = lines[i + 1][:indent(lines[i + 1])]
					cand = lines[:i + 1] + [body_indent + 'pass'] + lines[j:]
					steps += 1
					if cand != lines and fails(cand):
						lines = cand
						changed = True
				i += 1
	return '\n'.join(lines) + '\n'


def load_corpus() -> list[dict[str, Any]]:
	d = os.path.join(common.CORPUS_DIR, PROP)
	out = []
	if os.path.isdir(d):
		for fn in sorted(os.listdir(d)):
			if fn.endswith('.json'):
				with open(os.path.join(d, fn), encoding='utf-8') as f:
					rec = json.load(f)
				rec['file'] = fn
				out.append(rec)
	return out


def search_canon(ctx: Ctx) -> SearchResult:
	rng = ctx.sub_rng('canon')
	res = SearchResult('canon(nodes(s)) == canon(ast.parse(s)) on generated programs of the common language (CPython ast as oracle)')
	app = common.MemApp(ctx.tmpdir())
	hist: Counter[str] = Counter()
	seen_keys: set[str] = set()
	corpus = [c for c in load_corpus() if c.get('stream') == 'search']
	corpus_keys = {f"corpus:{c['file']}": c.get('key') for c in corpus}
	sources: list[tuple[str, str]] = [(c['source'], f"corpus:{c['file']}") for c in corpus]
	sources += [(src, f'fixed:{nm}') for nm, src in near_miss_programs() + non_steering_programs() + wide_programs()]
	n = ctx.scale(500, 9000)
	for i in range(n):
		g = Gen(rng, 1 + i % 5, rich=True)
		sources.append((g.module(), f'gen#{i}'))
	# expression-only programs: deep operator/primary nesting
	for i in range(ctx.scale(400, 6000)):
		g = Gen(rng, 1)
		sources.append((f'{g.fresh("r")} = {g.expr(2 + i % 4)}\n', f'expr#{i}'))
	distinct: set[int] = set()
	corpus_findings: list[Finding] = []
	constructs: Counter[str] = Counter()
	deadline = Deadline(ctx, 75, 900)
	for src, name in sources:
		if deadline.over() and not name.startswith(('corpus', 'fixed:')):
			hist['deadline-reached'] += 1
			continue
		res.cases += 1
		distinct.add(hash(src))
		chk = check_source(app, src)
		status, key, detail = chk
		if status in ('diff', 'raise') and corpus_keys.get(name) and not chk.marks:
			# a committed witness of a defect (CONVENTIONS rules 3, 5, 7) keeps the name it was filed under
			key = corpus_keys[name]
		hist[status.split(':')[0] + (':' + status.split(':')[1] if status.startswith('skip') else '') + ('+known-divergence' if chk.marks else '')] += 1
		pending = [(k, 'known divergence', d) for k, d in chk.marks.items()]
		if status in ('diff', 'raise') and key:
			pending.append((key, status, detail or ''))
		for k, kind, det in pending:
			hist[f'key:{k}'] += 1
			if k in seen_keys:
				continue
			seen_keys.add(k)
			small = shrink_source(app, src, k) if not name.startswith('corpus') else src
			f = Finding(key=k, what=f'{kind} on {name}: {det}', replay={'source': small, 'origin': name, 'detail': det})
			# committed defect witnesses are replayed first but listed last, so that new findings get the VIOLATION lines
			(corpus_findings if name.startswith('corpus') else res.findings).append(f)
		if status == 'ok':
			with warnings.catch_warnings():
				warnings.simplefilter('ignore')
				for node in ast.walk(ast.parse(src)):
					if isinstance(node, (ast.stmt, ast.expr, ast.comprehension, ast.ExceptHandler, ast.arg, ast.keyword)):
						constructs[type(node).__name__] += 1
		if status == 'ok' and not chk.marks and len(res.samples) < 2:
			res.samples.append({'origin': name, 'source': src[:300]})
	res.findings.extend(corpus_findings)
	res.distinct = len(distinct)
	res.histogram = {**dict(hist), **{f'construct:{k}': v for k, v in sorted(constructs.items())}}
	judged = hist.get('ok', 0) + hist.get('diff', 0) + hist.get('raise', 0)
	gen_total = sum(1 for _, nm in sources if not nm.startswith('corpus'))
	if gen_total and judged < 0.7 * gen_total:
		res.findings.append(Finding(key='generator-outside-common-language', what=f'only {judged}/{gen_total} generated programs are accepted by both parsers: {dict(hist)}', replay={'histogram': dict(hist)}))
	res.note = 'programs with statement nesting, defs/classes/decorators/params, calls, chains, displays, comprehensions, lambdas, ternaries; random layout and redundant parentheses; function kinds and decl/ref roles computed on the CPython side from scoping rules'
	return res


# ---------------------------------------------------------------------------------------------


STATEMENTS = {
	'ladder_eq_python': 'the generated ladder (all ?-rules) equals CPython\'s table on the common operators: level order, fixities, operator sets; // @ ** absent; <> the only extra; ternary/lambda shapes are CPython\'s',
	'ladder_slots_agree': 'on the common operators both tables let exactly the same parent/child slots stay without parentheses (decidable table check)',
	'group': 'for every operator term e (any extra parentheses) toAst <$> rdParse ladder (printMin pyTable e) = some (astOf e): left-nested BinOp, n-ary BoolOp, Compare chains, UnaryOp',
	'group_tree': 'the tree the reference parser returns is the lark shape of the minimally parenthesised term',
	'group_sound': 'whatever the ladder parser reads over the common operators is a CPython normal form with that text (nothing CPython groups differently is accepted)',
	'ladder_keywords_free': 'if / else / lambda are operators of no level of the generated ladder',
	'group_test': 'for every term of `expression` — operator terms closed under `body if test else orelse`, `lambda params: body` and parentheses around any expression, with any redundant parentheses — toAst <$> rdParseT ladder (printMinT pyTable t) = some (astOfT t): IfExp(test, body, orelse), Lambda(params, body) and the operator readings',
	'group_test_tree': 'the tree returned is lark\'s shape (ternary_test[body, test, orelse], lambdadef[lambdaparams | _, body]) of the minimally parenthesised term',
	'prefix_levels / prefix_grouping': '`not` (level 2) is looser than every comparison (3): `not a == b` = not (a == b), `(not a) == b` needs parentheses; `+ - ~` (10) are tighter than every infix operator: `-a * b` = (-a) * b',
	'compare_chain': 'a bare chain first o1 e1 … on en of comparison operators (incl. the two-word `not in`, `is not`) reads as one Compare(first, [o1 … on], [e1 … en])',
	'call_arguments': 'tranp\'s reading of the `arguments` subtree returns kinds (plain / named / * / **), labels, values and order; CPython\'s args and keywords are its two ordered sublists',
	'classify_owners_modelled': 'every match_feature reachable from the generated resolver table is modelled',
	'match_feature_consts': 'the string constants of every match_feature (and of Function._in_class_block), generated from node.py / definition/*.py on every run with the logic around them pinned by skeleton digests, are exactly the tags and words the model\'s predicates compare with',
	'classify_enum / classify_enum_no_bases': 'for every class definition (any number of well-formed bases) Enum.match_feature accepts exactly when the generated word Enum is the text of one of the bases; without a base list it rejects',
	'classify_class_def / classify_class_def_no_bases': 'the generated candidates of class_def are Enum then Class, and the first-match dispatch gives every class definition the kind Python\'s reading gives it (pyClassKind: Enum iff the bare name Enum is among the bases, at any position)',
	'match_feature_owners': 'the classes that define a match_feature in the code are exactly the owners the model implements',
	'match_feature_words': 'for every input the model\'s name-dependent predicates are equality / list-membership tests against the generated words: classmethod among the decorator names, __init__ as def name, self / cls as first parameter or var text, super as callee, list / dict as type name',
	'classify_rows': 'candidate orders of function_def / name / var / class_def / getattr in the generated table are the ones the decision functions hard-code',
	'classify_function_def / classify_name / classify_var': 'first-match over the generated row computes funcClass / nameClass / varClass of the extracted features',
	'classify_classMethod … classify_func_total': 'iff-characterisation of each function kind of the repaired code (e2c3e47), totality',
	'classify_core / classify_func_partial': 'on every real function_def path, tranp\'s kind = the kind Python\'s scoping dictates (pyFuncClass) given the 3 remaining conventions: @classmethod only in classes, class functions directly in the class body, self first exactly on instance methods',
	'classify_constructor_agrees / classify_classMethod_agrees / classify_method_sound': 'the three formerly false statements, each with exactly the hypothesis it still needs (one / one / none)',
	'classify_former_witnesses': 'the three old counter-example witnesses are classified as Python does',
	'function_def_disjoint / function_def_order / function_def_overlaps / function_def_order_generated': 'Constructor, Method, Closure never accept the same node; every registration order with ClassMethod first and Function last classifies like the shipped one; ClassMethod overlaps each of the three (witnesses on which the seeded order differs); the generated resolver table has one of the good orders',
	'name_disjoint / name_order / name_order_generated': 'the seven specific candidates of tag `name` never accept the same node; ANY registration order of them classifies every node like the shipped one; the generated row is those seven and then Var',
	'var_pairs / var_order / var_overlaps / var_order_generated': 'two `var` candidates accept the same node only on seven listed pairs; any order keeping the first of each pair first classifies like the shipped one; each pair has a witness on which the reversed order differs; the generated row respects all pairs',
	'resolver_fallbacks_last': 'in every row of the generated resolver table the always-accepting classes (Node.match_feature, CustomType) are last',
	'getattr_dotted_name_disjoint': 'the two candidates of `getattr` and of `dotted_name` never accept the same node',
	'classify_func_counterexample': 'the unconditional statement is still false where match_feature goes by the name self (class function whose first parameter is not called self); raised by the search as classify:method-without-self-name',
	'decl_matchers_facts': 'the string constants of DeclableMatcher as generated from primary.py today (re-decided when a tag or word changes)',
	'decl_role_exact': 'for every position of a bare identifier in the modelled statement forms (targets of plain / annotated / class-variable / augmented / TypeAlias / TypeVar assignments, for and comprehension targets, with-as, except-as, lambda and def parameters, def / class / imported names, keyword labels, attribute names, statement operands, anywhere deeper in an expression) below ANY enclosing context, the class given by the first-match dispatch has exactly the role Python gives the occurrence (binding / class-variable binding / use / label)',
	'namepos_in_grammar': 'every fixed path suffix decl_role_exact speaks about is a chain of parent/child tree tags of grammar.lark (relation generated from lark\'s compiled rules: _rules inlined, ?rules replaced by a single child, aliases renaming)',
	'positions_complete': 'no position is missing: in the grammar\'s trees a var below assign_namelist has one of the seven target positions and any other var is a value/expression position; a name below for_namelist is a for/comprehension target; a name anywhere else has a fixed position or stands below var itself, an import path, a type expression or raise',
	'grammar_target_statements': 'the statements owning a target list and the parents of `name`, as lists, as the grammar has them today',
	'lexer_keywords': 'the word lists of the reference lexer are accounted for by the keyword facts generated from lark\'s LALR table',
	'classify_name_param / classify_var_reference': 'parameter names are declarations exactly below typedparam; a var is a reference exactly when no DeclableMatcher pattern holds',
}


def run(ctx: Ctx) -> int:
	with ctx.timed('translate'):
		tr_ok, tr_msg = run_translators(ctx)
	proof = common.prove(ctx, PROP, leanchecker=ctx.thorough)
	for _ in range(2):
		# the module built but the audit printed nothing for ANY theorem: the audit process itself did not run (the object files were
		# being rewritten by a concurrent build of the shared project, which the audit does not lock) — an infrastructure hiccup, not
		# a verdict; a theorem that is really missing stays missing on the retry
		if not (proof.built and proof.theorems and all(t.get('axioms') is None for t in proof.theorems)):
			break
		import time
		time.sleep(5.0)
		ctx.notes.append('axiom audit returned nothing for every theorem of a module that built: audit repeated') if hasattr(ctx, 'notes') else None
		proof = common.prove(ctx, PROP, leanchecker=ctx.thorough)
	streams: list[Stream] = []
	if proof.built:
		with ctx.timed('correspondence'):
			streams = [stream_lark_vs_rd(ctx), stream_pygroup(ctx), stream_classify(ctx), stream_call_args(ctx)]
	with ctx.timed('search'):
		searches = [search_canon(ctx)]
	return common.finish(ctx, proof, streams, searches,
		translate_ok=tr_ok, translate_msg=tr_msg,
		statements=STATEMENTS,
		partial={
			'proved': 'operator precedence/associativity/chaining, unary and boolean grouping, conditional expressions and lambdas (rule `expression` with parentheses re-entering it) over the ladder read from grammar.lark, for all terms; reading of call argument lists; first-match classification logic and its agreement with Python scoping under stated conventions; class kinds (Enum / Class) for every base list; the model\'s name tests are equality tests against the words generated from the code',
			'correspondence_only': 'lark\'s LALR result equals the reference parser on `expression` without trailers/displays (lark-vs-rd); match_feature models (classify); Argument label/unpacking (call-args); pyTable/astOfT are CPython\'s (pygroup)',
			'search_only': 'attribute/index/slice chains and calls as operands (trailers), literals, list/tuple/dict displays, comprehensions, statement nesting, parameters, decorators, class bases (canon equality against CPython ast); the node properties that read children by index / relative path',
		},
		assumptions=[
			'lark returns a derivation of grammar.lark (LALR construction and PythonIndenter are not modelled)',
			'DeclableMatcher.is_decl_class_var: `endswith` on the joined parent path is modelled as equality of its last two tags (no tag of the grammar ends with another tag after a dot)',
			'the LOGIC of each DeclableMatcher method is pinned by the digest of its ast skeleton (translate/gen_decl_matchers.py: a changed skeleton breaks the tie loudly); its string constants are generated data',
			'the LOGIC of each match_feature method of node.py / definition/*.py (and of Function._in_class_block, Terminal.match_terminal) is pinned the same way (translate/gen_match_features.py); its string constants are generated and decided equal to the model\'s (match_feature_consts)',
			'class kinds, generic-type kinds, super calls and self / cls references are compared by the bare spellings Enum / list / dict / super / self / cls (the oracle\'s own word list): tranp classifies by name, so a dotted or renamed spelling (enum.Enum, an alias) is an ordinary class / call / name on both sides',
			'the parent/child tag relation (translate/gen_grammar_parents.py) is computed from lark\'s compiled rules with lark\'s tree-building conventions (_rule inlined, ?rule replaced by a single child unless aliased); it over-approximates only by keeping the tag of a ?rule. NamePos.suffix is checked against it (namepos_in_grammar, positions_complete); the real paths are exercised by the classify stream and by the declaration/reference roles of the ast search',
			'the generated language leaves out only what one of the two parsers rejects or what CPython\'s ast cannot distinguish (list above class Gen); every construct both accept and read differently is generated and raised under its own key (MARK_WHAT)',
		],
		trusted=['CPython ast as the grouping oracle; pyTable transcribed from Grammar/python.gram, validated by stream pygroup',
			'EntryOfLark exposes the lark tree faithfully (C15)'])


def replay(ctx: Ctx, path: str) -> int:
	with open(path, encoding='utf-8') as f:
		rec = json.load(f)
	inp = rec.get('input') or {}
	if rec.get('kind') == 'failing-input' and 'source' in inp:
		app = common.MemApp(ctx.tmpdir())
		status, key, detail = check_source(app, inp['source'])
		print(f"replay: source=\n{inp['source']}\nstatus={status} key={key}\n{detail}")
		ctx.cleanup()
		if status in ('diff', 'raise'):
			print(f'VIOLATION property={PROP} replay={os.path.relpath(path, common.VERIF)}')
			return 1
		return 0
	print(json.dumps(rec, indent=1)[:3000])
	ctx2 = Ctx(PROP, rec.get('tier', 'quick'), int(rec.get('seed', 0)))
	return run(ctx2)
