"""C01 — type-directed generator of small well-typed programs in tranp's supported subset (DESIGN.md §5 C01, Search).

The supported subset was discovered empirically by compiling probes of every construct of the property's quantifier
through the real pipeline (see `SUBSET_NOTES`). A program is built as a small IR (so that parentheses are explicit:
tranp keeps the user's `Group` nodes and adds none), printed to Python source, and described by the JSON-able dict
consumed by harness/cxx.py.

Static discipline (the CPython side re-checks all of it dynamically, see cxx.instrument, so a generator slip can only
discard a case, never raise a false alarm):
  * ints carry an interval; every operator result is kept inside 32 bits; `%` only on non-negative / positive operands;
    shifts by 0..8; no int/int `/`; floats are dyadic values exactly representable in binary32
  * variables assigned after their declaration are *budgeted*: value = core value + bounded increments (trip-count
    multiplied), so the invariant interval holds on every path and in every loop iteration
  * expressions are pure (no mutating call inside an expression); containers and objects are never aliased
    (no `ys = xs`, objects/lists are passed to callees read-only); dict order is never observed (results print dicts
    sorted; loops over dict views feed commutative sums only)

Defect classes (`CLASSES`): syntactic patterns for which the emitted C++ is known/suspected to differ. Each has a
detector over the IR and a *source-level repair* that does not change the Python meaning (add parentheses, split a
comparison chain over its pure operands, `int(len(x))`). harness/c01.py attributes a failing program to the classes
whose repair makes the failure disappear; anything not explained that way is shrunk generically.
"""
from __future__ import annotations

import copy
import random
from typing import Any

I32 = 2 ** 31 - 1
CORE = 1000          # declared/core magnitude of a budgeted variable
ROOM = 60000         # total increment budget of a budgeted variable
BUD = CORE + ROOM    # invariant magnitude of a budgeted variable

SUBSET_NOTES = [
	'grammar.lark has no `//`, `**`, `@`, lambda-with-defaults, walrus, f-strings, `while/for ... else`, `global`; these are outside tranp\'s input language',
	'`~`, unary +/-, `* / %`, `+ -`, `<< >>`, `& ^ |`, six comparisons, `in`/`not in` (list, dict), `is`/`is not`, `not/and/or`, ternary: supported',
	'str: literals, `+`, `==/!=/<`, len, str(int), int(digits), s[a:b], startswith/endswith/find supported; s[i] is a C++ char (by design), '
	'`s * n`, count/split/upper/lower/replace/strip/join map to provisional names marked FIXME in data/i18n.yml: not generated',
	'list: literal, append/insert/extend/pop/clear/copy, index read/write, slices, comprehension, `in`, for/enumerate supported; '
	'remove/index/sort/reverse map to provisional names (FIXME in data/i18n.yml): not generated; negative indices are C++ UB: outside the agreement subset',
	'dict: literal, index read/write, get(k, d), pop, copy, clear, `in`, items/keys/values loops, comprehension supported',
	'`raise RuntimeError(..)` + `except RuntimeError` supported; `raise Exception(..)` needs MSVC\'s std::exception(string) extension: not generated',
	'lambda assigned to a variable is rejected by Py2Cpp (Errors.Fatal / AssertionError on MoveAssign): not generated, reported as defect candidate',
	'mutating a list/dict parameter: tranp passes containers as const&: outside the no-aliasing subset',
	'Enum `.value` access is rejected (IndexError inside Py2Cpp): not generated, reported as defect candidate',
]


# ---------------------------------------------------------------------------------------------
# IR


class E:
	"""expression: k in lit var un not bin cmp bool tern call meth attr idx slice list dict tuple new comp"""
	__slots__ = ('k', 'ty', 'kids', 'op', 'val', 'paren', 'lo', 'hi', 'fe', 'cls')

	def __init__(self, k: str, ty: str, kids: list['E'] | None = None, op: Any = None, val: Any = None, lo: int = 0, hi: int = 0, fe: int = 0) -> None:
		self.k, self.ty, self.kids, self.op, self.val = k, ty, kids or [], op, val
		self.paren = False
		self.lo, self.hi = lo, hi      # ints: interval; str/list: length interval; float: magnitude bound in hi
		self.fe = fe                   # float: value * 2**fe is an integer
		self.cls: Any = None


class S:
	"""statement: k in assign aug if while for_range for_list for_enum for_items for_keys for_values break continue return expr raise try pass"""
	__slots__ = ('k', 'a', 'b', 'c', 'd')

	def __init__(self, k: str, a: Any = None, b: Any = None, c: Any = None, d: Any = None) -> None:
		self.k, self.a, self.b, self.c, self.d = k, a, b, c, d


class Func:
	def __init__(self, name: str, params: list[tuple[str, str, int, int]], ret: str, body: list[S]) -> None:
		self.name, self.params, self.ret, self.body = name, params, ret, body
		self.rlo, self.rhi = 0, 0
		self.entry = True
		self.raises = False
		self.decor: str | None = None
		self.default: tuple[str, int] | None = None


class Cls:
	def __init__(self, name: str, fields: list[tuple[str, str]], ctor: Func, methods: list[Func], base: str | None = None) -> None:
		self.name, self.fields, self.ctor, self.methods, self.base = name, fields, ctor, methods, base


class Prog:
	def __init__(self) -> None:
		self.classes: list[Cls] = []
		self.enums: list[tuple[str, list[tuple[str, str, int]]]] = []   # (class, [(member, value source, value)])
		self.funcs: list[Func] = []
		self.args: dict[str, list[list[Any]]] = {}


# Python precedence levels (higher binds tighter)
L_TERN, L_OR, L_AND, L_NOT, L_CMP, L_BOR, L_BXOR, L_BAND, L_SHIFT, L_SUM, L_TERM, L_UN, L_ATOM = range(1, 14)
BIN_LEVEL = {'|': L_BOR, '^': L_BXOR, '&': L_BAND, '<<': L_SHIFT, '>>': L_SHIFT, '+': L_SUM, '-': L_SUM, '*': L_TERM, '/': L_TERM, '%': L_TERM}
BIN_NAME = {'|': 'bitor', '^': 'bitxor', '&': 'bitand', '<<': 'shift', '>>': 'shift', '+': 'sum', '-': 'sum', '*': 'term', '/': 'term', '%': 'term'}


def level(e: E) -> int:
	if e.k == 'tern':
		return L_TERN
	if e.k == 'bool':
		return L_OR if e.op == 'or' else L_AND
	if e.k == 'not':
		return L_NOT
	if e.k == 'cmp':
		return L_CMP
	if e.k == 'bin':
		return BIN_LEVEL[e.op]
	if e.k == 'un':
		return L_UN
	return L_ATOM


def child_slots(e: E) -> list[tuple[E, int]]:
	"""(child, minimal level it must have to be printed without parentheses) for operator nodes; -1 = bracketed context."""
	if e.k == 'tern':
		return [(e.kids[0], L_OR), (e.kids[1], L_OR), (e.kids[2], L_TERN)]
	if e.k == 'bool':
		lv = level(e)
		return [(c, lv + 1) for c in e.kids]
	if e.k == 'not':
		return [(e.kids[0], L_NOT)]
	if e.k == 'cmp':
		return [(c, L_BOR) for c in e.kids]
	if e.k == 'bin':
		lv = level(e)
		return [(e.kids[0], lv), (e.kids[1], lv + 1)]
	if e.k == 'un':
		return [(e.kids[0], L_UN)]
	if e.k in ('meth', 'attr', 'idx', 'slice'):
		return [(e.kids[0], L_ATOM), *[(c, -1) for c in e.kids[1:]]]
	return [(c, -1) for c in e.kids]


def printed_paren(child: E, need: int) -> bool:
	return child.paren or (need >= 0 and level(child) < need)


def pe(e: E, need: int = -1) -> str:
	s = _pe(e)
	return f'({s})' if printed_paren(e, need) else s


def _lit(e: E) -> str:
	v = e.val
	if e.ty == 'str':
		return "'" + v + "'"
	if e.ty == 'float':
		return repr(float(v))
	return str(v)


def _pe(e: E) -> str:
	k = e.k
	sl = child_slots(e)
	if k == 'lit':
		return _lit(e)
	if k == 'var':
		return e.val
	if k == 'un':
		return e.op + pe(*sl[0])
	if k == 'not':
		return 'not ' + pe(*sl[0])
	if k == 'bin':
		return f'{pe(*sl[0])} {e.op} {pe(*sl[1])}'
	if k == 'cmp':
		out = pe(*sl[0])
		for o, c in zip(e.op, sl[1:]):
			out += f' {o} {pe(*c)}'
		return out
	if k == 'bool':
		return f' {e.op} '.join(pe(*c) for c in sl)
	if k == 'tern':
		return f'{pe(*sl[0])} if {pe(*sl[1])} else {pe(*sl[2])}'
	if k == 'call':
		return f"{e.val}({', '.join(pe(c) for c in e.kids)})"
	if k == 'new':
		return f"{e.val}({', '.join(pe(c) for c in e.kids)})"
	if k == 'meth':
		return f"{pe(*sl[0])}.{e.val}({', '.join(pe(c) for c in e.kids[1:])})"
	if k == 'attr':
		return f'{pe(*sl[0])}.{e.val}'
	if k == 'idx':
		return f'{pe(*sl[0])}[{pe(e.kids[1])}]'
	if k == 'slice':
		return f'{pe(*sl[0])}[{pe(e.kids[1])}:{pe(e.kids[2])}]'
	if k == 'list':
		return '[' + ', '.join(pe(c) for c in e.kids) + ']'
	if k == 'tuple':
		return '(' + ', '.join(pe(c) for c in e.kids) + (',' if len(e.kids) == 1 else '') + ')'
	if k == 'dict':
		return '{' + ', '.join(f'{pe(e.kids[i])}: {pe(e.kids[i + 1])}' for i in range(0, len(e.kids), 2)) + '}'
	if k == 'comp':
		# val = (kind 'list'|'dict', var); kids = [iter, cond|None-as-lit-True, proj...]
		kind, var = e.val
		cond = '' if e.kids[1].k == 'lit' and e.kids[1].val is True else f' if {pe(e.kids[1], L_OR)}'
		if kind == 'list':
			return f'[{pe(e.kids[2])} for {var} in {pe(e.kids[0], L_OR)}{cond}]'
		return f'{{{pe(e.kids[2])}: {pe(e.kids[3])} for {var} in {pe(e.kids[0], L_OR)}{cond}}}'
	raise AssertionError(k)


def ps(body: list[S], ind: int) -> list[str]:
	t = '\t' * ind
	out: list[str] = []
	for s in body:
		k = s.k
		if k == 'assign':
			out.append(f'{t}{pe(s.a)} = {pe(s.b)}')
		elif k == 'anno':
			out.append(f'{t}{s.a}: {s.c} = {pe(s.b)}')
		elif k == 'unpack':
			out.append(f"{t}{', '.join(s.a)} = {pe(s.b)}")
		elif k == 'aug':
			out.append(f'{t}{pe(s.a)} {s.c}= {pe(s.b)}')
		elif k == 'if':
			for i, (c, b) in enumerate(s.a):
				out.append(f"{t}{'if' if i == 0 else 'elif'} {pe(c)}:")
				out.extend(ps(b, ind + 1))
			if s.b is not None:
				out.append(f'{t}else:')
				out.extend(ps(s.b, ind + 1))
		elif k == 'while':
			out.append(f'{t}while {pe(s.a)}:')
			out.extend(ps(s.b, ind + 1))
		elif k == 'for_range':
			if s.d:
				begin, step = s.d   # range(begin, stop[, step])
				out.append(f"{t}for {s.a} in range({pe(begin)}, {pe(s.b)}{', ' + pe(step) if step is not None else ''}):")
			else:
				out.append(f'{t}for {s.a} in range({pe(s.b)}):')
			out.extend(ps(s.c, ind + 1))
		elif k == 'for_list':
			out.append(f'{t}for {s.a} in {pe(s.b)}:')
			out.extend(ps(s.c, ind + 1))
		elif k == 'for_enum':
			out.append(f'{t}for {s.a[0]}, {s.a[1]} in enumerate({pe(s.b)}):')
			out.extend(ps(s.c, ind + 1))
		elif k == 'for_items':
			out.append(f'{t}for {s.a[0]}, {s.a[1]} in {pe(s.b, L_ATOM)}.items():')
			out.extend(ps(s.c, ind + 1))
		elif k in ('for_keys', 'for_values'):
			out.append(f'{t}for {s.a} in {pe(s.b, L_ATOM)}.{k[4:]}():')
			out.extend(ps(s.c, ind + 1))
		elif k in ('break', 'continue', 'pass'):
			out.append(f'{t}{k}')
		elif k == 'def':
			out.extend(pfunc(s.a, ind))
		elif k == 'return':
			out.append(f'{t}return {pe(s.a)}')
		elif k == 'expr':
			out.append(f'{t}{pe(s.a)}')
		elif k == 'raise':
			out.append(f"{t}raise RuntimeError('{s.a}')")
		elif k == 'try':
			out.append(f'{t}try:')
			out.extend(ps(s.a, ind + 1))
			out.append(f'{t}except RuntimeError as {s.c}:')
			out.extend(ps(s.b, ind + 1))
		else:
			raise AssertionError(k)
	return out


def pfunc(f: Func, ind: int = 0, method: bool = False) -> list[str]:
	t = '\t' * ind
	params = [f'{n}: {ty}' for n, ty, _, _ in f.params]
	if f.default:
		params[-1] += f' = {f.default[1]}'
	if method:
		params.insert(0, 'cls' if f.decor == 'classmethod' else 'self')
	out = []
	if f.decor:
		out.append(f'{t}@{f.decor}')
	ret = f"'{f.ret}'" if method and f.ret[:1].isupper() and f.ret != 'None' else f.ret
	out.append(f"{t}def {f.name}({', '.join(params)}) -> {ret}:")
	out.extend(ps(f.body, ind + 1))
	return out


def print_prog(p: Prog) -> str:
	out: list[str] = []
	if p.enums:
		out.extend(['from enum import Enum', '', ''])
	for name, members in p.enums:
		out.append(f'class {name}(Enum):')
		out.extend(f'\t{m} = {src}' for m, src, _ in members)
		out.extend(['', ''])
	for c in p.classes:
		out.append(f"class {c.name}{'(' + c.base + ')' if c.base else ''}:")
		for n, ty in c.fields:
			out.append(f'\t{n}: {ty}')
		out.append('')
		out.extend(pfunc(c.ctor, 1, True))
		for m in c.methods:
			out.append('')
			out.extend(pfunc(m, 1, True))
		out.append('')
		out.append('')
	for f in p.funcs:
		out.extend(pfunc(f))
		out.append('')
		out.append('')
	return '\n'.join(out).rstrip('\n') + '\n'


def to_dict(p: Prog) -> dict[str, Any]:
	classes: dict[str, list[str]] = {}
	for c in p.classes:
		base = classes.get(c.base, []) if c.base else []
		classes[c.name] = [*base, *[n for n, _ in c.fields]]
	return {
		'source': print_prog(p),
		'entries': [{'fn': f.name, 'params': [ty for _, ty, _, _ in f.params], 'ret': f.ret, 'args': p.args[f.name]} for f in p.funcs if f.entry and f.name in p.args],
		'classes': classes,
	}


# ---------------------------------------------------------------------------------------------
# walking / defect classes / repairs


def walk_exprs(p: Prog):
	"""yields (expr, parent expr | None, slot index, statement context string)"""
	def rec(e: E, parent: E | None, i: int, ctx: str):
		yield e, parent, i, ctx
		for j, c in enumerate(e.kids):
			yield from rec(c, e, j, ctx)

	def stmts(body: list[S]):
		for s in body:
			if s.k in ('assign', 'aug'):
				yield from rec(s.a, None, 0, 'target')
				yield from rec(s.b, None, 0, s.k)
			elif s.k in ('anno', 'unpack'):
				yield from rec(s.b, None, 0, 'assign')
			elif s.k == 'if':
				for c, b in s.a:
					yield from rec(c, None, 0, 'cond')
					yield from stmts(b)
				if s.b is not None:
					yield from stmts(s.b)
			elif s.k == 'while':
				yield from rec(s.a, None, 0, 'cond')
				yield from stmts(s.b)
			elif s.k.startswith('for_'):
				yield from rec(s.b, None, 0, 'range' if s.k == 'for_range' else 'iter')
				if s.k == 'for_range' and s.d:
					for x in s.d:
						if x is not None:
							yield from rec(x, None, 0, 'range-begin')
				yield from stmts(s.c)
			elif s.k in ('return', 'expr'):
				yield from rec(s.a, None, 0, s.k)
			elif s.k == 'try':
				yield from stmts(s.a)
				yield from stmts(s.b)
			elif s.k == 'def':
				yield from stmts(s.a.body)

	for c in p.classes:
		for f in [c.ctor, *c.methods]:
			yield from stmts(f.body)
	for f in p.funcs:
		yield from stmts(f.body)


def _flat(parent: E, i: int) -> bool:
	c, need = child_slots(parent)[i]
	return not printed_paren(c, need)


def _unsigned_call(e: E) -> bool:
	return (e.k == 'call' and e.val == 'len') or (e.k == 'meth' and e.val == 'find')


def classes_of(e: E, parent: E | None, i: int, ctx: str) -> list[str]:
	"""defect classes whose pattern is rooted at the (parent, child e) adjacency / at e itself."""
	out: list[str] = []
	if e.k == 'cmp' and len(e.op) > 1:
		out.append('chain-compare')
	if parent is not None and parent.k == 'cmp' and e.k == 'bin' and e.op in '&^|' and len(e.op) == 1 and _flat(parent, i) and all(o not in ('in', 'not in') for o in parent.op):
		out.append(f'prec:{BIN_NAME[e.op]}-over-compare' if i == 0 else f'prec:compare-over-{BIN_NAME[e.op]}')
	if parent is not None and parent.k == 'not' and _flat(parent, i) and e.k in ('cmp', 'bin'):
		if e.k == 'cmp':
			if not (len(e.op) == 1 and e.op[0] in ('in', 'not in')):
				out.append('prec:not-over-compare')
		else:
			out.append(f'prec:not-over-{BIN_NAME[e.op]}')
	if parent is not None and parent.k == 'un' and e.k == 'un' and parent.op == e.op and e.op in '+-' and _flat(parent, i):
		out.append('lex:double-minus' if e.op == '-' else 'lex:double-plus')
	if parent is not None and parent.k == 'call' and parent.val == 'len' and level(e) < L_ATOM and not e.paren:
		out.append('flat:len-arg')
	if parent is None and ctx == 'range' and level(e) <= L_BAND and not e.paren:
		out.append('flat:range-arg')
	if e.k == 'meth' and e.val == 'get' and not e.paren and parent is not None and parent.k in ('bin', 'cmp', 'un', 'not', 'bool', 'tern'):
		out.append('flat:dict-get')
	if _unsigned_call(e) and not (parent is not None and parent.k == 'call' and parent.val == 'int'):
		out.append('unsigned:len')
	if e.k == 'bin' and e.op == '%' and e.ty == 'float' and e.kids[1].ty == 'int' and e.kids[0].k == 'bin' and e.kids[0].op in ('*', '/', '%') \
			and not e.kids[0].paren and e.kids[0].ty == 'float' and e.kids[0].kids[1].ty == 'int':
		out.append('fmod:left-type')
	if parent is not None and parent.k == 'un' and parent.op == '-' and e.k == 'attr' and e.val == 'value' and e.lo < 0 and not e.paren:
		out.append('lex:minus-enum-value')
	if e.k == 'call' and e.val in ('int', 'float') and len(e.kids) == 1 and e.kids[0].k == 'var' and not e.kids[0].paren \
			and parent is not None and parent.k == 'call' and parent.val in ('int', 'float'):
		out.append('cast:nested')
	return out


CLASS_WHAT = {
	'chain-compare': 'chained comparison `a < b < c` is emitted verbatim; C++ evaluates `(a < b) < c`',
	'prec:bitand-over-compare': '`a & b == c` is emitted flat; C++ groups `a & (b == c)`',
	'prec:bitxor-over-compare': '`a ^ b == c` is emitted flat; C++ groups `a ^ (b == c)`',
	'prec:bitor-over-compare': '`a | b < c` is emitted flat; C++ groups `a | (b < c)`',
	'prec:compare-over-bitand': '`a == b & c` is emitted flat; C++ groups `(a == b) & c`',
	'prec:compare-over-bitxor': '`a == b ^ c` is emitted flat; C++ groups `(a == b) ^ c`',
	'prec:compare-over-bitor': '`a < b | c` is emitted flat; C++ groups `(a < b) | c`',
	'prec:not-over-compare': '`not a == b` is emitted as `!a == b`; C++ groups `(!a) == b`',
	'prec:not-over-bitand': '`not p & q` is emitted as `!p & q`; C++ groups `(!p) & q`',
	'prec:not-over-bitxor': '`not a ^ b` is emitted as `!a ^ b`; C++ groups `(!a) ^ b`',
	'prec:not-over-bitor': '`not p | q` is emitted as `!p | q`; C++ groups `(!p) | q`',
	'prec:not-over-shift': '`not a << b` is emitted as `!a << b`',
	'prec:not-over-sum': '`not a + b` is emitted as `!a + b`',
	'prec:not-over-term': '`not a * b` is emitted as `!a * b`',
	'lex:double-minus': '`- -a` is emitted as `--a` (C++ pre-decrement)',
	'lex:double-plus': '`+ +a` is emitted as `++a` (C++ pre-increment)',
	'flat:len-arg': '`len(x + y)` is emitted as `x + y.size()`',
	'flat:range-arg': '`range(a & b)` / `range(x if c else y)` is emitted as `i < a & b` / `i < c ? x : y`',
	'flat:dict-get': '`d.get(k, v) + 1` is emitted as the bare conditional `d.contains(k) ? d[k] : v + 1`',
	'fmod:left-type': '`x * a % b` (float x, ints a, b): the `%` template is chosen from the type of the previous right element (`primary_raw = right_raw`), '
		'not of the accumulated float: emitted `x * a % b` / `fmod(x, a) % b`, which g++ rejects (invalid operands to binary %)',
	'lex:minus-enum-value': '`-E.M.value` for a member with a negative value (`M = -3`) inlines the constant after the sign: `--3` (g++: lvalue required as decrement operand)',
	'cast:nested': '`float(int(float(a))) - 1` is emitted as `(float((int((float(a)))))) - 1`: `(int((float(a))))` reads as a type-id (function type), '
		'so a following `-`/`+`/`*`/`&` operand makes it a C-style cast: g++ rejects ("invalid cast to function type")',
	'unsigned:len': '`len(x)` / `s.find(..)` is emitted as the unsigned `.size()` / `.find()`: comparisons, min/max, division against negative values differ',
}


def present_classes(p: Prog) -> list[str]:
	seen: list[str] = []
	for e, parent, i, ctx in walk_exprs(p):
		for c in classes_of(e, parent, i, ctx):
			if c not in seen:
				seen.append(c)
	return seen


def repaired(p: Prog, keep: set[str]) -> Prog:
	"""A copy of p in which every defect pattern whose class is not in `keep` is rewritten into an equivalent Python form."""
	q = copy.deepcopy(p)
	changed = True
	guard = 0
	while changed and guard < 50:
		changed = False
		guard += 1
		for e, parent, i, ctx in walk_exprs(q):
			cs = [c for c in classes_of(e, parent, i, ctx) if c not in keep]
			if not cs:
				continue
			c = cs[0]
			if c == 'chain-compare':
				parts = []
				for j, o in enumerate(e.op):
					parts.append(E('cmp', 'bool', [copy.deepcopy(e.kids[j]), copy.deepcopy(e.kids[j + 1])], op=[o]))
				e.k, e.op, e.kids = 'bool', 'and', parts
			elif c == 'fmod:left-type':
				e.kids[0].paren = True
			elif c == 'cast:nested':
				v = e.kids[0]
				zero = E('lit', v.ty, val=0.0 if v.ty == 'float' else 0, fe=0)
				e.kids[0] = E('bin', v.ty, [v, zero], op='+', lo=v.lo, hi=v.hi, fe=v.fe)
			elif c == 'unsigned:len':
				inner = copy.copy(e)
				inner.paren = False
				e.k, e.val, e.op, e.kids, e.ty = 'call', 'int', None, [inner], 'int'
			else:
				e.paren = True
			changed = True
			break
	return q


# ---------------------------------------------------------------------------------------------
# generator


class Var:
	def __init__(self, name: str, ty: str, lo: int = 0, hi: int = 0, mutable: bool = False, nonneg: bool = False, fe: int = 0, cls: Any = None, keys: list[Any] | None = None) -> None:
		self.name, self.ty, self.lo, self.hi, self.mutable, self.nonneg, self.fe, self.cls = name, ty, lo, hi, mutable, nonneg, fe, cls
		self.room = ROOM if mutable else 0
		self.keys = keys          # dict: keys certainly present (literal values); list: None
		self.minlen = 0           # list/str: certain minimal length
		self.maxlen = 0           # list/dict: maximal length (trip count of loops over it)
		self.frozen = False       # read-only inside the current region (loop iterables, parameters of container type)


class Env:
	def __init__(self, g: 'Gen', parent: 'Env | None' = None) -> None:
		self.g = g
		self.vars: dict[str, Var] = dict(parent.vars) if parent else {}
		self.mult = parent.mult if parent else 1
		self.in_loop = parent.in_loop if parent else False
		self.top = parent is None     # function-level scope: facts learnt here hold on every later path
		self.closures: list[Func] = list(parent.closures) if parent else []
		self.locals_only: set[str] = set()

	def of(self, ty: str, pred: Any = None) -> list[Var]:
		return [v for v in self.vars.values() if v.ty == ty and (pred is None or pred(v))]


INT_OPS = ['+', '-', '*', '%', '&', '|', '^', '<<', '>>']
CMP_OPS = ['<', '>', '<=', '>=', '==', '!=']


def _pow2_above(m: int) -> int:
	p = 1
	while p < m:
		p *= 2
	return p


def int_interval(op: str, l: E, r: E) -> tuple[int, int] | None:
	"""interval of `l op r` on Python ints, or None if the operation may leave the agreement subset."""
	if op == '+':
		return l.lo + r.lo, l.hi + r.hi
	if op == '-':
		return l.lo - r.hi, l.hi - r.lo
	if op == '*':
		c = [l.lo * r.lo, l.lo * r.hi, l.hi * r.lo, l.hi * r.hi]
		return min(c), max(c)
	if op == '%':
		if l.lo < 0 or r.lo <= 0:
			return None
		return 0, min(l.hi, r.hi - 1)
	if op in '&|^' and len(op) == 1:
		m = max(abs(l.lo), abs(l.hi) + 1, abs(r.lo), abs(r.hi) + 1)
		p = _pow2_above(m)
		if op == '&':
			if l.lo >= 0 and r.lo >= 0:
				return 0, min(l.hi, r.hi)
			if l.lo >= 0:
				return 0, l.hi
			if r.lo >= 0:
				return 0, r.hi
			return -p, p - 1
		if l.lo >= 0 and r.lo >= 0:
			return (max(l.lo, r.lo) if op == '|' else 0), p - 1
		return -p, p - 1
	if op == '<<':
		if r.lo < 0 or r.hi > 8:
			return None
		return min(l.lo << r.hi, l.lo), max(l.hi << r.hi, l.hi)
	if op == '>>':
		if r.lo < 0 or r.hi > 31:
			return None
		return min(l.lo >> r.lo, l.lo >> r.hi), max(l.hi >> r.lo, l.hi >> r.hi)
	return None


class Gen:
	def __init__(self, rng: random.Random, size: int = 2) -> None:
		self.r = rng
		self.size = size
		self.n = 0
		self.prog = Prog()
		self.helpers: list[Func] = []
		self.hist: dict[str, int] = {}
		self.cur_raises = False
		self.dead: dict[str, list[str]] = {}   # names whose declaring (nested) block is closed, by type: reused by later declarations

	def count(self, what: str) -> None:
		self.hist[what] = self.hist.get(what, 0) + 1

	def fresh(self, prefix: str) -> str:
		self.n += 1
		return f'{prefix}{self.n}'

	# ------------------------------------------------------------------ leaves

	def lit_int(self, lo: int = 0, hi: int = 20) -> E:
		v = self.r.randint(lo, hi)
		if self.r.random() < 0.1:
			v = self.r.choice([0, 1, 2, 3, 7, 8, 15, 16, 31, 255])
			v = max(lo, min(hi, v))
		if v < 0:
			return E('un', 'int', [E('lit', 'int', val=-v, lo=-v, hi=-v)], op='-', lo=v, hi=v)
		return E('lit', 'int', val=v, lo=v, hi=v)

	def var_e(self, v: Var) -> E:
		e = E('var', v.ty, val=v.name, lo=v.lo, hi=v.hi, fe=v.fe)
		if v.mutable and v.ty == 'int':
			e.lo, e.hi = (0 if v.nonneg else -BUD), BUD
		if v.mutable and v.ty == 'str':
			e.lo, e.hi = 0, 64
		e.cls = v
		return e

	def maybe_paren(self, e: E, p: float = 0.25) -> E:
		if level(e) < L_ATOM and self.r.random() < p:
			e.paren = True
		return e

	# ------------------------------------------------------------------ int

	def gen_int(self, env: Env, d: int, nonneg: bool = False, cap: int = I32) -> E:
		for _ in range(6):
			e = self._gen_int(env, d, nonneg)
			if -cap <= e.lo and e.hi <= cap and (not nonneg or e.lo >= 0):
				return e
		return self.lit_int(0, min(9, cap))

	def _gen_int(self, env: Env, d: int, nonneg: bool) -> E:
		r = self.r
		vs = env.of('int', (lambda v: v.lo >= 0 and (not v.mutable or v.nonneg)) if nonneg else None)
		if self.prog.enums and r.random() < 0.08:
			# `Enum.MEMBER.value` as an operand (the emitter inlines the member's constant)
			en, members = r.choice(self.prog.enums)
			ms = [(m, val) for m, _, val in members if val >= 0 or not nonneg]
			if ms:
				m, val = r.choice(ms)
				self.count('enum:member.value')
				return E('attr', 'int', [E('var', f'enum:{en}', val=f'{en}.{m}')], val='value', lo=val, hi=val)
		if d <= 0 or r.random() < 0.22:
			if vs and r.random() < 0.7:
				return self.var_e(r.choice(vs))
			return self.lit_int(0 if nonneg or r.random() < 0.7 else -9, 12)
		x = r.random()
		if x < 0.50:
			op = r.choice(INT_OPS)
			self.count(f'op:{op}')
			if op == '%':
				l = self.gen_int(env, d - 1, nonneg=True)
				rr = self.gen_int(env, d - 1, nonneg=True)
				if rr.lo <= 0:
					rr = E('bin', 'int', [self.maybe_paren(rr), self.lit_int(1, 9)], op='+', lo=rr.lo + 1, hi=rr.hi + 9) if r.random() < 0.5 else self.lit_int(1, 17)
			elif op in ('<<', '>>'):
				l = self.gen_int(env, d - 1, nonneg=nonneg, cap=2 ** 20)
				rr = self.lit_int(0, 6) if r.random() < 0.6 else E('bin', 'int', [self.maybe_paren(self.gen_int(env, d - 2)), self.lit_int(1, 7)], op='&', lo=0, hi=7)
				if rr.k == 'bin':
					iv = int_interval('&', rr.kids[0], rr.kids[1])
					rr.lo, rr.hi = iv if iv else (0, 7)
			else:
				l = self.gen_int(env, d - 1, nonneg=nonneg and op != '-')
				rr = self.gen_int(env, d - 1, nonneg=nonneg and op != '-')
			iv = int_interval(op, l, rr)
			if iv is None or iv[0] < -I32 or iv[1] > I32:
				return l
			self.maybe_paren(l)
			self.maybe_paren(rr)
			return E('bin', 'int', [l, rr], op=op, lo=iv[0], hi=iv[1])
		if x < 0.60:
			op = r.choice(['-', '-', '~', '+'])
			self.count(f'unary:{op}')
			c = self.gen_int(env, d - 1)
			x2 = r.random()
			if x2 < 0.16 and op in '+-':
				# same sign twice: bare (`- -a`, guarded by the emitter since 5807b18) or in the user's own parentheses (`-(-a)`)
				c = E('un', 'int', [c], op=op, lo=(-c.hi if op == '-' else c.lo), hi=(-c.lo if op == '-' else c.hi))
				if x2 < 0.12:
					c.paren = True
				self.count('unary:same-sign-nested')
			if level(c) >= L_UN and r.random() < 0.2:
				c.paren = True
			lo, hi = (-c.hi, -c.lo) if op == '-' else (~c.hi, ~c.lo) if op == '~' else (c.lo, c.hi)
			return E('un', 'int', [c], op=op, lo=lo, hi=hi)
		if x < 0.68:
			self.count('ternary')
			a, b = self.gen_int(env, d - 1, nonneg), self.gen_int(env, d - 1, nonneg)
			c = self.gen_bool(env, d - 1)
			return E('tern', 'int', [self.maybe_paren(a, 0.1), self.maybe_paren(c, 0.1), self.maybe_paren(b, 0.1)], lo=min(a.lo, b.lo), hi=max(a.hi, b.hi))
		if x < 0.78:
			fn = r.choice(['abs', 'min', 'max'])
			self.count(f'call:{fn}')
			a = self.gen_int(env, d - 1)
			if fn == 'abs':
				return E('call', 'int', [a], val='abs', lo=0 if a.lo <= 0 <= a.hi else min(abs(a.lo), abs(a.hi)), hi=max(abs(a.lo), abs(a.hi)))
			b = self.gen_int(env, d - 1)
			if self._unsigned_tainted(a) or self._unsigned_tainted(b):
				return a
			if fn == 'min':
				return E('call', 'int', [a, b], val='min', lo=min(a.lo, b.lo), hi=min(a.hi, b.hi))
			return E('call', 'int', [a, b], val='max', lo=max(a.lo, b.lo), hi=max(a.hi, b.hi))
		if x < 0.86:
			return self.gen_int_from_container(env, d) or self.lit_int()
		if x < 0.93:
			fs = [f for f in [*self.helpers, *env.closures] if f.ret == 'int' and (not env.in_loop or not f.raises)]
			if fs:
				return self.call_helper(env, r.choice(fs), d)
			return self.lit_int()
		if x < 0.97:
			fl = self.gen_float(env, d - 1)
			if fl.hi <= 2 ** 20:
				self.count('call:int(float)')
				m = int(fl.hi) + 1
				return E('call', 'int', [fl], val='int', lo=-m, hi=m)
			return self.lit_int()
		if r.random() < 0.3:
			self.count('call:int(str)')
			i = self.gen_int(env, 0, nonneg=True, cap=9999)
			digits: E = E('call', 'str', [i], val='str', lo=1, hi=4)
			if r.random() < 0.5:
				lit = ''.join(r.choice('0123456789') for _ in range(r.randint(1, 3)))
				digits = E('bin', 'str', [digits, E('lit', 'str', val=lit, lo=len(lit), hi=len(lit))], op='+', lo=2, hi=7)
			return E('call', 'int', [digits], val='int', lo=0, hi=9999999)
		s = self.gen_string_obj(env, 1 if r.random() < 0.3 else 0)
		self.count('call:len')
		return E('call', 'int', [s], val='len', lo=s.lo, hi=s.hi)

	def _unsigned_tainted(self, e: E) -> bool:
		if _unsigned_call(e):
			return True
		if e.k in ('bin', 'un', 'tern'):
			return any(self._unsigned_tainted(c) for c in e.kids)
		return False

	def gen_int_from_container(self, env: Env, d: int) -> E | None:
		r = self.r
		opts = []
		for v in env.vars.values():
			if v.ty == 'list[int]' and v.minlen > 0:
				opts.append(('lidx', v))
			if v.ty in ('list[int]', 'dict[str,int]', 'dict[int,int]', 'str'):
				opts.append(('len', v))
			if v.ty in ('dict[str,int]', 'dict[int,int]') and v.keys:
				opts.append(('didx', v))
			if v.ty in ('dict[str,int]', 'dict[int,int]'):
				opts.append(('dget', v))
			if v.cls is not None and v.ty == v.cls.name:
				opts.append(('attr', v))
			if v.ty == 'str':
				opts.append(('find', v))
		if not opts:
			return None
		kind, v = r.choice(opts)
		self.count(f'container:{kind}')
		base = self.var_e(v)
		if kind == 'lidx':
			i = self.lit_int(0, v.minlen - 1)
			return E('idx', 'int', [base, i], lo=v.lo, hi=v.hi)
		if kind == 'len':
			return E('call', 'int', [base], val='len', lo=0, hi=4096)
		if kind == 'didx':
			key = r.choice(v.keys or [0])
			return E('idx', 'int', [base, self.key_lit(v, key)], lo=v.lo, hi=v.hi)
		if kind == 'dget':
			key = r.choice(v.keys) if v.keys and r.random() < 0.5 else ('zz' if v.ty == 'dict[str,int]' else 99)
			dflt = self.lit_int(0, 9)
			return E('meth', 'int', [base, self.key_lit(v, key), dflt], val='get', lo=min(v.lo, dflt.lo), hi=max(v.hi, dflt.hi))
		if kind == 'find':
			return E('meth', 'int', [base, E('lit', 'str', val=r.choice('abcxyz'), hi=1)], val='find', lo=-1, hi=64)
		cls: Cls = v.cls
		ms = [m for m in cls.methods if m.ret == 'int' and not m.raises and m.decor != 'classmethod' and m.name.startswith('get')]
		if ms and r.random() < 0.5:
			m = r.choice(ms)
			if m.decor == 'property':
				return E('attr', 'int', [base], val=m.name, lo=m.rlo, hi=m.rhi)
			args = [self.gen_int(env, 0, nonneg=plo >= 0, cap=min(abs(plo) if plo < 0 else phi, phi)) for _, _, plo, phi in m.params]
			for a, (_, _, plo, phi) in zip(args, m.params):
				if a.lo < plo or a.hi > phi:
					return None
			return E('meth', 'int', [base, *args], val=m.name, lo=m.rlo, hi=m.rhi)
		fs = [(n, ty) for n, ty in self.all_fields(cls) if ty == 'int']
		if not fs:
			return None
		n, _ = r.choice(fs)
		return E('attr', 'int', [base], val=n, lo=0, hi=BUD)

	def all_methods(self, cls: Cls) -> list[Func]:
		base = next((c for c in self.prog.classes if c.name == cls.base), None) if cls.base else None
		return [*(self.all_methods(base) if base else []), *cls.methods]

	def all_fields(self, cls: Cls) -> list[tuple[str, str]]:
		base = next((c for c in self.prog.classes if c.name == cls.base), None) if cls.base else None
		return [*(self.all_fields(base) if base else []), *cls.fields]

	def key_lit(self, v: Var, key: Any) -> E:
		if v.ty == 'dict[str,int]':
			return E('lit', 'str', val=key, lo=len(key), hi=len(key))
		return E('lit', 'int', val=key, lo=key, hi=key)

	def call_helper(self, env: Env, f: Func, d: int) -> E:
		args = []
		for _, ty, plo, phi in f.params:
			if ty == 'int':
				a = self.gen_int(env, min(d - 1, 1), nonneg=plo >= 0, cap=min(phi, abs(plo)) if plo < 0 else phi)
				if a.lo < plo or a.hi > phi:
					a = self.lit_int(max(plo, 0), min(phi, 9))
			elif ty == 'bool':
				a = self.gen_bool(env, min(d - 1, 1))
			elif ty == 'str':
				a = self.gen_str(env, 0)
			else:
				a = self.gen_float(env, 0)
			args.append(a)
		if f.default and self.r.random() < 0.4:
			args.pop()
			self.count('call:default-arg')
		self.count('call:helper')
		return E('call', f.ret, args, val=f.name, lo=f.rlo, hi=f.rhi)

	# ------------------------------------------------------------------ bool

	def gen_bool(self, env: Env, d: int) -> E:
		r = self.r
		vs = env.of('bool')
		if d <= 0 or r.random() < 0.15:
			if vs and r.random() < 0.75:
				return self.var_e(r.choice(vs))
			if r.random() < 0.5:
				return E('lit', 'bool', val=r.random() < 0.5)
			d = 1
		x = r.random()
		if x < 0.42:
			n = 3 if r.random() < 0.07 else 2
			ops = [r.choice(CMP_OPS) for _ in range(n - 1)]
			kids = [self.maybe_paren(self.gen_int(env, d - 1), 0.3) for _ in range(n)]
			if n > 2:
				# chain operands are re-evaluated by the repair: keep them trivially pure and cheap
				kids = [self.gen_int(env, 0) for _ in range(n)]
			self.count('cmp:int' if n == 2 else 'cmp:chain')
			return E('cmp', 'bool', kids, op=ops)
		if x < 0.50:
			op = r.choice(['==', '!=', '<'])
			self.count('cmp:str')
			return E('cmp', 'bool', [self.gen_string_obj(env, d - 1), self.gen_str(env, d - 1)], op=[op])
		if x < 0.55:
			self.count('cmp:bool')
			op = r.choice(['==', '!=', 'is', 'is not'])
			return E('cmp', 'bool', [self.maybe_paren(self.gen_bool(env, d - 1), 0.2), self.maybe_paren(self.gen_bool(env, d - 1), 0.2)], op=[op])
		if x < 0.58:
			self.count('cmp:float')
			return E('cmp', 'bool', [self.gen_float(env, d - 1), self.gen_float(env, d - 1)], op=[r.choice(CMP_OPS)])
		if x < 0.70:
			self.count('not')
			if r.random() < 0.25:
				# `not` directly on an int term (`not a % b`): same truth value in both languages, the grouping is the emitter's job
				self.count('not:int')
				return E('not', 'bool', [self.maybe_paren(self.gen_int(env, min(d - 1, 2)), 0.15)])
			c = self.gen_bool(env, d - 1)
			return E('not', 'bool', [self.maybe_paren(c, 0.3)])
		if x < 0.86:
			op = r.choice(['and', 'or'])
			self.count(f'bool:{op}')
			n = 3 if r.random() < 0.2 else 2
			return E('bool', 'bool', [self.maybe_paren(self.gen_bool(env, d - 1), 0.2) for _ in range(n)], op=op)
		if x < 0.91:
			op = r.choice(['&', '|'])
			self.count(f'bool:{op}')
			return E('bin', 'bool', [self.maybe_paren(self.gen_bool(env, d - 1), 0.3), self.maybe_paren(self.gen_bool(env, d - 1), 0.3)], op=op)
		if x < 0.95:
			e = self.gen_in(env, d)
			if e is not None:
				return e
		if x < 0.97:
			fs = [f for f in [*self.helpers, *env.closures] if f.ret == 'bool' and (not env.in_loop or not f.raises)]
			if fs:
				return self.call_helper(env, r.choice(fs), d)
			es = [v for v in env.vars.values() if v.ty.startswith('enum:')]
			if es:
				v = r.choice(es)
				self.count('cmp:enum')
				members = [m for m, _, _ in dict(self.prog.enums)[v.ty[5:]]]
				return E('cmp', 'bool', [self.var_e(v), E('var', v.ty, val=f'{v.ty[5:]}.{r.choice(members)}')], op=[r.choice(['==', '!='])])
		if x < 0.985:
			s = self.gen_string_obj(env, 0)
			self.count('str:startswith')
			return E('meth', 'bool', [self.atomize(s), E('lit', 'str', val=r.choice(['a', 'ab', 'x', '']), hi=2)], val=r.choice(['startswith', 'endswith']))
		self.count('ternary')
		return E('tern', 'bool', [self.gen_bool(env, d - 1), self.gen_bool(env, d - 1), self.gen_bool(env, d - 1)])

	def atomize(self, e: E) -> E:
		if level(e) < L_ATOM:
			e.paren = True
		return e

	def gen_in(self, env: Env, d: int) -> E | None:
		r = self.r
		opts = [v for v in env.vars.values() if v.ty in ('list[int]', 'dict[int,int]', 'dict[str,int]')]
		if not opts:
			return None
		v = r.choice(opts)
		self.count('cmp:in')
		left = self.gen_int(env, d - 1) if v.ty in ('list[int]', 'dict[int,int]') else self.gen_str(env, 0)
		return E('cmp', 'bool', [self.maybe_paren(left), self.var_e(v)], op=[r.choice(['in', 'not in'])])

	# ------------------------------------------------------------------ str / float

	@staticmethod
	def is_cstr(e: E) -> bool:
		"""emitted as a `const char*` expression (string literal, conditional of two literals): C++ has no `+`/methods on it"""
		if e.k == 'lit' and e.ty == 'str':
			return True
		return e.k == 'tern' and Gen.is_cstr(e.kids[0]) and Gen.is_cstr(e.kids[2])

	def gen_string_obj(self, env: Env, d: int) -> E:
		"""a str expression that is a std::string in the emitted text"""
		for _ in range(4):
			e = self.gen_str(env, d)
			if not self.is_cstr(e):
				return e
		vs = env.of('str')
		if vs:
			return self.var_e(self.r.choice(vs))
		return E('call', 'str', [self.lit_int(0, 99)], val='str', lo=1, hi=2)

	def gen_str(self, env: Env, d: int) -> E:
		r = self.r
		vs = env.of('str')
		if d <= 0 or r.random() < 0.4:
			if vs and r.random() < 0.6:
				return self.var_e(r.choice(vs))
			s = ''.join(r.choice('abxyz019 _') for _ in range(r.randint(0, 4)))
			return E('lit', 'str', val=s, lo=len(s), hi=len(s))
		x = r.random()
		if x < 0.5:
			a, b = self.gen_str(env, d - 1), self.gen_str(env, d - 1)
			if a.hi + b.hi > 64 or (self.is_cstr(a) and self.is_cstr(b)):
				return a
			self.count('str:+')
			return E('bin', 'str', [self.maybe_paren(a, 0.1), self.maybe_paren(b, 0.1)], op='+', lo=a.lo + b.lo, hi=a.hi + b.hi)
		if x < 0.7:
			i = self.gen_int(env, d - 1, nonneg=True, cap=99999)
			self.count('call:str')
			return E('call', 'str', [i], val='str', lo=1, hi=6)
		if x < 0.85:
			c = self.gen_bool(env, d - 1)
			a, b = self.gen_str(env, d - 1), self.gen_str(env, d - 1)
			self.count('ternary')
			return E('tern', 'str', [a, c, b], lo=min(a.lo, b.lo), hi=max(a.hi, b.hi))
		s = self.gen_string_obj(env, 0)
		if s.lo >= 1:
			hi = r.randint(0, s.lo)
			lo = r.randint(0, hi)
			self.count('str:slice')
			return E('slice', 'str', [self.atomize(s), self.lit_int(lo, lo), self.lit_int(hi, hi)], lo=hi - lo, hi=hi - lo)
		return s

	def gen_float(self, env: Env, d: int) -> E:
		"""dyadic floats: value * 2**fe integral, |value| <= hi, hi * 2**fe < 2**22 (exact in binary32 and binary64)"""
		r = self.r
		vs = env.of('float')
		if d <= 0 or r.random() < 0.35:
			if vs and r.random() < 0.6:
				return self.var_e(r.choice(vs))
			k = r.randint(0, 40)
			return E('lit', 'float', val=k / 4.0, hi=k // 4 + 1, fe=2)
		if r.random() < 0.18:
			mixed = self.gen_float_int_left(env, d)
			if mixed is not None:
				return mixed
		x = r.random()
		if x < 0.45:
			op = r.choice(['+', '-', '*'])
			a, b = self.gen_float(env, d - 1), self.gen_float(env, d - 1)
			if r.random() < 0.45:
				# mixed chain `f * 0.5 + a + b`: int operands after a float one (the result type of a chain is not the type of its last pair)
				op = r.choice(['+', '-'])
				ints = [self.gen_int(env, 0, cap=64) for _ in range(r.randint(1, 2))]
				acc = a
				for i in ints:
					hi = acc.hi + max(abs(i.lo), abs(i.hi))
					if hi * 2 ** acc.fe >= 2 ** 22:
						break
					acc = E('bin', 'float', [acc, i], op=op, hi=hi, fe=acc.fe)
					self.count('float:mixed-int-operand')
				return acc
			hi, fe = (a.hi * b.hi, a.fe + b.fe) if op == '*' else (a.hi + b.hi, max(a.fe, b.fe))
			if hi * 2 ** fe >= 2 ** 22 or fe > 10:
				return a
			self.count(f'float:{op}')
			return E('bin', 'float', [self.maybe_paren(a), self.maybe_paren(b)], op=op, hi=hi, fe=fe)
		if x < 0.6:
			a = self.gen_float(env, d - 1)
			dv = r.choice([2.0, 4.0])
			if a.fe + 2 > 10:
				return a
			self.count('float:/')
			return E('bin', 'float', [self.maybe_paren(a), E('lit', 'float', val=dv, hi=4, fe=0)], op='/', hi=a.hi, fe=a.fe + (1 if dv == 2.0 else 2))
		if x < 0.75:
			i = self.gen_int(env, d - 1, cap=4096)
			self.count('call:float')
			return E('call', 'float', [i], val='float', hi=max(abs(i.lo), abs(i.hi)), fe=0)
		if x < 0.85:
			a = self.gen_float(env, d - 1)
			self.count('float:neg')
			return E('un', 'float', [a], op='-', hi=a.hi, fe=a.fe)
		if x < 0.89 and x >= 0.85:
			# flat Term chain float * int % int (the `%` must still be fmod: its left operand is the float product)
			a = self.gen_float(env, 0)
			i1, i2 = self.lit_int(1, 4), self.lit_int(2, 9)
			if a.hi * 4 * 2 ** a.fe < 2 ** 22:
				self.count('float:chain*%')
				prod = E('bin', 'float', [E('call', 'float', [a], val='abs', hi=a.hi, fe=a.fe), i1], op='*', hi=a.hi * 4, fe=a.fe)
				return E('bin', 'float', [prod, i2], op='%', hi=9, fe=a.fe)
		if x < 0.93:
			a = self.gen_float(env, d - 1)
			m = r.choice([1.5, 2.0, 3.0, 0.75])
			self.count('float:%')
			# fmod / Python % agree on non-negative operands; abs() makes the left one non-negative
			return E('bin', 'float', [E('call', 'float', [a], val='abs', hi=a.hi, fe=a.fe), E('lit', 'float', val=m, hi=3, fe=2)], op='%', hi=3, fe=max(a.fe, 2))
		c = self.gen_bool(env, d - 1)
		a, b = self.gen_float(env, d - 1), self.gen_float(env, d - 1)
		return E('tern', 'float', [a, c, b], hi=max(a.hi, b.hi), fe=max(a.fe, b.fe))

	def gen_float_int_left(self, env: Env, d: int) -> E | None:
		"""`int op float` for every arithmetic operator: the value is a float whichever operand stands on the left (Python's reflected
		operations); where this is the whole value of an un-annotated declaration its C++ type is inferred from it"""
		r = self.r
		i = self.gen_int(env, min(max(d - 1, 0), 1), cap=64)
		ihi = max(abs(i.lo), abs(i.hi))
		op = r.choice(['+', '-', '*', '/', '%', '%'])
		if op == '/':
			dv = r.choice([2.0, 4.0, 0.5])
			self.count('float:int-left/')
			return E('bin', 'float', [self.maybe_paren(i), E('lit', 'float', val=dv, hi=4, fe=1)], op='/', hi=ihi * 2, fe=2)
		if op == '%':
			m = r.choice([1.5, 2.5, 0.75, 3.5])
			self.count('float:int-left%')
			# fmod / Python % agree on non-negative operands; abs() makes the left one non-negative
			return E('bin', 'float', [E('call', 'int', [i], val='abs', lo=0, hi=ihi), E('lit', 'float', val=m, hi=4, fe=2)], op='%', hi=4, fe=2)
		f = self.gen_float(env, max(d - 2, 0))
		hi, fe = (ihi * f.hi, f.fe) if op == '*' else (ihi + f.hi, f.fe)
		if hi * 2 ** fe >= 2 ** 22 or fe > 10:
			return None
		self.count(f'float:int-left{op}')
		return E('bin', 'float', [self.maybe_paren(i), self.maybe_paren(f)], op=op, hi=hi, fe=fe)

	def gen(self, ty: str, env: Env, d: int) -> E:
		if ty == 'int':
			return self.gen_int(env, d)
		if ty == 'bool':
			return self.gen_bool(env, d)
		if ty == 'str':
			return self.gen_str(env, d)
		if ty == 'float':
			return self.gen_float(env, d)
		raise AssertionError(ty)

	# ------------------------------------------------------------------ statements

	def declare(self, env: Env, body: list[S], ty: str | None = None, force_name: str | None = None, force_mutable: bool = False) -> Var:
		r = self.r
		ty = ty or r.choice(['int', 'int', 'int', 'bool', 'str', 'float', 'float', 'list[int]', 'list[int]', 'dict[str,int]', 'dict[int,int]', 'obj', 'unpack', 'enum'])
		name = force_name or (self.pick_name(env, ty) if ty in self.REUSABLE else self.fresh('v'))
		if ty == 'unpack':
			# destructuring of a tuple *variable* (`x, y = (a, b)` directly is emitted as `auto [x, y] = {a, b};`, rejected by g++ — defect candidate)
			a, b = self.gen_int(env, 1), self.gen_bool(env, 1)
			body.append(S('assign', E('var', 'tuple', val=name), E('tuple', 'tuple', [a, b])))
			n1, n2 = self.fresh('v'), self.fresh('v')
			body.append(S('unpack', [n1, n2], E('var', 'tuple', val=name)))
			env.vars[n1] = Var(n1, 'int', a.lo, a.hi)
			env.vars[n2] = Var(n2, 'bool')
			self.count('assign:destructuring')
			return env.vars[n1]
		if ty == 'enum':
			if not self.prog.enums:
				return self.declare(env, body, 'int')
			en, members3 = r.choice(self.prog.enums)
			members = [m for m, _, _ in members3]
			c = self.gen_bool(env, 1)
			e = E('tern', f'enum:{en}', [E('var', f'enum:{en}', val=f'{en}.{r.choice(members)}'), self.maybe_paren(c, 0.1), E('var', f'enum:{en}', val=f'{en}.{r.choice(members)}')])
			body.append(S('assign', E('var', f'enum:{en}', val=name), e))
			env.vars[name] = Var(name, f'enum:{en}')
			self.count('enum:var')
			return env.vars[name]
		if ty == 'int':
			mutable = force_mutable or r.random() < 0.6
			nonneg = r.random() < 0.5
			e = self.gen_int(env, self.size, nonneg=mutable and nonneg, cap=CORE if mutable else I32)
			v = Var(name, 'int', e.lo, e.hi, mutable, nonneg and mutable)
		elif ty == 'bool':
			e = self.gen_bool(env, self.size)
			v = Var(name, 'bool', mutable=True)
		elif ty == 'str':
			e = self.gen_str(env, self.size)
			v = Var(name, 'str', e.lo, e.hi, mutable=force_mutable or r.random() < 0.4)
			if v.mutable and e.hi > 16:
				v.mutable = False
		elif ty == 'float':
			e = (self.gen_float_int_left(env, 2) if r.random() < 0.3 else None) or self.gen_float(env, max(2, self.size))
			v = Var(name, 'float', 0, e.hi, fe=e.fe)
		elif ty == 'list[int]':
			srcs = env.of('list[int]')
			if r.random() < 0.2 and [v for v in srcs if v.minlen >= 2]:
				src = r.choice([v for v in srcs if v.minlen >= 2])
				hi = r.randint(1, src.minlen)
				lo = r.randint(0, hi)
				e = E('slice', 'list[int]', [self.var_e(src), self.lit_int(lo, lo), self.lit_int(hi, hi)])
				v = Var(name, 'list[int]', src.lo, src.hi)
				v.minlen = v.maxlen = hi - lo
				self.count('list:slice')
			elif r.random() < 0.25:
				# list fill `[v] * n` (`std::vector<T>(n, v)`): its rendered text looks like a constructor call of the declared type, so the
				# annotated declaration `xs: list[int] = [v] * n` is where an initializer `xs{n, v}` would be wrong
				elem = self.gen_int(env, 1, cap=CORE)
				cnt = self.lit_int(0, 5) if r.random() < 0.5 else E('call', 'int', [E('call', 'int', [self.gen_int(env, 1, cap=50)], val='abs', lo=0, hi=50), self.lit_int(1, 5)], val='min', lo=0, hi=5)
				e = E('bin', 'list[int]', [E('list', 'list[int]', [elem]), cnt], op='*')
				v = Var(name, 'list[int]', min(elem.lo, -CORE), max(elem.hi, CORE))
				v.minlen, v.maxlen = max(cnt.lo, 0), cnt.hi
				self.count('list:fill')
				if r.random() < 0.6:
					self.count('list:fill-annotated')
					body.append(S('anno', name, e, 'list[int]'))
					env.vars[name] = v
					env.locals_only.add(name)
					return v
			elif r.random() < 0.2:
				x = self.fresh('i')
				sub = Env(self, env)
				n = r.randint(0, 5)
				sub.vars[x] = Var(x, 'int', 0, max(n - 1, 0))
				proj = self.gen_int(sub, 1, cap=CORE)
				e = E('comp', 'list[int]', [E('call', 'range', [self.lit_int(n, n)], val='range'), E('lit', 'bool', val=True), proj], val=('list', x))
				v = Var(name, 'list[int]', min(proj.lo, -CORE), max(proj.hi, CORE))
				v.minlen = v.maxlen = n
				self.count('comprehension:range')
			elif r.random() < 0.25 and srcs:
				src = r.choice(srcs)
				x = self.fresh('x')
				sub = Env(self, env)
				sub.vars[x] = Var(x, 'int', src.lo, src.hi)
				proj = self.gen_int(sub, 1)
				cond = self.gen_bool(sub, 1) if r.random() < 0.6 else E('lit', 'bool', val=True)
				e = E('comp', 'list[int]', [self.var_e(src), cond, proj], val=('list', x))
				v = Var(name, 'list[int]', min(proj.lo, -CORE), max(proj.hi, CORE))
				v.maxlen = src.maxlen
				self.count('comprehension:list')
			else:
				elems = [self.gen_int(env, 1, cap=CORE) for _ in range(r.randint(1, 4))]
				e = E('list', 'list[int]', elems)
				v = Var(name, 'list[int]', min(-CORE, *[x.lo for x in elems]), max(CORE, *[x.hi for x in elems]))
				v.minlen = v.maxlen = len(elems)
				self.count('literal:list')
		elif ty == 'dict[int,int]' and r.random() < 0.25 and env.of('list[int]'):
			src = r.choice(env.of('list[int]'))
			x = self.fresh('x')
			sub = Env(self, env)
			sub.vars[x] = Var(x, 'int', src.lo, src.hi)
			val = self.gen_int(sub, 1, cap=CORE)
			cond = self.gen_bool(sub, 1) if r.random() < 0.5 else E('lit', 'bool', val=True)
			xe = E('var', 'int', val=x, lo=src.lo, hi=src.hi)
			e = E('comp', ty, [self.var_e(src), cond, xe, val], val=('dict', x))
			v = Var(name, ty, -CORE, CORE, keys=[])
			v.maxlen = src.maxlen
			self.count('comprehension:dict')
		elif ty in ('dict[str,int]', 'dict[int,int]'):
			keys: list[Any] = r.sample(['a', 'b', 'k', 'zed'], r.randint(1, 3)) if ty == 'dict[str,int]' else r.sample([0, 1, 2, 5, 9], r.randint(1, 3))
			vals = [self.gen_int(env, 1, cap=CORE) for _ in keys]
			v = Var(name, ty, -CORE, CORE, keys=list(keys))
			kids: list[E] = []
			for k, x in zip(keys, vals):
				kids.extend([self.key_lit(v, k), x])
			e = E('dict', ty, kids)
			v.maxlen = len(keys)
			self.count('literal:dict')
		else:
			if not self.prog.classes:
				return self.declare(env, body, 'int')
			cls = r.choice(self.prog.classes)
			args = []
			for _, pty, plo, phi in cls.ctor.params:
				a = self.gen_int(env, 1, nonneg=True, cap=phi) if pty == 'int' else self.gen(pty, env, 1)
				if pty == 'int' and (a.lo < plo or a.hi > phi):
					a = self.lit_int(0, 9)
				args.append(a)
			e = E('new', cls.name, args, val=cls.name)
			v = Var(name, cls.name, cls=cls)
			v.room = ROOM
			self.count('new:object')
			dups = [m for m in cls.methods if getattr(m, 'chain', False)]
			if dups and r.random() < 0.5:
				for _ in range(r.choice([1, 1, 2])):
					m = r.choice(dups)
					e = E('meth', cls.name, [e, *[self.lit_int(plo, min(phi, 9)) for _, _, plo, phi in m.params]], val=m.name)
				self.count('new:call-chain')
				if r.random() < 0.5:
					body.append(S('anno', name, e, v.ty))
					env.vars[name] = v
					env.locals_only.add(name)
					return v
		if ty in ('int', 'bool', 'str', 'float') and r.random() < 0.15:
			body.append(S('anno', name, e, v.ty))
		else:
			body.append(S('assign', E('var', v.ty, val=name), e))
		env.vars[name] = v
		env.locals_only.add(name)
		return v

	def gen_scope_idiom(self, env: Env, body: list[S]) -> None:
		"""addendum 16 — one name, three scopes: declared in a nested sibling block, then in the enclosing scope, then assigned in
		another nested block. Python has one function-level variable; the emitted C++ needs a local in the sibling block, a
		declaration in the enclosing block and a plain assignment in the nested one."""
		r = self.r
		ty = r.choice(['int', 'int', 'bool', 'str'])
		name = self.fresh('v')
		# 1. sibling block(s) declaring the name
		for _ in range(r.randint(1, 2)):
			sub = Env(self, env)
			kind = r.choice(['if', 'if', 'for', 'try'])
			if kind == 'for':
				sub.mult, sub.in_loop = env.mult * 3, True
			blk: list[S] = []
			self.declare(sub, blk, ty, force_name=name)
			if r.random() < 0.6:
				self.gen_update(sub, blk)
			if kind == 'if':
				body.append(S('if', [(self.gen_bool(env, self.size), blk)], [S('pass')] if r.random() < 0.3 else None))
			elif kind == 'for':
				body.append(S('for_range', self.fresh('i'), self.lit_int(0, 3), blk))
			else:
				body.append(S('try', blk, [S('pass')], self.fresh('ex')))
		# 2. declaration in the enclosing scope
		v = self.declare(env, body, ty, force_name=name, force_mutable=True)
		# 3. assignment(s) in nested block(s)
		for _ in range(r.randint(1, 2)):
			kind = r.choice(['for', 'while-if', 'if'])
			sub = Env(self, env)
			blk = []
			if kind == 'for':
				n = r.randint(1, 4)
				sub.mult, sub.in_loop = env.mult * n, True
				i = self.fresh('i')
				sub.vars[i] = Var(i, 'int', 0, n - 1)
				if not self.gen_update(sub, blk, target=v):
					blk.append(S('pass'))
				if r.random() < 0.4:
					self.gen_stmt(sub, blk, 0, None)
				body.append(S('for_range', i, self.lit_int(n, n), blk))
			else:
				if not self.gen_update(sub, blk, target=v):
					blk.append(S('pass'))
				if kind == 'if':
					body.append(S('if', [(self.gen_bool(env, self.size), blk)], None))
				else:
					inner = [S('if', [(self.gen_bool(env, self.size), blk)], None)]
					c = self.fresh('n')
					body.append(S('assign', E('var', 'int', val=c), self.lit_int(1, 3)))
					body.append(S('while', E('cmp', 'bool', [E('var', 'int', val=c, lo=0, hi=3), E('lit', 'int', val=0)], op=['>']),
						[S('aug', E('var', 'int', val=c), E('lit', 'int', val=1, lo=1, hi=1), '-'), *inner]))
		self.count('scope:sibling-enclosing-nested')

	def gen_update(self, env: Env, body: list[S], target: Var | None = None) -> bool:
		"""one statement that mutates an existing variable, within its budget"""
		r = self.r
		cands = [v for v in env.vars.values() if not v.frozen and (v.mutable or v.ty.startswith(('list[int]', 'dict')) or (v.cls is not None and v.ty == v.cls.name))]
		if not cands:
			return False
		v = target if target is not None else r.choice(cands)
		tgt = E('var', v.ty, val=v.name)
		if v.ty == 'int':
			if r.random() < 0.65 and v.room > 0:
				k = min(50, v.room // max(env.mult, 1))
				if k >= 1:
					op = '+' if v.nonneg or r.random() < 0.6 else '-'
					e = self.gen_int(env, self.size, nonneg=v.nonneg, cap=k)
					if abs(e.lo) <= k and abs(e.hi) <= k:
						v.room -= env.mult * k
						body.append(S('aug', tgt, e, op))
						self.count(f'aug:{op}=')
						return True
			e = self.gen_int(env, self.size, nonneg=v.nonneg, cap=CORE)
			if r.random() < 0.3 and v.nonneg:
				op = r.choice(['%', '&', '>>'])
				rhs = self.lit_int(1, 9)
				body.append(S('aug', tgt, rhs, op))
				self.count(f'aug:{op}=')
				return True
			body.append(S('assign', tgt, e))
			self.count('assign:int')
			return True
		if v.ty == 'bool':
			body.append(S('assign', tgt, self.gen_bool(env, self.size)))
			self.count('assign:bool')
			return True
		if v.ty == 'str':
			k = 2
			if v.hi + env.mult * k <= 48:
				e = self.gen_str(env, 0)
				if e.hi <= k:
					v.hi += env.mult * k
					body.append(S('aug', tgt, e, '+'))
					self.count('aug:+=str')
					return True
			return False
		if v.ty == 'list[int]':
			x = r.random()
			base = self.var_e(v)
			if x < 0.45:
				e = self.gen_int(env, 1, cap=CORE)
				v.lo, v.hi = min(v.lo, e.lo), max(v.hi, e.hi)
				v.maxlen += env.mult
				body.append(S('expr', E('meth', 'None', [base, e], val='append')))
				self.count('list:append')
			elif x < 0.7 and v.minlen > 0 and not env.in_loop:
				i = self.lit_int(0, v.minlen - 1)
				e = self.gen_int(env, 1, cap=CORE)
				if r.random() < 0.5:
					body.append(S('assign', E('idx', 'int', [base, i]), e))
					self.count('list:store')
				else:
					e = self.gen_int(env, 1, cap=50)
					v.lo, v.hi = v.lo - 50 * env.mult, v.hi + 50 * env.mult
					body.append(S('aug', E('idx', 'int', [base, i]), e, '+'))
					self.count('list:aug')
			elif x < 0.8 and not env.in_loop:
				e = self.gen_int(env, 1, cap=CORE)
				body.append(S('expr', E('meth', 'None', [base, self.lit_int(0, v.minlen), e], val='insert')))
				v.maxlen += env.mult
				self.count('list:insert')
			elif x < 0.9 and v.minlen > 1 and not env.in_loop:
				body.append(S('expr', E('meth', 'None', [base] if r.random() < 0.5 else [base, self.lit_int(0, v.minlen - 1)], val='pop')))
				v.minlen -= 1           # lower bound: sound on every path, also when this statement sits in a branch
				self.count('list:pop')
			else:
				e = E('list', 'list[int]', [self.gen_int(env, 0, cap=CORE) for _ in range(r.randint(1, 2))])
				v.maxlen += 2 * env.mult
				body.append(S('expr', E('meth', 'None', [base, e], val='extend')))
				self.count('list:extend')
			return True
		if v.ty.startswith('dict'):
			base = self.var_e(v)
			newkey = r.choice(['a', 'b', 'q', 'zed']) if v.ty == 'dict[str,int]' else r.choice([0, 1, 3, 9])
			e = self.gen_int(env, 1, cap=CORE)
			body.append(S('assign', E('idx', 'int', [base, self.key_lit(v, newkey)]), e))
			v.maxlen += env.mult
			if env.top and v.keys is not None and newkey not in v.keys:
				v.keys = [*v.keys, newkey]
			self.count('dict:store')
			return True
		cls: Cls = v.cls
		ms = [m for m in cls.methods if m.ret == 'None']
		if not ms:
			return False
		m = r.choice(ms)
		args = [self.gen_int(env, 0, nonneg=True, cap=phi) for _, _, _, phi in m.params]
		for a, (_, _, plo, phi) in zip(args, m.params):
			if a.lo < plo or a.hi > phi:
				return False
		if v.room < env.mult * 50:
			return False
		v.room -= env.mult * 50
		body.append(S('expr', E('meth', 'None', [self.var_e(v), *args], val=m.name)))
		self.count('method:mutator')
		return True

	REUSABLE = ('int', 'bool', 'str', 'float', 'list[int]', 'dict[str,int]', 'dict[int,int]')

	def release(self, sub: Env) -> None:
		"""the nested scope `sub` is closed: its own names are free again (addendum 16: the same name is declared in a sibling block,
		later in the enclosing scope, later assigned in another nested block — Python sees one function-level variable, C++ one per scope)"""
		for n in sorted(sub.locals_only):
			v = sub.vars.get(n)
			if v is not None and v.ty in self.REUSABLE:
				self.dead.setdefault(v.ty, []).append(n)

	def pick_name(self, env: Env, ty: str) -> str:
		pool = [n for n in self.dead.get(ty, []) if n not in env.vars]
		if pool and self.r.random() < 0.55:
			n = self.r.choice(pool)
			self.dead[ty] = [m for m in self.dead[ty] if m != n]
			self.count('name:reused')
			return n
		return self.fresh('v')

	def gen_block(self, env: Env, n: int, depth: int, ret: str | None) -> list[S]:
		"""n statements in a fresh nested scope"""
		sub = Env(self, env)
		body: list[S] = []
		for _ in range(n):
			self.gen_stmt(sub, body, depth, ret)
		if not body:
			body.append(S('pass'))
		self.release(sub)
		return body

	def gen_stmt(self, env: Env, body: list[S], depth: int, ret: str | None) -> None:
		r = self.r
		x = r.random()
		if depth <= 0:
			x = x * 0.5
		if x < 0.2:
			self.declare(env, body)
		elif x < 0.5:
			if not self.gen_update(env, body):
				self.declare(env, body)
		elif x < 0.64:
			arms = [(self.gen_bool(env, self.size), self.gen_block(env, r.randint(1, 2), depth - 1, ret))]
			for _ in range(r.choice([0, 0, 1, 2])):
				arms.append((self.gen_bool(env, self.size), self.gen_block(env, r.randint(1, 2), depth - 1, ret)))
			els = self.gen_block(env, r.randint(1, 2), depth - 1, ret) if r.random() < 0.6 else None
			self.count('if' + ('/elif' if len(arms) > 1 else '') + ('/else' if els else ''))
			body.append(S('if', arms, els))
		elif x < 0.82:
			self.gen_loop(env, body, depth, ret)
		elif x < 0.88 and ret is not None and env.in_loop is False and depth < 2:
			# early return under a condition
			e = self.gen_ret(env, ret)
			if e is not None:
				self.count('return:early')
				body.append(S('if', [(self.gen_bool(env, self.size), [S('return', e)])], None))
		elif x < 0.93 and not env.in_loop:
			self.gen_try(env, body, depth, ret)
		elif x < 0.96 and env.top:
			self.count('raise:uncaught')
			self.cur_raises = True
			body.append(S('if', [(self.gen_bool(env, self.size), [S('raise', 'e')])], None))
		else:
			if not self.gen_update(env, body):
				self.declare(env, body)

	def gen_ret(self, env: Env, ret: str) -> E | None:
		if ret in ('int', 'bool', 'str', 'float'):
			return self.gen(ret, env, self.size)
		return None

	def gen_try(self, env: Env, body: list[S], depth: int, ret: str | None) -> None:
		r = self.r
		self.count('try/raise')
		tb = self.gen_block(env, r.randint(0, 1), depth - 1, None)
		if tb and tb[0].k == 'pass':
			tb = []
		tb.append(S('if', [(self.gen_bool(env, self.size), [S('raise', 'e')])], None))
		sub = Env(self, env)
		if self.gen_update(sub, tb) is False:
			tb.append(S('pass'))
		hb = self.gen_block(env, 1, depth - 1, None)
		body.append(S('try', tb, hb, self.fresh('ex')))

	def gen_loop(self, env: Env, body: list[S], depth: int, ret: str | None) -> None:
		r = self.r
		x = r.random()
		lists = env.of('list[int]')
		dicts = [v for v in env.vars.values() if v.ty.startswith('dict')]
		if x < 0.4 or (not lists and not dicts and x < 0.75):
			n = self.gen_int(env, 1, nonneg=False, cap=6) if r.random() < 0.8 else self.lit_int(0, 5)
			if n.hi > 6:
				n = self.lit_int(0, 5)
			if level(n) >= L_ATOM or r.random() < 0.4:
				pass
			i = self.fresh('i')
			sub = Env(self, env)
			sub.mult, sub.in_loop = env.mult * max(n.hi, 1), True
			sub.vars[i] = Var(i, 'int', 0, max(n.hi - 1, 0))
			self.count('for:range')
			extra = None
			if r.random() < 0.3:
				# range(begin, stop[, step]): the arguments are pasted into `for (auto i = begin; i < stop; i += step)` after being split
				# out of the rendered call text, so they must survive containing commas and brackets themselves (multi-argument calls)
				def small_call() -> E:
					k = r.random()
					x = self.gen_int(env, 1, nonneg=False, cap=50)
					if k < 0.45:
						inner = E('call', 'int', [x, self.lit_int(1, 4)], val='min', lo=min(x.lo, 1), hi=4)
						return E('call', 'int', [self.lit_int(0, 0), inner], val='max', lo=0, hi=4)
					if k < 0.75:
						hi = r.randint(1, 4)
						return E('call', 'int', [E('call', 'int', [x], val='abs', lo=0, hi=max(abs(x.lo), abs(x.hi))), E('lit', 'int', val=hi, lo=hi, hi=hi)], val='min', lo=0, hi=hi)
					hs = [h for h in self.helpers if h.ret == 'int' and len(h.params) >= 2 and 0 <= h.rlo and h.rhi <= 6 and not h.raises]
					if hs:
						return self.call_helper(env, r.choice(hs), 1)
					a, b = r.randint(0, 4), r.randint(0, 4)
					if r.random() < 0.5:
						# a shift inside a non-final argument: `min(1 << k, 4)`
						k2 = r.randint(0, 2)
						sh = E('bin', 'int', [E('lit', 'int', val=1, lo=1, hi=1), E('lit', 'int', val=k2, lo=k2, hi=k2)], op='<<', lo=1 << k2, hi=1 << k2)
						return E('call', 'int', [sh, E('lit', 'int', val=b, lo=b, hi=b)], val='min', lo=min(1 << k2, b), hi=min(1 << k2, b))
					return E('call', 'int', [E('lit', 'int', val=a, lo=a, hi=a), E('lit', 'int', val=b, lo=b, hi=b)], val='max', lo=max(a, b), hi=max(a, b))
				begin = small_call() if r.random() < 0.8 else self.lit_int(0, 3)
				step = None
				if r.random() < 0.4:
					step = self.lit_int(1, 3)
					if r.random() < 0.6:
						n = small_call()   # a multi-argument call in the middle position
				# `<`, `<=`, `<<` in a non-final argument stay in (repaired ed1a7d7: the arguments come from the syntax tree, no text splitting)
				if '<' in pe(begin) or (step is not None and '<' in pe(n)):
					self.count('for:range-angle-arg')
				sub.vars[i] = Var(i, 'int', min(begin.lo, 0), max(n.hi - 1, 0))
				extra = (begin, step)
				self.count('for:range-begin' + ('-step' if step is not None else ''))
			# tranp re-evaluates stop and step on every iteration (`i < stop; i += step`), Python evaluates range() once: what they read
			# is read-only in the body (the re-evaluation itself is the known finding range:args-reevaluated, probe programs only)
			def names(e: E) -> set[str]:
				return ({str(e.val)} if e.k == 'var' else set()) | {x for c in e.kids for x in names(c)}
			for nm in names(n) | (names(extra[1]) if extra and extra[1] is not None else set()):
				if nm in sub.vars:
					sub.vars[nm] = self.freeze(sub.vars[nm])
			body.append(S('for_range', i, n, self.loop_body(sub, depth), extra))
		elif x < 0.55 and lists and min(v.maxlen for v in lists) <= 40:
			v = r.choice([v for v in lists if v.maxlen <= 40])
			xv = self.fresh('x')
			sub = Env(self, env)
			sub.mult, sub.in_loop = env.mult * max(v.maxlen, 1), True
			sub.vars[v.name] = self.freeze(v)
			sub.vars[xv] = Var(xv, 'int', v.lo, v.hi)
			if r.random() < 0.5:
				self.count('for:list')
				body.append(S('for_list', xv, self.var_e(v), self.loop_body(sub, depth)))
			else:
				iv = self.fresh('i')
				sub.vars[iv] = Var(iv, 'int', 0, max(v.maxlen, 1))
				self.count('for:enumerate')
				# no `continue` directly in the body of an enumerate loop: it skips the emitted `i++` (known finding enumerate:continue-skips-index,
				# exercised by its own probe programs so that it cannot hide another failure of the same program)
				body.append(S('for_enum', (iv, xv), self.var_e(v), self.loop_body(sub, depth, allow_continue=False)))
		elif (objs := [v for v in env.vars.values() if v.cls is not None and isinstance(v.cls, Cls) and any(getattr(m, 'view', None) for m in self.all_methods(v.cls))]) and x < 0.85:
			# a user object with methods named like the dict views: an ordinary loop over the returned list (order matters, any body)
			v = r.choice(objs)
			m = r.choice([m for m in self.all_methods(v.cls) if getattr(m, 'view', None)])
			vn, n = m.view
			sub = Env(self, env)
			sub.mult, sub.in_loop = env.mult * n, True
			kv, vv = self.fresh('k'), self.fresh('w')
			sub.vars[kv] = Var(kv, 'int', 0, 9)
			if vn == 'items':
				sub.vars[vv] = Var(vv, 'int', 0, 9)
			self.count(f'for:object.{vn}')
			body.append(S('for_' + vn, (kv, vv) if vn == 'items' else kv, self.var_e(v), self.loop_body(sub, depth)))
		elif x < 0.7 and dicts and min(v.maxlen for v in dicts) <= 40:
			v = r.choice([v for v in dicts if v.maxlen <= 40])
			sub = Env(self, env)
			sub.mult, sub.in_loop = env.mult * max(v.maxlen, 1), True
			sub.vars[v.name] = self.freeze(v)
			kty = 'str' if v.ty == 'dict[str,int]' else 'int'
			kind = r.choice(['items', 'keys', 'values'])
			kv, vv = self.fresh('k'), self.fresh('w')
			if kind != 'values':
				sub.vars[kv] = Var(kv, kty, 0, 9) if kty == 'int' else Var(kv, 'str', 1, 3)
			if kind != 'keys':
				sub.vars[vv] = Var(vv, 'int', v.lo, v.hi)
			self.count(f'for:dict.{kind}')
			# dict order is never observed: the body is a single commutative accumulation
			acc = [a for a in env.vars.values() if a.ty == 'int' and a.mutable and not a.frozen and a.room >= sub.mult * 50]
			lb: list[S] = []
			if acc:
				a = r.choice(acc)
				e = self.gen_int(sub, 1, nonneg=a.nonneg, cap=50)
				if abs(e.lo) <= 50 and abs(e.hi) <= 50 and self.order_free(e):
					a.room -= sub.mult * 50
					lb.append(S('aug', E('var', 'int', val=a.name), e, '+'))
			if not lb:
				lb.append(S('pass'))
			body.append(S('for_' + kind, (kv, vv) if kind == 'items' else (kv if kind == 'keys' else vv), self.var_e(v), lb))
		else:
			# while with a dedicated counter
			c = self.fresh('n')
			start = self.gen_int(env, 1, nonneg=True, cap=6)
			body.append(S('assign', E('var', 'int', val=c), start))
			sub = Env(self, env)
			sub.mult, sub.in_loop = env.mult * max(start.hi, 1), True
			sub.vars[c] = Var(c, 'int', 0, start.hi)
			cv = E('var', 'int', val=c, lo=0, hi=start.hi)
			cv.cls = sub.vars[c]
			extra = self.gen_bool(sub, 1) if r.random() < 0.3 else None
			cond: E = E('cmp', 'bool', [cv, E('lit', 'int', val=0)], op=['>'])
			if extra is not None:
				cond = E('bool', 'bool', [cond, self.maybe_paren(extra)], op='and')
			self.count('while')
			lb = [S('aug', E('var', 'int', val=c), E('lit', 'int', val=1, lo=1, hi=1), '-'), *self.loop_body(sub, depth)]
			body.append(S('while', cond, lb))

	def order_free(self, e: E) -> bool:
		return True

	def freeze(self, v: Var) -> Var:
		f = copy.copy(v)
		f.frozen = True
		return f

	def loop_body(self, env: Env, depth: int, allow_continue: bool = True) -> list[S]:
		r = self.r
		body: list[S] = []
		for _ in range(r.randint(1, 3)):
			x = r.random()
			if x < 0.15 and depth > 0:
				kind = r.choice(['break', 'continue']) if allow_continue else 'break'
				self.count(kind)
				body.append(S('if', [(self.gen_bool(env, self.size), [S(kind)])], None))
			else:
				self.gen_stmt(env, body, depth - 1, None)
		self.release(env)
		return body

	# ------------------------------------------------------------------ functions / classes

	def gen_params(self, kinds: list[str]) -> list[tuple[str, str, int, int]]:
		out = []
		for ty in kinds:
			n = self.fresh('a' if ty == 'int' else 'p' if ty == 'bool' else 's' if ty == 'str' else 'f')
			lo, hi = (0, 0)
			if ty == 'int':
				lo, hi = self.r.choice([(0, 20), (-20, 20), (0, 255), (-100, 100), (0, 7)])
			if ty == 'str':
				lo, hi = 0, 6
			if ty == 'float':
				lo, hi = 0, 16
			out.append((n, ty, lo, hi))
		return out

	def env_of(self, params: list[tuple[str, str, int, int]]) -> Env:
		env = Env(self)
		for n, ty, lo, hi in params:
			env.vars[n] = Var(n, ty, lo, hi, fe=2 if ty == 'float' else 0)
		return env

	def gen_expr_func(self, name: str) -> Func:
		"""def f(a, b, c, p, q[, s]) -> T: return <expr>  — operator coverage"""
		r = self.r
		params = self.gen_params(['int', 'int', 'int', 'bool', 'bool'] + (['str'] if r.random() < 0.3 else []) + (['float'] if r.random() < 0.2 else []))
		env = self.env_of(params)
		ret = r.choice(['int', 'int', 'bool', 'bool', 'bool', 'str', 'float'])
		if ret == 'str' and not env.of('str'):
			ret = 'bool'
		e = self.gen(ret, env, self.size + 2)
		f = Func(name, params, ret, [S('return', e)])
		f.rlo, f.rhi = e.lo, e.hi
		return f

	def gen_stmt_func(self, name: str, helper: bool = False) -> Func:
		r = self.r
		kinds = [r.choice(['int', 'int', 'int', 'bool', 'str', 'float']) for _ in range(r.randint(1, 4))]
		params = self.gen_params(kinds)
		env = self.env_of(params)
		ret = r.choice(['int', 'int', 'int', 'bool', 'str'] + ([] if helper else ['list[int]', 'dict', 'tuple', 'obj', 'float']))
		body: list[S] = []
		self.cur_raises = False
		self.dead = {}
		for _ in range(r.randint(1, 2)):
			self.declare(env, body)
		if r.random() < 0.3:
			self.gen_scope_idiom(env, body)
		if r.random() < 0.3:
			# closure: captures parameters / never-reassigned locals only (C++ captures by value at definition time)
			cparams = self.gen_params([r.choice(['int', 'int', 'bool'])])
			cenv = self.env_of(cparams)
			for v in env.vars.values():
				if not v.mutable and v.ty in ('int', 'bool', 'str', 'float'):
					cenv.vars[v.name] = v
			cret = r.choice(['int', 'bool'])
			ce = self.gen(cret, cenv, self.size)
			cf = Func(self.fresh('inner'), cparams, cret, [S('return', ce)])
			cf.rlo, cf.rhi = ce.lo, ce.hi
			body.append(S('def', cf))
			env.closures.append(cf)
			self.count('closure')
		for _ in range(r.randint(2, 3 + self.size)):
			self.gen_stmt(env, body, 2, ret if ret in ('int', 'bool', 'str', 'float') else None)
		f = Func(name, params, ret, body)
		if ret in ('int', 'bool', 'str', 'float'):
			e = self.gen(ret, env, self.size)
			f.rlo, f.rhi = e.lo, e.hi   # refined by int_summary (hull over all return statements)
		elif ret == 'list[int]':
			vs = env.of('list[int]')
			if not vs:
				vs = [self.declare(env, body, 'list[int]')]
			e = self.var_e(r.choice(vs))
		elif ret == 'dict':
			vs = [v for v in env.vars.values() if v.ty.startswith('dict')]
			if not vs:
				vs = [self.declare(env, body, 'dict[str,int]')]
			v = r.choice(vs)
			f.ret = v.ty.replace(',', ', ')
			e = self.var_e(v)
		elif ret == 'tuple':
			a, b = self.gen_int(env, 1), self.gen_bool(env, 1)
			c = self.gen_str(env, 1)
			f.ret = 'tuple[int, bool, str]'
			e = E('tuple', f.ret, [a, b, c])
			self.count('return:tuple')
		else:
			vs = [v for v in env.vars.values() if v.cls is not None and v.ty == v.cls.name]
			if not vs:
				if not self.prog.classes:
					f.ret = 'int'
					e = self.gen_int(env, 1)
				else:
					vs = [self.declare(env, body, 'obj')]
			if vs:
				v = r.choice(vs)
				f.ret = v.ty
				e = self.var_e(v)
				self.count('return:object')
		f.raises = self.cur_raises
		body.append(S('return', e))
		return f

	def int_summary(self, f: Func) -> None:
		"""sound interval of an int-returning helper = hull over all its return expressions"""
		los, his = [], []

		def rec(body: list[S]) -> None:
			for s in body:
				if s.k == 'return' and s.a.ty == 'int':
					los.append(s.a.lo)
					his.append(s.a.hi)
				elif s.k == 'if':
					for _, b in s.a:
						rec(b)
					if s.b:
						rec(s.b)
				elif s.k in ('while',):
					rec(s.b)
				elif s.k.startswith('for_'):
					rec(s.c)
				elif s.k == 'try':
					rec(s.a)
					rec(s.b)
		rec(f.body)
		if los:
			f.rlo, f.rhi = min(los), max(his)

	def gen_class(self, name: str, base: Cls | None = None) -> Cls:
		r = self.r
		nf = r.randint(1, 3)
		fields = [(self.fresh('fld'), r.choice(['int', 'int', 'bool', 'str'])) for _ in range(nf)]
		params = self.gen_params(['int' for _ in range(r.randint(1, 2))])
		params = [(n, ty, 0, 100) for n, ty, _, _ in params]
		env = self.env_of(params)
		body: list[S] = []
		if base is not None:
			args = [self.gen_int(env, 0, nonneg=True, cap=100) for _ in base.ctor.params]
			args = [a if 0 <= a.lo and a.hi <= 100 else self.lit_int(0, 9) for a in args]
			body.append(S('expr', E('meth', 'None', [E('call', 'obj', [], val='super'), *args], val='__init__')))
		selfv = E('var', name, val='self')
		for fn, ty in fields:
			e = self.gen_int(env, 1, nonneg=True, cap=CORE) if ty == 'int' else self.gen(ty, env, 1)
			body.append(S('assign', E('attr', ty, [selfv], val=fn), e))
		ctor = Func('__init__', params, 'None', body)
		cls = Cls(name, fields, ctor, [], base.name if base else None)
		# methods: getters (pure), one budgeted mutator, optionally property / classmethod
		fenv = Env(self)
		allf = [*(self.all_fields(base) if base else []), *fields]

		def field_expr_env(extra: list[tuple[str, str, int, int]]) -> Env:
			e2 = self.env_of(extra)
			return e2

		int_fields = [n for n, ty in allf if ty == 'int']
		for _ in range(r.randint(1, 2)):
			mp = self.gen_params(['int'] if r.random() < 0.5 else [])
			menv = field_expr_env(mp)
			ret = r.choice(['int', 'bool'])
			# fields are read as budgeted non-negative ints
			for n, ty in allf:
				pseudo = f'self.{n}'
				menv.vars[pseudo] = Var(pseudo, ty, 0, BUD, mutable=(ty == 'int'), nonneg=True) if ty == 'int' else Var(pseudo, ty, 0, 8)
				menv.vars[pseudo].room = 0
				menv.vars[pseudo].frozen = True
			e = self.gen(ret, menv, self.size)
			m = Func(self.fresh('get'), mp, ret, [S('return', e)])
			m.rlo, m.rhi = e.lo, e.hi
			if not mp and r.random() < 0.4:
				m.decor = 'property'
				self.count('method:property')
			self.count('method:getter')
			cls.methods.append(m)
		if int_fields:
			fn = r.choice(int_fields)
			mp = [(self.fresh('a'), 'int', 0, 50)]
			tgt = E('attr', 'int', [selfv], val=fn)
			if r.random() < 0.5:
				mb = [S('aug', tgt, E('var', 'int', val=mp[0][0], lo=0, hi=50), '+')]
			else:
				rd = E('attr', 'int', [selfv], val=fn, lo=0, hi=BUD)
				mb = [S('assign', tgt, E('bin', 'int', [E('bin', 'int', [rd, E('var', 'int', val=mp[0][0], lo=0, hi=50)], op='+', lo=0, hi=BUD + 50), self.lit_int(100, 999)], op='%', lo=0, hi=999))]
			mut = Func(self.fresh('bump'), mp, 'None', mb)
			cls.methods.append(mut)
		if base is None and r.random() < 0.4:
			mp = [(self.fresh('a'), 'int', 0, 50)]
			args = [E('var', 'int', val=mp[0][0], lo=0, hi=50) if i == 0 else self.lit_int(0, 9) for i, _ in enumerate(params)]
			mk = Func(self.fresh('make'), mp, name, [S('return', E('call', name, args, val='cls'))])
			mk.decor = 'classmethod'
			self.count('method:classmethod')
			cls.methods.append(mk)
		if r.random() < 0.4:
			# methods NAMED like the dict views (`keys` / `values` / `items`) on a user class, returning lists: a for loop over them is an
			# ordinary loop over the returned list, only a dict receiver makes it a dict loop (`for (auto& [k, v] : d)`)
			def small() -> E:
				return self.lit_int(0, 9)
			views = r.sample(['keys', 'values', 'items'], r.randint(1, 3))
			for vn in views:
				n = r.randint(1, 3)
				if vn == 'items':
					elems = [E('tuple', 'tuple[int,int]', [small(), small()]) for _ in range(n)]
					m = Func('items', [], 'list[tuple[int, int]]', [S('return', E('list', 'list[tuple[int, int]]', elems))])
				else:
					elems = [small() for _ in range(n)]
					m = Func(vn, [], 'list[int]', [S('return', E('list', 'list[int]', elems))])
				m.view = (vn, n)  # type: ignore[attr-defined]
				self.count(f'method:named-{vn}')
				cls.methods.append(m)
			if r.random() < 0.6:
				# `self.values()` inside the class
				vn = r.choice(views)
				acc, x1, x2 = self.fresh('t'), self.fresh('x'), self.fresh('y')
				tgt = E('var', 'int', val=acc)
				if vn == 'items':
					loop = S('for_items', (x1, x2), selfv, [S('aug', tgt, E('bin', 'int', [E('var', 'int', val=x1, lo=0, hi=9), E('var', 'int', val=x2, lo=0, hi=9)], op='*', lo=0, hi=81), '+')])
					hi = 81 * 3
				else:
					loop = S('for_' + vn, x1, selfv, [S('aug', tgt, E('var', 'int', val=x1, lo=0, hi=9), '+')])
					hi = 27
				tot = Func(self.fresh('get'), [], 'int', [S('assign', tgt, E('lit', 'int', val=0, lo=0, hi=0)), loop, S('return', E('var', 'int', val=acc, lo=0, hi=hi))])
				tot.rlo, tot.rhi = 0, hi
				self.count('for:self-view-method')
				cls.methods.append(tot)
		if r.random() < 0.35:
			# a method returning a new instance of its own class: makes `C(..).dup(..)` call chains on constructor results possible
			# (dbbf835: only a whole-value constructor call may be emitted as the initializer `C x{..}`)
			mp = [(self.fresh('a'), 'int', 0, 50)] if r.random() < 0.6 else []
			args = [E('var', 'int', val=mp[0][0], lo=0, hi=50) if i == 0 and mp else self.lit_int(0, 9) for i, _ in enumerate(params)]
			dup = Func(self.fresh('dup'), mp, name, [S('return', E('new', name, args, val=name))])
			dup.chain = True  # type: ignore[attr-defined]
			self.count('method:returns-own-class')
			cls.methods.append(dup)
		return cls

	def gen_enum(self) -> None:
		"""an Enum whose member values are int literals or unparenthesised constant expressions (distinct values: no aliases)"""
		r = self.r
		members: list[tuple[str, str, int]] = []
		seen: set[int] = set()
		for i in range(r.randint(2, 4)):
			for _ in range(8):
				x = r.random()
				a, b = r.randint(1, 9), r.randint(1, 9)
				src = str(r.randint(0, 20)) if x < 0.35 else r.choice([f'{a} + {b}', f'{a + b} - {b}', f'{a} | {b}', f'{a} * {b}', f'-{a}', f'{a} << {b % 3}', f'{a} + {b} * 2', f'{a} & {b + 8}',
					# expressions that FOLD to a negative constant (no sign in front of the declaration as a whole)
					f'{a} - {a + b}', f'-({a})', f'{a} - {b} * 4', f'-{a} * {b}'])
				val = int(eval(src))  # noqa: S307 - literal arithmetic built two lines above
				if val not in seen:
					seen.add(val)
					members.append((f'M{i}', src, val))
					break
		if len(members) >= 2:
			self.prog.enums.append(('E' + self.fresh(''), members))
			self.count('enum:class')
			if any(not src.lstrip('-').isdigit() for _, src, _ in members):
				self.count('enum:computed-member')

	# ------------------------------------------------------------------ programs

	def gen_args(self, f: Func) -> list[list[Any]]:
		r = self.r
		vecs = []
		for i in range(8):
			v: list[Any] = []
			for _, ty, lo, hi in f.params:
				if ty == 'int':
					v.append(r.choice([lo, hi, 0 if lo <= 0 <= hi else lo]) if i < 2 and r.random() < 0.6 else r.randint(lo, hi))
				elif ty == 'bool':
					v.append(r.random() < 0.5)
				elif ty == 'str':
					v.append(''.join(r.choice('abxyz019 _') for _ in range(r.randint(lo, hi))))
				else:
					v.append(r.randint(-4 * hi, 4 * hi) / 4.0)
			vecs.append(v)
		return vecs

	def program(self, kind: str | None = None) -> Prog:
		r = self.r
		p = self.prog
		kind = kind or r.choice(['expr', 'expr', 'stmt', 'stmt', 'class'])
		if kind == 'class':
			c1 = self.gen_class('C' + self.fresh(''))
			p.classes.append(c1)
			if r.random() < 0.4:
				p.classes.append(self.gen_class('D' + self.fresh(''), c1))
				self.count('class:inherit')
		if r.random() < (0.25 if kind == 'expr' else 0.4):
			self.gen_enum()
		if kind != 'expr' and r.random() < 0.6:
			h = self.gen_stmt_func(self.fresh('h'), helper=True) if r.random() < 0.5 else self.gen_expr_func(self.fresh('h'))
			h.entry = False
			self.int_summary(h)
			if h.params[-1][1] == 'int' and r.random() < 0.5:
				lo, hi = h.params[-1][2], h.params[-1][3]
				h.default = (h.params[-1][0], r.randint(lo, hi))
				self.count('default-arg')
			p.funcs.append(h)
			self.helpers.append(h)
		for _ in range(r.randint(1, 4) if kind == 'expr' else r.randint(1, 2)):
			f = self.gen_expr_func(self.fresh('f')) if kind == 'expr' or r.random() < 0.25 else self.gen_stmt_func(self.fresh('f'))
			p.funcs.append(f)
		for f in p.funcs:
			p.args[f.name] = self.gen_args(f)
		return p


PROBE_WHAT = {
	'reject:lambda-var': 'a lambda assigned to a variable is rejected by Py2Cpp (Errors.Fatal <- AssertionError "Not allowed convertion ... MoveAssign")',
	'reject:enum-var-value': '`e.value` on a variable of an Enum type is rejected by Py2Cpp (Errors.Fatal <- IndexError in on_relay)',
	'cxx:tuple-literal-destructuring': '`x, y = (a, b)` is emitted as `auto [x, y] = {a, b};` (structured binding of an initializer_list): g++ rejects',
	'cxx:raise-exception': '`raise Exception(msg)` is emitted as `throw std::exception(std::format(..))`: std::exception has no such constructor (MSVC extension)',
	'cxx:str-literal-operand': 'string literals stay `const char*`: `\'a\' + \'b\'`, `len(\'ab\')`, `\'ab\'.startswith(..)` do not compile',
	'cxx:str-index-char': '`s[i]` is emitted as `s[i]` (a `char`) where Python has a str: returning/concatenating/comparing it as a string does not compile',
	'cxx:str-repeat': '`s * n` is emitted as `s * n`: no such operator on std::string',
	'cxx:unmapped-method': 'list/str/dict methods without a C++ mapping are passed through under their Python or provisional (data/i18n.yml FIXME) name: '
		'sort/reverse/index/remove, count/split/upper/lower/replace/strip/join, update — g++ rejects',
	'ub:negative-index': '`xs[-1]` is emitted verbatim: out-of-bounds access in C++ (aborts under -D_GLIBCXX_ASSERTIONS)',
	'range:args-reevaluated': '`for i in range(n): ... n += 1` / `for i in range(len(xs)): xs.append(..)`: Python evaluates the range() arguments once, the emitted '
		'`for (auto i = 0; i < n; i += 1)` re-evaluates stop (and step) on every iteration: the trip count differs when the body changes what they read',
	'range:loopvar-shadowed': '`i = 5; for i in range(n): ...; return i`: Python rebinds the one function-level `i`; the emitted `for (auto i = 0; ...)` always declares a new `i` '
		'that shadows the outer one, which keeps its old value after the loop (also when `i` is a parameter)',
	'range:loopvar-assigned': '`for i in range(n): i = i + 1; ...`: Python takes the next value of the range on every iteration whatever the body did to `i`; the emitted '
		'C-style loop continues from the value the body left (iterations are skipped)',
	'comp:enumerate-index': '`[.. for i, x in enumerate(xs)]` (list / dict comprehension over enumerate): comp/comp_for_enumerate.j2 emits '
		'`for (auto [i, __iter, __end, x] = std::tuple{0, xs.begin(), xs.end(), *(xs.begin())}; __iter < __end; __iter++, x = *__iter)` — the index `i` '
		'is never incremented (it is 0 in every iteration), and the last step dereferences end() (an empty list dereferences begin())',
	'reject:init-block-value': 'a constructor field initialised with a value whose C++ text contains `;` — a list / dict comprehension or a list slice (rendered as '
		'an immediately invoked lambda block): `self.ys: list[int] = [x + n for x in xs]` — is rejected: Errors.Fatal <- AssertionError in '
		'CppViewHelper.Initializer.parse (the field assignments are re-parsed from their rendered text with `this->(\\w+) = ([^;]+);`)',
	'cxx:init-reads-local': 'a constructor that computes a local before assigning a field from it (`t = n * 2; self.k: int = t + 1`): every field assignment is moved into '
		'the member initialiser list (`A(int n) : k(t + 1) { int t = n * 2; }`), ahead of the statements it depends on: g++ rejects (`t` was not declared)',
	'reject:multiline-receiver': 'a method call or a dict-view loop whose receiver is rendered on several lines — a list / dict literal or a comprehension: `[v, n, 3].pop()`, '
		'`[x + 1 for x in xs].copy()`, `{1: v, 2: n}.get(n, 7)`, `for k, x in {1: v}.items():` — is rejected: Errors.Fatal <- AttributeError (NoneType has no attribute group): '
		'PatternParser.break_relay / break_dict_iterator match the rendered call with `(.+)(->|::|\\.)\\w+$`, and `.` does not match a newline',
	'copy:chain-aliases': '`xs.copy().pop()` / `d.copy().pop(k)`: func_call/list_copy.j2 and dict_copy.j2 render `.copy()` as the bare receiver (the copy is left to a by-value '
		'declaration), so inside a call chain no copy exists and the mutating method works on the original (python [3,3], c++ [3,2])',
	'cxx:list-literal-operand': 'a list literal used as an operand — `n in [1, 2, v]`, `[v, n, 3][i]` — is emitted as a bare brace list (`std::find({..}.begin(), ..)`, `{..}[i]`): '
		'g++ rejects (a braced-init-list is not an expression)',
	'cxx:list-extend-nonliteral': '`xs.extend(ys)` with a list VARIABLE (or a comprehension / call result) is emitted `xs.insert(xs.end(), ys);` (func_call/list_extend.j2): '
		'std::vector has no such overload, g++ rejects; only a list LITERAL argument (an initializer list) compiles',
	'comp:range-begin-step': 'a list / dict comprehension over `range(begin, stop[, step])`: comp/comp_for_range.j2 pastes the whole argument text as the size '
		'(`auto x = 0; x < 1, n; x++`): begin and step are ignored and the loop test is a comma expression (its value is `n`: an endless loop for n != 0); '
		'only the one-argument form is right',
	'enumerate:continue-skips-index': '`for i, x in enumerate(xs): if ..: continue; ..`: flow/for/enumerate.j2 emits `int i = 0; for (auto& x : xs) { ..; i++; }` — the '
		'increment is the LAST statement of the body, a `continue` skips it and the index lags behind (python [65], c++ [45])',
	'enumerate:index-redeclared': 'two `for i, x in enumerate(..)` loops with the same index name in one function: flow/for/enumerate.j2 declares `int i = 0;` in the '
		'enclosing block for each of them: g++ rejects the redeclaration (valid Python; VarsCollector is not consulted for the index)',
	'reject:dict-comp-angle-key': 'a dict comprehension whose KEY expression contains `<` / `<<` (`{x << 1: x for x in xs}`, `{x < n: x for ..}`) is rejected: '
		'Errors.Fatal <- ValueError in on_dict_comp — the rendered projection `{key, value}` is split with BlockParser.break_separator, which reads `<` as an '
		'opening bracket (the defect repaired for range() arguments by ed1a7d7, still present here)',
	'str:rfind-any-char': '`s.rfind(t)` is mapped to `s.find_last_of(t)` (data/i18n.yml `str.rfind: find_last_of`): std::string::find_last_of finds the last '
		'occurrence of ANY CHARACTER of t, not of the substring t (`\'abxa\'.rfind(\'ab\')`: python 0, c++ 3); the substring search is std::string::rfind',
	'reject:block-scoped-name': 'a name first assigned inside a nested block (both if/else branches, a while/for body, the for variable) and read after the block '
		'is valid Python (function-level scope) but is rejected: Errors.UnresolvedSymbol at the read, and Errors.Fatal <- RecursionError when the read is in `v = v + 1` '
		'(the scope condition of C01.stmt_agree; the emitter never hoists a declaration)',
}


def probe_program(rng: random.Random, key: str | None = None) -> tuple[str, dict[str, Any]]:
	"""A tiny program around ONE construct tranp is known to mishandle (each has its own finding key), with randomised operands.
	They are kept out of the ordinary generated programs so that a known defect never hides another failure of the same program."""
	g = Gen(rng, 1)
	key = key or rng.choice(sorted(PROBE_WHAT))
	params = g.gen_params(['int', 'int']) + [('s', 'str', 1, 5)]
	a, b = params[0][0], params[1][0]
	env = g.env_of(params[:2])
	sig = ', '.join(f'{n}: {t}' for n, t, _, _ in params)
	e1, e2 = pe(g.gen_int(env, 1, cap=500)), pe(g.gen_int(env, 1, cap=500))
	cond = pe(g.gen_bool(env, 1))
	lit = ''.join(rng.choice('abxy') for _ in range(rng.randint(1, 3)))
	ret = 'int'
	pre = ''
	if key == 'reject:lambda-var':
		body = f'\tg = lambda z: z + {e1}\n\treturn g({b}) - {e2}\n'
	elif key == 'reject:enum-var-value':
		pre = f'from enum import Enum\n\n\nclass K(Enum):\n\tP = {rng.randint(0, 4)}\n\tQ = {rng.randint(5, 9)}\n\n\n'
		body = f'\te = K.P if {cond} else K.Q\n\treturn e.value + {e1}\n'
	elif key == 'cxx:tuple-literal-destructuring':
		body = f'\tx, y = ({e1}, {e2})\n\treturn x - y\n'
	elif key == 'cxx:raise-exception':
		body = f"\tif {cond}:\n\t\traise Exception('{lit}')\n\treturn {e1}\n"
	elif key == 'cxx:str-literal-operand':
		body = rng.choice([f"\tt = '{lit}' + '{lit[::-1]}' + s\n\treturn len(t) + {e1}\n", f"\treturn len('{lit}') + {e1}\n",
			f"\tif '{lit}x'.startswith('{lit[:1]}'):\n\t\treturn {e1}\n\treturn {e2}\n"])
	elif key == 'cxx:str-index-char':
		ret = 'str'
		body = rng.choice([f"\treturn s[0] + '{lit}'\n", '\treturn s[0]\n', f"\tif s[0] == '{lit[:1]}':\n\t\treturn s\n\treturn '{lit}'\n"])
	elif key == 'cxx:str-repeat':
		ret = 'str'
		body = f"\treturn s * {rng.randint(0, 3)} + '{lit}'\n"
	elif key == 'cxx:unmapped-method':
		m = rng.choice(['sort', 'reverse', 'index', 'remove', 'count', 'split', 'upper', 'lower', 'replace', 'strip', 'join', 'update'])
		if m in ('sort', 'reverse'):
			body = f'\txs = [{e1}, {e2}, {a}]\n\txs.{m}()\n\treturn xs[0] - xs[2]\n'
		elif m == 'index':
			body = f'\txs = [{e1}, {e2}, {a}]\n\treturn xs.index({a}) + {b}\n'
		elif m == 'remove':
			body = f'\txs = [{e1}, {e2}, {a}]\n\txs.remove({a})\n\treturn len(xs) + xs[0]\n'
		elif m == 'count':
			body = f"\treturn s.count('{lit[:1]}') + {e1}\n"
		elif m == 'split':
			body = f"\treturn len(s.split('{lit[:1]}')) + {e1}\n"
		elif m == 'join':
			body = f"\treturn len('{lit[:1]}'.join([s, s])) + {e1}\n"
		elif m == 'update':
			body = f"\td = {{'k': {e1}}}\n\td.update({{'j': {e2}}})\n\treturn d['j'] + len(d)\n"
		else:
			ret = 'str'
			args = {'upper': '', 'lower': '', 'replace': f"'{lit[:1]}', 'zz'", 'strip': f"'{lit[:1]}'"}[m]
			body = f"\treturn s.{m}({args}) + '{lit}'\n"
	elif key == 'range:args-reevaluated':
		lim = rng.randint(6, 9)
		body = rng.choice([
			f'\tn = {rng.randint(1, 3)}\n\tt = 0\n\tfor i in range(n):\n\t\tif n < {lim}:\n\t\t\tn += 1\n\t\tt += i + {e1}\n\treturn t * 100 + n\n',
			f'\txs = [{e1}, {e2}]\n\tt = 0\n\tfor i in range(len(xs)):\n\t\tif len(xs) < {lim}:\n\t\t\txs.append(i)\n\t\tt += 1\n\treturn t * 100 + len(xs)\n',
			f'\tn = {rng.randint(2, 4)}\n\tt = 0\n\tfor i in range(0, n + 1, 1):\n\t\tn -= 1\n\t\tt += 1\n\treturn t * 100 + n + {e1}\n',
		])
	elif key == 'range:loopvar-shadowed':
		n = rng.randint(2, 5)
		body = rng.choice([
			f'\ti = {rng.randint(7, 9)}\n\tt = 0\n\tfor i in range({n}):\n\t\tt += i + {e1}\n\treturn t * 100 + i\n',
			f'\tt = 0\n\tfor {a} in range({n}):\n\t\tt += {a}\n\treturn t * 100 + {a} + 50\n',
			f'\ti = {rng.randint(7, 9)}\n\tfor i in range(1, {n}, 2):\n\t\tpass\n\treturn i + {e1}\n',
		])
	elif key == 'range:loopvar-assigned':
		n = rng.randint(3, 6)
		body = rng.choice([
			f'\tt = 0\n\tfor i in range({n}):\n\t\ti = i + 1\n\t\tt += i\n\treturn t + {e1}\n',
			f'\tt = 0\n\tfor i in range({n}):\n\t\tif i % 2 == 0:\n\t\t\ti += 2\n\t\tt += i\n\treturn t + {e1}\n',
		])
	elif key == 'comp:enumerate-index':
		k = rng.randint(1, 4)
		body = rng.choice([
			f'\txs = [{e1}, {e2}, {a}, {b}]\n\tys = [x + i * {k} for i, x in enumerate(xs)]\n\treturn ys[1] + ys[2] * 3 + ys[3]\n',
			f'\txs = [{e1}, {e2}, {a}]\n\tt = 0\n\tfor y in [i + {k} for i, x in enumerate(xs)]:\n\t\tt = t * 10 + y\n\treturn t\n',
			f'\txs = [{e1}, {e2}, {a}]\n\td = {{i: x for i, x in enumerate(xs)}}\n\treturn len(d) * 1000 + d[0]\n',
		])
	elif key in ('reject:init-block-value', 'cxx:init-reads-local'):
		if key == 'reject:init-block-value':
			fty, val = rng.choice([('list[int]', f'[x + n * {rng.randint(1, 3)} for x in xs]'), ('list[int]', f'[x for x in xs if x > n]'), ('list[int]', f'xs[1:{rng.randint(2, 3)}]'),
				('dict[int, int]', f'{{x: x + n for x in xs}}')])
			init = f'\t\tself.n: int = n\n\t\tself.ys: {fty} = {val}\n'
			fields = f'\tn: int\n\tys: {fty}\n'
			use = 'len(o.ys) * 100 + o.n'
		else:
			init = f'\t\tt = n * {rng.randint(2, 5)} + {rng.randint(0, 9)}\n\t\tself.k: int = t + {rng.randint(1, 9)}\n\t\tself.n: int = n\n'
			fields = '\tk: int\n\tn: int\n'
			use = 'o.k * 10 + o.n'
		pre = f'class Box:\n{fields}\n\tdef __init__(self, n: int, xs: list[int]) -> None:\n{init}\n\n'
		body = f'\to = Box({a} & 15, [{e1}, {b}, {rng.randint(0, 9)}, {a}])\n\treturn {use}\n'
	elif key == 'reject:multiline-receiver':
		body = rng.choice([
			f'\tv = [{e1}, {a}, {rng.randint(0, 9)}].pop()\n\treturn v + {b}\n',
			f'\txs = [{e1}, {a}]\n\tys = [x + {rng.randint(1, 5)} for x in xs].copy()\n\treturn ys[0] + len(ys)\n',
			f'\tv = {{1: {a}, 2: {e1}}}.get({b} & 3, {rng.randint(0, 9)})\n\treturn v\n',
			f'\tt = 0\n\tfor k, x in {{1: {a}, 2: {e1}}}.items():\n\t\tt += k * x\n\treturn t\n',
		])
	elif key == 'copy:chain-aliases':
		body = rng.choice([
			f'\txs = [{e1}, {a}, {b}]\n\tv = xs.copy().pop()\n\treturn v * 10 + len(xs)\n',
			f'\td = {{1: {a}, 2: {e1}}}\n\tv = d.copy().pop({rng.randint(1, 2)})\n\treturn v * 10 + len(d)\n',
		])
	elif key == 'cxx:list-literal-operand':
		body = rng.choice([
			f'\treturn 1 if {a} in [{rng.randint(0, 9)}, {b}, {e1}] else 0\n',
			f'\treturn [{e1}, {a}, {b}][{a} & 1] + {rng.randint(0, 9)}\n',
		])
	elif key == 'cxx:list-extend-nonliteral':
		arg = rng.choice(['ys', 'ys', f'[y + {rng.randint(1, 5)} for y in ys]'])
		body = f'\txs = [{e1}, {a}]\n\tys = [{b}, {e2}, {rng.randint(0, 9)}]\n\txs.extend({arg})\n\tt = len(xs) * 1000\n\tfor x in xs:\n\t\tt += x & 15\n\treturn t\n'
	elif key == 'comp:range-begin-step':
		rargs = rng.choice([f'{rng.randint(1, 3)}, ({a} & 7) + 4', f'0, ({a} & 7) + 2, {rng.randint(2, 3)}', f'{b} & 3, ({a} & 7) + 5', f'1, 9, ({b} & 1) + 1'])
		body = rng.choice([
			f'\tys = [x * {rng.randint(1, 4)} + 1 for x in range({rargs})]\n\tt = len(ys) * 1000\n\tfor y in ys:\n\t\tt += y\n\treturn t\n',
			f'\td = {{x: x + {rng.randint(1, 9)} for x in range({rargs})}}\n\tt = len(d) * 1000\n\tfor k, y in d.items():\n\t\tt += k * y\n\treturn t\n',
		])
	elif key == 'enumerate:continue-skips-index':
		skip = rng.choice([f'x == {a}', f'i == {rng.randint(0, 1)}', f'x > {b}', f'(x + i) % 2 == 0'])
		body = (f'\txs = [{e1}, {a}, {e2}, {b}, {rng.randint(0, 9)}]\n\tt = 0\n\tfor i, x in enumerate(xs):\n\t\tif {skip}:\n\t\t\tcontinue\n'
			f'\t\tt += (i + 1) * 1000 + (x & 15)\n\treturn t\n')
	elif key == 'enumerate:index-redeclared':
		body = (f'\txs = [{e1}, {a}, {b}]\n\tt = 0\n\tfor i, x in enumerate(xs):\n\t\tt += i * {rng.randint(1, 5)} + (x & 7)\n'
			f'\tfor i, y in enumerate(xs):\n\t\tt += i + (y & {rng.randint(1, 7)})\n\treturn t\n')
	elif key == 'reject:dict-comp-angle-key':
		kexpr = rng.choice([f'x << {rng.randint(1, 3)}', f'(x & 7) << 1', f'x < {a}', f'{rng.randint(1, 4)} << (x & 1)'])
		body = f'\txs = [{e1}, {e2}, {a}]\n\tw = {{{kexpr}: x for x in xs}}\n\tt = 0\n\tfor k, x in w.items():\n\t\tt += x\n\treturn t + len(w) * 1000\n'
	elif key == 'str:rfind-any-char':
		c1, c2 = rng.sample('abxy', 2)
		body = f"\tu = '{c1}{c2}'\n\tk = s.rfind(u)\n\treturn k * 10 + {rng.randint(0, 9)}\n"
	elif key == 'reject:block-scoped-name':
		v = rng.choice(['v', 'w', 'acc'])
		use = rng.choice([f'\treturn {v} + {e2}\n', f'\t{v} = {v} + {e2}\n\treturn {v}\n'])
		body = rng.choice([
			f'\tif {cond}:\n\t\t{v} = {e1}\n\telse:\n\t\t{v} = {rng.randint(0, 9)}\n',
			f'\ti = 0\n\twhile i < {rng.randint(1, 3)}:\n\t\t{v} = i + {e1}\n\t\ti = i + 1\n',
			f'\tfor i in range({rng.randint(1, 3)}):\n\t\t{v} = i + {e1}\n',
			f'\tif {cond}:\n\t\t{v} = {e1}\n\telif {a} > {b}:\n\t\t{v} = {a}\n\telse:\n\t\t{v} = {b}\n',
		]) + use
	else:
		k = rng.randint(1, 3)
		body = f'\txs = [{e1}, {e2}, {a}]\n\treturn xs[-{k}] + {b}\n'
	source = f'{pre}def f({sig}) -> {ret}:\n{body}'
	f = Func('f', params, ret, [])
	args = g.gen_args(f)
	for v in args:
		v[2] = ''.join(rng.choice('abxy ') for _ in range(rng.randint(1, 5)))
		if key == 'str:rfind-any-char':
			# the substring occurs once, one of its characters occurs again behind it
			v[2] = ''.join(rng.choice('z ') for _ in range(rng.randint(0, 3))) + c1 + c2 + rng.choice(['z', ' ', 'zz']) + rng.choice([c1, c2])
	return key, {'source': source, 'entries': [{'fn': 'f', 'params': [t for _, t, _, _ in params], 'ret': ret, 'args': args}], 'classes': {}}


# ---------------------------------------------------------------------------------------------
# forced operator pairs for the SEARCH (the emit stream forces the same pairs on the model side)

# (python operator, operand type, result type, python precedence level)
PAIR_BIN = [('or', 'bool', 'bool', L_OR), ('and', 'bool', 'bool', L_AND),
	*[(o, 'int', 'bool', L_CMP) for o in ('<', '>', '<=', '>=', '==', '!=')], ('==', 'bool', 'bool', L_CMP), ('!=', 'bool', 'bool', L_CMP),
	('|', 'int', 'int', L_BOR), ('^', 'int', 'int', L_BXOR), ('&', 'int', 'int', L_BAND),
	('|', 'bool', 'bool', L_BOR), ('&', 'bool', 'bool', L_BAND),   # bool ^ bool is rejected by tranp's type inference (no __xor__ on bool: C03's subject)
	('<<', 'int', 'int', L_SHIFT), ('>>', 'int', 'int', L_SHIFT), ('+', 'int', 'int', L_SUM), ('-', 'int', 'int', L_SUM),
	('*', 'int', 'int', L_TERM), ('%', 'int', 'int', L_TERM)]
PAIR_UN = [('-', 'int', 'int', L_UN), ('+', 'int', 'int', L_UN), ('~', 'int', 'int', L_UN), ('not', 'bool', 'bool', L_NOT), ('not', 'int', 'bool', L_NOT)]
PAIR_PARAMS = [('a', 'int'), ('b', 'int'), ('c', 'int'), ('p', 'bool'), ('q', 'bool'), ('r', 'bool')]


def _pair_text(node: Any, need: int = 0) -> str:
	"""minimal parentheses for Python (binary operators are left associative: the right operand needs a strictly higher level)"""
	if isinstance(node, str):
		return node
	if node[0] == 'un':
		_, op, lv, x = node
		t = ('not ' if op == 'not' else op) + _pair_text(x, lv)
	else:
		_, op, lv, x, y = node
		t = f'{_pair_text(x, lv)} {op} {_pair_text(y, lv + 1)}'
	return f'({t})' if lv < need else t


def _pair_full(node: Any) -> str:
	if isinstance(node, str):
		return node
	if node[0] == 'un':
		return f"({'not ' if node[1] == 'not' else node[1]}{_pair_full(node[3])})"
	return f'({_pair_full(node[3])} {node[1]} {_pair_full(node[4])})'


def pair_cases(rng: random.Random) -> list[dict[str, Any]]:
	"""every parent x child operator pair (unary x binary, binary x binary x side, binary x unary on the right) that is well typed,
	as `return <expr>` over int/bool parameters, printed with Python's minimal parentheses (so a child of lower precedence is
	an explicit Group, a child of higher precedence is bare). Each case carries the *other* grouping of the same operator sequence
	and argument vectors on which the two groupings differ: a wrong grouping in the emitted C++ changes a compared value."""
	atoms = {'int': ['a', 'b', 'c'], 'bool': ['p', 'q', 'r']}
	cases: list[dict[str, Any]] = []

	def add(key: str, tree: Any, alt: Any, ret: str) -> None:
		cases.append({'key': key, 'expr': _pair_text(tree), 'full': _pair_full(tree), 'alt': _pair_full(alt), 'ret': ret})

	for cop, cty, cres, clv in PAIR_BIN:
		x, y, z = atoms[cty][0], atoms[cty][1], atoms[cres][2]
		child = ('bin', cop, clv, x, y)
		for uop, uty, ures, ulv in PAIR_UN:
			if uty == cres:
				add(f'pair:{uop}/{cop}:{cty}', ('un', uop, ulv, child), ('bin', cop, clv, ('un', uop, ulv, x), y), ures)
		for pop, pty, pres, plv in PAIR_BIN:
			if pty != cres or (plv == L_CMP and clv == L_CMP):
				continue   # comparison under comparison = a chain when bare (known finding chain-compare)
			add(f'pair:{pop}/{cop}:{cty}:left', ('bin', pop, plv, child, z), ('bin', cop, clv, x, ('bin', pop, plv, y, z)), pres)
			child_r = ('bin', cop, clv, atoms[cty][1], atoms[cty][2])
			z0 = atoms[cres][0]
			add(f'pair:{pop}/{cop}:{cty}:right', ('bin', pop, plv, z0, child_r), ('bin', cop, clv, ('bin', pop, plv, z0, atoms[cty][1]), atoms[cty][2]), pres)
	for pop, pty, pres, plv in PAIR_BIN:
		for uop, uty, ures, ulv in PAIR_UN:
			if ures == pty:
				x, y = atoms[pty][0], atoms[uty][1]
				add(f'pair:{pop}/un{uop}:{uty}:right', ('bin', pop, plv, x, ('un', uop, ulv, y)), ('bin', pop, plv, x, y), pres)
				add(f'pair:{pop}/un{uop}:{uty}:left', ('bin', pop, plv, ('un', uop, ulv, y), x), ('un', uop, ulv, ('bin', pop, plv, y, x)), pres)
	for uop, uty, ures, ulv in PAIR_UN:
		for vop, vty, vres, vlv in PAIR_UN:
			if vres == uty:
				add(f'pair:{uop}/un{vop}:{vty}', ('un', uop, ulv, ('un', vop, vlv, atoms[vty][0])), atoms[vty][0], ures)
	grid = {'int': [0, 1, 2, 3, 4, 5, 6, 7, 9, 12, -1, -2, -5], 'bool': [False, True]}
	for c in cases:
		conv = bool if c['ret'] == 'bool' else int
		good: list[list[Any]] = []
		plain: list[list[Any]] = []
		for _ in range(120):
			v = {n: rng.choice(grid[ty]) for n, ty in PAIR_PARAMS}
			try:
				x1 = conv(eval(c['full'], {}, dict(v)))  # noqa: S307 - operator expression over the six parameters built above
			except (ZeroDivisionError, ValueError, OverflowError):
				continue
			try:
				x2 = conv(eval(c['alt'], {}, dict(v)))  # noqa: S307
			except (ZeroDivisionError, ValueError, OverflowError, TypeError):
				x2 = None
			vec = [v[n] for n, _ in PAIR_PARAMS]
			(good if x2 is not None and x1 != x2 else plain).append(vec)
		c['args'] = (good[:7] + plain[:3])[:10] or [[1, 2, 3, True, False, True]]
		c['distinguishing'] = min(len(good), 7)
	return cases


def pair_programs(rng: random.Random, cases: list[dict[str, Any]], per_program: int = 12) -> list[tuple[list[dict[str, Any]], dict[str, Any]]]:
	sig = ', '.join(f'{n}: {ty}' for n, ty in PAIR_PARAMS)
	out = []
	for i in range(0, len(cases), per_program):
		chunk = cases[i:i + per_program]
		src = '\n\n'.join(f"def f{k}({sig}) -> {c['ret']}:\n\treturn {c['expr']}\n" for k, c in enumerate(chunk))
		entries = [{'fn': f'f{k}', 'params': [ty for _, ty in PAIR_PARAMS], 'ret': c['ret'], 'args': c['args']} for k, c in enumerate(chunk)]
		out.append((chunk, {'source': src, 'entries': entries, 'classes': {}}))
	return out


# ---------------------------------------------------------------------------------------------
# idiom programs: small families with randomised operands that must AGREE (constructs the expression/statement IR does not carry)

IDIOM_WHAT = {
	'idiom:callable-capture': 'a lambda / closure that CALLS a callable held in a local variable or a `Callable[...]` parameter must capture it',
	'idiom:list-fill-field': 'annotated declarations whose value is a list fill (`xs: list[int] = [v] * n`, constructor field `self.xs: list[int] = [v] * n`) '
		'are n copies of v, not the two-element initializer {n, v}',
	'idiom:container-methods': 'list copy / pop / clear / list(..) / del, dict copy / pop / clear / del / list(d.keys()) / list(d.values()), list and dict '
		'comprehensions over dict views and with a condition, statement loops over keys() / values() / items() / enumerate / a list, tuple indexing, nested lists, '
		'a call of a None function: independent copies, '
		'the popped / remaining elements and the aggregated values are Python\'s',
	'idiom:separators-in-subexpressions': 'sub-expressions whose rendered text contains top-level-looking separators — calls with two arguments (also nested), '
		'tuple keys / values, string literals containing `, ` `: ` `{` `}` — as dict-comprehension keys AND values, list-comprehension projections and conditions, '
		'dict literal keys / values and call arguments: the emitted text keeps each sub-expression whole',
	'idiom:inlined-constant-under-prefix': 'an `Enum.MEMBER.value` whose member is declared by a signed literal or by an EXPRESSION folding to a negative / positive constant '
		'(`2 - 5`, `-(3)`, `1 - 2 * 4`, `-2 * 3`) is inlined as text: directly under a prefix operator (`-` `+` `~` `not`), after a binary `-` / `+`, inside products, '
		'shifts and comparisons the emitted tokens never fuse into `--` / `++` and keep Python\'s value',
	'idiom:inferred-operator-type': 'the type inferred for an operator expression with operands of different types (int op float, float op int, flat chains of both) '
		'is the type of Python\'s value whichever operand stands on the left: an un-annotated local, a list literal element, a comprehension projection '
		'and a lambda result declared from it keep the fractional part',
}


def idiom_program(rng: random.Random, key: str | None = None) -> tuple[str, dict[str, Any]]:
	key = key or rng.choice(sorted(IDIOM_WHAT))
	k1, k2, k3 = rng.randint(1, 9), rng.randint(2, 5), rng.randint(0, 9)
	if key == 'idiom:callable-capture':
		inc = rng.choice([f'a + {k1}', f'a * {k2} - {k3}', f'{k1} - a', f'(a & 7) + {k1}'])
		lam = rng.choice(['fn(fn(x))', f'fn(x) + {k3}', f'fn(x + {k1}) * {k2}', f'fn(x) - fn({k3})'])
		clo = rng.choice([f'fn(m) * {k2} + n', f'fn(fn(m)) - n', f'n - fn(m + {k1})'])
		parts = ['from collections.abc import Callable\n', f'def inc(a: int) -> int:\n\treturn {inc}\n']
		parts.append(f'def ap_lambda(fn: Callable[[int], int], n: int) -> int:\n\ttw: Callable[[int], int] = lambda x: {lam}\n\treturn tw(n) + {k3}\n')
		parts.append(f'def ap_closure(fn: Callable[[int], int], n: int) -> int:\n\tdef inner(m: int) -> int:\n\t\treturn {clo}\n\treturn inner(n) + inner({k1})\n')
		local = rng.choice([f'n + k + inc(n)', f'inc(n) * k', f'k - inc(n + {k1})'])
		use = rng.choice(['clo(a) + ap_lambda(add, a)', 'ap_closure(add, a) - clo(a)', 'clo(a) * 2 + ap_closure(inc, a) + ap_lambda(inc, a)'])
		parts.append(f'def scaled(a: int) -> int:\n\tk = {k2}\n\tadd: Callable[[int], int] = lambda n: {local}\n\n\tdef clo(m: int) -> int:\n\t\treturn add(m) * 2 + add({k3})\n\n\treturn {use}\n')
		parts.append('def e_lambda(n: int) -> int:\n\treturn ap_lambda(inc, n)\n')
		parts.append('def e_closure(n: int) -> int:\n\treturn ap_closure(inc, n)\n')
		args = [[rng.randint(-9, 20)] for _ in range(5)]
		entries = [{'fn': f, 'params': ['int'], 'ret': 'int', 'args': args} for f in ('e_lambda', 'e_closure', 'scaled')]
		return key, {'source': '\n\n'.join(parts), 'entries': entries, 'classes': {}}
	if key == 'idiom:inferred-operator-type':
		return key, _mixed_type_program(rng)
	if key == 'idiom:container-methods':
		return key, _container_methods_program(rng)
	if key == 'idiom:separators-in-subexpressions':
		return key, _separators_program(rng)
	if key == 'idiom:inlined-constant-under-prefix':
		return key, _inlined_constant_program(rng)
	elem = rng.choice([str(k3), 'v', f'v + {k1}', f'v * {k2}'])
	cnt = rng.choice(['n', f'n + {rng.randint(1, 2)}', f'(n & 3)', str(rng.randint(0, 4))])
	read = rng.choice(['t += x', f't = t * {k2} + x', 't += x + 1'])
	parts = [f'class Grid:\n\tcells: list[int]\n\tn: int\n\n\tdef __init__(self, n: int, v: int) -> None:\n\t\tself.n = n\n\t\tself.cells: list[int] = [{elem}] * ({cnt})\n\n'
		f'\tdef total(self) -> int:\n\t\tt = 0\n\t\tfor x in self.cells:\n\t\t\t{read}\n\t\treturn t * 100 + len(self.cells)\n']
	parts.append(f'def fill_anno(n: int, v: int) -> int:\n\tdp: list[int] = [{elem}] * ({cnt})\n\tt = len(dp) * 1000\n\tfor x in dp:\n\t\t{read}\n\tfor i in range(len(dp)):\n\t\tt += dp[i]\n\treturn t\n')
	parts.append(f'def fill_inferred(n: int, v: int) -> int:\n\tdp = [{elem}] * ({cnt})\n\tt = len(dp) * 1000\n\tfor x in dp:\n\t\t{read}\n\treturn t\n')
	parts.append('def fill_field(n: int, v: int) -> int:\n\tg = Grid(n, v)\n\treturn g.total()\n')
	args = [[rng.randint(0, 6), rng.randint(0, 9)] for _ in range(5)]
	entries = [{'fn': f, 'params': ['int', 'int'], 'ret': 'int', 'args': args} for f in ('fill_anno', 'fill_inferred', 'fill_field')]
	return key, {'source': '\n\n'.join(parts), 'entries': entries, 'classes': {'Grid': ['cells', 'n']}}


def _inlined_constant_program(rng: random.Random) -> dict[str, Any]:
	"""enum members declared in every constant form (literal, signed literal, expressions folding to negative and to positive constants), each read
	through `.value` in every position where the inlined text meets a prefix operator or a neighbouring sign"""
	a, b, c = rng.randint(1, 9), rng.randint(1, 9), rng.randint(2, 5)
	decls = [str(rng.randint(0, 20)), f'-{a}', f'{a} - {a + b}', f'-({b})', f'{a} - {b} * {c + 2}', f'-{a} * {c}', f'{a} + {b} * {c}', f'{a + b + 20} - {b}', f'-{a} + {a + b}']
	rng.shuffle(decls)
	members: list[tuple[str, int]] = []
	seen: set[int] = set()
	for src in decls:
		val = int(eval(src))  # noqa: S307 - constant arithmetic built above
		if val not in seen:
			seen.add(val)
			members.append((f'M{len(members)}', src))
	enum = 'from enum import Enum\n\n\nclass Lv(Enum):\n' + ''.join(f'\t{m} = {src}\n' for m, src in members)
	parts = [enum]
	fns: list[str] = []
	forms = ['-{v}', '+{v}', '~{v}', 'n - {v}', 'n + {v}', 'n - -{v}', 'n + +{v}', 'n * -{v}', '-{v} * n', '{v} - -{v2}', '-{v} - {v2}', '(n & 3) << (-{v} & 3)', '- -{v}', '-(-{v})', '~-{v}', '-~{v}',
		'1 if -{v} < n else 0', '1 if n > -{v} else 0', '1 if not {v} > n else 0', '1 if -{v} == {v2} else 0', 'abs(-{v})', 'max(-{v}, n)', 'n % (abs({v}) + 1)']
	for k in range(3):
		lines = []
		rng.shuffle(forms)
		for i, form in enumerate(forms[:12]):
			m1, m2 = rng.choice(members)[0], rng.choice(members)[0]
			lines.append(f"\tr{i} = " + form.format(v=f'Lv.{m1}.value', v2=f'Lv.{m2}.value') + '\n')
		ret = ' + '.join(f'r{i} * {i + 1}' for i in range(len(lines)))
		parts.append(f'def use{k}(n: int) -> int:\n' + ''.join(lines) + f'\treturn {ret}\n')
		fns.append(f'use{k}')
	entries = [{'fn': f, 'params': ['int'], 'ret': 'int', 'args': [[rng.randint(0, 9)] for _ in range(4)] + [[rng.randint(-30, 30)]]} for f in fns]
	return {'source': '\n\n'.join(parts), 'entries': entries, 'classes': {}}


def _separators_program(rng: random.Random) -> dict[str, Any]:
	"""every position that a handler may recover by splitting RENDERED text (dict-comprehension key / value, list-comprehension projection /
	condition, dict literal entries, call arguments) holds a sub-expression that itself contains `, ` / `: ` / brackets / braces / quotes"""
	c = [rng.randint(1, 9) for _ in range(6)]
	two = lambda: rng.choice(['max', 'min', 'key_of'])  # noqa: E731 - a call with two arguments
	strs = rng.sample(["'a, b'", "'c: d'", "'{e}'", "'f, {g: h}'", "'(i, j)'", "'k]'"], 3)
	parts = [f'def key_of(a: int, b: int) -> int:\n\treturn a * {rng.randint(7, 13)} + b\n']
	fns: list[str] = []

	def fn(name: str, body: str) -> None:
		parts.append(f'def {name}(n: int, v: int) -> list[int]:\n{body}')
		fns.append(name)

	xs = f'[v, n, v + n + {c[0]}]'
	fn('dc_call', f'\txs = {xs}\n\tw = {{{two()}(x, n + {c[1]}): {two()}(x, {two()}(v, {c[2]})) for x in xs}}\n\tt = 0\n\tfor k, y in w.items():\n\t\tt += k * 3 + y\n\treturn [t, len(w)]\n')
	fn('dc_cond', f'\txs = {xs}\n\tw = {{x: key_of(x, {c[3]}) for x in xs if {two()}(x, n) > min(v, {c[4]})}}\n\tt = 0\n\tfor k, y in w.items():\n\t\tt += k + y\n\treturn [t, len(w)]\n')
	fn('dc_tuple', f'\txs = {xs}\n\tw = {{(x, n): x + n for x in xs}}\n\tu = {{x: (x * {c[1]}, n) for x in xs}}\n\treturn [w[(v, n)], len(w), u[v][0], u[n][1]]\n')
	fn('dc_str', f'\tnames = [{", ".join(strs)}]\n\tw = {{s: len(s) + n for s in names}}\n\tu = {{s + \', \': v + len(s) for s in names}}\n'
		f'\treturn [w[{strs[0]}], w[{strs[2]}], len(w), u[{strs[1][:-1]}, \'], len(u)]\n')
	fn('dl_entries', f'\td = {{key_of(n, v): {two()}(n, v), {two()}(n, v + {c[0]}) + 1000: key_of(v, {two()}(n, {c[2]}))}}\n\te = {{{strs[0]}: n, {strs[1]}: {two()}(n, v), {strs[2]}: n + v}}\n'
		f'\tt = 0\n\tfor k, y in d.items():\n\t\tt += k * 2 + y\n\treturn [t, len(d), e[{strs[0]}], e[{strs[1]}], e[{strs[2]}], len(e)]\n')
	fn('lc_proj', f'\txs = {xs}\n\tys = [{two()}(x, n) + {two()}(x, v) * {c[3]} for x in xs]\n\tzs = [key_of(x, key_of(n, v)) for x in xs if {two()}(x, n) > {two()}(v, {c[4]})]\n'
		f'\tts = [(x, {two()}(x, n)) for x in xs]\n\tt = len(zs) * 7\n\tfor z in zs:\n\t\tt += z\n\tys.append(t)\n\tys.append(ts[0][0] + ts[2][1])\n\treturn ys\n')
	fn('call_args', f'\treturn [key_of(max(n, v), min(n, {c[5]})), key_of(key_of(n, {c[0]}), key_of({c[1]}, v)), {two()}({two()}(n, v), {two()}(v, {c[2]}))]\n')
	args = [[rng.randint(0, 9), rng.randint(0, 9)] for _ in range(4)] + [[rng.randint(-20, 40), rng.randint(-20, 40)]]
	entries = [{'fn': f, 'params': ['int', 'int'], 'ret': 'list[int]', 'args': args} for f in fns]
	return {'source': '\n\n'.join(parts), 'entries': entries, 'classes': {}}


def _container_methods_program(rng: random.Random) -> dict[str, Any]:
	"""container methods and statement forms the expression / statement IR of `Gen` does not carry, operands randomised; dict contents are
	only aggregated by commutative sums or read by key (no reliance on dict order), indices stay inside the lists"""
	c = [rng.randint(1, 9) for _ in range(6)]
	k1, k2, k3 = sorted(rng.sample(range(1, 12), 3))
	parts: list[str] = []
	fns: list[str] = []

	def fn(name: str, body: str) -> None:
		parts.append(f'def {name}(n: int, v: int) -> list[int]:\n{body}')
		fns.append(name)

	xs = f'[v, n, v + n, {c[0]}]'
	d = f'{{{k1}: v, {k2}: n, {k3}: v + n}}'
	pop_at = rng.randint(0, 2)
	fn('l_copy', f'\txs = {xs}\n\tys = xs.copy()\n\tys.append(n + {c[1]})\n\tys[{rng.randint(0, 3)}] = {c[2]}\n\tzs = list(xs)\n\tzs[0] = zs[0] + {c[3]}\n\treturn [xs[0], xs[{rng.randint(1, 3)}], len(xs), len(ys), ys[4], zs[0]]\n')
	fn('l_pop', f'\txs = {xs}\n\ta = xs.pop()\n\tb = xs.pop({pop_at})\n\treturn [a, b, len(xs), xs[0], xs[1]]\n')
	fn('l_clear', f'\txs = {xs}\n\txs.clear()\n\txs.append(n - {c[1]})\n\txs.insert(0, v)\n\treturn xs\n')
	fn('l_del', f'\txs = {xs}\n\tdel xs[{rng.randint(0, 3)}]\n\treturn xs\n')
	fn('l_comp', f'\txs = {xs}\n\tys = [x * {c[1]} + 1 for x in xs if x {rng.choice([">", "<", ">=", "!="])} n]\n\tm = [[n, v + {c[2]}], [v, n + 1, {c[3]}]]\n\tys.append(len(m) * 100 + len(m[1]) * 10)\n\tys.append(m[0][1])\n\tys.append(m[1][{rng.randint(0, 2)}])\n\treturn ys\n')
	fn('d_copy', f'\td = {d}\n\te = d.copy()\n\te[{k3 + 2}] = n\n\te[{k1}] = {c[4]}\n\treturn [d[{k1}], len(d), len(e), e[{k3 + 2}], e[{k1}]]\n')
	fn('d_pop', f'\td = {d}\n\tp = d.pop({rng.choice([k1, k2, k3])})\n\tq = 1 if {k2} in d else 0\n\tr = d.get({k1}, -{c[5]})\n\treturn [p, q, r, len(d)]\n')
	fn('d_clear_del', f'\td = {d}\n\tdel d[{rng.choice([k1, k2, k3])}]\n\ta = len(d)\n\td.clear()\n\td[{c[0]}] = n\n\treturn [a, len(d), d[{c[0]}]]\n')
	fn('d_views', f'\td = {d}\n\tks = list(d.keys())\n\tvs = list(d.values())\n\tt = 0\n\tfor k in ks:\n\t\tt += k\n\tu = 0\n\tfor x in vs:\n\t\tu += x * {c[1]}\n\treturn [len(ks), len(vs), t, u]\n')
	fn('d_comp', f'\td = {d}\n\tw = {{k: x + k * {c[2]} for k, x in d.items()}}\n\ta = [k * {c[3]} for k in d.keys()]\n\tb = [x - {c[4]} for x in d.values()]\n\tt = 0\n\tfor y in a:\n\t\tt += y\n\tfor y in b:\n\t\tt += y * 3\n\treturn [w[{k1}], w[{k2}], w[{k3}], len(w), t]\n')
	# statement loops over the dict views / enumerate / a list, keys and values weighted differently (a swapped pair is observable)
	fn('loops', f'\td = {d}\n\txs = {xs}\n\ta = 0\n\tfor k in d.keys():\n\t\ta += k * {c[0]}\n\tb = 0\n\tfor x in d.values():\n\t\tb += x * {c[1]} + 1\n\te = 0\n'
		f'\tfor k, x in d.items():\n\t\te += k * 100 + x\n\tg = 0\n\tfor i, x in enumerate(xs):\n\t\tg += (i + 1) * x\n\th = 0\n\tfor x in xs:\n\t\th = h * 3 + (x & 7)\n\treturn [a, b, e, g, h]\n')
	parts.append(f'def nothing(n: int) -> None:\n\tpass\n')
	fn('misc', f'\tt = (n, v + {c[0]}, n * {c[1]})\n\tnothing(n)\n\treturn [t[0], t[1], t[2]]\n')
	args = [[rng.randint(0, 9), rng.randint(0, 9)] for _ in range(4)] + [[rng.randint(-20, 40), rng.randint(-20, 40)]]
	entries = [{'fn': f, 'params': ['int', 'int'], 'ret': 'list[int]', 'args': args} for f in fns]
	return {'source': '\n\n'.join(parts), 'entries': entries, 'classes': {}}


def _mixed_type_program(rng: random.Random) -> dict[str, Any]:
	"""every arithmetic operator with an int on one side and a float on the other, both orders, as the WHOLE value of a position whose C++
	type is inferred from it (un-annotated local, list literal element, comprehension projection, lambda result). Operands are chosen so
	that every value is exact in binary32 and the remainder / quotient has a fractional part (`/` by powers of two, `%` on non-negative
	operands): a result type read off one operand only (`int r = fmod(n, w);`) changes the value the entry returns."""
	fracs = [0.75, 1.25, 1.5, 2.5, 3.5]
	pow2 = [0.5, 0.25, 2.0, 4.0, 8.0]

	def operands(op: str) -> tuple[list[int], list[float]]:
		return ([rng.randint(1, 40) for _ in range(5)], [rng.choice(pow2 if op == '/' else fracs) for _ in range(5)])

	ops = ['+', '-', '*', '/', '%']
	# every operator stands once with the int on the left in one of the five positions that take any operator (two locals, list element,
	# projection, lambda), in every program
	perm = ops[:]
	rng.shuffle(perm)
	parts = ['from collections.abc import Callable\n']
	entries: list[dict[str, Any]] = []

	def entry(fn: str, params: list[str], ret: str, args: list[list[Any]]) -> None:
		entries.append({'fn': fn, 'params': params, 'ret': ret, 'args': args})

	# un-annotated locals, int left / float left, operator per function
	for k in range(2):
		op1, op2 = perm[k], rng.choice(['+', '-', '*', '%'] if k == 0 else ops)
		ns, ws = operands(op1 if op1 == '/' or op2 != '/' else op2)
		if '/' in (op1, op2):
			ws = [rng.choice(pow2) for _ in ws]
		use = rng.choice(['r * 4.0 + s', 'r - s', 's + r + r'])
		parts.append(f'def local{k}(n: int, w: float) -> float:\n\tr = n {op1} w\n\ts = w {op2} n\n\treturn {use}\n')
		entry(f'local{k}', ['int', 'float'], 'float', [[n, w] for n, w in zip(ns, ws)])
	# float literal on the right of an int expression, the declared name re-assigned and read in a loop
	op = rng.choice(['%', '%', '*', '+', '-'])
	lit = rng.choice(fracs)
	iexpr = rng.choice(['n', '(n & 15)', 'n + 1', 'n * 2'])
	parts.append(f'def local_lit(n: int) -> float:\n\tq = {iexpr} {op} {lit!r}\n\tt = 0.0\n\tfor i in range(3):\n\t\tt = t + q\n\t\tq = i {op} {lit!r}\n\treturn t + q\n')
	entry('local_lit', ['int'], 'float', [[rng.randint(0, 30)] for _ in range(5)])
	# flat chains: the int operands first / the float one in the middle
	opa, opb = rng.choice(['+', '-', '*']), rng.choice(['+', '-', '*', '%'])
	parts.append(f'def chain(n: int, m: int, w: float) -> float:\n\tu = n {opa} m {opb} w\n\tv = n {opb} w {opa} m\n\treturn u + v\n')
	entry('chain', ['int', 'int', 'float'], 'float', [[rng.randint(1, 12), rng.randint(1, 9), rng.choice(fracs)] for _ in range(5)])
	# list literal element, comprehension projection
	op = perm[2]
	ws = [rng.choice(pow2 if op == '/' else fracs) for _ in range(5)]
	parts.append(f'def elems(n: int, w: float) -> float:\n\tys = [n {op} w, w]\n\treturn ys[0] + ys[1]\n')
	entry('elems', ['int', 'float'], 'float', [[rng.randint(1, 40), w] for w in ws])
	op = perm[3]
	lit = rng.choice(pow2 if op == '/' else fracs)
	src = rng.choice(['xs', 'range(n)'])
	proj = rng.choice([f'x {op} {lit!r}', f'x {op} w'] if op != '/' else [f'x {op} {lit!r}'])
	parts.append(f'def proj(xs: list[int], n: int, w: float) -> float:\n\tys = [{proj} for x in {src}]\n\tt = 0.0\n\tfor y in ys:\n\t\tt = t + y\n\treturn t\n')
	entry('proj', ['list[int]', 'int', 'float'], 'float', [[[rng.randint(0, 20) for _ in range(rng.randint(1, 4))], rng.randint(1, 5), rng.choice(fracs)] for _ in range(5)])
	# lambda result
	op = perm[4]
	ws = [rng.choice(pow2 if op == '/' else fracs) for _ in range(5)]
	parts.append(f'def lam(n: int, w: float) -> float:\n\tfn: Callable[[int], float] = lambda k: k {op} w\n\treturn fn(n) + fn(n + 1)\n')
	entry('lam', ['int', 'float'], 'float', [[rng.randint(1, 40), w] for w in ws])
	# flat `* / %` chains of three or four operands with the ONE float operand in every position (the type that selects the `%` template and the
	# declared type is the type accumulated along the chain, not the type of the first operand or of the last pair); `/` only by a power of two
	def chain(pos: int, length: int) -> str:
		ints = rng.sample(['n', 'm', str(rng.randint(2, 9)), str(rng.randint(2, 9))], length - 1)
		ops_ = [rng.choice(['*', '%']) for _ in range(length - 1)]
		fl = rng.choice(['w', 'p'])
		operands = ints[:pos] + [fl] + ints[pos:]
		if fl == 'p' and pos > 0 and rng.random() < 0.7:
			ops_[pos - 1] = '/'
		if '%' not in ops_:
			ops_[rng.randrange(len(ops_))] = '%'
		if fl == 'p' and pos > 0 and ops_[pos - 1] == '%':
			ops_[pos - 1] = '/'
		out = operands[0]
		for o, x in zip(ops_, operands[1:]):
			out += f' {o} {x}'
		return out
	exprs = [chain(pos, length) for length in (3, 4) for pos in range(length)]
	rng.shuffle(exprs)
	body = ''.join(f'\tc{i} = {e}\n' for i, e in enumerate(exprs))
	parts.append(f'def chains(n: int, m: int, w: float, p: float) -> float:\n{body}\treturn ' + ' + '.join(f'c{i}' for i in range(len(exprs))) + '\n')
	entry('chains', ['int', 'int', 'float', 'float'], 'float', [[rng.randint(1, 9), rng.randint(1, 9), rng.choice(fracs), rng.choice(pow2)] for _ in range(5)])
	# unary operators on a bool operand (a bool variable, a comparison, a bool call result): `-b` / `+b` / `~b` are ints in Python, `not b` is a bool
	parts.append(f'def is_big(n: int) -> bool:\n\treturn n > {rng.randint(2, 6)}\n')
	uns = ['~', '-', '+', '~']
	rng.shuffle(uns)
	src_b = lambda: rng.choice(['flag', '(n > m)', 'is_big(n)', '(n == m)'])  # noqa: E731
	parts.append(f'def unary_local(n: int, m: int, flag: bool) -> int:\n\ta = {uns[0]}{src_b()}\n\tb = {uns[1]}{src_b()}\n\tc = not {src_b()}\n\tt = a * 100 + b * 10\n\tif c:\n\t\tt += 5\n\treturn t + {uns[2]}flag\n')
	entry('unary_local', ['int', 'int', 'bool'], 'int', [[rng.randint(0, 9), rng.randint(0, 9), rng.random() < 0.5] for _ in range(6)])
	parts.append(f'def unary_elems(n: int, m: int, flag: bool) -> int:\n\tys = [{uns[1]}{src_b()}, {uns[0]}flag, n]\n\tvs = [n, m + 1, {rng.randint(0, 9)}]\n\tzs = [{uns[3]}(x > m) for x in vs]\n'
		f'\tfn: Callable[[int], int] = lambda k: {uns[2]}(k > m)\n\tt = fn(n) * 1000\n\tfor y in ys:\n\t\tt += y * 10\n\tfor z in zs:\n\t\tt += z\n\treturn t\n')
	entry('unary_elems', ['int', 'int', 'bool'], 'int', [[rng.randint(0, 9), rng.randint(0, 9), rng.random() < 0.5] for _ in range(6)])
	return {'source': '\n\n'.join(parts), 'entries': entries, 'classes': {}}


def generate(rng: random.Random, size: int = 2, kind: str | None = None) -> tuple[Prog, dict[str, int]]:
	g = Gen(rng, size)
	p = g.program(kind)
	return p, g.hist
