#!/bin/sh
# MANIFEST.setup_cmd — offline build of the framework from files on disk only.
set -e
HERE="$(cd "$(dirname "$0")" && pwd)"
cd "$HERE"
# 1. regenerate the translated tables from /repo's working tree (also done by every check)
PYTHONPATH="$HERE/compat:${VERIF_REPO:-/repo}:$HERE" PYTHONDONTWRITEBYTECODE=1 /venv/bin/python -m translate.all || echo "setup: translator reported a problem (checks will report it per property)"
# 2. build the Lean library (models, lemmas, property theorems) and the compiled driver
cd "$HERE/lean"
lake build
