import Tranp.Str
import Tranp.Model.AstPath
import Tranp.Driver
import Tranp.Props.C10
