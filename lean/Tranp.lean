import Tranp.Str
import Tranp.Prec
import Tranp.Lemmas.Prec
import Tranp.Model.AstPath
import Tranp.Lemmas.AstPath
import Tranp.Driver
import Tranp.Props.C10
