/-
  Property C13 — Tokenizer agrees with Python and ignores insignificant layout.
  Property theorems only; definitions of the specification vocabulary (`rawText`, `StepOK`, `wf`, `lineStart`, `addressed`,
  `countType`, `jumps`, `finalNest`, …) and helper lemmas live in Tranp/Lemmas/Lexer.lean.

  What is proved here is the lexer algebra on the model (for every source / token list, by induction). Equality with
  CPython's tokenizer and the character-level layout rewrites are checked on the real code by the search (harness/c13.py).
-/
import Tranp.Lemmas.Lexer
import Tranp.Lemmas.LexerShape
import Tranp.Lemmas.LexerTail
import Tranp.Lemmas.LexerLead
import Tranp.Lemmas.LexerTight
import Tranp.Generated.TokenDef
import Tranp.Generated.LexerShape

namespace Tranp.C13
open Tranp Tranp.Lexer Tranp.Generated.TokenDef

/-! ### the tie of the hand-written constants to the dumped enums and definitions -/

def lookupNat (n : Str) (t : List (Str × Nat)) : Option Nat := (t.find? (fun p => p.1 = n)).map (·.2)
def lookupStr (n : Str) (t : List (Str × Str)) : Option Str := (t.find? (fun p => p.1 = n)).map (·.2)

/-- every enum member the model names has the value `TokenTypes` / `TokenDomains` / `SpecialSymbols` give it today -/
theorem enums_tie :
    [lookupNat ['W','h','i','t','e','S','p','a','c','e'] tokenTypes, lookupNat ['L','i','n','e','B','r','e','a','k'] tokenTypes,
     lookupNat ['E','O','F'] tokenTypes, lookupNat ['N','e','w','L','i','n','e'] tokenTypes,
     lookupNat ['I','n','d','e','n','t'] tokenTypes, lookupNat ['D','e','d','e','n','t'] tokenTypes,
     lookupNat ['C','o','m','m','e','n','t'] tokenTypes, lookupNat ['S','t','r','i','n','g'] tokenTypes,
     lookupNat ['R','e','g','e','x','p'] tokenTypes, lookupNat ['D','i','g','i','t'] tokenTypes,
     lookupNat ['D','e','c','i','m','a','l'] tokenTypes, lookupNat ['N','a','m','e'] tokenTypes,
     lookupNat ['P','a','r','e','n','L'] tokenTypes, lookupNat ['P','a','r','e','n','R'] tokenTypes,
     lookupNat ['B','r','a','c','e','L'] tokenTypes, lookupNat ['B','r','a','c','e','R'] tokenTypes,
     lookupNat ['B','r','a','c','k','e','t','L'] tokenTypes, lookupNat ['B','r','a','c','k','e','t','R'] tokenTypes,
     lookupNat ['M','i','n','u','s'] tokenTypes, lookupNat ['B','e','g','i','n','C','o','m','b','i','n','e'] tokenTypes]
      = [some T.whiteSpace, some T.lineBreak, some T.eof, some T.newLine, some T.indent, some T.dedent, some T.comment,
         some T.string, some T.regexp, some T.digit, some T.decimal, some T.name, some T.parenL, some T.parenR,
         some T.braceL, some T.braceR, some T.bracketL, some T.bracketR, some T.minus, some T.beginCombine]
    ∧ [lookupNat ['W','h','i','t','e','S','p','a','c','e'] tokenDomains, lookupNat ['C','o','m','m','e','n','t'] tokenDomains,
       lookupNat ['Q','u','o','t','e'] tokenDomains, lookupNat ['N','u','m','b','e','r'] tokenDomains,
       lookupNat ['I','d','e','n','t','i','f','i','e','r'] tokenDomains, lookupNat ['S','y','m','b','o','l'] tokenDomains,
       lookupNat ['M','a','x'] tokenDomains, lookupNat ['U','n','k','n','o','w','n'] tokenDomains]
      = [some Dom.whiteSpace, some Dom.comment, some Dom.quote, some Dom.number, some Dom.identifier, some Dom.symbol,
         some Dom.max, some Dom.unknown]
    ∧ [lookupStr ['I','n','d','e','n','t'] specialSymbols, lookupStr ['D','e','d','e','n','t'] specialSymbols,
       lookupStr ['E','O','F'] specialSymbols, lookupStr ['O','p','U','n','a','r','y','M','i','n','u','s'] specialSymbols]
      = [some Special.indent, some Special.dedent, some Special.eof, some Special.opUnaryMinus] := by
  decide +kernel

/-- the finite side conditions hold for `TokenDefinition()` as dumped today -/
theorem pyDef_wf : wf pyDef = true := by decide +kernel

/-- … and for `gram_tokenizer()._definition` -/
theorem gramDef_wf : wf gramDef = true := by decide +kernel

/-- the side conditions for totality (analyse order covers all six domains, computed type values exist) hold for both -/
theorem pyDef_wfTotal : wfTotal pyDef = true := by decide +kernel

theorem gramDef_wfTotal : wfTotal gramDef = true := by decide +kernel

/-- both definitions carry the post filter list the layout theorem is about -/
theorem pyDef_filters : ShippedFilters pyDef := ⟨_, rfl⟩

theorem gramDef_filters : ShippedFilters gramDef := ⟨_, rfl⟩

/-! ### C13.progress / C13.concat / C13.span — the raw lexer -/

/-- Each sub-parser call of the main loop consumes at least one character, stays inside the source, returns exactly the
    consumed slice as the token text and records the source map of that slice. -/
theorem step (d : TokenDef) (hw : wf d = true) (src : Str) (i e dom : Nat) (t : Token) (hi : i < src.length)
    (hd : analyzeDomain d src i = .ok dom) (hp : parser d dom src i = .ok (e, t)) :
    i < e ∧ e ≤ src.length ∧ rawText t = slice src i e ∧ t.map = mkMap src i e :=
  let s := parser_ok hw hi hd hp
  ⟨s.lt, s.le, s.text, s.map⟩

/-- Hence the `len(source)` fuel of the main loop (and of the quote loop) is never exhausted: the real `while` loops
    terminate on every source, for every definition with the decided side conditions. -/
theorem progress (d : TokenDef) (hw : wf d = true) (src : Str) : parseImpl d src ≠ .error .fuel :=
  parseLoop_fuel hw src.length 0 (by omega)

/-- Concatenating the texts of the raw tokens (the unary-minus marker read back as `-`) reproduces the source. -/
theorem concat (d : TokenDef) (hw : wf d = true) (src : Str) (toks : List Token) (h : parseImpl d src = .ok toks) :
    (toks.map rawText).flatten = src := by
  have := (parseLoop_ok hw src.length 0 toks (Nat.zero_le _) h).1
  simpa using this

/-- `concat` is not vacuous: every source over the definition's alphabet (each character is in an alphabet or is a
    one-character opener) is accepted — also one ending in a minus sign, since 6dc3d89 guards the look-ahead of `parse_symbol`. -/
theorem total (d : TokenDef) (hw : wf d = true) (hwt : wfTotal d = true) (src : Str)
    (halpha : ∀ c ∈ src, alphaChar d c = true) : ∃ toks, parseImpl d src = .ok toks :=
  parseLoop_total hw hwt halpha src.length 0 (by omega)

/-- regression: a trailing minus is a binary Minus token (it raised IndexError before 6dc3d89); a minus before a
    non-blank is the unary marker -/
example : (match parseImpl pyDef ['x', ' ', '-'], parseImpl pyDef ['-', 'x'] with
    | .ok [_, _, t], .ok [u, _] => decide (t.type = T.minus ∧ t.string = ['-'] ∧ u.string = Special.opUnaryMinus)
    | _, _ => false) = true := by decide +kernel

/-- The slice of the source addressed by each raw token's (line, column) span is that token's text, and none of the four
    numbers is negative. -/
theorem span (d : TokenDef) (hw : wf d = true) (src : Str) (toks : List Token) (h : parseImpl d src = .ok toks)
    (t : Token) (ht : t ∈ toks) :
    0 ≤ t.map.bl ∧ 0 ≤ t.map.bc ∧ 0 ≤ t.map.el ∧ 0 ≤ t.map.ec ∧ addressed src t.map = rawText t := by
  obtain ⟨b, e, hbe, he, htext, hmap⟩ := (parseLoop_ok hw src.length 0 toks (Nat.zero_le _) h).2 t ht
  obtain ⟨h1, h2, h3, h4, h5, h6⟩ := mkMap_addresses src hbe he
  rw [hmap]
  refine ⟨h1, h2, h3, h4, ?_⟩
  unfold addressed
  rw [h5, h6, htext]

/-- non-vacuity: a source with a comment, a string, a combined symbol, a unary and a binary minus over two lines lexes,
    concatenates back and every span addresses its text -/
example :
    let src : Str := ['a',' ','-','=',' ','-','1',' ','-',' ','\'','x','\'',' ','#','c','\n','\t','b']
    (match parseImpl pyDef src with
      | .ok toks => decide ((toks.map rawText).flatten = src ∧ toks.length = 14 ∧ ∀ t ∈ toks, addressed src t.map = rawText t)
      | .error _ => false) = true := by
  decide +kernel

/-! ### C13.balance — INDENT / DEDENT accounting of `_rebuild` -/

/-- For every token list `_rebuild` accepts: the INDENTs are the indentation increases, and the DEDENTs plus the depth
    still open at the end are the total size of these increases. So #DEDENT − #INDENT = Σ (jump − 1) − (depth left open). -/
theorem balance (toks out : List Token) (h : rebuild toks = .ok out) :
    countType T.indent out = (jumps Ctx.init 0 toks).length ∧
    countType T.dedent out + finalNest Ctx.init 0 toks = (jumps Ctx.init 0 toks).sum := by
  have := rebuildLoop_counts toks Ctx.init 0 out h
  simpa [Ctx.init] using this

/-- When nothing is left open (the EOF token was handled outside brackets), indents and dedents balance iff every
    indentation increase is exactly one unit. -/
theorem balance_iff (toks out : List Token) (h : rebuild toks = .ok out) (hf : finalNest Ctx.init 0 toks = 0) :
    countType T.indent out = countType T.dedent out ↔ ∀ j ∈ jumps Ctx.init 0 toks, j = 1 := by
  obtain ⟨h1, h2⟩ := balance toks out h
  rw [hf] at h2
  rw [← sum_eq_length_iff _ (jumps_pos toks Ctx.init 0), h1]
  omega

/-- the full sentence of the property: indents and dedents always balance -/
def balance_statement : Prop :=
  ∀ (src : Str) (out : List Token), tokenize pyDef src = .ok out → countType T.indent out = countType T.dedent out

/-- `if a:\n    if b:\n            x\n    y` — valid Python, second block indented by two units (boundary B1) -/
def overIndented : Str :=
  ['i','f',' ','a',':','\n',' ',' ',' ',' ','i','f',' ','b',':','\n',' ',' ',' ',' ',' ',' ',' ',' ',' ',' ',' ',' ','x','\n',' ',' ',' ',' ','y']

/-- The full sentence is false on the current code: the over-indented block yields 2 INDENT and 3 DEDENT. -/
theorem balance_counterexample : ¬ balance_statement := by
  intro h
  have key : (match tokenize pyDef overIndented with
      | .ok out => decide (countType T.indent out = 2 ∧ countType T.dedent out = 3)
      | .error _ => false) = true := by decide +kernel
  cases hr : tokenize pyDef overIndented with
  | error e => rw [hr] at key; simp at key
  | ok out =>
    rw [hr] at key
    have := h overIndented out hr
    simp at key
    omega

/-- non-vacuity of `balance_iff`: a consistently indented two-level source is accepted, leaves nothing open, has two jumps of 1 -/
example :
    let src : Str := ['i','f',' ','a',':','\n','\t','i','f',' ','b',':','\n','\t','\t','x','\n','y']
    (match lexParse pyDef src with
      | .ok toks => decide (finalNest Ctx.init 0 toks = 0 ∧ jumps Ctx.init 0 toks = [1, 1] ∧ (rebuild toks).isOk)
      | .error _ => false) = true := by
  decide +kernel

/-! ### C13.width — tabs vs any consistent space width -/

/-- Rescaling every line break from a multiple of `u` to the same multiple of `u'` (a tab to four spaces, two spaces to a
    tab, …; the first indented line may be any multiple) gives the same `_rebuild` result up to source maps: same kinds and
    strings of all tokens, same NEWLINE / INDENT / DEDENT placement, same error if any. -/
theorem width (u u' : Nat) (hu : 0 < u) (hu' : 0 < u') (ts ts' : List Token) (h : AllRel (Rescaled u u') ts ts') :
    (rebuild ts).map (List.map simplify) = (rebuild ts').map (List.map simplify) :=
  rebuildLoop_rel hu hu' h Ctx.init Ctx.init 0 (CtxRel.init u u')

/-- non-vacuity: `a⏎⇥b⏎⇥⇥c⏎d` with tabs and with 4 spaces are related, and rebuild to 2 INDENT / 2 DEDENT -/
example :
    let nm (c : Char) : Token := ⟨T.name, [c], SourceMap.empty⟩
    let lb (s : Str) : Token := ⟨T.lineBreak, s, SourceMap.empty⟩
    let ts := [nm 'a', lb ['\n','\t'], nm 'b', lb ['\n','\t','\t'], nm 'c', lb ['\n'], nm 'd', Token.mkEOF]
    let ts' := [nm 'a', lb ['\n',' ',' ',' ',' '], nm 'b', lb ['\n',' ',' ',' ',' ',' ',' ',' ',' '], nm 'c', lb [' ','\n'], nm 'd', Token.mkEOF]
    AllRel (Rescaled 1 4) ts ts' ∧
      (match rebuild ts with
        | .ok out => decide (countType T.indent out = 2 ∧ countType T.dedent out = 2)
        | .error _ => false) = true := by
  refine ⟨?_, by decide +kernel⟩
  exact .cons (.of_eq (by decide) rfl rfl) (.cons (.lb 1 rfl rfl (by decide) (by decide))
    (.cons (.of_eq (by decide) rfl rfl) (.cons (.lb 2 rfl rfl (by decide) (by decide))
    (.cons (.of_eq (by decide) rfl rfl) (.cons (.lb 0 rfl rfl (by decide) (by decide))
    (.cons (.of_eq (by decide) rfl rfl) (.cons (.of_eq (by decide) rfl rfl) .nil)))))))

/-! ### C13.layout_tokens — comments and white space raw tokens are insignificant (token level, across line breaks) -/

/-- both generated definitions satisfy every side condition of the layout theorems: `wf`, the character-level conditions
    (comments end at the newline, openers and combined symbols are blank-free, white space is in no other alphabet), the
    analyse order starts white space / comment, the shipped post filter list, and the regex post filter needs a
    character that is not white space (the shipped `[ \t\f]*\[ \t\f]*\r?\n` needs a literal `[`) -/
theorem pyDef_layoutReady : layoutReady pyDef :=
  ⟨by decide +kernel, by decide +kernel, by decide +kernel, ⟨_, rfl⟩, by decide +kernel⟩

theorem gramDef_layoutReady : layoutReady gramDef :=
  ⟨by decide +kernel, by decide +kernel, by decide +kernel, ⟨_, rfl⟩, by decide +kernel⟩

/-- **`post_filter` in closed form.** On a raw token list without two adjacent line break tokens whose line break tokens
    are non-empty white space (`filterable`; both hold for everything the lexer returns, `raw_filterable`),
    `post_filter` = `norm`: drop comments and white space, join line breaks that were separated only by them (left to right,
    `Token.joined`), drop a leading and a trailing line break. The side conditions are exact: the regex pass is the
    identity because it needs a non-white-space character (so backslash line continuation is *not* handled), the
    first/last pass only trims because no two line breaks are adjacent; bracket depth plays no role in `post_filter`
    (`_rebuild` drops line breaks inside brackets). -/
theorem post_filter_norm (d : TokenDef) (hd : ShippedFilters d) (hb : regexBlind d = true) (ts : List Token)
    (h : filterable d ts) : postFilter d ts = norm ts :=
  postFilter_norm hd hb h

/-- what the lexer returns satisfies these side conditions, and its line break tokens contain a newline -/
theorem raw_filterable (d : TokenDef) (hw : wf d = true) (src : Str) (toks : List Token) (h : parseImpl d src = .ok toks) :
    filterable d toks ∧ ∀ t ∈ toks, lbNL t :=
  parseImpl_shape hw h

/-- non-vacuity: `a⏎⇥# c⏎⇥⇥⏎b # d⏎` lexes to a filterable list with a comment between two line breaks; the closed form
    merges them and trims the trailing one -/
example :
    let src : Str := ['a','\n','\t','#',' ','c','\n','\t','\t','\n','b',' ','#',' ','d','\n']
    (match parseImpl pyDef src with
      | .ok toks => decide (noAdj toks = true ∧ toks.length = 8 ∧ postFilter pyDef toks = norm toks ∧
          (norm toks).map simplify = [(T.name, ['a']), (T.lineBreak, ['\n','\t','\n','\t','\t','\n']), (T.name, ['b'])])
      | .error _ => false) = true := by
  decide +kernel

/-- **Layout at the token level, in full.** Two filterable raw token lists whose `norm` agree up to the last-line width of
    their line breaks give the same `_rebuild ∘ post_filter` result up to source maps. This covers inserting / removing any
    number of Comment and WhiteSpace raw tokens anywhere (`layout_tokens_sig`), a comment between two line breaks (merged
    line break), comment-only lines, trailing spaces before a line break, and replacing a line break by another with the
    same last-line width (`layout_linebreak`). -/
theorem layout_tokens_norm (d : TokenDef) (hd : ShippedFilters d) (hb : regexBlind d = true) (ts ts' : List Token)
    (h : filterable d ts) (h' : filterable d ts') (hn : AllRel LBsame (norm ts) (norm ts')) :
    (rebuild (postFilter d ts ++ [Token.mkEOF])).map (List.map simplify)
      = (rebuild (postFilter d ts' ++ [Token.mkEOF])).map (List.map simplify) := by
  rw [postFilter_norm hd hb h, postFilter_norm hd hb h']
  exact rebuild_LBsame hn

/-- same significant tokens (comments / white space inserted or removed anywhere) ⇒ same `post_filter` output, exactly -/
theorem layout_tokens_sig (d : TokenDef) (hd : ShippedFilters d) (hb : regexBlind d = true) (ts ts' : List Token)
    (h : filterable d ts) (h' : filterable d ts') (hsig : significant ts = significant ts') :
    postFilter d ts = postFilter d ts' := by
  rw [postFilter_norm hd hb h, postFilter_norm hd hb h']
  unfold norm; rw [hsig]

/-- line breaks replaced by line breaks of the same last-line width (each containing a newline) ⇒ same result up to source maps -/
theorem layout_linebreak (d : TokenDef) (hd : ShippedFilters d) (hb : regexBlind d = true) (ts ts' : List Token)
    (h : filterable d ts) (h' : filterable d ts') (hrel : AllRel LBsame ts ts')
    (n : ∀ t ∈ ts, lbNL t) (n' : ∀ t ∈ ts', lbNL t) :
    (rebuild (postFilter d ts ++ [Token.mkEOF])).map (List.map simplify)
      = (rebuild (postFilter d ts' ++ [Token.mkEOF])).map (List.map simplify) :=
  layout_tokens_norm d hd hb ts ts' h h' (norm_rel hrel n n')

/-- the sentence stated in the previous round, now a theorem: in a lexer-shaped raw token list, inserting or removing one
    WhiteSpace or Comment token (keeping the shape) does not change `_rebuild ∘ post_filter` -/
def layout_tokens_statement : Prop :=
  ∀ (xs ys : List Token) (w : Token), (w.type = T.whiteSpace ∨ w.type = T.comment) →
    lexShaped pyDef (xs ++ w :: ys) = true → lexShaped pyDef (xs ++ ys) = true →
    (rebuild (postFilter pyDef (xs ++ w :: ys) ++ [Token.mkEOF])).map (List.map simplify)
      = (rebuild (postFilter pyDef (xs ++ ys) ++ [Token.mkEOF])).map (List.map simplify)

theorem layout_tokens : layout_tokens_statement := by
  intro xs ys w hw h1 h2
  have hsig : significant (xs ++ w :: ys) = significant (xs ++ ys) := by
    rw [significant_append, significant_cons_drop (hw.symm), ← significant_append]
  rw [layout_tokens_sig pyDef pyDef_layoutReady.2.2.2.1 pyDef_layoutReady.2.2.2.2 _ _
    (lexShaped_filterable _ h1) (lexShaped_filterable _ h2) hsig]

/-- non-vacuity of the merged-line-break case: `x ⏎␣␣ #c ⏎ y` against `x ⏎ y` (different line break strings, same last-line
    width 0): both filterable, `norm` related, and `_rebuild ∘ post_filter` agree -/
example :
    let nm (c : Char) : Token := ⟨T.name, [c], SourceMap.empty⟩
    let lb (s : Str) : Token := ⟨T.lineBreak, s, SourceMap.empty⟩
    let ts := [nm 'x', lb ['\n',' ',' '], ⟨T.comment, ['#','c'], SourceMap.empty⟩, lb ['\n'], nm 'y']
    let ts' := [nm 'x', lb [' ','\n'], nm 'y']
    (noAdj ts && noAdj ts' && decide ((norm ts).map (fun t => (t.type, lastLineLen t.string)) = (norm ts').map (fun t => (t.type, lastLineLen t.string))) &&
      decide (((rebuild (postFilter pyDef ts ++ [Token.mkEOF])).map (List.map simplify)).toOption
        = ((rebuild (postFilter pyDef ts' ++ [Token.mkEOF])).map (List.map simplify)).toOption)) = true := by
  decide +kernel

/-- Proved earlier, kept: within one logical line `post_filter` keeps exactly the significant tokens (no shape condition). -/
theorem layout_tokens_partial (d : TokenDef) (hd : ShippedFilters d) (ts ts' : List Token)
    (h : ∀ t ∈ ts, t.type ≠ T.lineBreak) (h' : ∀ t ∈ ts', t.type ≠ T.lineBreak)
    (hsig : significant ts = significant ts') :
    postFilter d ts = postFilter d ts' ∧
    rebuild (postFilter d ts ++ [Token.mkEOF]) = rebuild (postFilter d ts' ++ [Token.mkEOF]) := by
  rw [postFilter_noLB hd h, postFilter_noLB hd h', hsig]
  exact ⟨rfl, rfl⟩

/-! ### C13.layout_chars — the character level -/

/-- **The lexer is a left-to-right scanner.** `parse_impl` (up to source maps) of a non-empty text is its first token
    followed by `parse_impl` of what is left; nothing depends on the text already consumed. -/
theorem lex_local (d : TokenDef) (hw : wf d = true) (s : Str) (hne : s ≠ []) :
    lexS d s = match Lexer.step d s with
      | .error e => .error e
      | .ok (e, t) => (lexS d (s.drop e)).map (fun rest => simplify t :: rest) :=
  lexS_unfold hw s hne

/-- **The first token looks ahead only through blank-free patterns.** If `x` is the first token of `x ++ r`, it is the first
    token of `x ++ r'` too (same kind and string) when (1) no opener / combined symbol newly matches at the start
    (`LookOK`; automatic when `r'` continues, after a common part, with a white space character or ends: `Compat.lookOK`),
    (2) the character after the token keeps its role for the dispatched kind (`HeadOK`: run tokens still end there, a
    comment still meets a newline or the end, a minus sign is still followed by white space or not), and (3) a string
    literal is terminated (`quoteClosed`; an unterminated one would be re-read when a closing quote appears later). -/
theorem first_token_stable (d : TokenDef) (hw : wf d = true) (hwl : wfLayout d = true) (x r r' : Str) (hx : x ≠ [])
    (dom : Nat) (t : Token) (hd : analyzeDomain d (x ++ r) 0 = .ok dom) (hp : parser d dom (x ++ r) 0 = .ok (x.length, t))
    (hl : LookOK d (x ++ r) (x ++ r')) (hh : HeadOK d dom t r r') (hq : dom = Dom.quote → quoteClosed d (x ++ r) = true) :
    analyzeDomain d (x ++ r') 0 = .ok dom ∧ viewR 0 (parser d dom (x ++ r') 0) = .ok (x.length, t.type, t.string) :=
  step_stable hw hwl x r r' hx hd hp hl hh hq

/-- **Prefix congruence.** Whole tokens `a` in front (each string literal terminated, the last one tolerating the new
    continuation) are lexed identically when the rest `r` is replaced by a compatible `r'`. -/
theorem lex_prefix (d : TokenDef) (hw : wf d = true) (hwl : wfLayout d = true) (r r' a : Str) (ta : List (Nat × Str))
    (hc : Compat d r r') (hp : TokPrefix d r r' a ta) :
    lexS d (a ++ r) = (lexS d r).map (fun rest => ta ++ rest) ∧ lexS d (a ++ r') = (lexS d r').map (fun rest => ta ++ rest) :=
  lexS_prefix hw hwl hc hp

/-- **Blanks between tokens, trailing blanks, blank lines — end to end.** `a` = whole tokens, then a (possibly empty) white
    space run `run`, then `r1` (not starting with white space). Inserting white space `w` before the run — blanks without
    newline anywhere (between two tokens, before a line end), or anything including newlines when `run` already
    contains a newline (blank lines) — leaves `Tokenizer.parse` unchanged up to source maps. The premise `TokPrefix`
    demands of the last token of `a` that it tolerates a white space continuation: it is not itself white space or a
    comment, and if it is a minus sign it is already followed by white space or the end (the property's exception). -/
theorem layout_chars_blank (d : TokenDef) (hr : layoutReady d) (a run r1 w : Str) (ta L1 : List (Nat × Str))
    (hwne : w ≠ []) (hwall : ∀ c ∈ w, d.whiteSpace.contains c = true) (hwnl : Str.count '\n' w = 0 ∨ Str.count '\n' run ≠ 0)
    (hrun : ∀ c ∈ run, d.whiteSpace.contains c = true) (hr1 : headIn d.whiteSpace r1 = false)
    (hpre : TokPrefix d (run ++ r1) (w ++ (run ++ r1)) a ta) (hL : lexS d r1 = .ok L1) :
    (tokenize d (a ++ (run ++ r1))).map (List.map simplify) =
      (tokenize d (a ++ (w ++ (run ++ r1)))).map (List.map simplify) :=
  layout_blank hr a run r1 w hwne hwall hwnl hrun hr1 hpre hL

/-- **Trailing comment — end to end.** At a line end (`r` empty or starting with a newline) inserting blanks and a comment. -/
theorem layout_chars_comment (d : TokenDef) (hr : layoutReady d) (a w body r : Str) (p : Str × Str) (ta L : List (Nat × Str))
    (hwne : w ≠ []) (hwall : ∀ c ∈ w, d.whiteSpace.contains c = true) (hwnl : Str.count '\n' w = 0)
    (hf : firstOpen d.comment (p.1 ++ body ++ r) 0 = .ok p) (hb : '\n' ∉ body) (hnl : nlOrEnd r = true)
    (hpre : TokPrefix d r (w ++ (p.1 ++ body ++ r)) a ta) (hL : lexS d r = .ok L) :
    (tokenize d (a ++ r)).map (List.map simplify) =
      (tokenize d (a ++ (w ++ (p.1 ++ body ++ r)))).map (List.map simplify) :=
  layout_comment hr a w body r p hwne hwall hwnl hf hb hnl hpre hL

/-- **Comment-only line — end to end.** Before a line end, inserting a new line with any indentation and a comment (the
    two line breaks around the comment are merged by `post_filter`; the merged one keeps the last-line width). -/
theorem layout_chars_comment_line (d : TokenDef) (hr : layoutReady d) (a ind body nlrun r1 : Str) (p : Str × Str)
    (ta L1 : List (Nat × Str))
    (hind : ∀ c ∈ ind, d.whiteSpace.contains c = true) (hnlws : d.whiteSpace.contains '\n' = true)
    (hrun : ∀ c ∈ nlrun, d.whiteSpace.contains c = true) (hrnl : nlOrEnd nlrun = true) (hrne : nlrun ≠ [])
    (hr1 : headIn d.whiteSpace r1 = false)
    (hf : firstOpen d.comment (p.1 ++ body ++ (nlrun ++ r1)) 0 = .ok p) (hb : '\n' ∉ body)
    (hpre : TokPrefix d (nlrun ++ r1) (('\n' :: ind) ++ (p.1 ++ body ++ (nlrun ++ r1))) a ta) (hL : lexS d r1 = .ok L1) :
    (tokenize d (a ++ (nlrun ++ r1))).map (List.map simplify) =
      (tokenize d (a ++ (('\n' :: ind) ++ (p.1 ++ body ++ (nlrun ++ r1))))).map (List.map simplify) :=
  layout_comment_line hr a ind body nlrun r1 p hind hnlws hrun hrnl hrne hr1 hf hb hpre hL

/-- **Tabs vs any consistent space width — end to end.** `Reindent d u u' s s' L L'`: `s'` is `s` with every indentation
    (the blanks between the last newline of a white space run and the code) changed from `m * u` to `m * u'` characters,
    all other tokens kept (string literals terminated). Then `Tokenizer.parse` agrees up to source maps. -/
theorem width_end_to_end (d : TokenDef) (hr : layoutReady d) (u u' : Nat) (hu : 0 < u) (hu' : 0 < u') (s s' : Str)
    (L L' : List (Nat × Str)) (h : Reindent d u u' s s' L L') :
    (tokenize d s).map (List.map simplify) = (tokenize d s').map (List.map simplify) :=
  width_chars hr hu hu' h

/-- non-vacuity of `layout_chars_blank`: `a=1` and `a =1` -/
example : (tokenize pyDef ['a','=','1']).map (List.map simplify) = (tokenize pyDef ['a',' ','=','1']).map (List.map simplify) := by
  have pre : TokPrefix pyDef ([] ++ ['=','1']) ([' '] ++ ([] ++ ['=','1'])) (['a'] ++ []) [simplify ⟨T.name, ['a'], mkMap ['a','=','1'] 0 1⟩] :=
    TokPrefix.cons (dom := Dom.identifier) (by simp) rfl rfl (fun h => absurd h (by decide))
      (fun _ => ⟨fun h => absurd h (by decide), fun h => absurd h (by decide), fun _ h => absurd h (by decide),
        fun h => absurd h (by decide), fun h => absurd h (by decide)⟩) TokPrefix.nil
  exact layout_chars_blank pyDef pyDef_layoutReady ['a'] [] ['=','1'] [' '] _ [(94, ['=']), (48, ['1'])]
    (by simp) (by decide) (Or.inl rfl) (by simp) rfl pre rfl

/-- non-vacuity of `layout_chars_comment_line`: `a⏎b` and `a⏎␣␣# c⏎b` -/
example : (tokenize pyDef ['a','\n','b']).map (List.map simplify)
    = (tokenize pyDef ['a','\n',' ',' ','#',' ','c','\n','b']).map (List.map simplify) := by
  have pre : TokPrefix pyDef (['\n'] ++ ['b']) (('\n' :: [' ',' ']) ++ ((['#'], ['\n']).1 ++ [' ','c'] ++ (['\n'] ++ ['b']))) (['a'] ++ [])
      [simplify ⟨T.name, ['a'], mkMap ['a','\n','b'] 0 1⟩] :=
    TokPrefix.cons (dom := Dom.identifier) (by simp) rfl rfl (fun h => absurd h (by decide))
      (fun _ => ⟨fun h => absurd h (by decide), fun h => absurd h (by decide), fun _ h => absurd h (by decide),
        fun h => absurd h (by decide), fun h => absurd h (by decide)⟩) TokPrefix.nil
  exact layout_chars_comment_line pyDef pyDef_layoutReady ['a'] [' ',' '] [' ','c'] ['\n'] ['b'] (['#'], ['\n']) _ [(T.name, ['b'])]
    (by decide) rfl (by decide) rfl (by simp) rfl rfl (by decide) pre rfl

/-- non-vacuity of `width_end_to_end`: `a:⏎⇥b` with a tab and with four spaces -/
example : (tokenize pyDef ['a',':','\n','\t','b']).map (List.map simplify)
    = (tokenize pyDef ['a',':','\n',' ',' ',' ',' ','b']).map (List.map simplify) := by
  have h3 : Reindent pyDef 1 4 (['b'] ++ []) (['b'] ++ []) _ _ :=
    Reindent.tok (dom := Dom.identifier) (t := ⟨T.name, ['b'], mkMap ['b'] 0 1⟩) (by simp) rfl rfl (fun h => absurd h (by decide)) (by decide) Reindent.nil
  have h2 : Reindent pyDef 1 4 ([] ++ '\n' :: ['\t'] ++ (['b'] ++ [])) ([] ++ '\n' :: [' ',' ',' ',' '] ++ (['b'] ++ [])) _ _ :=
    Reindent.lb (m := 1) (by simp) (by decide) (by decide) rfl (by decide) (by decide) rfl rfl rfl h3
  have h1 : Reindent pyDef 1 4 ([':'] ++ _) ([':'] ++ _) _ _ :=
    Reindent.tok (dom := Dom.symbol) (t := ⟨85, [':'], mkMap [':','\n','\t','b'] 0 1⟩) (by simp) rfl rfl (fun h => absurd h (by decide)) (by decide) h2
  have h0 : Reindent pyDef 1 4 (['a'] ++ _) (['a'] ++ _) _ _ :=
    Reindent.tok (dom := Dom.identifier) (t := ⟨T.name, ['a'], mkMap ['a',':','\n','\t','b'] 0 1⟩) (by simp) rfl rfl (fun h => absurd h (by decide)) (by decide) h1
  exact width_end_to_end pyDef pyDef_layoutReady 1 4 (by decide) (by decide) _ _ _ _ h0


/-- non-vacuity of `layout_chars_comment`: `a⏎b` and `a # c⏎b` -/
example : (tokenize pyDef ['a','\n','b']).map (List.map simplify)
    = (tokenize pyDef ['a',' ','#',' ','c','\n','b']).map (List.map simplify) := by
  have pre : TokPrefix pyDef ['\n','b'] ([' '] ++ ((['#'], ['\n']).1 ++ [' ','c'] ++ ['\n','b'])) (['a'] ++ [])
      [simplify ⟨T.name, ['a'], mkMap ['a','\n','b'] 0 1⟩] :=
    TokPrefix.cons (dom := Dom.identifier) (by simp) rfl rfl (fun h => absurd h (by decide))
      (fun _ => ⟨fun h => absurd h (by decide), fun h => absurd h (by decide), fun _ h => absurd h (by decide),
        fun h => absurd h (by decide), fun h => absurd h (by decide)⟩) TokPrefix.nil
  exact layout_chars_comment pyDef pyDef_layoutReady ['a'] [' '] [' ','c'] ['\n','b'] (['#'], ['\n']) _ [(T.lineBreak, ['\n']), (T.name, ['b'])]
    (by simp) (by decide) rfl rfl (by decide) rfl pre rfl

/-- non-vacuity of `lex_local` / `first_token_stable` / `lex_prefix`: the first token of `ab+1` is `ab`, also in front of
    `␣+1`; the hypotheses of `lex_prefix` are the `TokPrefix` facts constructed in the examples above -/
example :
    (match Lexer.step pyDef ['a','b','+','1'], Lexer.step pyDef ['a','b',' ','+','1'] with
      | .ok (e, t), .ok (e', t') => decide (e = 2 ∧ e' = 2 ∧ simplify t = simplify t' ∧ t.string = ['a','b'])
      | _, _ => false) = true := by
  decide +kernel

/-! ### round 4 — declarative boundary rules, maximal munch, one closure theorem -/

/-- **Comment boundary.** A comment token starts with the first matching opener and extends exactly to the first newline at
    or after the opener's end (or to the end of the source); it does not contain that newline. -/
theorem comment_boundary (d : TokenDef) (hwl : wfLayout d = true) (src : Str) (b e : Nat) (t : Token)
    (h : parseComment d src b = .ok (e, t)) :
    ∃ pair, firstOpen d.comment src b = .ok pair ∧ t.type = T.comment ∧ t.string = slice src b e ∧
      b + pair.1.length ≤ e ∧ '\n' ∉ slice src (b + pair.1.length) e ∧ (e = src.length ∨ src[e]? = some '\n') :=
  parseComment_spec hwl h

/-- non-vacuity, and the shape of a seeded mutation: an empty comment `#` directly followed by a newline is the
    one-character token `#`; the next line is lexed on its own -/
example :
    (match parseImpl pyDef ['#','\n','x',' ','#','\n'] with
      | .ok toks => decide (toks.map simplify = [(T.comment, ['#']), (T.lineBreak, ['\n']), (T.name, ['x']),
          (T.whiteSpace, [' ']), (T.comment, ['#']), (T.lineBreak, ['\n'])])
      | .error _ => false) = true := by
  decide +kernel

/-- **The closing rule of string literals, declaratively.** `IsCloser src close body idx`: the closing sequence occurs at
    `idx ≥ body` and the run of backslashes in front of it, counted inside the body only (`bsRun`), is even. The literal read
    by `parse_quote` starts with the first matching opener and ends right after the *first* closer; if the source has no
    closer the literal is unterminated. Same rule for plain, `r` and `f` prefixes and for all three quote kinds. -/
theorem quote_closing_rule (d : TokenDef) (hw : wf d = true) (src : Str) (b e : Nat) (t : Token)
    (h : parseQuote d src b = .ok (e, t)) :
    ∃ pair, firstOpen d.quote src b = .ok pair ∧ t.string = slice src b e ∧
      ((∃ idx, IsCloser src pair.2 (b + pair.1.length) idx ∧
          (∀ j, b + pair.1.length ≤ j → j < idx → ¬ IsCloser src pair.2 (b + pair.1.length) j) ∧ e = idx + pair.2.length) ∨
       ((∀ j, ¬ IsCloser src pair.2 (b + pair.1.length) j) ∧ b + pair.1.length ≤ e ∧ e ≤ src.length)) :=
  parseQuote_spec hw h

/-- the imperative escape count of the model is the declarative backslash run -/
theorem escape_run_is_bsRun (src : Str) (body idx : Nat) (hidx : idx ≤ src.length) (hb : body ≤ idx) :
    escapeRun src body idx (idx + 1) 0 = bsRun (slice src body idx) := by
  rw [escapeRun_eq src body idx hidx (idx + 1) 0 (by omega) (by omega)]; simp

/-- non-vacuity, and the shape of a seeded mutation: the raw string `r'\''` is one literal (the quote after the backslash is
    escaped also in a raw string), `'a\\'` ends at its second quote, `"""a\""""` is one literal -/
example :
    (match parseImpl pyDef ['r','\'','\\','\'','\'',' ','x'], parseImpl pyDef ['\'','a','\\','\\','\'','+'],
        parseImpl pyDef ['"','"','"','a','\\','"','"','"','"',' '] with
      | .ok a, .ok b, .ok c => decide ((a.map simplify).head? = some (T.string, ['r','\'','\\','\'','\'']) ∧
          (b.map simplify).head? = some (T.string, ['\'','a','\\','\\','\'']) ∧
          (c.map simplify).head? = some (T.string, ['"','"','"','a','\\','"','"','"','"']))
      | _, _, _ => false) = true := by
  decide +kernel

/-- **Maximal munch, declaratively.** The first token of a non-empty rest `s` satisfies `TokSpec`: the dispatched domain is
    the first one in the analyse order whose class test accepts `s` (`Dispatch`); the token stands for exactly `s.take e`;
    run tokens (white space, numbers, names) are the longest prefix inside their alphabet (`LongestRun`); a symbol is the
    longest combined symbol of three, then two characters, else one symbol character (`SymbolMunch`); comments and string
    literals obey `comment_boundary` / `quote_closing_rule`. -/
theorem first_token_spec (d : TokenDef) (hw : wf d = true) (hwl : wfLayout d = true) (s : Str) (hne : s ≠ []) (e : Nat) (t : Token)
    (h : Lexer.step d s = .ok (e, t)) : TokSpec d s e t :=
  step_spec hw hwl hne h

/-- **lex ⊆ spec.** The whole raw token sequence of `parse_impl` (up to source maps) is described token by token by `TokSpec`
    of what is left of the source. -/
theorem lex_meets_spec (d : TokenDef) (hw : wf d = true) (hwl : wfLayout d = true) (s : Str) (L : List (Nat × Str))
    (h : lexS d s = .ok L) : LexSpec d s L :=
  lexS_spec hw hwl s.length s L (Nat.le_refl _) h

/-- non-vacuity: `a<<=b` lexes (so `lex_meets_spec` applies) into `a`, `<<`, `=`, `b` — `<<` is the longest combined symbol,
    `<<=` is not one -/
example : lexS pyDef ['a','<','<','=','b'] = .ok [(T.name, ['a']), (127, ['<','<']), (94, ['=']), (T.name, ['b'])] := by rfl

/-- **One closure theorem over the layout rewrites.** `LayoutEq` is the equivalence generated by the layout steps (blanks /
    blank lines, trailing comment, comment-only line — inserted or removed — and re-indentation by another unit). Layout
    equivalent sources have the same `Tokenizer.parse` up to source maps. -/
theorem layout_closure (d : TokenDef) (hr : layoutReady d) (s s' : Str) (h : LayoutEq d s s') :
    (tokenize d s).map (List.map simplify) = (tokenize d s').map (List.map simplify) :=
  h.tokenize hr

/-- non-vacuity: two steps composed, one of them backwards: `a␣=1` ~ `a=1` (blank removed) ~ … reflexivity/transitivity -/
example : LayoutEq pyDef ['a',' ','=','1'] ['a','=','1'] := by
  have pre : TokPrefix pyDef ([] ++ ['=','1']) ([' '] ++ ([] ++ ['=','1'])) (['a'] ++ []) [simplify ⟨T.name, ['a'], mkMap ['a','=','1'] 0 1⟩] :=
    TokPrefix.cons (dom := Dom.identifier) (by simp) rfl rfl (fun h => absurd h (by decide))
      (fun _ => ⟨fun h => absurd h (by decide), fun h => absurd h (by decide), fun _ h => absurd h (by decide),
        fun h => absurd h (by decide), fun h => absurd h (by decide)⟩) TokPrefix.nil
  exact LayoutEq.trans (LayoutEq.symm (LayoutEq.step
    (LayoutStep.blank ['a'] [] ['=','1'] [' '] _ [(94, ['=']), (48, ['1'])] (by simp) (by decide) (Or.inl rfl) (by simp) rfl pre rfl)))
    (LayoutEq.refl _)

/-- **`Token.SourceMap.make` has no memory.** It is modelled by `mkMap`, a function of `(source, begin, end)` alone — there is
    no state argument, so the result cannot depend on what was lexed before (stated here for any history of earlier calls).
    The tie to the code: the translator scans token.py on every run and refuses it (broken tie) when `Token.SourceMap` or the
    module keeps mutable state (containers at module/class level, `global`, caching decorators, a method reading a module
    variable); the search `span law under a history` checks the real function on sources that are created and dropped one
    by one in one process. -/
theorem source_map_pure (src : Str) (b e : Nat) (history : List (Str × Nat × Nat)) :
    (history.map (fun h => mkMap h.1 h.2.1 h.2.2), mkMap src b e).2 = mkMap src b e := rfl

/-! ### round 5 — the specification determines the lexer: lex = spec -/

/-- the strengthened first-token specification holds of the lexer: `TokSpec2` = dispatch by the first accepting domain,
    maximal munch for the kind, type and string from the `kindOf` table (line break vs white space by a newline, decimal
    vs digit by a dot, regexp vs string by the first character, combined symbols `BeginCombine + index`, single symbols
    `Symbol<<4 + index`, the unary-minus marker iff the minus is followed by a non-white-space character), and an
    unterminated literal ends right after the last (escaped) occurrence of its closing sequence (`UntermEnd`) -/
theorem first_token_spec2 (d : TokenDef) (hw : wf d = true) (hwl : wfLayout d = true) (s : Str) (hne : s ≠ []) (e : Nat) (t : Token)
    (h : Lexer.step d s = .ok (e, t)) : TokSpec2 d s e (simplify t) :=
  step_spec2 hw hwl hne h

/-- the specification is functional: it fixes length, type and string of the first token -/
theorem first_token_unique (d : TokenDef) (s : Str) (e e' : Nat) (q q' : Nat × Str)
    (h : TokSpec2 d s e q) (h' : TokSpec2 d s e' q') : e = e' ∧ q = q' :=
  tokSpec2_unique h h'

/-- **lex = spec.** When `parse_impl` accepts a source, its raw token sequence (types and strings) satisfies the declarative
    specification `LexSpec2`, and it is the *only* sequence that does. -/
theorem lex_unique (d : TokenDef) (hw : wf d = true) (hwl : wfLayout d = true) (s : Str) (L : List (Nat × Str))
    (h : lexS d s = .ok L) : LexSpec2 d s L ∧ ∀ L', LexSpec2 d s L' → L' = L := by
  have hs := lexS_spec2 hw hwl s.length s L (Nat.le_refl _) h
  exact ⟨hs, fun L' h' => lexSpec2_unique h' hs⟩

/-- non-vacuity: a source with every kind of token, an unterminated literal at the end included, is accepted (so `lex_unique`
    applies); the unterminated `'ab` is the one-character literal `'` followed by the name `ab` -/
example : lexS pyDef ['x',' ','-','=','1','.','5','#','c','\n','-','y','\'','a','b']
    = .ok [(T.name, ['x']), (T.whiteSpace, [' ']), (112, ['-','=']), (T.decimal, ['1','.','5']), (T.comment, ['#','c']),
           (T.lineBreak, ['\n']), (T.minus, Special.opUnaryMinus), (T.name, ['y']), (T.string, ['\'']), (T.name, ['a','b'])] := by rfl

/-! ### the evidence computed: layout rewrites described by position -/

/-- **Blanks / blank lines by position.** `insertAt src pos w` = `src` with `w` inserted at offset `pos`. Whenever the decidable
    check `blankInsertOK` passes (it lexes the prefix token by token and checks what `TokPrefix` demands — whole, terminated
    tokens, the last one tolerating white space — and that `w` is admissible white space), `Tokenizer.parse` is unchanged up
    to source maps. The hand-built `TokPrefix` evidence of `layout_chars_blank` is thereby computed (`tokPrefixCheck_sound`). -/
theorem layout_blank_by_position (d : TokenDef) (hr : layoutReady d) (src : Str) (pos : Nat) (w : Str)
    (h : blankInsertOK d src pos w = true) :
    (tokenize d src).map (List.map simplify) = (tokenize d (insertAt src pos w)).map (List.map simplify) :=
  layout_blank_at hr src pos w h

/-- **Trailing comment by position.** -/
theorem layout_comment_by_position (d : TokenDef) (hr : layoutReady d) (src : Str) (pos : Nat) (w body : Str) (p : Str × Str)
    (h : commentInsertOK d src pos w body p = true) :
    (tokenize d src).map (List.map simplify) = (tokenize d (insertAt src pos (w ++ (p.1 ++ body)))).map (List.map simplify) :=
  layout_comment_at hr src pos w body p h

/-- **Comment-only line by position.** -/
theorem layout_comment_line_by_position (d : TokenDef) (hr : layoutReady d) (src : Str) (pos : Nat) (ind body : Str) (p : Str × Str)
    (h : commentLineInsertOK d src pos ind body p = true) :
    (tokenize d src).map (List.map simplify)
      = (tokenize d (insertAt src pos (('\n' :: ind) ++ (p.1 ++ body)))).map (List.map simplify) :=
  layout_comment_line_at hr src pos ind body p h

/-- non-vacuity on a three-line source with brackets, a string, a binary minus and a comment: the checks pass (decided in the
    kernel) for a blank after the comma inside the brackets, a blank line at the first line end, a trailing comment on the
    last line and a comment-only line before `return`; in `y=-a` the check refuses a blank after the unary minus and accepts one before it -/
example :
    let src : Str := ['d','e','f',' ','f','(','a',',','b',')',':','\n','\t','x',' ','=',' ','\'','k','\'',' ','-',' ','a',' ','#',' ','c','\n','\t','r','e','t','u','r','n',' ','x','\n']
    (blankInsertOK pyDef src 8 [' '] && blankInsertOK pyDef src 11 ['\n',' ',' '] &&
      commentInsertOK pyDef src 38 [' ',' '] [' ','x'] (['#'], ['\n']) &&
      commentLineInsertOK pyDef src 28 [' '] ['!'] (['#'], ['\n']) &&
      !blankInsertOK pyDef ['y','=','-','a'] 3 [' '] && blankInsertOK pyDef ['y','=','-','a'] 2 [' ']) = true := by
  decide +kernel

/-! ### the end of the source as a layout position -/

/-- **END TO END: white space after the last token.** `a` is a sequence of whole tokens (`TokPrefix`: the last one is not
    white space, a comment only in front of a newline, string literals terminated); appending any white space — blanks, a
    final newline, blank lines — leaves `Tokenizer.parse` unchanged up to source maps. The last token may be anything else,
    in particular a combined symbol or a minus sign ending exactly at the end of the input. -/
theorem layout_chars_trailing (d : TokenDef) (hr : layoutReady d) (a run : Str) (ta : List (Nat × Str))
    (hne : run ≠ []) (hall : ∀ c ∈ run, d.whiteSpace.contains c = true) (hpre : TokPrefix d [] run a ta) :
    (tokenize d a).map (List.map simplify) = (tokenize d (a ++ run)).map (List.map simplify) :=
  layout_trailing hr a run hne hall hpre

/-- **The tail by position**: any two white space tails (possibly empty) after the tokens of `a` give the same
    `Tokenizer.parse` up to source maps, whenever the decidable check `tailOK` passes for both. -/
theorem layout_tail_by_position (d : TokenDef) (hr : layoutReady d) (a run run' : Str)
    (h : tailOK d a run = true) (h' : tailOK d a run' = true) :
    (tokenize d (a ++ run)).map (List.map simplify) = (tokenize d (a ++ run')).map (List.map simplify) :=
  layout_tail_at hr a run run' h h'

/-- **Closure with the tail**: `LayoutEqT` = the equivalence generated by the layout steps of `layout_closure` and the
    replacement of the white space after the last token; equivalent sources have the same `Tokenizer.parse`. -/
theorem layout_closure_tail (d : TokenDef) (hr : layoutReady d) (s s' : Str) (h : LayoutEqT d s s') :
    (tokenize d s).map (List.map simplify) = (tokenize d s').map (List.map simplify) :=
  h.tokenize hr

/-- non-vacuity (decided in the kernel): a source ending in the combined symbol `-=` inside a block, in a minus sign, in a
    name — with no tail, a final newline, blanks or blank lines; after a comment only a tail starting with a newline is
    accepted, after white space none -/
example :
    let a : Str := ['i','f',' ','a',':','\n','\t','x',' ','-','=']
    (tailOK pyDef a [] && tailOK pyDef a ['\n'] && tailOK pyDef a [' ',' '] && tailOK pyDef a ['\n','\n','\t'] &&
      tailOK pyDef ['a',' ','-'] [' '] && tailOK pyDef ['a'] ['\t','\n'] &&
      tailOK pyDef ['a',' ','#','c'] ['\n'] && !tailOK pyDef ['a',' ','#','c'] [' '] && !tailOK pyDef ['a',' '] [' ']) = true := by
  decide +kernel

example : (tokenize pyDef ['x',' ','-','=']).map (List.map simplify) = (tokenize pyDef ['x',' ','-','=','\n']).map (List.map simplify) :=
  layout_tail_by_position pyDef pyDef_layoutReady ['x',' ','-','='] [] ['\n'] (by decide +kernel) (by decide +kernel)

/-! ### the beginning of the source as a layout position -/

/-- **END TO END: white space in front of the first token** — blanks, blank lines, also an indentation of the first line —
    leaves `Tokenizer.parse` unchanged up to source maps (`post_filter` drops a leading line break, white space tokens are
    insignificant). -/
theorem layout_chars_leading_blank (d : TokenDef) (hr : layoutReady d) (w s : Str) (L : List (Nat × Str))
    (hne : w ≠ []) (hall : ∀ c ∈ w, d.whiteSpace.contains c = true) (hs : headIn d.whiteSpace s = false)
    (hL : lexS d s = .ok L) :
    (tokenize d s).map (List.map simplify) = (tokenize d (w ++ s)).map (List.map simplify) :=
  layout_leading_blank hr w s hne hall hs hL

/-- **END TO END: a comment-only line in front of the first token** (`opener body ⏎ w`) leaves `Tokenizer.parse` unchanged up
    to source maps. -/
theorem layout_chars_leading_comment (d : TokenDef) (hr : layoutReady d) (body w s : Str) (p : Str × Str) (L : List (Nat × Str))
    (hf : firstOpen d.comment (p.1 ++ body ++ ('\n' :: w ++ s)) 0 = .ok p) (hb : '\n' ∉ body)
    (hall : ∀ c ∈ w, d.whiteSpace.contains c = true) (hs : headIn d.whiteSpace s = false) (hL : lexS d s = .ok L) :
    (tokenize d s).map (List.map simplify) = (tokenize d (p.1 ++ body ++ ('\n' :: w ++ s))).map (List.map simplify) :=
  layout_leading_comment hr body w s p hf hb hall hs hL

/-- **The beginning of the source, by position** (checker `leadOK`, driver op `lay.lead`). -/
theorem layout_lead_by_position (d : TokenDef) (hr : layoutReady d) (pre s : Str) (p : Str × Str) (h : leadOK d pre s p = true) :
    (tokenize d s).map (List.map simplify) = (tokenize d (pre ++ s)).map (List.map simplify) :=
  layout_lead_at hr pre s p h

/-- **Closure over all positions**: `LayoutEqAll` = the equivalence generated by the steps between tokens / at line ends
    (`layout_closure`), the tail (`layout_closure_tail`) and the rewrites in front of the first token. -/
theorem layout_closure_all (d : TokenDef) (hr : layoutReady d) (s s' : Str) (h : LayoutEqAll d s s') :
    (tokenize d s).map (List.map simplify) = (tokenize d s').map (List.map simplify) :=
  h.tokenize hr

/-- non-vacuity (decided in the kernel): a blank line, an indentation, a comment line (also followed by an indentation) in
    front of `x=1`; refused: a source that itself starts with white space, two lines at once, a comment without its newline -/
example :
    let s : Str := ['x','=','1']
    let c : Str × Str := (['#'], ['\n'])
    (leadOK pyDef ['\n'] s c && leadOK pyDef [' ',' '] s c && leadOK pyDef ['#',' ','c','\n'] s c &&
      leadOK pyDef ['#','\n','\t'] s c && !leadOK pyDef ['\n'] (' ' :: s) c && !leadOK pyDef ['#','a','\n','#','b','\n'] s c &&
      !leadOK pyDef ['#','a'] s c) = true := by
  decide +kernel

/-- two comment lines and a blank line in front, a final newline behind: four steps of the closure -/
example : LayoutEqAll pyDef ['x','=','1'] ['#','a','\n','#','b','\n','\n','x','=','1','\n'] := by
  have h1 : LayoutEqAll pyDef ['x','=','1'] ['\n','x','=','1'] := .lead ['\n'] _ (['#'], ['\n']) (by decide +kernel)
  have h2 : LayoutEqAll pyDef ['\n','x','=','1'] ['#','b','\n','\n','x','=','1'] := by
    have := LayoutEqAll.lead (d := pyDef) ['#','b','\n','\n'] ['x','=','1'] (['#'], ['\n']) (by decide +kernel)
    exact h1.symm.trans this
  have h3 : LayoutEqAll pyDef ['#','b','\n','\n','x','=','1'] ['#','a','\n','#','b','\n','\n','x','=','1'] :=
    .lead ['#','a','\n'] _ (['#'], ['\n']) (by decide +kernel)
  have h4 : LayoutEqAll pyDef ['#','a','\n','#','b','\n','\n','x','=','1'] ['#','a','\n','#','b','\n','\n','x','=','1','\n'] :=
    .eq (.tail ['#','a','\n','#','b','\n','\n','x','=','1'] [] ['\n'] (by decide +kernel) (by decide +kernel))
  exact ((h1.trans h2).trans h3).trans h4

/-! ### a comment directly after a token -/

/-- the side condition of the next theorems for the generated definitions: `#` occurs in no look-ahead pattern of the Python
    definition after the first character; the grammar definition's `//` does continue a `/` (there the rewrite is not a
    layout change: `a /` + `// c` reads `a //` + `/ c`) -/
theorem pyDef_tailFree : tailFree pyDef '#' = true ∧ tailFree gramDef '/' = false := by decide +kernel

/-- **END TO END: a comment directly after a token.** After the whole tokens `a`, at a line end, inserting a comment without
    a blank in front of it leaves `Tokenizer.parse` unchanged up to source maps, when the first character of the opener
    occurs in no look-ahead pattern after that pattern's first character. (A minus sign or a comment as last token of `a` is
    excluded by `TokPrefix`.) -/
theorem layout_chars_comment_tight (d : TokenDef) (hr : layoutReady d) (a body r : Str) (p : Str × Str) (ta L : List (Nat × Str))
    (hfree : ∀ ch, p.1.head? = some ch → tailFree d ch = true)
    (hf : firstOpen d.comment (p.1 ++ body ++ r) 0 = .ok p) (hb : '\n' ∉ body) (hnl : nlOrEnd r = true)
    (hpre : TokPrefix d r (p.1 ++ body ++ r) a ta) (hL : lexS d r = .ok L) :
    (tokenize d (a ++ r)).map (List.map simplify) = (tokenize d (a ++ (p.1 ++ body ++ r))).map (List.map simplify) :=
  layout_comment_tight hr a body r p hfree hf hb hnl hpre hL

/-- **Comment directly after a token, by position** (checker `commentTightOK`, driver op `lay.tcomment`). -/
theorem layout_comment_tight_by_position (d : TokenDef) (hr : layoutReady d) (src : Str) (pos : Nat) (body : Str) (p : Str × Str)
    (h : commentTightOK d src pos body p = true) :
    (tokenize d src).map (List.map simplify) = (tokenize d (insertAt src pos (p.1 ++ body))).map (List.map simplify) :=
  layout_comment_tight_at hr src pos body p h

/-- non-vacuity (decided in the kernel): `x = 1` + `# c` before the newline, after a closing bracket, after a combined symbol
    at the end of the input; refused after a minus sign (it would become unary), inside a line, and for the grammar definition -/
example :
    let src : Str := ['x',' ','=',' ','1','\n','f','(',')']
    (commentTightOK pyDef src 5 [' ','c'] (['#'], ['\n']) && commentTightOK pyDef src 9 [] (['#'], ['\n']) &&
      commentTightOK pyDef ['a',' ','<','='] 4 ['!'] (['#'], ['\n']) &&
      !commentTightOK pyDef ['a',' ','-'] 3 ['c'] (['#'], ['\n']) && !commentTightOK pyDef src 3 ['c'] (['#'], ['\n']) &&
      !commentTightOK gramDef ['a',' ','/'] 3 ['c'] (['/','/'], ['\n'])) = true := by
  decide +kernel

example : (tokenize pyDef ['x','=','1','\n','y']).map (List.map simplify)
    = (tokenize pyDef ['x','=','1','#',' ','c','\n','y']).map (List.map simplify) :=
  layout_comment_tight_by_position pyDef pyDef_layoutReady ['x','=','1','\n','y'] 3 [' ','c'] (['#'], ['\n']) (by decide +kernel)

/-! ### the control flow of the code as generated data (translate/gen_lexer_shape.py → Generated/LexerShape.lean) -/

/-- **`parse_symbol` is its window loop.** The hand model equals the table-driven reading of `for i in range(n)` on the
    table the translator extracts from tokenizer.py on every run (per round: window width, what the "window does not fit"
    guard and the "not a combined symbol" guard do). A `break` in place of a `continue`, another width or another number of
    rounds changes the table and this equality stops building. -/
theorem shape_parse_symbol (d : TokenDef) (src : Str) (b : Nat) :
    parseSymbol d src b = parseSymbolBy Generated.LexerShape.symbolWindows d src b := by
  simp only [parseSymbolBy, Generated.LexerShape.symbolWindows, scan_cons_next]
  unfold parseSymbol singleSymbol
  cases combined d src b 3 with
  | error e => rfl
  | ok r3 =>
    cases r3 with
    | some r => rfl
    | none =>
      cases combined d src b 2 with
      | error e => rfl
      | ok r2 =>
        cases r2 with
        | some r => rfl
        | none => rfl

/-- the table matters: with the fit guard leaving the loop (`break`), `-=` as the last two characters of a source is no
    longer one token — the reading of the generated table and that of the changed table differ on a concrete input -/
example :
    (parseSymbolBy [⟨3, .stop, .next⟩, ⟨2, .stop, .next⟩] pyDef ['a', '-', '='] 1).map (fun r => (r.1, r.2.type, r.2.string))
        = .ok (2, T.minus, Special.opUnaryMinus)
    ∧ (parseSymbolBy Generated.LexerShape.symbolWindows pyDef ['a', '-', '='] 1).map (fun r => (r.1, r.2.type, r.2.string))
        = .ok (3, T.beginCombine, ['-', '=']) := by
  constructor <;> rfl

/-- **`handle_white_space` is its branch table.** Per emitting branch (end of input / deeper / shallower / same depth) the
    index advance, the assignment to `context.nest` and the returned token list — in particular one INDENT per deeper line
    and `nest - next_nest` DEDENTs per shallower line — are read from the code; the hand model equals their interpretation. -/
theorem shape_handle_white_space (c : Ctx) (t : Token) :
    handleWhiteSpace c t = handleWhiteSpaceBy Generated.LexerShape.wsShape c t := by
  simp only [handleWhiteSpace, handleWhiteSpaceBy, Generated.LexerShape.wsShape, runBranch, emitAll, emitOne, Count.eval,
    Token.toNewLine, Token.toIndent, Token.toDedent]
  by_cases hd : t.domain = Dom.whiteSpace <;> simp only [hd, ↓reduceIte] <;>
    repeat' (split <;> try (first | rfl | simp [bind, Except.bind, pure, Except.pure]))

/-- the table matters: one DEDENT per shallower line (instead of `nest - next_nest`) loses a block end when a line closes two
    blocks at once -/
example :
    (handleWhiteSpaceBy { Generated.LexerShape.wsShape with shallower := ⟨.one, .next, [.newLine, .dedent .one]⟩ }
        ⟨2, 0, some 1⟩ ⟨T.lineBreak, ['\n'], SourceMap.empty⟩).map (fun r => r.2.2.map (·.type)) = .ok [T.newLine, T.dedent]
    ∧ (handleWhiteSpaceBy Generated.LexerShape.wsShape
        ⟨2, 0, some 1⟩ ⟨T.lineBreak, ['\n'], SourceMap.empty⟩).map (fun r => r.2.2.map (·.type)) = .ok [T.newLine, T.dedent, T.dedent] := by
  constructor <;> rfl

/-- **`handle_symbol` is its two type lists**: the bracket types that raise / lower `context.enclosure`, read from the code. -/
theorem shape_handle_symbol (c : Ctx) (t : Token) :
    handleSymbol c t = handleSymbolBy Generated.LexerShape.enclosureOpen Generated.LexerShape.enclosureClose c t := by
  have ho : Generated.LexerShape.enclosureOpen.contains t.type = true ↔ (t.type = T.parenL ∨ t.type = T.braceL ∨ t.type = T.bracketL) := by
    simp [Generated.LexerShape.enclosureOpen, T.parenL, T.braceL, T.bracketL]
  have hc : Generated.LexerShape.enclosureClose.contains t.type = true ↔ (t.type = T.parenR ∨ t.type = T.braceR ∨ t.type = T.bracketR) := by
    simp [Generated.LexerShape.enclosureClose, T.parenR, T.braceR, T.bracketR]
  unfold handleSymbol handleSymbolBy
  by_cases h1 : (t.type = T.parenL ∨ t.type = T.braceL ∨ t.type = T.bracketL)
  · rw [if_pos h1, if_pos (ho.mpr h1)]
  · rw [if_neg h1, if_neg (fun h => h1 (ho.mp h))]
    by_cases h2 : (t.type = T.parenR ∨ t.type = T.braceR ∨ t.type = T.bracketR)
    · rw [if_pos h2, if_pos (hc.mpr h2)]
    · rw [if_neg h2, if_neg (fun h => h2 (hc.mp h))]

end Tranp.C13
