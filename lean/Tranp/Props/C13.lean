/-
  Property C13 — Tokenizer agrees with Python and ignores insignificant layout.
  Property theorems only; definitions of the specification vocabulary (`rawText`, `StepOK`, `wf`, `lineStart`, `addressed`,
  `countType`, `jumps`, `finalNest`, …) and helper lemmas live in Tranp/Lemmas/Lexer.lean.

  What is proved here is the lexer algebra on the model (for every source / token list, by induction). Equality with
  CPython's tokenizer and the character-level layout rewrites are checked on the real code by the search (harness/c13.py).
-/
import Tranp.Lemmas.Lexer
import Tranp.Generated.TokenDef

namespace Tranp.C13
open Tranp Tranp.Lexer Tranp.Generated.TokenDef

/-! ### the tie of the hand-written constants to the dumped enums and definitions -/

def lookupNat (n : Str) (t : List (Str × Nat)) : Option Nat := (t.find? (fun p => p.1 = n)).map (·.2)
def lookupStr (n : Str) (t : List (Str × Str)) : Option Str := (t.find? (fun p => p.1 = n)).map (·.2)

/-- every enum member the model names has the value `TokenTypes` / `TokenDomains` / `SpecialSymbols` give it today -/
theorem enums_tie :
    [lookupNat ['W','h','i','t','e','S','p','a','c','e'] tokenTypes, lookupNat ['L','i','n','e','B','r','e','a','k'] tokenTypes,
     lookupNat ['E','O','F'] tokenTypes, lookupNat ['N','e','w','L','i','n','e'] tokenTypes,
     lookupNat ['I','n','d','e','n','t'] tokenTypes, lookupNat ['D','e','d','e','n','t'] tokenTypes,
     lookupNat ['C','o','m','m','e','n','t'] tokenTypes, lookupNat ['S','t','r','i','n','g'] tokenTypes,
     lookupNat ['R','e','g','e','x','p'] tokenTypes, lookupNat ['D','i','g','i','t'] tokenTypes,
     lookupNat ['D','e','c','i','m','a','l'] tokenTypes, lookupNat ['N','a','m','e'] tokenTypes,
     lookupNat ['P','a','r','e','n','L'] tokenTypes, lookupNat ['P','a','r','e','n','R'] tokenTypes,
     lookupNat ['B','r','a','c','e','L'] tokenTypes, lookupNat ['B','r','a','c','e','R'] tokenTypes,
     lookupNat ['B','r','a','c','k','e','t','L'] tokenTypes, lookupNat ['B','r','a','c','k','e','t','R'] tokenTypes,
     lookupNat ['M','i','n','u','s'] tokenTypes, lookupNat ['B','e','g','i','n','C','o','m','b','i','n','e'] tokenTypes]
      = [some T.whiteSpace, some T.lineBreak, some T.eof, some T.newLine, some T.indent, some T.dedent, some T.comment,
         some T.string, some T.regexp, some T.digit, some T.decimal, some T.name, some T.parenL, some T.parenR,
         some T.braceL, some T.braceR, some T.bracketL, some T.bracketR, some T.minus, some T.beginCombine]
    ∧ [lookupNat ['W','h','i','t','e','S','p','a','c','e'] tokenDomains, lookupNat ['C','o','m','m','e','n','t'] tokenDomains,
       lookupNat ['Q','u','o','t','e'] tokenDomains, lookupNat ['N','u','m','b','e','r'] tokenDomains,
       lookupNat ['I','d','e','n','t','i','f','i','e','r'] tokenDomains, lookupNat ['S','y','m','b','o','l'] tokenDomains,
       lookupNat ['M','a','x'] tokenDomains, lookupNat ['U','n','k','n','o','w','n'] tokenDomains]
      = [some Dom.whiteSpace, some Dom.comment, some Dom.quote, some Dom.number, some Dom.identifier, some Dom.symbol,
         some Dom.max, some Dom.unknown]
    ∧ [lookupStr ['I','n','d','e','n','t'] specialSymbols, lookupStr ['D','e','d','e','n','t'] specialSymbols,
       lookupStr ['E','O','F'] specialSymbols, lookupStr ['O','p','U','n','a','r','y','M','i','n','u','s'] specialSymbols]
      = [some Special.indent, some Special.dedent, some Special.eof, some Special.opUnaryMinus] := by
  decide +kernel

/-- the finite side conditions hold for `TokenDefinition()` as dumped today -/
theorem pyDef_wf : wf pyDef = true := by decide +kernel

/-- … and for `gram_tokenizer()._definition` -/
theorem gramDef_wf : wf gramDef = true := by decide +kernel

/-- the side conditions for totality (analyse order covers all six domains, computed type values exist) hold for both -/
theorem pyDef_wfTotal : wfTotal pyDef = true := by decide +kernel

theorem gramDef_wfTotal : wfTotal gramDef = true := by decide +kernel

/-- both definitions carry the post filter list the layout theorem is about -/
theorem pyDef_filters : ShippedFilters pyDef := ⟨_, rfl⟩

theorem gramDef_filters : ShippedFilters gramDef := ⟨_, rfl⟩

/-! ### C13.progress / C13.concat / C13.span — the raw lexer -/

/-- Each sub-parser call of the main loop consumes at least one character, stays inside the source, returns exactly the
    consumed slice as the token text and records the source map of that slice. -/
theorem step (d : TokenDef) (hw : wf d = true) (src : Str) (i e dom : Nat) (t : Token) (hi : i < src.length)
    (hd : analyzeDomain d src i = .ok dom) (hp : parser d dom src i = .ok (e, t)) :
    i < e ∧ e ≤ src.length ∧ rawText t = slice src i e ∧ t.map = mkMap src i e :=
  let s := parser_ok hw hi hd hp
  ⟨s.lt, s.le, s.text, s.map⟩

/-- Hence the `len(source)` fuel of the main loop (and of the quote loop) is never exhausted: the real `while` loops
    terminate on every source, for every definition with the decided side conditions. -/
theorem progress (d : TokenDef) (hw : wf d = true) (src : Str) : parseImpl d src ≠ .error .fuel :=
  parseLoop_fuel hw src.length 0 (by omega)

/-- Concatenating the texts of the raw tokens (the unary-minus marker read back as `-`) reproduces the source. -/
theorem concat (d : TokenDef) (hw : wf d = true) (src : Str) (toks : List Token) (h : parseImpl d src = .ok toks) :
    (toks.map rawText).flatten = src := by
  have := (parseLoop_ok hw src.length 0 toks (Nat.zero_le _) h).1
  simpa using this

/-- `concat` is not vacuous: every source over the definition's alphabet (each character is in an alphabet or is a
    one-character opener) is accepted — also one ending in a minus sign, since 6dc3d89 guards the look-ahead of `parse_symbol`. -/
theorem total (d : TokenDef) (hw : wf d = true) (hwt : wfTotal d = true) (src : Str)
    (halpha : ∀ c ∈ src, alphaChar d c = true) : ∃ toks, parseImpl d src = .ok toks :=
  parseLoop_total hw hwt halpha src.length 0 (by omega)

/-- regression: a trailing minus is a binary Minus token (it raised IndexError before 6dc3d89); a minus before a
    non-blank is the unary marker -/
example : (match parseImpl pyDef ['x', ' ', '-'], parseImpl pyDef ['-', 'x'] with
    | .ok [_, _, t], .ok [u, _] => decide (t.type = T.minus ∧ t.string = ['-'] ∧ u.string = Special.opUnaryMinus)
    | _, _ => false) = true := by decide +kernel

/-- The slice of the source addressed by each raw token's (line, column) span is that token's text, and none of the four
    numbers is negative. -/
theorem span (d : TokenDef) (hw : wf d = true) (src : Str) (toks : List Token) (h : parseImpl d src = .ok toks)
    (t : Token) (ht : t ∈ toks) :
    0 ≤ t.map.bl ∧ 0 ≤ t.map.bc ∧ 0 ≤ t.map.el ∧ 0 ≤ t.map.ec ∧ addressed src t.map = rawText t := by
  obtain ⟨b, e, hbe, he, htext, hmap⟩ := (parseLoop_ok hw src.length 0 toks (Nat.zero_le _) h).2 t ht
  obtain ⟨h1, h2, h3, h4, h5, h6⟩ := mkMap_addresses src hbe he
  rw [hmap]
  refine ⟨h1, h2, h3, h4, ?_⟩
  unfold addressed
  rw [h5, h6, htext]

/-- non-vacuity: a source with a comment, a string, a combined symbol, a unary and a binary minus over two lines lexes,
    concatenates back and every span addresses its text -/
example :
    let src : Str := ['a',' ','-','=',' ','-','1',' ','-',' ','\'','x','\'',' ','#','c','\n','\t','b']
    (match parseImpl pyDef src with
      | .ok toks => decide ((toks.map rawText).flatten = src ∧ toks.length = 14 ∧ ∀ t ∈ toks, addressed src t.map = rawText t)
      | .error _ => false) = true := by
  decide +kernel

/-! ### C13.balance — INDENT / DEDENT accounting of `_rebuild` -/

/-- For every token list `_rebuild` accepts: the INDENTs are the indentation increases, and the DEDENTs plus the depth
    still open at the end are the total size of these increases. So #DEDENT − #INDENT = Σ (jump − 1) − (depth left open). -/
theorem balance (toks out : List Token) (h : rebuild toks = .ok out) :
    countType T.indent out = (jumps Ctx.init 0 toks).length ∧
    countType T.dedent out + finalNest Ctx.init 0 toks = (jumps Ctx.init 0 toks).sum := by
  have := rebuildLoop_counts toks Ctx.init 0 out h
  simpa [Ctx.init] using this

/-- When nothing is left open (the EOF token was handled outside brackets), indents and dedents balance iff every
    indentation increase is exactly one unit. -/
theorem balance_iff (toks out : List Token) (h : rebuild toks = .ok out) (hf : finalNest Ctx.init 0 toks = 0) :
    countType T.indent out = countType T.dedent out ↔ ∀ j ∈ jumps Ctx.init 0 toks, j = 1 := by
  obtain ⟨h1, h2⟩ := balance toks out h
  rw [hf] at h2
  rw [← sum_eq_length_iff _ (jumps_pos toks Ctx.init 0), h1]
  omega

/-- the full sentence of the property: indents and dedents always balance -/
def balance_statement : Prop :=
  ∀ (src : Str) (out : List Token), tokenize pyDef src = .ok out → countType T.indent out = countType T.dedent out

/-- `if a:\n    if b:\n            x\n    y` — valid Python, second block indented by two units (boundary B1) -/
def overIndented : Str :=
  ['i','f',' ','a',':','\n',' ',' ',' ',' ','i','f',' ','b',':','\n',' ',' ',' ',' ',' ',' ',' ',' ',' ',' ',' ',' ','x','\n',' ',' ',' ',' ','y']

/-- The full sentence is false on the current code: the over-indented block yields 2 INDENT and 3 DEDENT. -/
theorem balance_counterexample : ¬ balance_statement := by
  intro h
  have key : (match tokenize pyDef overIndented with
      | .ok out => decide (countType T.indent out = 2 ∧ countType T.dedent out = 3)
      | .error _ => false) = true := by decide +kernel
  cases hr : tokenize pyDef overIndented with
  | error e => rw [hr] at key; simp at key
  | ok out =>
    rw [hr] at key
    have := h overIndented out hr
    simp at key
    omega

/-- non-vacuity of `balance_iff`: a consistently indented two-level source is accepted, leaves nothing open, has two jumps of 1 -/
example :
    let src : Str := ['i','f',' ','a',':','\n','\t','i','f',' ','b',':','\n','\t','\t','x','\n','y']
    (match lexParse pyDef src with
      | .ok toks => decide (finalNest Ctx.init 0 toks = 0 ∧ jumps Ctx.init 0 toks = [1, 1] ∧ (rebuild toks).isOk)
      | .error _ => false) = true := by
  decide +kernel

/-! ### C13.width — tabs vs any consistent space width -/

/-- Rescaling every line break from a multiple of `u` to the same multiple of `u'` (a tab to four spaces, two spaces to a
    tab, …; the first indented line may be any multiple) gives the same `_rebuild` result up to source maps: same kinds and
    strings of all tokens, same NEWLINE / INDENT / DEDENT placement, same error if any. -/
theorem width (u u' : Nat) (hu : 0 < u) (hu' : 0 < u') (ts ts' : List Token) (h : AllRel (Rescaled u u') ts ts') :
    (rebuild ts).map (List.map simplify) = (rebuild ts').map (List.map simplify) :=
  rebuildLoop_rel hu hu' h Ctx.init Ctx.init 0 (CtxRel.init u u')

/-- non-vacuity: `a⏎⇥b⏎⇥⇥c⏎d` with tabs and with 4 spaces are related, and rebuild to 2 INDENT / 2 DEDENT -/
example :
    let nm (c : Char) : Token := ⟨T.name, [c], SourceMap.empty⟩
    let lb (s : Str) : Token := ⟨T.lineBreak, s, SourceMap.empty⟩
    let ts := [nm 'a', lb ['\n','\t'], nm 'b', lb ['\n','\t','\t'], nm 'c', lb ['\n'], nm 'd', Token.mkEOF]
    let ts' := [nm 'a', lb ['\n',' ',' ',' ',' '], nm 'b', lb ['\n',' ',' ',' ',' ',' ',' ',' ',' '], nm 'c', lb [' ','\n'], nm 'd', Token.mkEOF]
    AllRel (Rescaled 1 4) ts ts' ∧
      (match rebuild ts with
        | .ok out => decide (countType T.indent out = 2 ∧ countType T.dedent out = 2)
        | .error _ => false) = true := by
  refine ⟨?_, by decide +kernel⟩
  exact .cons (.of_eq (by decide) rfl rfl) (.cons (.lb 1 rfl rfl (by decide) (by decide))
    (.cons (.of_eq (by decide) rfl rfl) (.cons (.lb 2 rfl rfl (by decide) (by decide))
    (.cons (.of_eq (by decide) rfl rfl) (.cons (.lb 0 rfl rfl (by decide) (by decide))
    (.cons (.of_eq (by decide) rfl rfl) (.cons (.of_eq (by decide) rfl rfl) .nil)))))))

/-! ### C13.layout_tokens — comments and white space raw tokens are insignificant -/

/-- The full token-level sentence: in a raw token list of the shape the lexer produces, inserting (or removing) one
    WhiteSpace or Comment raw token such that the list keeps that shape does not change what `_rebuild ∘ post_filter`
    delivers (up to source maps). Not proved in general (the post filter is a four-pass state machine over neighbouring
    tokens); checked on the real code by the search (token-level insertions and the character-level rewrites). -/
def layout_tokens_statement : Prop :=
  ∀ (xs ys : List Token) (w : Token), (w.type = T.whiteSpace ∨ w.type = T.comment) →
    lexShaped pyDef (xs ++ w :: ys) = true → lexShaped pyDef (xs ++ ys) = true →
    (rebuild (postFilter pyDef (xs ++ w :: ys) ++ [Token.mkEOF])).map (List.map simplify)
      = (rebuild (postFilter pyDef (xs ++ ys) ++ [Token.mkEOF])).map (List.map simplify)

/-- Proved part: within one logical line (no line break token) `post_filter` keeps exactly the significant tokens, so any
    two raw token lists with the same significant tokens — however many comments and white space tokens are inserted or
    removed, anywhere — give the same `post_filter` output, hence the same `_rebuild` output. For every definition with
    the shipped post filter list. -/
theorem layout_tokens_partial (d : TokenDef) (hd : ShippedFilters d) (ts ts' : List Token)
    (h : ∀ t ∈ ts, t.type ≠ T.lineBreak) (h' : ∀ t ∈ ts', t.type ≠ T.lineBreak)
    (hsig : significant ts = significant ts') :
    postFilter d ts = postFilter d ts' ∧
    rebuild (postFilter d ts ++ [Token.mkEOF]) = rebuild (postFilter d ts' ++ [Token.mkEOF]) := by
  rw [postFilter_noLB hd h, postFilter_noLB hd h', hsig]
  exact ⟨rfl, rfl⟩

/-- non-vacuity: `a = b` with and without white space and a trailing comment -/
example :
    let nm (c : Char) : Token := ⟨T.name, [c], SourceMap.empty⟩
    let ws : Token := ⟨T.whiteSpace, [' '], SourceMap.empty⟩
    let ts := [nm 'a', ws, ⟨94, ['='], SourceMap.empty⟩, ws, nm 'b', ws, ⟨T.comment, ['#', 'c'], SourceMap.empty⟩]
    let ts' := [nm 'a', ⟨94, ['='], SourceMap.empty⟩, nm 'b']
    (decide (significant ts = significant ts') && decide (postFilter pyDef ts = ts') &&
      lexShaped pyDef ts && lexShaped pyDef ts') = true := by
  decide +kernel

end Tranp.C13
