/-
  Property C07 — Failures are always reported as tranp errors, never internal crashes.
  Property theorems only; the model is Tranp/Model/Errors.lean, helper lemmas are in Tranp/Lemmas/Errors.lean.

  Which part of the property is a theorem (the rest is search only, see harness/c07.py):
    * proc            — exceptions raised by Procedure handlers are normalised into the Errors.Error hierarchy
    * proc_full       — the same including exceptions raised by node properties: FALSE (`proc_full_counterexample`)
    * parse_disk      — the on-disk parser branch maps every Exception to Errors.Syntax
    * parse_mem       — the same for in-memory modules: FALSE without except clauses (`parse_mem_counterexample`, the pinned
                        tree: `Generated.parserMemHandlers = []`), TRUE with the on-disk clauses (`parse_mem_fixed`, the proposed fix)
    * load_normalised — Modules.load with the repaired except clauses ends ok / in Errors.Error / passes non-Exceptions through
    * loop            — an Interactive step keeps the loop alive for every outcome in {ok} ∪ Errors.Error (given the render succeeds)
    * render_total    — message and quotation builders are total exactly under the stated guards
-/
import Tranp.Lemmas.Errors

namespace Tranp.C07
open Tranp Tranp.Errors Tranp.Generated.ErrorsTable

/-! ### Procedure -/

/-- `e.__class__(node)` must be a valid call for the `Errors.Error` subclasses a handler raises with a non-Node first argument
    (true of every member of `Errors`: `err_ctor1`) -/
def CtorOk (x : Exc) : Prop := x.inHierarchy = true → x.arg0 = .other → x.cls.ctor1 = true

/-- Whatever the handlers do — return, or raise an exception of ANY class (named, user-defined, multiply inheriting) with any
    arguments — and whatever the stack discipline of the nodes is, `exec` ends ok, or with a member of the Errors.Error
    hierarchy, or with the very exception a handler raised when that one is not an `Exception` (KeyboardInterrupt, SystemExit, …
    pass through). Hypotheses: node properties and `procedural()` themselves do not raise (see `proc_full_counterexample`). -/
theorem proc (evs : List NodeEv)
    (hprops : ∀ ev ∈ evs, ∀ x, PropSpec.raises x ∉ ev.props)
    (hctor : ∀ ev ∈ evs, ∀ x, ev.result = .error x → CtorOk x) :
    match execImpl (.ok ()) evs with
    | .ok _ => True
    | .error y => y.inHierarchy = true ∨ (∃ ev ∈ evs, ev.result = .error y ∧ y.isException = false) := by
  -- invariant of the node loop
  have hnodes : ∀ (evs' : List NodeEv), (∀ ev ∈ evs', ev ∈ evs) → ∀ (h : Nat) (y : Exc), runNodes h evs' = .error y →
      y.inHierarchy = true ∨ (∃ ev ∈ evs, ev.result = .error y ∧ y.isException = false) := by
    intro evs'
    induction evs' with
    | nil => intro _ h y hy; simp [runNodes] at hy
    | cons ev rest ih =>
      intro hsub h y hy
      have hev : ev ∈ evs := hsub ev List.mem_cons_self
      have hrest : ∀ e ∈ rest, e ∈ evs := fun e he => hsub e (List.mem_cons_of_mem _ he)
      simp only [runNodes] at hy
      cases hrn : runNode h ev with
      | ok h' => rw [hrn] at hy; exact ih hrest h' y hy
      | error z =>
        rw [hrn] at hy
        cases hy
        -- the node itself failed
        unfold runNode at hrn
        cases hk : ev.handler with
        | missing => rw [hk] at hrn; cases hrn; exact Or.inl rfl
        | own | fallback =>
          all_goals
            rw [hk] at hrn
            simp only [bind, Except.bind] at hrn
            cases hme : makeEventRaw h ev.props with
            | error w =>
              rw [hme] at hrn
              simp only [tryWith] at hrn
              cases hrn
              have := makeEventRaw_error ev.props (hprops ev hev) h w hme
              exact Or.inl (propagate_assert makeEventHandlers rfl w this.1)
            | ok h' =>
              rw [hme] at hrn
              simp only [tryWith] at hrn
              cases hres : ev.result with
              | ok u => rw [hres] at hrn; simp [pure, Except.pure] at hrn
              | error x =>
                rw [hres] at hrn
                simp only at hrn
                cases hrn
                rcases propagate_emit x (hctor ev hev x hres) with hin | ⟨heq, hne⟩
                · exact Or.inl hin
                · rw [heq]; exact Or.inr ⟨ev, hev, hres, hne⟩
  unfold execImpl
  simp only [bind, Except.bind]
  cases hr : runNodes 0 evs with
  | error y =>
    simp only [tryWith]
    rcases hnodes evs (fun _ h => h) 0 y hr with hin | ⟨ev, hev, hres, hne⟩
    · -- already in the hierarchy: either it is also an AssertionError (→ Logic) or it passes unchanged
      cases ha : y.cls.isA (.bi .AssertionError) with
      | true => exact Or.inl (propagate_assert execImplHandlers rfl y ha)
      | false => rw [propagate_assert_other execImplHandlers rfl y ha]; exact Or.inl hin
    · rw [propagate_assert_other execImplHandlers rfl y (not_exception_not_AssertionError y hne)]
      exact Or.inr ⟨ev, hev, hres, hne⟩
  | ok h =>
    by_cases h1 : h = 1
    · simp [h1, tryWith, pure, Except.pure]
    · simp only [h1, if_false, tryWith]
      exact Or.inl (propagate_assert execImplHandlers rfl _ rfl)

/-- non-vacuity: a handler raising a user class that inherits from both `Errors.Syntax` and `TypeError` with a non-Node argument,
    after a node with a list property; the hypotheses hold and the outcome is `Errors.InvalidSchema` -/
example :
    let mixed : Cls := .user ['M'] [.atom (.err .Syntax), .atom (.bi .TypeError)] false
    let evs : List NodeEv := [⟨.fallback, [], .ok ()⟩, ⟨.own, [.list 1], .error ⟨mixed, .other⟩⟩]
    (match execImpl (.ok ()) evs with
      | .error y => y.cls.isA (.err .InvalidSchema) && y.inHierarchy
      | .ok _ => false) = true := by
  decide

/-- Non-`Exception` exceptions pass through unchanged (the "stated" part of `proc`): for every class that is not an `Exception`. -/
theorem proc_passthrough (x : Exc) (hx : x.isException = false) (k : HandlerKind) (hk : k ≠ .missing) :
    execImpl (.ok ()) [⟨k, [], .error x⟩] = .error x := by
  have h1 := not_exception_not_TypeError x hx
  have h2 := not_exception_not_hierarchy x hx
  have h3 : x.cls.isA (.bi .Exception) = false := hx
  have h4 := not_exception_not_AssertionError x hx
  cases k with
  | missing => exact absurd rfl hk
  | own | fallback =>
    all_goals
      simp [execImpl, runNodes, runNode, makeEventRaw, tryWith, bind, Except.bind,
        emitHandlers, execImplHandlers, propagate, h1, h2, h3, h4]

example : (Exc.ofBuiltin .KeyboardInterrupt .none).isException = false := by decide

/-- The full sentence of the property for Procedure — "no lookup/type/assertion exception escapes `exec`" without assuming
    well-behaved node properties. -/
def proc_full_statement : Prop :=
  ∀ (procedural : Except Exc Unit) (evs : List NodeEv),
    (∀ ev ∈ evs, ∀ x, ev.result = .error x → CtorOk x) →
    match execImpl procedural evs with
    | .ok _ => True
    | .error y => y.inHierarchy = true ∨ y.isException = false

/-- FALSE on the current code: a `KeyError` raised while `__make_event` evaluates a node property (procedure.py:191, outside
    the try of `__emit`; only AssertionError is caught at :197 and :91) escapes `exec` as it is. -/
theorem proc_full_counterexample : ¬ proc_full_statement := by
  intro h
  have := h (.ok ()) [⟨.own, [.raises (Exc.ofBuiltin .KeyError .other)], .ok ()⟩] (by
    intro ev hev x hx
    simp at hev
    subst hev
    simp at hx)
  have hcomp : execImpl (.ok ()) [⟨.own, [.raises (Exc.ofBuiltin .KeyError .other)], .ok ()⟩]
      = .error (Exc.ofBuiltin .KeyError .other) := rfl
  rw [hcomp] at this
  rcases this with h' | h' <;> exact absurd h' (by decide)

/-! ### SyntaxParserOfLark.__load_entry -/

/-- The on-disk branch reports every `Exception` raised while reading/parsing as `Errors.Syntax` (and nothing on a cache hit). -/
theorem parse_disk (memHandlers : List Handler) (cached : Bool) (x : Exc) (hx : x.isException = true) :
    loadEntry memHandlers true cached (.error x) = (if cached then .ok () else .error (Exc.ofErr .Syntax .other)) := by
  have hx' : x.cls.isA (.bi .Exception) = true := hx
  cases cached <;> simp [loadEntry, tryWith, parserDiskHandlers, propagate, runAction, hx']

example : (⟨.user ['U','n','e','x','p','e','c','t','e','d','T','o','k','e','n'] [.user ['L','a','r','k','E','r','r','o','r'] [.atom (.bi .Exception)] true] true, .other⟩ : Exc).isException = true := by
  decide

/-- "unparsable text is reported as Errors.Syntax" for a module that lives only in memory, for a given list of except clauses
    around the in-memory branch -/
def parse_mem_statement (memHandlers : List Handler) : Prop :=
  ∀ x : Exc, x.isException = true →
    ∃ y, loadEntry memHandlers false false (.error x) = .error y ∧ y.cls.isA (.err .Syntax) = true

/-- FALSE on the pinned tree (parser.py:88-89 has no try: `Generated.parserMemHandlers = []`): the raw parser exception escapes.
    Witness: lark's `UnexpectedToken` (a third-party `Exception` subclass). Replayed on the real code by harness/c07.py. -/
theorem parse_mem_counterexample : ¬ parse_mem_statement [] := by
  intro h
  obtain ⟨y, hy, hs⟩ := h ⟨.user ['U','n','e','x','p','e','c','t','e','d','T','o','k','e','n'] [.atom (.bi .Exception)] true, .other⟩ (by decide)
  simp [loadEntry, tryWith, propagate] at hy
  subst hy
  revert hs
  decide

/-- TRUE once the in-memory branch is wrapped like the on-disk one (the proposed fix, proposed/C07-inmemory-syntax.diff). -/
theorem parse_mem_fixed : parse_mem_statement parserDiskHandlers := by
  intro x hx
  have hx' : x.cls.isA (.bi .Exception) = true := hx
  refine ⟨Exc.ofErr .Syntax .other, ?_, by decide⟩
  simp [loadEntry, tryWith, parserDiskHandlers, propagate, runAction, hx']

/-- non-vacuity: lark's DedentError (an `Exception` through `LarkError`) comes out as `Errors.Syntax` under the fixed handlers -/
example :
    (match loadEntry parserDiskHandlers false false (.error ⟨.user ['D'] [.user ['L'] [.atom (.bi .Exception)] true] true, .other⟩) with
      | .error y => y.cls.isA (.err .Syntax) | .ok _ => false) = true := by
  decide

/-! ### Modules.load -/

/-- With the except clauses of the repaired `Modules.load` (`except Errors.Error: raise` / `except Exception: raise Errors.Fatal`),
    whatever the library load, the loader, the dependency loads, the preprocessors and even the rollback raise — any class —
    `load` ends ok, or in the Errors.Error hierarchy, or with an exception that is not an `Exception` (those pass through). -/
theorem load_normalised (rollback : List Atom) (recheck registered registeredAfterLibs : Bool) (libs load body unload : Except Exc Unit) :
    match modulesLoadWith [⟨.err .Error, .reraise⟩, ⟨.bi .Exception, .wrap .Fatal .other⟩] rollback recheck registered registeredAfterLibs libs load body unload with
    | .ok _ => True
    | .error y => y.inHierarchy = true ∨ y.isException = false := by
  have key : ∀ z : Exc, (propagate [⟨.err .Error, .reraise⟩, ⟨.bi .Exception, .wrap .Fatal .other⟩] z).inHierarchy = true ∨
      (propagate [⟨.err .Error, .reraise⟩, ⟨.bi .Exception, .wrap .Fatal .other⟩] z).isException = false := by
    intro z
    simp only [propagate]
    by_cases h1 : z.cls.isA (.err .Error) = true
    · simp only [h1, if_true, runAction]; exact Or.inl h1
    · simp only [h1]
      by_cases h2 : z.cls.isA (.bi .Exception) = true
      · simp only [h2, if_true, runAction]; exact Or.inl rfl
      · simp only [h2]; exact Or.inr (by simpa [Exc.isException] using h2)
  unfold modulesLoadWith
  cases modulesLoadBody rollback recheck registered registeredAfterLibs libs load body unload with
  | ok u => simp [tryWith]
  | error z => simp only [tryWith]; exact key z

/-- the current tree's tables are the ones of `load_normalised` exactly when the translator found the repaired shape -/
example : (modulesLoadHandlers = [] ∨ modulesLoadHandlers = [⟨.err .Error, .reraise⟩, ⟨.bi .Exception, .wrap .Fatal .other⟩]) := by decide

/-- non-vacuity: a KeyError from a preprocessor with a failing rollback (IndexError from unload) still ends as Errors.Fatal -/
example :
    (match modulesLoadWith [⟨.err .Error, .reraise⟩, ⟨.bi .Exception, .wrap .Fatal .other⟩] [.bi .Exception] true false false (.ok ()) (.ok ())
        (.error (Exc.ofBuiltin .KeyError .other)) (.error (Exc.ofBuiltin .IndexError .other)) with
      | .error y => y.cls.isA (.err .Fatal) | .ok _ => false) = true := by
  decide

/-- Without the clauses (the pinned tree) the raw exception escapes — what the fuzz keys `IndexError@…`, `ValueError@…` showed. -/
theorem load_unnormalised_counterexample :
    ¬ (∀ (body : Except Exc Unit), match modulesLoadWith [] [] false false false (.ok ()) (.ok ()) body (.ok ()) with
      | .ok _ => True
      | .error y => y.inHierarchy = true ∨ y.isException = false) := by
  intro h
  have := h (.error (Exc.ofBuiltin .IndexError .other))
  have hc : modulesLoadWith [] [] false false false (.ok ()) (.ok ()) (.error (Exc.ofBuiltin .IndexError .other)) (.ok ())
      = .error (Exc.ofBuiltin .IndexError .other) := rfl
  rw [hc] at this
  rcases this with h' | h' <;> exact absurd h' (by decide)

/-! ### Interactive.run -/

/-- One step keeps the loop alive for every outcome in {ok} ∪ Errors.Error — for every class of the hierarchy, user-defined
    subclasses included — provided printing the error does not raise. -/
theorem loop (result : Except Exc Unit)
    (h : match result with | .ok _ => True | .error x => x.inHierarchy = true) :
    step (.code result (.ok ())) = .running := by
  cases result with
  | ok u => rfl
  | error x =>
    have hx : x.cls.isA (.err .Error) = true := h
    simp [step, catchesAny, interactiveInnerCatch, hx]

example : step (.code (.error (Exc.ofErr .UnresolvedSymbol .node)) (.ok ())) = .running := rfl

/-- … and so does every history of such steps: all inputs are consumed and the loop is still running. -/
theorem loop_history (ins : List Input)
    (h : ∀ i ∈ ins, ∃ r, i = .code r (.ok ()) ∧ (match r with | .ok _ => True | .error x => x.inHierarchy = true)) :
    run ins = (.running, ins.length) := by
  induction ins with
  | nil => rfl
  | cons i is ih =>
    obtain ⟨r, hi, hr⟩ := h i List.mem_cons_self
    have hs : step i = .running := by rw [hi]; exact loop r hr
    have := ih (fun j hj => h j (List.mem_cons_of_mem _ hj))
    simp [run, hs, this]

/-- non-vacuity: ok, an error of the hierarchy, ok — three inputs consumed, still running -/
example : run [.code (.ok ()) (.ok ()), .code (.error (Exc.ofErr .Syntax .other)) (.ok ()), .code (.ok ()) (.ok ())] = (.running, 3) := rfl

/-- Any other `Exception` ends the loop (this is what the raw parser exception of `parse_mem_counterexample` does to the
    interactive mode on the pinned tree). -/
theorem loop_dies (x : Exc) (hx : x.inHierarchy = false) (hk : x.cls.isA (.bi .KeyboardInterrupt) = false) (render : Except Exc Unit) :
    step (.code (.error x) render) = .died x := by
  have hx' : x.cls.isA (.err .Error) = false := hx
  simp [step, catchesAny, interactiveInnerCatch, interactiveOuterCatch, outer, hx', hk]

/-- non-vacuity: a KeyError is neither in the hierarchy nor a KeyboardInterrupt; the second input is never read -/
example : (run [.code (.error (Exc.ofBuiltin .KeyError .other)) (.ok ()), .code (.ok ()) (.ok ())]).2 = 1 := rfl

/-- After the in-memory fix every parser failure keeps the loop alive. -/
theorem loop_parse_fixed (x : Exc) (hx : x.isException = true) :
    step (.code (loadEntry parserDiskHandlers false false (.error x)) (.ok ())) = .running := by
  obtain ⟨y, hy, hs⟩ := parse_mem_fixed x hx
  rw [hy]
  exact loop (.error y) (Cls.isA_lift _ _ atom_Syntax_isA_Error y.cls hs)

/-! ### ErrorRender -/

/-- `__build_message` is total exactly when `str(arg)` succeeds for every non-string argument — or raises an `Exception` and
    the builder falls back to `repr(arg)` (flag `fallback`; the current tree is `buildMessage = buildMessageWith Generated.messageStrFallback`). -/
theorem render_message_total (fallback : Bool) (args : List Arg) :
    (∃ s, buildMessageWith fallback args = .ok s) ↔
      (∀ a ∈ args, ∀ x r, a = .obj (.error x) r → (fallback = true ∧ x.isException = true)) := by
  have one : ∀ a : Arg, (∃ s, argTextWith fallback a = .ok s) ↔ (∀ x r, a = .obj (.error x) r → (fallback = true ∧ x.isException = true)) := by
    intro a
    cases a with
    | str s => simp [argTextWith]
    | obj t r =>
      cases t with
      | ok u => simp [argTextWith]
      | error x =>
        simp only [argTextWith]
        cases hc : (fallback && x.isException) with
        | true =>
          simp only [Bool.and_eq_true] at hc
          simp only [if_true]
          constructor
          · intro _ x' r' h; cases h; exact hc
          · intro _; exact ⟨_, rfl⟩
        | false =>
          simp only [Bool.false_eq_true, if_false]
          constructor
          · intro ⟨_, h⟩; cases h
          · intro h
            have := h x r rfl
            rw [this.1, this.2] at hc
            cases hc
  have all : ∀ as : List Arg, (∃ ss, mapArgsWith fallback as = .ok ss) ↔ (∀ a ∈ as, ∃ s, argTextWith fallback a = .ok s) := by
    intro as
    induction as with
    | nil => simp [mapArgsWith]
    | cons a as ih =>
      simp only [mapArgsWith, List.mem_cons, forall_eq_or_imp]
      cases ha : argTextWith fallback a with
      | error x => simp
      | ok s =>
        cases hm : mapArgsWith fallback as with
        | error x =>
          have : ¬ (∃ ss, mapArgsWith fallback as = .ok ss) := by simp [hm]
          rw [ih] at this
          simp [this]
        | ok ss =>
          have : ∃ ss, mapArgsWith fallback as = .ok ss := ⟨ss, hm⟩
          rw [ih] at this
          simp
          exact this
  have hb : (∃ s, buildMessageWith fallback args = .ok s) ↔ (∃ ss, mapArgsWith fallback args = .ok ss) := by
    unfold buildMessageWith
    cases mapArgsWith fallback args with
    | error x => simp
    | ok ss => simp
  rw [hb, all]
  constructor
  · intro h a ha; exact (one a).mp (h a ha)
  · intro h a ha; exact (one a).mpr (h a ha)

example : buildMessageWith false [.str ['a'], .obj (.ok ['<','N','>']) ['r']] = .ok ['(', '"', 'a', '"', ',', ' ', '<', 'N', '>', ')'] := rfl

/-- The exact guard of the quotation builder: `Quotation(filepath, source_map)` (and with it `build()` / the line mark) is defined
    iff `-#lines ≤ begin_line < #lines` (Python list indexing at error_render.py:110); otherwise it raises IndexError. -/
theorem render_quotation_total (filepath : Str) (lines : List Str) (sm : SourceMap) :
    (∃ q, Quotation.new filepath lines sm = .ok q) ↔ (-(lines.length : Int) ≤ sm.beginLine ∧ sm.beginLine < lines.length) := by
  rw [← pyIndex_ok_iff lines sm.beginLine]
  unfold Quotation.new
  cases pyIndex lines sm.beginLine with
  | error x => simp
  | ok l => simp

/-- In lark's 1-based terms (`__build_quotation` subtracts 1): a node on line `1 ≤ line ≤ #lines` of an existing file is always
    quotable; line 0 (a node without position) needs a non-empty file. -/
theorem render_total (arg0 : Arg0) (fileExists : Bool) (filepath : Str) (lines : List Str) (sm1 : SourceMap)
    (h : 0 ≤ sm1.beginLine ∧ sm1.beginLine ≤ lines.length ∧ 0 < lines.length) :
    ∃ out, buildQuotation arg0 fileExists filepath lines sm1 = .ok out := by
  unfold buildQuotation
  split
  · exact ⟨_, rfl⟩
  · split
    · exact ⟨_, rfl⟩
    · split
      · exact ⟨_, rfl⟩
      · have hq := (render_quotation_total filepath lines
          ⟨sm1.beginLine - 1, sm1.beginColumn - 1, sm1.endLine - 1, sm1.endColumn - 1⟩).mpr (by simp only; omega)
        obtain ⟨q, hq⟩ := hq
        rw [hq]
        exact ⟨_, rfl⟩

example :
    (match buildQuotation .node true ['a','.','p','y'] [['x',' ','=',' ','y','\n'], ['\t','z','\n']] ⟨2, 2, 2, 3⟩ with
      | .ok out => out == [['v', 'i', 'a', ' ', 'N', 'o', 'd', 'e', ':'], [' ', ' ', 'a', '.', 'p', 'y', ':', '2'], [' ', ' ', ' ', ' ', '>', '>', '>', ' ', ' ', 'z'], [' ', ' ', ' ', ' ', ' ', ' ', ' ', ' ', ' ', '^']]
      | .error _ => false) = true := by
  decide +kernel

/-- beyond the last line the builder raises (this is the only way `__build_quotation` can fail on a decodable file) -/
example : (match buildQuotation .node true ['a'] [['x','\n']] ⟨3, 1, 3, 2⟩ with | .error _ => true | .ok _ => false) = true := by
  decide

end Tranp.C07
