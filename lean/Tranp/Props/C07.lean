/-
  Property C07 — Failures are always reported as tranp errors, never internal crashes.
  Property theorems only; the model is Tranp/Model/Errors.lean, helper lemmas are in Tranp/Lemmas/Errors.lean.

  Which part of the property is a theorem (the rest is search only, see harness/c07.py):
    * proc            — exceptions raised by Procedure handlers are normalised into the Errors.Error hierarchy
    * proc_full       — the same including exceptions raised by node properties: FALSE (`proc_full_counterexample`)
    * parse_disk      — the on-disk parser branch maps every Exception to Errors.Syntax
    * parse_mem       — the same for in-memory modules: FALSE without except clauses (`parse_mem_counterexample`, the pinned
                        tree: `Generated.parserMemHandlers = []`), TRUE with the on-disk clauses (`parse_mem_fixed`, the proposed fix)
    * load_normalised — Modules.load with the repaired except clauses ends ok / in Errors.Error / passes non-Exceptions through
    * loop            — an Interactive step keeps the loop alive for every outcome in {ok} ∪ Errors.Error (given the render succeeds)
    * render_total    — message and quotation builders are total exactly under the stated guards
    * session         — the request boundary (bin/io.py tty + the quit test of Interactive.run, both generated): the quit test is total on
                        every request incl. the empty one, and a whole keyboard transcript ends at the prompt or through the quit command
-/
import Tranp.Lemmas.Errors
import Tranp.Lemmas.ErrorsRun

namespace Tranp.C07
open Tranp Tranp.Errors Tranp.Generated.ErrorsTable

/-! ### Procedure -/

/-- `e.__class__(node)` must be a valid call for the `Errors.Error` subclasses a handler raises with a non-Node first argument
    (true of every member of `Errors`: `err_ctor1`) -/
def CtorOk (x : Exc) : Prop := x.inHierarchy = true → x.arg0 = .other → x.cls.ctor1 = true

/-- Whatever the handlers do — return, or raise an exception of ANY class (named, user-defined, multiply inheriting) with any
    arguments — and whatever the stack discipline of the nodes is, `exec` ends ok, or with a member of the Errors.Error
    hierarchy, or with the very exception a handler raised when that one is not an `Exception` (KeyboardInterrupt, SystemExit, …
    pass through). Hypotheses: node properties and `procedural()` themselves do not raise (see `proc_full_counterexample`). -/
theorem proc (evs : List NodeEv)
    (hprops : ∀ ev ∈ evs, ∀ x, PropSpec.raises x ∉ ev.props)
    (hctor : ∀ ev ∈ evs, ∀ x, ev.result = .error x → CtorOk x) :
    match execImpl (.ok ()) evs with
    | .ok _ => True
    | .error y => y.inHierarchy = true ∨ (∃ ev ∈ evs, ev.result = .error y ∧ y.isException = false) := by
  -- invariant of the node loop
  have hnodes : ∀ (evs' : List NodeEv), (∀ ev ∈ evs', ev ∈ evs) → ∀ (h : Nat) (y : Exc), runNodes h evs' = .error y →
      y.inHierarchy = true ∨ (∃ ev ∈ evs, ev.result = .error y ∧ y.isException = false) := by
    intro evs'
    induction evs' with
    | nil => intro _ h y hy; simp [runNodes] at hy
    | cons ev rest ih =>
      intro hsub h y hy
      have hev : ev ∈ evs := hsub ev List.mem_cons_self
      have hrest : ∀ e ∈ rest, e ∈ evs := fun e he => hsub e (List.mem_cons_of_mem _ he)
      simp only [runNodes] at hy
      cases hrn : runNode h ev with
      | ok h' => rw [hrn] at hy; exact ih hrest h' y hy
      | error z =>
        rw [hrn] at hy
        cases hy
        -- the node itself failed
        unfold runNode at hrn
        cases hk : ev.handler with
        | missing => rw [hk] at hrn; cases hrn; exact Or.inl rfl
        | own | fallback =>
          all_goals
            rw [hk] at hrn
            simp only [bind, Except.bind] at hrn
            cases hme : makeEventRaw h ev.props with
            | error w =>
              rw [hme] at hrn
              simp only [tryWith] at hrn
              cases hrn
              have := makeEventRaw_error ev.props (hprops ev hev) h w hme
              exact Or.inl (propagate_assert makeEventHandlers rfl w this.1)
            | ok h' =>
              rw [hme] at hrn
              simp only [tryWith] at hrn
              cases hres : ev.result with
              | ok u => rw [hres] at hrn; simp [pure, Except.pure] at hrn
              | error x =>
                rw [hres] at hrn
                simp only at hrn
                cases hrn
                rcases propagate_emit x (hctor ev hev x hres) with hin | ⟨heq, hne⟩
                · exact Or.inl hin
                · rw [heq]; exact Or.inr ⟨ev, hev, hres, hne⟩
  unfold execImpl
  simp only [bind, Except.bind]
  cases hr : runNodes 0 evs with
  | error y =>
    simp only [tryWith]
    rcases hnodes evs (fun _ h => h) 0 y hr with hin | ⟨ev, hev, hres, hne⟩
    · -- already in the hierarchy: either it is also an AssertionError (→ Logic) or it passes unchanged
      cases ha : y.cls.isA (.bi .AssertionError) with
      | true => exact Or.inl (propagate_assert execImplHandlers rfl y ha)
      | false => rw [propagate_assert_other execImplHandlers rfl y ha]; exact Or.inl hin
    · rw [propagate_assert_other execImplHandlers rfl y (not_exception_not_AssertionError y hne)]
      exact Or.inr ⟨ev, hev, hres, hne⟩
  | ok h =>
    by_cases h1 : h = 1
    · simp [h1, tryWith, pure, Except.pure]
    · simp only [h1, if_false, tryWith]
      exact Or.inl (propagate_assert execImplHandlers rfl _ rfl)

/-- non-vacuity: a handler raising a user class that inherits from both `Errors.Syntax` and `TypeError` with a non-Node argument,
    after a node with a list property; the hypotheses hold and the outcome is `Errors.InvalidSchema` -/
example :
    let mixed : Cls := .user ['M'] [.atom (.err .Syntax), .atom (.bi .TypeError)] false
    let evs : List NodeEv := [⟨.fallback, [], .ok ()⟩, ⟨.own, [.list 1], .error ⟨mixed, .other⟩⟩]
    (match execImpl (.ok ()) evs with
      | .error y => y.cls.isA (.err .InvalidSchema) && y.inHierarchy
      | .ok _ => false) = true := by
  decide

/-- Non-`Exception` exceptions pass through unchanged (the "stated" part of `proc`): for every class that is not an `Exception`. -/
theorem proc_passthrough (x : Exc) (hx : x.isException = false) (k : HandlerKind) (hk : k ≠ .missing) :
    execImpl (.ok ()) [⟨k, [], .error x⟩] = .error x := by
  have h1 := not_exception_not_TypeError x hx
  have h2 := not_exception_not_hierarchy x hx
  have h3 : x.cls.isA (.bi .Exception) = false := hx
  have h4 := not_exception_not_AssertionError x hx
  cases k with
  | missing => exact absurd rfl hk
  | own | fallback =>
    all_goals
      simp [execImpl, runNodes, runNode, makeEventRaw, tryWith, bind, Except.bind,
        emitHandlers, execImplHandlers, propagate, h1, h2, h3, h4]

example : (Exc.ofBuiltin .KeyboardInterrupt .none).isException = false := by decide

/-- The full sentence of the property for Procedure — "no lookup/type/assertion exception escapes `exec`" without assuming
    well-behaved node properties. -/
def proc_full_statement : Prop :=
  ∀ (procedural : Except Exc Unit) (evs : List NodeEv),
    (∀ ev ∈ evs, ∀ x, ev.result = .error x → CtorOk x) →
    match execImpl procedural evs with
    | .ok _ => True
    | .error y => y.inHierarchy = true ∨ y.isException = false

/-- FALSE on the current code: a `KeyError` raised while `__make_event` evaluates a node property (procedure.py:191, outside
    the try of `__emit`; only AssertionError is caught at :197 and :91) escapes `exec` as it is. -/
theorem proc_full_counterexample : ¬ proc_full_statement := by
  intro h
  have := h (.ok ()) [⟨.own, [.raises (Exc.ofBuiltin .KeyError .other)], .ok ()⟩] (by
    intro ev hev x hx
    simp at hev
    subst hev
    simp at hx)
  have hcomp : execImpl (.ok ()) [⟨.own, [.raises (Exc.ofBuiltin .KeyError .other)], .ok ()⟩]
      = .error (Exc.ofBuiltin .KeyError .other) := rfl
  rw [hcomp] at this
  rcases this with h' | h' <;> exact absurd h' (by decide)

/-! ### SyntaxParserOfLark.__load_entry -/

/-- The on-disk branch reports every `Exception` raised while reading/parsing as `Errors.Syntax` (and nothing on a cache hit). -/
theorem parse_disk (memHandlers : List Handler) (cached : Bool) (x : Exc) (hx : x.isException = true) :
    loadEntry memHandlers true cached (.error x) = (if cached then .ok () else .error (Exc.ofErr .Syntax .other)) := by
  have hx' : x.cls.isA (.bi .Exception) = true := hx
  cases cached <;> simp [loadEntry, tryWith, parserDiskHandlers, propagate, runAction, hx']

example : (⟨.user ['U','n','e','x','p','e','c','t','e','d','T','o','k','e','n'] [.user ['L','a','r','k','E','r','r','o','r'] [.atom (.bi .Exception)] true] true, .other⟩ : Exc).isException = true := by
  decide

/-- "unparsable text is reported as Errors.Syntax" for a module that lives only in memory, for a given list of except clauses
    around the in-memory branch -/
def parse_mem_statement (memHandlers : List Handler) : Prop :=
  ∀ x : Exc, x.isException = true →
    ∃ y, loadEntry memHandlers false false (.error x) = .error y ∧ y.cls.isA (.err .Syntax) = true

/-- FALSE on the pinned tree (parser.py:88-89 has no try: `Generated.parserMemHandlers = []`): the raw parser exception escapes.
    Witness: lark's `UnexpectedToken` (a third-party `Exception` subclass). Replayed on the real code by harness/c07.py. -/
theorem parse_mem_counterexample : ¬ parse_mem_statement [] := by
  intro h
  obtain ⟨y, hy, hs⟩ := h ⟨.user ['U','n','e','x','p','e','c','t','e','d','T','o','k','e','n'] [.atom (.bi .Exception)] true, .other⟩ (by decide)
  simp [loadEntry, tryWith, propagate] at hy
  subst hy
  revert hs
  decide

/-- TRUE once the in-memory branch is wrapped like the on-disk one (the proposed fix, proposed/C07-inmemory-syntax.diff). -/
theorem parse_mem_fixed : parse_mem_statement parserDiskHandlers := by
  intro x hx
  have hx' : x.cls.isA (.bi .Exception) = true := hx
  refine ⟨Exc.ofErr .Syntax .other, ?_, by decide⟩
  simp [loadEntry, tryWith, parserDiskHandlers, propagate, runAction, hx']

/-- non-vacuity: lark's DedentError (an `Exception` through `LarkError`) comes out as `Errors.Syntax` under the fixed handlers -/
example :
    (match loadEntry parserDiskHandlers false false (.error ⟨.user ['D'] [.user ['L'] [.atom (.bi .Exception)] true] true, .other⟩) with
      | .error y => y.cls.isA (.err .Syntax) | .ok _ => false) = true := by
  decide

/-! ### Modules.load -/

/-- With the except clauses of the repaired `Modules.load` (`except Errors.Error: raise` / `except Exception: raise Errors.Fatal`),
    whatever the library load, the loader, the dependency loads, the preprocessors and even the rollback raise — any class —
    `load` ends ok, or in the Errors.Error hierarchy, or with an exception that is not an `Exception` (those pass through). -/
theorem load_normalised (rollback : List Atom) (recheck registered registeredAfterLibs : Bool) (libs load body unload : Except Exc Unit) :
    match modulesLoadWith [⟨.err .Error, .reraise⟩, ⟨.bi .Exception, .wrap .Fatal .other⟩] rollback recheck registered registeredAfterLibs libs load body unload with
    | .ok _ => True
    | .error y => y.inHierarchy = true ∨ y.isException = false := by
  have key : ∀ z : Exc, (propagate [⟨.err .Error, .reraise⟩, ⟨.bi .Exception, .wrap .Fatal .other⟩] z).inHierarchy = true ∨
      (propagate [⟨.err .Error, .reraise⟩, ⟨.bi .Exception, .wrap .Fatal .other⟩] z).isException = false := by
    intro z
    simp only [propagate]
    by_cases h1 : z.cls.isA (.err .Error) = true
    · simp only [h1, if_true, runAction]; exact Or.inl h1
    · simp only [h1]
      by_cases h2 : z.cls.isA (.bi .Exception) = true
      · simp only [h2, if_true, runAction]; exact Or.inl rfl
      · simp only [h2]; exact Or.inr (by simpa [Exc.isException] using h2)
  unfold modulesLoadWith
  cases modulesLoadBody rollback recheck registered registeredAfterLibs libs load body unload with
  | ok u => simp [tryWith]
  | error z => simp only [tryWith]; exact key z

/-- the current tree's tables are the ones of `load_normalised` exactly when the translator found the repaired shape -/
example : (modulesLoadHandlers = [] ∨ modulesLoadHandlers = [⟨.err .Error, .reraise⟩, ⟨.bi .Exception, .wrap .Fatal .other⟩]) := by decide

/-- non-vacuity: a KeyError from a preprocessor with a failing rollback (IndexError from unload) still ends as Errors.Fatal -/
example :
    (match modulesLoadWith [⟨.err .Error, .reraise⟩, ⟨.bi .Exception, .wrap .Fatal .other⟩] [.bi .Exception] true false false (.ok ()) (.ok ())
        (.error (Exc.ofBuiltin .KeyError .other)) (.error (Exc.ofBuiltin .IndexError .other)) with
      | .error y => y.cls.isA (.err .Fatal) | .ok _ => false) = true := by
  decide

/-- Without the clauses (the pinned tree) the raw exception escapes — what the fuzz keys `IndexError@…`, `ValueError@…` showed. -/
theorem load_unnormalised_counterexample :
    ¬ (∀ (body : Except Exc Unit), match modulesLoadWith [] [] false false false (.ok ()) (.ok ()) body (.ok ()) with
      | .ok _ => True
      | .error y => y.inHierarchy = true ∨ y.isException = false) := by
  intro h
  have := h (.error (Exc.ofBuiltin .IndexError .other))
  have hc : modulesLoadWith [] [] false false false (.ok ()) (.ok ()) (.error (Exc.ofBuiltin .IndexError .other)) (.ok ())
      = .error (Exc.ofBuiltin .IndexError .other) := rfl
  rw [hc] at this
  rcases this with h' | h' <;> exact absurd h' (by decide)

/-! ### Interactive.run -/

/-- One step keeps the loop alive for every outcome in {ok} ∪ Errors.Error — for every class of the hierarchy, user-defined
    subclasses included — provided printing the error does not raise. -/
theorem loop (result : Except Exc Unit)
    (h : match result with | .ok _ => True | .error x => x.inHierarchy = true) :
    step (.code result (.ok ())) = .running := by
  cases result with
  | ok u => rfl
  | error x =>
    have hx : x.cls.isA (.err .Error) = true := h
    simp [step, catchesAny, interactiveInnerCatch, hx]

example : step (.code (.error (Exc.ofErr .UnresolvedSymbol .node)) (.ok ())) = .running := rfl

/-- … and so does every history of such steps: all inputs are consumed and the loop is still running. -/
theorem loop_history (ins : List Input)
    (h : ∀ i ∈ ins, ∃ r, i = .code r (.ok ()) ∧ (match r with | .ok _ => True | .error x => x.inHierarchy = true)) :
    run ins = (.running, ins.length) := by
  induction ins with
  | nil => rfl
  | cons i is ih =>
    obtain ⟨r, hi, hr⟩ := h i List.mem_cons_self
    have hs : step i = .running := by rw [hi]; exact loop r hr
    have := ih (fun j hj => h j (List.mem_cons_of_mem _ hj))
    simp [run, hs, this]

/-- non-vacuity: ok, an error of the hierarchy, ok — three inputs consumed, still running -/
example : run [.code (.ok ()) (.ok ()), .code (.error (Exc.ofErr .Syntax .other)) (.ok ()), .code (.ok ()) (.ok ())] = (.running, 3) := rfl

/-- Any other `Exception` ends the loop (this is what the raw parser exception of `parse_mem_counterexample` does to the
    interactive mode on the pinned tree). -/
theorem loop_dies (x : Exc) (hx : x.inHierarchy = false) (hk : x.cls.isA (.bi .KeyboardInterrupt) = false) (render : Except Exc Unit) :
    step (.code (.error x) render) = .died x := by
  have hx' : x.cls.isA (.err .Error) = false := hx
  simp [step, catchesAny, interactiveInnerCatch, interactiveOuterCatch, outer, hx', hk]

/-- non-vacuity: a KeyError is neither in the hierarchy nor a KeyboardInterrupt; the second input is never read -/
example : (run [.code (.error (Exc.ofBuiltin .KeyError .other)) (.ok ()), .code (.ok ()) (.ok ())]).2 = 1 := rfl

/-- After the in-memory fix every parser failure keeps the loop alive. -/
theorem loop_parse_fixed (x : Exc) (hx : x.isException = true) :
    step (.code (loadEntry parserDiskHandlers false false (.error x)) (.ok ())) = .running := by
  obtain ⟨y, hy, hs⟩ := parse_mem_fixed x hx
  rw [hy]
  exact loop (.error y) (Cls.isA_lift _ _ atom_Syntax_isA_Error y.cls hs)

/-! ### ErrorRender -/

/-- `__build_message` is total exactly when `str(arg)` succeeds for every non-string argument — or raises an `Exception` and
    the builder falls back to `repr(arg)` (flag `fallback`; the current tree is `buildMessage = buildMessageWith Generated.messageStrFallback`). -/
theorem render_message_total (fallback : Bool) (args : List Arg) :
    (∃ s, buildMessageWith fallback args = .ok s) ↔
      (∀ a ∈ args, ∀ x r, a = .obj (.error x) r → (fallback = true ∧ x.isException = true)) := by
  have one : ∀ a : Arg, (∃ s, argTextWith fallback a = .ok s) ↔ (∀ x r, a = .obj (.error x) r → (fallback = true ∧ x.isException = true)) := by
    intro a
    cases a with
    | str s => simp [argTextWith]
    | obj t r =>
      cases t with
      | ok u => simp [argTextWith]
      | error x =>
        simp only [argTextWith]
        cases hc : (fallback && x.isException) with
        | true =>
          simp only [Bool.and_eq_true] at hc
          simp only [if_true]
          constructor
          · intro _ x' r' h; cases h; exact hc
          · intro _; exact ⟨_, rfl⟩
        | false =>
          simp only [Bool.false_eq_true, if_false]
          constructor
          · intro ⟨_, h⟩; cases h
          · intro h
            have := h x r rfl
            rw [this.1, this.2] at hc
            cases hc
  have all : ∀ as : List Arg, (∃ ss, mapArgsWith fallback as = .ok ss) ↔ (∀ a ∈ as, ∃ s, argTextWith fallback a = .ok s) := by
    intro as
    induction as with
    | nil => simp [mapArgsWith]
    | cons a as ih =>
      simp only [mapArgsWith, List.mem_cons, forall_eq_or_imp]
      cases ha : argTextWith fallback a with
      | error x => simp
      | ok s =>
        cases hm : mapArgsWith fallback as with
        | error x =>
          have : ¬ (∃ ss, mapArgsWith fallback as = .ok ss) := by simp [hm]
          rw [ih] at this
          simp [this]
        | ok ss =>
          have : ∃ ss, mapArgsWith fallback as = .ok ss := ⟨ss, hm⟩
          rw [ih] at this
          simp
          exact this
  have hb : (∃ s, buildMessageWith fallback args = .ok s) ↔ (∃ ss, mapArgsWith fallback args = .ok ss) := by
    unfold buildMessageWith
    cases mapArgsWith fallback args with
    | error x => simp
    | ok ss => simp
  rw [hb, all]
  constructor
  · intro h a ha; exact (one a).mp (h a ha)
  · intro h a ha; exact (one a).mpr (h a ha)

example : buildMessageWith false [.str ['a'], .obj (.ok ['<','N','>']) ['r']] = .ok ['(', '"', 'a', '"', ',', ' ', '<', 'N', '>', ')'] := rfl

/-- The exact guard of the quotation builder: `Quotation(filepath, source_map)` (and with it `build()` / the line mark) is defined
    iff `-#lines ≤ begin_line < #lines` (Python list indexing at error_render.py:110); otherwise it raises IndexError. -/
theorem render_quotation_total (filepath : Str) (lines : List Str) (sm : SourceMap) :
    (∃ q, Quotation.new filepath lines sm = .ok q) ↔ (-(lines.length : Int) ≤ sm.beginLine ∧ sm.beginLine < lines.length) := by
  rw [← pyIndex_ok_iff lines sm.beginLine]
  unfold Quotation.new
  cases pyIndex lines sm.beginLine with
  | error x => simp
  | ok l => simp

/-- In lark's 1-based terms (`__build_quotation` subtracts 1): a node on line `1 ≤ line ≤ #lines` of an existing file is always
    quotable; line 0 (a node without position) needs a non-empty file. Whatever the two guards are. -/
theorem render_total (arg0 : Arg0) (fileExists : Bool) (filepath : Str) (lines : List Str) (sm1 : SourceMap)
    (h : 0 ≤ sm1.beginLine ∧ sm1.beginLine ≤ lines.length ∧ 0 < lines.length) :
    ∃ out, buildQuotation arg0 fileExists filepath lines sm1 = .ok out := by
  unfold buildQuotation buildQuotationWith
  split
  · exact ⟨_, rfl⟩
  · split
    · exact ⟨_, rfl⟩
    · split
      · exact ⟨_, rfl⟩
      · split
        · exact ⟨_, rfl⟩
        · have hq := (render_quotation_total filepath lines
            ⟨sm1.beginLine - 1, sm1.beginColumn - 1, sm1.endLine - 1, sm1.endColumn - 1⟩).mpr (by simp only; omega)
          obtain ⟨q, hq⟩ := hq
          rw [hq]
          exact ⟨_, rfl⟩

/-- The hypothesis of `render_total` is NOT guaranteed by the code: the node may stem from an earlier parse of a file that is shorter
    now (an imported module edited between two prompts of an interactive session). NEGATIVE, the pinned shape (position guard only):
    a node on line 5 of a file that holds one line makes `__build_quotation` raise IndexError — out of `str(ErrorRender(e))`.
    Finding `loop:IndexError@view/error_render.py:ErrorRender.Quotation.__load_line`. -/
theorem render_quotation_stale_counterexample :
    buildQuotationWith true false .node true ['m'] [['x', '\n']] ⟨5, 7, 5, 19⟩ = .error indexError := by
  rfl

/-- With the line guard (proposed/C07-quotation-stale-line.diff; generated flag `quotationLineGuard`) next to the position guard the
    quotation is TOTAL: for every argument kind, every file content — empty, shorter than at parse time — and every source map,
    `__build_quotation` returns (a quotation or nothing), it never raises. -/
theorem render_quotation_guarded_total (arg0 : Arg0) (fileExists : Bool) (filepath : Str) (lines : List Str) (sm1 : SourceMap) :
    ∃ out, buildQuotationWith true true arg0 fileExists filepath lines sm1 = .ok out := by
  unfold buildQuotationWith
  split
  · exact ⟨_, rfl⟩
  · split
    · exact ⟨_, rfl⟩
    · split
      · exact ⟨_, rfl⟩
      · rename_i hspan
        split
        · exact ⟨_, rfl⟩
        · rename_i hline
          simp only [Bool.true_and, Bool.or_eq_true, decide_eq_true_eq, not_or, Int.not_lt, decide_eq_false_iff_not,
            Bool.not_eq_eq_eq_not, Bool.not_true, Classical.not_not] at hspan hline
          have hq := (render_quotation_total filepath lines
            ⟨sm1.beginLine - 1, sm1.beginColumn - 1, sm1.endLine - 1, sm1.endColumn - 1⟩).mpr (by simp only; omega)
          obtain ⟨q, hq⟩ := hq
          rw [hq]
          exact ⟨_, rfl⟩

/-- non-vacuity: the witness of the counterexample returns no quotation under the line guard; an in-range node is still quoted -/
example : buildQuotationWith true true .node true ['m'] [['x', '\n']] ⟨5, 7, 5, 19⟩ = .ok [] ∧
    (match buildQuotationWith true true .node true ['m'] [['x', '\n']] ⟨1, 1, 1, 2⟩ with | .ok out => out.length == 4 | .error _ => false) = true :=
  ⟨rfl, rfl⟩

example :
    (match buildQuotation .node true ['a','.','p','y'] [['x',' ','=',' ','y','\n'], ['\t','z','\n']] ⟨2, 2, 2, 3⟩ with
      | .ok out => out == [['v', 'i', 'a', ' ', 'N', 'o', 'd', 'e', ':'], [' ', ' ', 'a', '.', 'p', 'y', ':', '2'], [' ', ' ', ' ', ' ', '>', '>', '>', ' ', ' ', 'z'], [' ', ' ', ' ', ' ', ' ', ' ', ' ', ' ', ' ', '^']]
      | .error _ => false) = true := by
  decide +kernel

/-- without the line guard the builder raises beyond the last line (the only way `__build_quotation` can fail on a decodable file) -/
example : (match buildQuotationWith quotationSpanGuard false .node true ['a'] [['x','\n']] ⟨3, 1, 3, 2⟩ with | .error _ => true | .ok _ => false) = true := by
  decide


/-! ### Termination of the modelled drivers ("processing terminates")

  Parser side: the self-hosted parser terminates by `Tranp.C11.T1_termination` (fuel linear in the number of tokens for every
  well-formed rule set, lean/Tranp/Props/C11.lean); for lark (LALR(1) table driver + PythonIndenter) termination is ASSUMED
  (third-party code, trusted base) and watched by the 10 s CPU cap of the search. -/

/-- `Procedure.__exec_impl` hands each node of the finite list `flatted` to `__process` at most once. -/
theorem exec_steps_bounded (h : Nat) (evs : List NodeEv) : runNodesSteps h evs ≤ evs.length := by
  induction evs generalizing h with
  | nil => simp [runNodesSteps]
  | cons ev evs ih =>
    unfold runNodesSteps
    cases runNode h ev with
    | error x => simp
    | ok h' => have := ih h'; simp only [List.length_cons]; omega

example : runNodesSteps 0 [⟨.own, [], .ok ()⟩, ⟨.missing, [], .ok ()⟩, ⟨.own, [], .ok ()⟩] = 2 := by decide

/-- `Modules.unload` terminates for EVERY import graph — cycles and self-imports included — with fuel "registered modules + 1":
    the module is removed from the registry before the cascade over its dependents starts, so every recursive call that does
    anything shrinks the registry. -/
theorem unload_terminates (g : Graph) (libs registered : List Str) (p : Str) :
    ∃ r, unloadFuel g libs (registered.length + 1) registered p = some r ∧ r.1.length ≤ registered.length :=
  visit_terminates (dependents g libs) (registered.length + 1) registered [] p (Nat.lt_succ_self _)

/-- What `Modules.unload(p)` leaves behind (the law the search checks on the real code, `graph-unload:stale-importer`): for a registry
    without duplicates (a dict's keys) the call ends, `p` is gone, and no module that is still registered imports `p` — nor, when `p`
    is a library module, is any non-library module left. Cycles included. -/
theorem unload_clears_importers (g : Graph) (libs registered : List Str) (p : Str) (hnd : registered.Nodup) (hp : p ∈ registered) :
    ∃ r, unloadFuel g libs (registered.length + 1) registered p = some r ∧ p ∉ r.1 ∧
      ∀ q ∈ r.1, (g.imports q).contains p = false ∧ (libs.contains p = true → libs.contains q = true) := by
  obtain ⟨r, hr, _⟩ := unload_terminates g libs registered p
  refine ⟨r, hr, ?_, ?_⟩
  · exact (visit_post (dependents g libs) (registered.length + 1) registered [] p r hnd hr).2.2
  · intro q hq
    obtain ⟨hsub, hclr⟩ := visit_clears_next (dependents g libs) registered.length registered [] p r hnd hp hr
    have hq' := hsub q hq
    have hnot := fun hmem => hclr q hmem hq
    simp only [dependents, List.mem_filter, Bool.or_eq_true, Bool.and_eq_true, Bool.not_eq_true'] at hnot
    constructor
    · cases hc : (g.imports q).contains p with
      | false => rfl
      | true => exact absurd ⟨hq', Or.inl hc⟩ hnot
    · intro hl
      cases hlq : libs.contains q with
      | true => rfl
      | false => exact absurd ⟨hq', Or.inr ⟨hl, hlq⟩⟩ hnot

/-- non-vacuity: a ↔ b import each other and a imports itself; unloading a removes both, a first -/
example :
    unloadFuel [(['a'], [['b'], ['a']]), (['b'], [['a']])] [] 3 [['a'], ['b']] ['a'] = some ([], [['a'], ['b']]) := by
  decide

/-- With the order of seeded/C07-4 (cascade first, removal afterwards) the unload of a module that imports from itself exhausts
    every fuel: on such a tree the real code recurses until RecursionError. (HEAD has the terminating order: `unload_terminates`.) -/
theorem unload_cascade_first_counterexample (m : Str) :
    ∀ fuel, visitCascadeFirst (dependents [(m, [m])] []) fuel ([m], []) m = none := by
  intro fuel
  have hself : dependents [(m, [m])] [] [m] m = [m] := by
    simp [dependents, Graph.imports, List.find?]
  exact cascadeFirst_diverges (dependents [(m, [m])] []) m hself fuel []

/-- `Modules.load` (library modules already registered or none configured) terminates for every import graph with fuel
    "modules not yet registered + 1": a module is registered before its imports are loaded, so an import cycle meets a registered
    module. -/
theorem load_walk_terminates (g : Graph) (unregistered : List Str) (p : Str) :
    ∃ r, loadWalkFuel g (unregistered.length + 1) unregistered p = some r ∧ r.1.length ≤ unregistered.length :=
  visit_terminates (fun _ q => g.imports q) (unregistered.length + 1) unregistered [] p (Nat.lt_succ_self _)

example :
    loadWalkFuel [(['a'], [['b']]), (['b'], [['a'], ['c']])] 4 [['a'], ['b'], ['c']] ['a'] = some ([], [['a'], ['b'], ['c']]) := by
  decide

/-- The full loader — a non-library module loads the library modules BEFORE it registers itself, looks itself up again, registers,
    then loads its imports — terminates for every import graph (cycles included) over a closed finite set of modules, with fuel
    twice the number of modules that are not registered yet. -/
theorem load_terminates (g : Graph) (libs univ reg : List Str) (p : Str)
    (hp : p ∈ univ) (hlibs : ∀ l ∈ libs, l ∈ univ) (hclosed : ∀ q ∈ univ, ∀ r ∈ g.imports q, r ∈ univ) :
    ∃ r, loadFuel g libs true (2 * unreg univ reg) (reg, []) p = some r := by
  obtain ⟨r, hr, _⟩ := load_ok g libs univ hlibs hclosed (2 * unreg univ reg) reg [] p hp (by split <;> omega)
  exact ⟨r, hr⟩

/-- non-vacuity: a library that imports the module being loaded (the case the re-check f3f812f exists for); 3 unregistered modules, fuel 6 -/
example :
    loadFuel [(['l'], [['m']]), (['m'], [['d']])] [['l']] true 6 ([], []) ['m'] = some ([['l'], ['m'], ['d']], [['l'], ['m'], ['d']]) := by
  decide

/-- One step of `Interactive.run` is a composition of terminating parts: `step` is a total function of the input's outcome, the
    outcome itself comes from `unload` (`unload_terminates`), `load` (`load_walk_terminates`), the parser (C11.T1 / lark assumed) and
    `transpile` = one `exec` (`exec_steps_bounded`); `run` consumes a finite history in `ins.length` steps. -/
theorem loop_steps_bounded (ins : List Input) : (run ins).2 ≤ ins.length := by
  induction ins with
  | nil => simp [run]
  | cons i is ih =>
    unfold run
    cases step i <;> simp <;> omega

/-! ### The transpile stage outside Procedure -/

/-- `Py2Cpp.transpile` is one `Procedure.exec` between a push and a pop with no except clause of its own (shape checked by the
    translator), so it inherits `proc`: ok / Errors.Error / the handler's own non-Exception — when node properties do not raise. -/
theorem transpile_normalised (evs : List NodeEv)
    (hprops : ∀ ev ∈ evs, ∀ x, PropSpec.raises x ∉ ev.props)
    (hctor : ∀ ev ∈ evs, ∀ x, ev.result = .error x → CtorOk x) :
    match pyTranspile (.ok ()) evs with
    | .ok _ => True
    | .error y => y.inHierarchy = true ∨ (∃ ev ∈ evs, ev.result = .error y ∧ y.isException = false) :=
  proc evs hprops hctor

/-- non-vacuity: a handler raising a lark-like third-party class after a child; the outcome is Errors.Fatal -/
example :
    (match pyTranspile (.ok ()) [⟨.own, [], .ok ()⟩, ⟨.own, [.single], .error ⟨.user ['U'] [.atom (.bi .Exception)] true, .other⟩⟩] with
      | .error y => y.cls.isA (.err .Fatal) | .ok _ => false) = true := by
  decide

/-- Without that hypothesis the transpile stage is NOT normalised: an exception of `root.procedural()` or of a node property
    evaluated by `__make_event` leaves `Py2Cpp.transpile` raw (escaping site: procedure.py:84 / :191; nothing in
    Py2Cpp.transpile, Runner._run_impl or Interactive.run converts it — only `__main__` prints it). -/
theorem transpile_full_counterexample :
    ¬ (∀ (procedural : Except Exc Unit) (evs : List NodeEv), (∀ ev ∈ evs, ∀ x, ev.result = .error x → CtorOk x) →
      match pyTranspile procedural evs with
      | .ok _ => True
      | .error y => y.inHierarchy = true ∨ y.isException = false) :=
  proc_full_counterexample

/-- Batch mode (`Runner` under `__main__`): the first failing target ends the run; every `Exception` — member of the hierarchy or
    not — is printed through ErrorRender and the process ends normally when the render succeeds; only non-Exceptions and render
    failures leave the process. -/
theorem main_reports (targets : List Target) (render : Exc → Except Exc Unit) :
    match runnerRun targets with
    | .ok n => mainRun targets render = .done n
    | .error x =>
      (x.isException = true → (∃ u, render x = .ok u) → mainRun targets render = .reported x) ∧
      (x.isException = false → mainRun targets render = .crashed x) := by
  unfold mainRun
  cases hr : runnerRun targets with
  | ok n => rfl
  | error x =>
    simp only
    constructor
    · intro hx ⟨u, hu⟩
      have hx' : x.cls.isA (.bi .Exception) = true := hx
      simp [catchesAny, mainCatch, hx', hu]
    · intro hx
      have hx' : x.cls.isA (.bi .Exception) = false := hx
      simp [catchesAny, mainCatch, hx']

example :
    (match mainRun [⟨.ok (), .ok (), .ok ()⟩, ⟨.ok (), .error (Exc.ofBuiltin .KeyError .other), .ok ()⟩, ⟨.ok (), .ok (), .ok ()⟩] (fun _ => .ok ()) with
      | .reported x => x.cls.isA (.bi .KeyError) | _ => false) = true := by
  decide

/-! ### ErrorRender.render as a whole -/

/-- `__build_stacktrace` is total when `traceback.format_exception` returned at least two entries and every entry contains a line
    feed (CPython ends every entry with one: the header, each frame entry — with or without a readable source line —, the
    "[Previous line repeated …]" entries, the chaining sentences and the exception lines). Frames outside tranp, missing source
    files and undecodable source lines only change the TEXT of an entry. -/
theorem render_stacktrace_total (rootDir : Str) (entries : List TraceEntry)
    (h2 : 2 ≤ entries.length) (hnl : ∀ e ∈ entries, '\n' ∈ e.text) :
    ∃ ls, buildStacktrace rootDir entries = .ok ls := by
  unfold buildStacktrace
  simp only
  have hnl' : ∀ t ∈ entries.map (·.text), '\n' ∈ t := by
    intro t ht
    obtain ⟨e, he, rfl⟩ := List.mem_map.mp ht
    exact hnl e he
  have hlen : (entries.map (·.text)).length = entries.length := List.length_map _
  obtain ⟨ls, hls⟩ := stackLoop_ok rootDir (entries.map (·.text)) hnl' (by omega) entries 0 (by omega)
  obtain ⟨l, hl⟩ := secondLine_ok (entries.map (·.text)) hnl' (-2) (by omega)
  rw [hls, hl]
  exact ⟨_, rfl⟩

/-- non-vacuity: header, one frame entry without a source line, the exception line — three entries, each with a line feed -/
example :
    (match buildStacktrace ['/', 'r', '/'] [⟨['T', 'r', 'a', 'c', 'e', 'b', 'a', 'c', 'k', ':', '\n'], none⟩,
        ⟨[' ', ' ', 'F', '\n'], some (['/', 'r', '/', 'a', '.', 'p', 'y'], ['3'], ['f'])⟩, ⟨['E', ':', ' ', 'x', '\n'], none⟩] with
      | .ok ls => ls == [['S', 't', 'a', 'c', 'k', 't', 'r', 'a', 'c', 'e', ':'], [' ', ' ', 'a', '.', 'p', 'y', ':', '3', ' ', 'f'], [' ', ' ', ' ', ' ', '>', '>', '>', ' ']]
      | .error _ => false) = true := by
  decide

/-- the guard is needed: an exception object that was never raised has a one-entry trace and `traces[-2]` raises IndexError -/
example : (match buildStacktrace [] [⟨['E', ':', ' ', 'x', '\n'], none⟩] with | .error x => x.cls.isA (.bi .IndexError) | .ok _ => false) = true := by
  decide

/-- `render()` is defined exactly when its three fallible parts are: stack trace, quotation, message (the name never fails). -/
theorem render_total_all (fallback : Bool) (rootDir : Str) (entries : List TraceEntry) (quotation : Except Exc (List Str)) (name : Str) (args : List Arg) :
    (∃ s, renderWith fallback rootDir entries quotation name args = .ok s) ↔
      ((∃ t, buildStacktrace rootDir entries = .ok t) ∧ (∃ q, quotation = .ok q) ∧ (∃ m, buildMessageWith fallback args = .ok m)) := by
  unfold renderWith
  cases buildStacktrace rootDir entries with
  | error x => simp
  | ok t =>
    cases quotation with
    | error x => simp
    | ok q =>
      cases buildMessageWith fallback args with
      | error x => simp
      | ok m => simp

/-! ### Every except clause (generated audit table) -/

/-- The except tables the model interprets are exactly the clauses the audit found at those sites — one generated source of truth:
    a clause added to, removed from or reordered in any of these functions changes the audit and breaks this theorem. -/
theorem tables_are_audit_projections :
    emitHandlers.map Handler.shape = auditShapes .semantics_procedure_Procedure_emit 0 ∧
    makeEventHandlers.map Handler.shape = auditShapes .semantics_procedure_Procedure_make_event 0 ∧
    execImplHandlers.map Handler.shape = auditShapes .semantics_procedure_Procedure_exec_impl 0 ∧
    parserMemHandlers.map Handler.shape = auditShapes .implements_syntax_lark_parser_SyntaxParserOfLark_load_entry 0 ∧
    parserDiskHandlers.map Handler.shape = auditShapes .implements_syntax_lark_parser_SyntaxParserOfLark_load_entry_instantiate 0 ∧
    modulesLoadHandlers.map Handler.shape = auditShapes .module_modules_Modules_load 0 ∧
    modulesLoadRollbackCatch.map (fun a => (a, Disposition.cleanupReraise)) = auditShapes .module_modules_Modules_load 1 ∧
    interactiveOuterCatch.map (fun a => (a, Disposition.pass)) = auditShapes .bin_transpile_Interactive_run 0 ∧
    interactiveInnerCatch.map (fun a => (a, Disposition.print)) = auditShapes .bin_transpile_Interactive_run 1 ∧
    mainCatch.map (fun a => (a, Disposition.print)) = auditShapes .bin_transpile_module 0 := by
  decide

/-- the places where an exception is allowed to end without being re-raised although it is not a member of the hierarchy:
    the prompt's KeyboardInterrupt, the top-level report of `__main__`, the renderer's repr() fallback, the writer's one retry -/
def swallowSinks : List (Site × Nat × List Atom) :=
  [(.bin_transpile_Interactive_run, 0, [.bi .KeyboardInterrupt]), (.bin_transpile_module, 0, [.bi .Exception]),
   (.view_error_render_ErrorRender_arg_to_str, 0, [.bi .Exception]), (.file_writer_Writer_flush, 0, [.bi .PermissionError])]

/-- No except clause anywhere on the audited paths (all of rogw/tranp except compatible/, test/ and the stand-alone tools) hides a
    non-tranp exception: a clause that does not re-raise either catches members of the Errors.Error hierarchy only (look-ups that
    may fail: UnresolvedSymbol, NodeNotFound; the interactive report) or is one of the four named sinks. So a KeyError / IndexError /
    AssertionError / parser exception raised anywhere travels until a normalising site or the top level — what the fuzz observes
    is what happened. -/
theorem audit_no_hidden_swallow :
    ∀ c ∈ exceptAudit, swallows c.disp = true →
      (c.catches ≠ [] ∧ ∀ a ∈ c.catches, a.isA (.err .Error) = true) ∨ (c.site, c.tryNo, c.catches) ∈ swallowSinks := by
  decide

/-- Every clause of the audit that wraps, wraps into a member of the hierarchy; the only clause with a dynamic class list is the
    `raises` decorator of lang/error.py (unused on the audited paths: checked by the translator). -/
theorem audit_dynamic_clause_unique :
    (exceptAudit.filter (fun c => c.catches.isEmpty)).map (·.site) = [.lang_error_raises_decorator_wrapper] := by
  decide

/-- The normalising sites convert EVERY exception class that is an `Exception` — named, third-party or user-defined, in or out of
    the hierarchy — into a member of the hierarchy; the two parser branches into `Errors.Syntax`. Proved from the generated tables by
    the decidable criterion `coversException` (soundness: `coversException_sound`), not from their particular shape. -/
theorem normalising_sites_convert_all (x : Exc) (hx : x.isException = true) (hctor : CtorOk x) :
    (propagate emitHandlers x).inHierarchy = true ∧
    (propagate modulesLoadHandlers x).inHierarchy = true ∧
    (propagate parserDiskHandlers x).cls.isA (.err .Syntax) = true ∧
    (propagate parserMemHandlers x).cls.isA (.err .Syntax) = true :=
  ⟨coversException_sound emitHandlers (by decide) x hx hctor,
   coversException_sound modulesLoadHandlers (by decide) x hx hctor,
   coversWraps_sound .Syntax parserDiskHandlers (by decide) (by decide) x hx,
   coversWraps_sound .Syntax parserMemHandlers (by decide) (by decide) x hx⟩

/-- non-vacuity: lark's UnexpectedToken (third party, not in the hierarchy) satisfies the hypotheses -/
example : (⟨.user ['U'] [.atom (.bi .Exception)] true, .other⟩ : Exc).isException = true ∧ CtorOk ⟨.user ['U'] [.atom (.bi .Exception)] true, .other⟩ := by
  constructor
  · decide
  · intro h; exact absurd h (by decide)

/-- `CtorOk` holds for every named class (no member of `Errors` customises its constructor): for handlers that raise named classes
    only, `proc` needs no constructor hypothesis. -/
theorem ctorOk_named (a : Atom) (arg0 : Arg0) : CtorOk ⟨.atom a, arg0⟩ := by
  intro _ _
  cases a with
  | err n => exact err_ctor1 n
  | bi b => rfl

theorem proc_named (evs : List NodeEv)
    (hprops : ∀ ev ∈ evs, ∀ x, PropSpec.raises x ∉ ev.props)
    (hnamed : ∀ ev ∈ evs, ∀ x, ev.result = .error x → ∃ a, x.cls = .atom a) :
    match execImpl (.ok ()) evs with
    | .ok _ => True
    | .error y => y.inHierarchy = true ∨ (∃ ev ∈ evs, ev.result = .error y ∧ y.isException = false) :=
  proc evs hprops (fun ev hev x hx => by
    obtain ⟨a, ha⟩ := hnamed ev hev x hx
    have := ctorOk_named a x.arg0
    cases x with
    | mk c a0 => simp only at ha; subst ha; exact this)

/-- Every member of the generated `Errors` hierarchy, with every argument shape, that reaches the interactive loop is printed and
    the loop continues. -/
theorem loop_handles_all_errors (n : ErrName) (a : Arg0) :
    (match step (.code (.error (Exc.ofErr n a)) (.ok ())) with | .running => true | _ => false) = true := by
  cases n <;> cases a <;> rfl


/-! ### One turn of the interactive loop -/

/-- A turn whose unload succeeds, whose load stage ends like `Modules.load` does (`load_normalised`) and whose transpile stage ends
    like `transpile_normalised` says — ok or in the hierarchy — returns to the prompt. -/
theorem turn_survives (load transpile : Except Exc Unit)
    (hl : match load with | .ok _ => True | .error x => x.inHierarchy = true)
    (ht : match transpile with | .ok _ => True | .error x => x.inHierarchy = true) :
    step (.code (interactiveTurn (.ok ()) load transpile) (.ok ())) = .running := by
  apply loop
  unfold interactiveTurn
  cases load with
  | error x => exact hl
  | ok u => exact ht

example : step (.code (interactiveTurn (.ok ()) (.error (Exc.ofErr .Fatal .other)) (.ok ())) (.ok ())) = .running := rfl

/-- The unload of the previous input runs OUTSIDE `Modules.load`'s clauses (rebuild_module calls `modules.unload` itself): whatever
    Exception it raises that is not in the hierarchy ends the loop. On HEAD the stage cannot raise for input reasons
    (`unload_terminates`, loaders only delete entries); with the order of seeded/C07-4 it raised RecursionError. -/
theorem turn_unload_unprotected (x : Exc) (hx : x.inHierarchy = false) (hk : x.cls.isA (.bi .KeyboardInterrupt) = false)
    (load transpile render : Except Exc Unit) :
    step (.code (interactiveTurn (.error x) load transpile) render) = .died x :=
  loop_dies x hx hk render

example : (Exc.ofBuiltin .RecursionError .none).inHierarchy = false ∧ (Exc.ofBuiltin .RecursionError .none).cls.isA (.bi .KeyboardInterrupt) = false := by decide


/-! ### Writer.flush -/

/-- `Writer.flush` retries exactly once and only on PermissionError (the audit's `retry` clause): it ends ok, or with the exception of
    the directory creation, of a first attempt that is not retried, or of the second attempt — nothing is swallowed beyond the one retry. -/
theorem writer_flush_outcome (mkdir first second : Except Exc Unit) :
    match writerFlush mkdir first second with
    | .ok _ => True
    | .error y => mkdir = .error y ∨ (first = .error y ∧ catchesAny writerRetryCatch y = false) ∨
        (second = .error y ∧ ∃ x, first = .error x ∧ catchesAny writerRetryCatch x = true) := by
  unfold writerFlush
  cases mkdir with
  | error x => exact Or.inl rfl
  | ok u =>
    cases first with
    | ok v => trivial
    | error x =>
      simp only
      cases hc : catchesAny writerRetryCatch x with
      | false => simp [hc]
      | true =>
        cases second with
        | ok w => simp
        | error y => simp [hc]

theorem writer_retry_table : writerRetryCatch = [.bi .PermissionError] := by decide

/-- non-vacuity: a PermissionError on the first attempt is retried; a second one leaves; any other OSError is not retried -/
example :
    (match writerFlush (.ok ()) (.error (Exc.ofBuiltin .PermissionError .other)) (.ok ()) with | .ok _ => true | _ => false) = true ∧
    (match writerFlush (.ok ()) (.error (Exc.ofBuiltin .PermissionError .other)) (.error (Exc.ofBuiltin .PermissionError .other)) with | .error y => y.cls.isA (.bi .PermissionError) | _ => false) = true ∧
    (match writerFlush (.ok ()) (.error (Exc.ofBuiltin .FileNotFoundError .other)) (.ok ()) with | .error y => y.cls.isA (.bi .FileNotFoundError) | _ => false) = true := by
  decide

/-! ### The request boundary of the interactive mode -/

/-- The quit test of `Interactive.run` (generated from the source) never raises, for EVERY request `tty` could hand over — the empty
    request included — and it is true for the quit command `tty` returns and for nothing else. -/
theorem quit_test_total (lines : List Str) :
    evalTest lines interactiveQuitTest = .ok (decide (lines = ttyQuitResult)) := by
  match lines with
  | [] => rfl
  | [l] =>
    simp only [interactiveQuitTest, evalTest, pyIndex, pyNorm, ttyQuitResult]
    by_cases h : l = ['e', 'x', 'i', 't'] <;> simp [h]
  | a :: b :: t =>
    simp [interactiveQuitTest, evalTest, ttyQuitResult]


/-- non-vacuity: the empty request is an ordinary request; `exit` alone quits; `exit` followed by more text does not -/
example : evalTest [] interactiveQuitTest = .ok false ∧ evalTest [['e', 'x', 'i', 't']] interactiveQuitTest = .ok true ∧
    evalTest [['e', 'x', 'i', 't'], ['a']] interactiveQuitTest = .ok false := ⟨rfl, rfl, rfl⟩

/-- One pass of the loop for a request: the quit command leaves through `break`, every other request — the empty one too — is served
    exactly as the abstract `step` says (so `loop`, `loop_history`, `turn_survives` speak about every request). -/
theorem request_step (lines : List Str) (result render : Except Exc Unit) :
    stepRequest interactiveQuitTest lines result render = if lines = ttyQuitResult then .quit else step (.code result render) := by
  unfold stepRequest
  rw [quit_test_total]
  by_cases h : lines = ttyQuitResult <;> simp [h]

/-- Every request other than the quit command whose outcome is ok or a member of the Errors.Error hierarchy (and whose error can be
    printed) returns to the prompt. -/
theorem request_survives (lines : List Str) (hq : lines ≠ ttyQuitResult) (result : Except Exc Unit)
    (h : match result with | .ok _ => True | .error x => x.inHierarchy = true) :
    stepRequest interactiveQuitTest lines result (.ok ()) = .running := by
  rw [request_step, if_neg hq]
  exact loop result h

example : stepRequest interactiveQuitTest [] (.error (Exc.ofErr .Syntax .other)) (.ok ()) = .running := rfl

/-- NEGATIVE companion (the shape of seeded/C07 round 6 #2): without the length guard the test `lines[0] == 'exit'` raises IndexError
    on the empty request, outside the inner `try`, and the session dies whatever the outcome of the request would have been. -/
theorem quit_test_unguarded_counterexample (result render : Except Exc Unit) :
    stepRequest (.itemEq 0 ttyQuitLine) [] result render = .died indexError := by
  rfl

/-- NEGATIVE (the hazard behind the finding `cli:UnicodeDecodeError@bin/io.py:readline`): `lines = tty(prompt)` stands outside the inner
    `try`, so EVERY exception of `tty` / `readline` other than a KeyboardInterrupt — a member of Errors.Error included — ends the session. -/
theorem tty_raise_unprotected (test : ReqTest) (x : Exc) (hk : x.cls.isA (.bi .KeyboardInterrupt) = false) :
    stepReq test (.raises x) = .died x := by
  simp [stepReq, outer, catchesAny, interactiveOuterCatch, hk]

example : stepReq interactiveQuitTest (.raises (Exc.ofBuiltin .UnicodeDecodeError .other)) = .died (Exc.ofBuiltin .UnicodeDecodeError .other) ∧
    stepReq interactiveQuitTest (.raises (Exc.ofErr .Syntax .other)) = .died (Exc.ofErr .Syntax .other) := ⟨rfl, rfl⟩

/-- What `tty` hands over, for every keyboard transcript: no line of a request is empty, the quit line occurs in a request only as the
    whole quit command, and the call consumed at least one key (so a session of n keys makes at most n calls). -/
theorem tty_request_shape (keys req rest : List Str) (h : tty keys = some (req, rest)) :
    (∀ l ∈ req, l ≠ []) ∧ (req = ttyQuitResult ∨ ttyQuitLine ∉ req) ∧ rest.length < keys.length := by
  have gen : ∀ (keys acc req rest : List Str), ttyLoop ttyQuitLine ttyQuitResult keys acc = some (req, rest) →
      (∀ l ∈ acc, l ≠ []) → ttyQuitLine ∉ acc →
      (∀ l ∈ req, l ≠ []) ∧ (req = ttyQuitResult ∨ ttyQuitLine ∉ req) ∧ rest.length < keys.length := by
    intro keys
    induction keys with
    | nil => intro acc req rest h; simp [ttyLoop] at h
    | cons l ks ih =>
      intro acc req rest h hacc hq
      unfold ttyLoop at h
      split at h
      · cases h; exact ⟨hacc, Or.inr hq, by simp⟩
      · split at h
        · cases h
          refine ⟨?_, Or.inl rfl, by simp⟩
          decide
        · rename_i hne hnq
          have := ih (acc ++ [l]) req rest h
            (by intro x hx; rcases List.mem_append.mp hx with hx | hx
                · exact hacc x hx
                · simp at hx; subst hx; intro h0; subst h0; simp at hne)
            (by intro hx; rcases List.mem_append.mp hx with hx | hx
                · exact hq hx
                · simp at hx; exact hnq hx.symm)
          exact ⟨this.1, this.2.1, by have := this.2.2; simp; omega⟩
  exact gen keys [] req rest h (by simp) (by simp)

example : tty [['a'], [], ['b']] = some ([['a']], [['b']]) ∧ tty [['a'], ['e', 'x', 'i', 't'], ['b']] = some ([['e', 'x', 'i', 't']], [['b']]) ∧
    tty [[], ['b']] = some ([], [['b']]) ∧ tty [['a']] = none := by decide


/-- the keys `tty` leaves are keys of the transcript, and it hands over the quit command only when the quit line was typed -/
theorem tty_quit_typed (keys req rest : List Str) (h : tty keys = some (req, rest)) :
    (∀ x ∈ rest, x ∈ keys) ∧ (req = ttyQuitResult → ttyQuitLine ∈ keys) := by
  have gen : ∀ (keys acc req rest : List Str), ttyLoop ttyQuitLine ttyQuitResult keys acc = some (req, rest) → ttyQuitLine ∉ acc →
      (∀ x ∈ rest, x ∈ keys) ∧ (ttyQuitLine ∈ req → ttyQuitLine ∈ keys) := by
    intro keys
    induction keys with
    | nil => intro acc req rest h; simp [ttyLoop] at h
    | cons l ks ih =>
      intro acc req rest h hq
      unfold ttyLoop at h
      split at h
      · cases h; exact ⟨fun x hx => List.mem_cons_of_mem _ hx, fun hx => absurd hx hq⟩
      · split at h
        · rename_i hl
          cases h
          exact ⟨fun x hx => List.mem_cons_of_mem _ hx, fun _ => by rw [hl]; exact List.mem_cons_self⟩
        · rename_i hne hnq
          have := ih (acc ++ [l]) req rest h
            (by intro hx; rcases List.mem_append.mp hx with hx | hx
                · exact hq hx
                · simp at hx; exact hnq hx.symm)
          exact ⟨fun x hx => List.mem_cons_of_mem _ (this.1 x hx), fun hx => List.mem_cons_of_mem _ (this.2 hx)⟩
  have g := gen keys [] req rest h (by simp)
  exact ⟨g.1, fun hr => g.2 (by rw [hr]; decide)⟩

/-- THE SESSION: for every keyboard transcript — blank lines, repeated Enter, the quit line anywhere — and every way of serving
    requests (depending on the request AND on everything served before) whose outcome is ok or a member of the Errors.Error hierarchy
    with a printable error, `Interactive.run` is still at the prompt when the keys are used up, or it has left through the quit command,
    which happens only when the quit line was typed. Nothing else ends a session. -/
theorem session_survives (oc : List (List Str) → List Str → Except Exc Unit × Except Exc Unit)
    (hoc : ∀ served req, (match (oc served req).1 with | .ok _ => True | .error x => x.inHierarchy = true) ∧ (oc served req).2 = .ok ())
    (keys : List Str) :
    (runKeys interactiveQuitTest oc keys).1 = .running ∨ ((runKeys interactiveQuitTest oc keys).1 = .quit ∧ ttyQuitLine ∈ keys) := by
  have gen : ∀ (f : Nat) (served : List (List Str)) (keys : List Str),
      (runKeysFuel interactiveQuitTest oc f served keys).1 = .running ∨
        ((runKeysFuel interactiveQuitTest oc f served keys).1 = .quit ∧ ttyQuitLine ∈ keys) := by
    intro f
    induction f with
    | zero => intro served keys; exact Or.inl rfl
    | succ f ih =>
      intro served keys
      unfold runKeysFuel
      cases ht : tty keys with
      | none => exact Or.inl rfl
      | some p =>
        obtain ⟨req, rest⟩ := p
        have hs := tty_quit_typed keys req rest ht
        simp only
        rw [request_step]
        by_cases hq : req = ttyQuitResult
        · rw [if_pos hq]; exact Or.inr ⟨rfl, hs.2 hq⟩
        · rw [if_neg hq]
          have hr := hoc served req
          have hl : step (.code (oc served req).1 (oc served req).2) = .running := by rw [hr.2]; exact loop _ hr.1
          rw [hl]
          rcases ih (req :: served) rest with h | h
          · exact Or.inl h
          · exact Or.inr ⟨h.1, hs.1 _ h.2⟩
  exact gen _ [] keys

/-- the fuel of `runKeys` is never the reason a session stops: any two fuels above the number of keys give the same run -/
theorem session_fuel_irrelevant (test : ReqTest) (oc : List (List Str) → List Str → Except Exc Unit × Except Exc Unit) (f g : Nat)
    (served : List (List Str)) (keys : List Str)
    (hf : keys.length < f) (hg : keys.length < g) : runKeysFuel test oc f served keys = runKeysFuel test oc g served keys := by
  induction f generalizing g served keys with
  | zero => omega
  | succ f ih =>
    cases g with
    | zero => omega
    | succ g =>
      unfold runKeysFuel
      cases ht : tty keys with
      | none => rfl
      | some p =>
        obtain ⟨req, rest⟩ := p
        have hlt := (tty_request_shape keys req rest ht).2.2
        simp only
        rw [ih g (req :: served) rest (by omega) (by omega)]

/-- non-vacuity: Enter, a failing request, Enter, Enter, a request that fails only because `x` was served before, the quit line in the
    middle of the next request → 4 requests are served (two of them empty), the 5th call of `tty` returns the quit command -/
example : runKeys interactiveQuitTest
    (fun served r => (if r = [['x']] ∨ (r = [['b']] ∧ [['x']] ∈ served) then .error (Exc.ofErr .Syntax .other) else .ok (), .ok ()))
    [[], ['x'], [], [], ['b'], [], ['c'], ['e', 'x', 'i', 't'], ['d']] = (.quit, 5) := by
  rfl

end Tranp.C07
